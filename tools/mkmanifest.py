#!/venv/bin/python
"""Regenerates MANIFEST.json from harness/registry.py and validates it."""
import json
import os
import sys

ROOT = os.path.dirname(os.path.dirname(os.path.abspath(__file__)))
sys.path.insert(0, ROOT)
from harness.registry import CLAIMED, NOT_APPLICABLE  # noqa: E402

props = [json.loads(l)["id"] for l in open(os.path.join(ROOT, "properties.jsonl"))]
BASE = json.load(open("/root/.vp/BASELINE.json"))["cmd"] if os.path.exists("/root/.vp/BASELINE.json") else ""
man = {
    "version": 1,
    "setup_cmd": "cd lean && lake build",
    "hooks": {
        "guard": "PYNETDICOM_VERIF",
        "enable": "checks set PYNETDICOM_VERIF=1 in the harness process before importing pynetdicom (editable install of /repo)",
        "baseline_off_cmd": "cd /repo && env -u PYNETDICOM_VERIF /venv/bin/python -m pytest -ra -q -p no:cacheprovider --timeout=900 --continue-on-collection-errors --junitxml=/tmp/verif_baseline.junit.xml",
        "source_commits": json.load(open(os.path.join(ROOT, "hook_commits.json"))) if os.path.exists(os.path.join(ROOT, "hook_commits.json")) else [],
        "add_only": True,
    },
    "engines": [
        {
            "name": "lean-proof+correspondence",
            "path": "check",
            "serves_properties": sorted(CLAIMED),
            "kind_free_text": "Lean 4 theorems over executable models (lean/PynetVerif), models tied to /repo by translators (translate/) and by differential execution against the compiled Lean driver (harness/)",
        }
    ],
    "checks": [],
    "not_applicable": [],
    "notes": "Single entry point ./check <id> --tier quick|thorough [--replay f]; see DESIGN.md.",
}
for pid in props:
    if pid in CLAIMED:
        c = CLAIMED[pid]
        man["checks"].append(
            {
                "property_id": pid,
                "quick_cmd": f"./check {pid} --tier quick",
                "thorough_cmd": f"./check {pid} --tier thorough",
                "evidence_file": f"evidence/{pid}.json",
                "replay_cmd_template": f"./check {pid} --replay {{path}}",
                "engine": "lean-proof+correspondence",
                "level_claimed": {"category": c["category"], "text": c["text"], "design_ref": c.get("design_ref", "")},
                "level_note": c["note"],
                "technique": c["technique"],
            }
        )
    else:
        man["not_applicable"].append(
            {"property_id": pid, "reason": NOT_APPLICABLE.get(pid, "check not built yet in this session; not claimed (see DESIGN.md §5 for the intended model and theorems)")}
        )
json.dump(man, open(os.path.join(ROOT, "MANIFEST.json"), "w"), indent=1)
try:
    import jsonschema

    jsonschema.validate(man, json.load(open("/root/.vp/MANIFEST.schema.json")))
    print("MANIFEST valid;", len(man["checks"]), "checks,", len(man["not_applicable"]), "unclaimed")
except ImportError:
    print("jsonschema missing; not validated")
