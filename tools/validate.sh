#!/bin/sh
# validates MANIFEST.json and all evidence files against the schemas
cd "$(dirname "$0")/.."
python3-vt - <<'PY'
import json, jsonschema, glob
jsonschema.validate(json.load(open('MANIFEST.json')), json.load(open('/root/.vp/MANIFEST.schema.json')))
s = json.load(open('/root/.vp/EVIDENCE.schema.json'))
for f in sorted(glob.glob('evidence/*.json')):
    jsonschema.validate(json.load(open(f)), s)
print('manifest + %d evidence files valid' % len(glob.glob('evidence/*.json')))
PY
