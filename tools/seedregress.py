#!/venv/bin/python
"""Re-run the archived seeded changes against the checks as they are now.

For every seeded/<id>[-rN]/ (or the ids given): patch.diff is applied to a scratch worktree of /repo's HEAD (outside
/repo and /verif, removed afterwards), the checks recorded in its meta.json as reporting it are run against that tree
(VERIF_REPO / PYTHONPATH), and the outcome is written to seeded/REGRESS.json:  id -> {check: "VIOLATION" | "silent" |
"no-failing-input-found" | "does-not-apply"}.  Nothing is ever applied to /repo itself.

usage: tools/seedregress.py [ids...] [--also C03,C24]
"""
import json, os, subprocess, sys, time

ROOT = os.path.dirname(os.path.dirname(os.path.abspath(__file__)))
SEEDED = os.path.join(ROOT, "seeded")
OUT = os.path.join(SEEDED, "REGRESS.json")


def sh(cmd, cwd=None, timeout=3600):
    p = subprocess.run(cmd, shell=True, cwd=cwd, capture_output=True, text=True, timeout=timeout)
    return p.returncode, p.stdout + p.stderr


args = sys.argv[1:]
also = []
if "--also" in args:  # extra checks to run for the given ids
    i = args.index("--also")
    also = [x for x in args[i + 1].split(",") if x]
    args = args[:i] + args[i + 2:]
ids = args or sorted(d for d in os.listdir(SEEDED) if os.path.isdir(os.path.join(SEEDED, d)))
res = json.load(open(OUT)) if os.path.exists(OUT) else {}
os.makedirs("/tmp/seedwt", exist_ok=True)
for sid in ids:
    d = os.path.join(SEEDED, sid)
    meta = json.load(open(os.path.join(d, "meta.json")))
    recorded = meta.get("checks_on_seeded_tree", {})
    checks = [p for p, r in recorded.items() if r.get("exit") == 1] or [sid.split("-")[0]]
    checks += [c for c in also if c not in checks]
    wt = f"/tmp/seedwt/{sid}"
    sh(f"git -C /repo worktree remove --force {wt}")
    rc, out = sh(f"git -C /repo worktree add --detach {wt} HEAD")
    if rc != 0:
        print(sid, "cannot create worktree", out[-200:])
        continue
    entry = {}
    try:
        rc, out = sh(f"git apply --3way {os.path.join(d, 'patch.diff')}", cwd=wt)
        if rc != 0:
            entry = {c: "does-not-apply" for c in checks}
        else:
            sh("git reset -q", cwd=wt)
            for c in checks:
                t0 = time.time()
                try:
                    rc, out = sh(f"VERIF_REPO={wt} PYTHONPATH={wt} ./check {c} --tier quick", cwd=ROOT, timeout=3000)
                except subprocess.TimeoutExpired:
                    rc, out = 2, "TIMEOUT"
                v = [l for l in out.splitlines() if l.startswith("VIOLATION")]
                if rc == 2:
                    entry[c] = "timeout"
                elif not v:
                    entry[c] = "silent"
                elif all(l.rstrip().endswith("no-failing-input-found") for l in v):
                    entry[c] = "no-failing-input-found"
                else:
                    entry[c] = "VIOLATION"
                entry[c + ":wall_s"] = round(time.time() - t0, 1)
    finally:
        sh(f"git -C /repo worktree remove --force {wt}")
    res[sid] = {**res.get(sid, {}), **entry} if also else entry
    json.dump(res, open(OUT, "w"), indent=1, sort_keys=True)
    print(sid, entry, flush=True)
sh("git -C /repo worktree prune")
sh("/venv/bin/python -W ignore tools/regen.py", cwd=ROOT)
