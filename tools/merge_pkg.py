#!/venv/bin/python
"""Merge a builder package copy (/tmp/build/<X>/verif) into /verif."""
import json, os, re, shutil, subprocess, sys

X = sys.argv[1]
SRC = f"/tmp/build/{X}/verif"
DST = "/verif"
st = subprocess.run(["git", "status", "--short", "-uall"], cwd=SRC, capture_output=True, text=True).stdout
new, mod = [], []
for line in st.splitlines():
    code, path = line[:2], line[3:]
    if path.startswith("evidence/") or path.startswith("replays/") or "__pycache__" in path:
        continue
    (new if code == "??" else mod).append(path)
for p in new:
    if p == "known_findings.json":
        mod.append(p)
        continue
    d = os.path.join(DST, p)
    if os.path.exists(d) and open(d, "rb").read() != open(os.path.join(SRC, p), "rb").read():
        print("CONFLICT new file exists and differs:", p)
        continue
    os.makedirs(os.path.dirname(d), exist_ok=True)
    shutil.copy2(os.path.join(SRC, p), d)
    print("copied", p)
for p in mod:
    s, d = os.path.join(SRC, p), os.path.join(DST, p)
    if p == "lean/PynetVerif.lean":
        mine = open(d).read().splitlines()
        for l in open(s).read().splitlines():
            if l.startswith("import") and l not in mine:
                mine.append(l)
        open(d, "w").write("\n".join(mine) + "\n")
        print("merged imports", p)
    elif p == "lean/Main.lean":
        mine = open(d).read()
        theirs = open(s).read()
        for l in theirs.splitlines():
            if l.startswith("import") and l not in mine:
                mine = mine.replace("open PynetVerif\n", l + "\nopen PynetVerif\n", 1)
        th = re.search(r"\[(Driver\.[^\]]*)\]", theirs).group(1).replace("\n", " ").split(",")
        m = re.search(r"\[(Driver\.[^\]]*)\]", mine)
        cur = [x.strip() for x in m.group(1).replace("\n", " ").split(",")]
        for h in th:
            h = h.strip()
            if h and h not in cur:
                cur.append(h)
        mine = mine[: m.start()] + "[" + ",\n   ".join(cur) + "]" + mine[m.end():]
        open(d, "w").write(mine)
        print("merged handlers", p)
    elif p == "known_findings.json":
        cur = json.load(open(d)) if os.path.exists(d) else {"findings": []}
        for f in json.load(open(s))["findings"]:
            if not any(g["property"] == f["property"] and g.get("sig") == f.get("sig") for g in cur["findings"]):
                cur["findings"].append(f)
        json.dump(cur, open(d, "w"), indent=1)
        print("merged findings")
    elif p in ("harness/registry.py", "MANIFEST.json"):
        print("SKIP (manual):", p)
    else:
        print("MODIFIED (manual) ---", p)
        print(subprocess.run(["diff", "-u", d, s], capture_output=True, text=True).stdout[:6000])
