#!/venv/bin/python
"""Regenerate every lean/PynetVerif/Gen/*.lean from /repo's current working tree (what each check does
first anyway).  Run before committing so that the committed generated files are those of the unchanged tree."""
import os, sys
sys.path.insert(0, os.path.dirname(os.path.dirname(os.path.abspath(__file__))))
os.environ.pop("VERIF_REPO", None)
from harness import common  # noqa: E402  (sets up the import path for /repo)

for g in common.all_translators():
    g()
    print("regenerated", g.__module__)
