#!/venv/bin/python
"""Evaluate one seeded change: confirm its demonstration, run the property's check against it, archive it.

usage: tools/seedtest.py <ID> [--tier quick|thorough] [--src /tmp/seed/<ID>] [--name <variant>]
"""
import argparse, json, os, shutil, subprocess, sys, time

ap = argparse.ArgumentParser()
ap.add_argument("pid")
ap.add_argument("--tier", default="quick")
ap.add_argument("--src")
ap.add_argument("--name", default="")
ap.add_argument("--also", default="", help="comma-separated other property ids to run too")
ap.add_argument("--rebase", action="store_true", help="apply the seed's diff to a fresh scratch worktree of /repo's HEAD and evaluate there (the agents' worktrees may sit on an older commit)")
ap.add_argument("--worktree", action="store_true", help="run the checks against the seeded worktree (VERIF_REPO/PYTHONPATH) instead of applying the patch to /repo")
a = ap.parse_args()
pid = a.pid
src = a.src or f"/tmp/seed/{pid}"
ROOT = os.path.dirname(os.path.dirname(os.path.abspath(__file__)))
dest = os.path.join(ROOT, "seeded", pid + (("-" + a.name) if a.name else ""))
os.makedirs(dest, exist_ok=True)


def sh(cmd, cwd=None, timeout=3600):
    p = subprocess.run(cmd, shell=True, cwd=cwd, capture_output=True, text=True, timeout=timeout)
    return p.returncode, (p.stdout + p.stderr)


rc, diff = sh("git diff -- pynetdicom", cwd=src)
if not diff.strip():
    sys.exit("no change in " + src)
open(os.path.join(dest, "patch.diff"), "w").write(diff)
demo = [f for f in os.listdir(src) if f.startswith("demo_") and f.endswith(".py")]
if a.rebase:
    fresh = f"/tmp/seedwt/{pid}"
    sh(f"git -C /repo worktree remove --force {fresh}")
    os.makedirs("/tmp/seedwt", exist_ok=True)
    rc, out = sh(f"git -C /repo worktree add --detach {fresh} HEAD")
    if rc != 0:
        sys.exit("cannot create scratch worktree: " + out)
    rc, out = sh(f"git apply --3way {os.path.join(dest, 'patch.diff')}", cwd=fresh)
    if rc != 0:
        sh(f"git -C /repo worktree remove --force {fresh}")
        sys.exit("seed does not apply to /repo HEAD: " + out)
    sh("git reset -q", cwd=fresh)
    for f in demo:
        shutil.copy(os.path.join(src, f), os.path.join(fresh, f))
    src = fresh
    a.worktree = True
meta = {"property": pid, "source": src, "demo": demo, "when": time.strftime("%Y-%m-%d %H:%M:%S")}
ns = "unshare -n bash -c 'ip link set lo up; cd {d} && timeout 300 /venv/bin/python {f}'"
for f in demo:
    shutil.copy(os.path.join(src, f), os.path.join(dest, f))
    rc_with, out_with = sh(ns.format(d=src, f=f))
    pth = os.path.join(dest, "patch.diff")
    sh(f"git apply -R {pth}", cwd=src)   # never `git stash`: the stash is shared by all worktrees
    try:
        rc_without, out_without = sh(ns.format(d=src, f=f))
    finally:
        sh(f"git apply {pth}", cwd=src)
    meta["demo_with_change"] = {"exit": rc_with, "tail": out_with[-600:]}
    meta["demo_without_change"] = {"exit": rc_without, "tail": out_without[-300:]}
    print(f"demo {f}: with change exit={rc_with}, without exit={rc_without}")
# run the check(s) against the seeded tree
results = {}
env_prefix = ""
if a.worktree:
    env_prefix = f"VERIF_REPO={src} PYTHONPATH={src} "
    meta["mode"] = "checks run against the seeded worktree via VERIF_REPO/PYTHONPATH"
else:
    meta["mode"] = "patch applied to /repo (git apply), checks run, git checkout -- ."
    rc, out = sh("git status --short", cwd="/repo")
    if out.strip():
        sys.exit("/repo is not clean: " + out)
    rc, out = sh(f"git apply {os.path.join(dest, 'patch.diff')}", cwd="/repo")
    if rc != 0:
        sys.exit("patch does not apply to /repo: " + out)
try:
    for p in [pid] + [x for x in a.also.split(",") if x]:
        t0 = time.time()
        try:
            rc, out = sh(f"{env_prefix}./check {p} --tier {a.tier}", cwd=ROOT, timeout=3000)
        except subprocess.TimeoutExpired:
            rc, out = 2, "TIMEOUT"
        lines = [l for l in out.splitlines() if l.startswith("VIOLATION") or "failing input" in l or "broken obligation" in l or l.startswith("[" + p)]
        results[p] = {"exit": rc, "wall_s": round(time.time() - t0, 1), "lines": [l[:400] for l in lines[:12]]}
        print(f"check {p} ({a.tier}) on the seeded tree: exit={rc}")
        for l in lines[:8]:
            print("   ", l[:300])
finally:
    if not a.worktree:
        sh("git checkout -- .", cwd="/repo")
        sh("git clean -fdq pynetdicom", cwd="/repo")
meta["checks_on_seeded_tree"] = results
rc, out = sh("git status --short", cwd="/repo")
meta["repo_clean_after"] = not out.strip()
json.dump(meta, open(os.path.join(dest, "meta.json"), "w"), indent=1)
if a.rebase:
    sh(f"git -C /repo worktree remove --force {src}")
# leave the generated Lean files as the unchanged tree's
sh("/venv/bin/python -W ignore tools/regen.py", cwd=ROOT)
