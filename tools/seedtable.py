#!/usr/bin/env python3
"""Render seeded/NOTES.json + seeded/*/meta.json as the markdown table of DESIGN.md section 14."""
import glob, json, os, re

ROOT = os.path.dirname(os.path.dirname(os.path.abspath(__file__)))
notes = json.load(open(os.path.join(ROOT, "seeded", "NOTES.json")))
rows = []
for d in sorted(glob.glob(os.path.join(ROOT, "seeded", "C*"))):
    key = os.path.basename(d)
    if not os.path.isdir(d):
        continue
    meta = json.load(open(os.path.join(d, "meta.json")))
    n = notes.get(key, {})
    res = []
    for pid, r in meta.get("checks_on_seeded_tree", {}).items():
        lines = [l for l in r["lines"] if "VIOLATION" in l]
        if r["exit"] == 1 and lines:
            weak = all("no-failing-input-found" in l for l in lines)
            res.append(f"{pid}: VIOLATION" + (" (no-failing-input-found)" if weak else ""))
        elif r["exit"] == 0:
            res.append(f"{pid}: silent")
        else:
            res.append(f"{pid}: exit {r['exit']}")
    rows.append((key, n.get("change", ""), n.get("needs", ""), n.get("first", ""), "; ".join(res), n.get("strengthening", "")))
print("| seed | change | needs | first meeting | checks now (quick tier) | what was strengthened |")
print("|---|---|---|---|---|---|")
for r in rows:
    print("| " + " | ".join(x.replace("|", "\\|").replace("\n", " ") for x in r) + " |")
