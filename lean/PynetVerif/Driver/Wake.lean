import PynetVerif.Model.SExp
import PynetVerif.Model.Wake
/-!
`(wake.run <tls T/F> <consultsPending T/F> (<pdu size> ...) (<record size> ...))` → the number of PDUs
still unread after as many reactor iterations as there are PDUs (all bytes in the kernel buffer at the start).
-/
namespace PynetVerif.Driver
open PynetVerif.Wake

private def natsOf : List SExp → Option (List Nat)
  | [] => some []
  | .nat n :: r => (natsOf r).map (n :: ·)
  | _ => none

def wakeOps (op : String) (args : List SExp) : Option SExp :=
  match op, args with
  | "wake.run", [.sym t, .sym p, .list pdus, .list recs] =>
    match natsOf pdus, natsOf recs with
    | some ps, some rs =>
      let s : St := ⟨ps.sum, 0, ps⟩
      some (.nat (iters ⟨t == "T", p == "T"⟩ ps.length s rs).pdus.length)
    | _, _ => some (.sym "ERR:args")
  | _, _ => none

end PynetVerif.Driver
