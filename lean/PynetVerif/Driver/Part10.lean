import PynetVerif.Model.SExp
import PynetVerif.Model.Part10
import PynetVerif.Gen.Part10
/- S-expression adapter for the `split_dataset` model (C25, chunked send); the VR tables are the
regenerated ones. -/
namespace PynetVerif.Driver
open PynetVerif.Part10

/-- `(part10.split <file>)` → `(ok <offset>)` | `invalid-dicom` | `struct-error` | `undefined-length` -/
def part10Ops (op : String) (args : List SExp) : Option SExp :=
  match op, args with
  | "part10.split", [.bytes file] =>
    some (match split Gen.Part10.tables file with
      | .ok off => .list [.sym "ok", .nat off]
      | .invalidDicom => .sym "invalid-dicom"
      | .structError => .sym "struct-error"
      | .undefinedLength => .sym "undefined-length")
  | _, _ => none

end PynetVerif.Driver
