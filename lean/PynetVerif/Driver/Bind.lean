import PynetVerif.Model.SExp
import PynetVerif.Model.Bind
/-!
`(bind.run I|N ((bind h) | (unbind h) ...))` → the bound handler (`I`, intervention event) or the list of bound
handlers (`N`, notification event) after the calls.
-/
namespace PynetVerif.Driver
open PynetVerif.Bind

private def opOfB : SExp → Option Op
  | .list [.sym "bind", .nat h] => some (.bind h)
  | .list [.sym "unbind", .nat h] => some (.unbind h)
  | _ => none

def bindOps (op : String) (args : List SExp) : Option SExp :=
  match op, args with
  | "bind.run", [.sym k, .list os] =>
    match os.mapM opOfB with
    | none => some (.sym "ERR:args")
    | some ops => if k == "I" then some (.nat (runI ops)) else some (.list ((runN ops).map .nat))
  | _, _ => none

end PynetVerif.Driver
