import PynetVerif.Model.SExp
import PynetVerif.Model.Cancel
import PynetVerif.Gen.Cancel
/-!
`(cancel (<ev> ...))` — run the C-CANCEL store model from the empty state.
Events: `(recv id)`, `(begin id)`, `(query id)`, `end`, `endraise`, and `side` — a whole
`_serve_request` run of a request served in its own thread, which empties the store or not as the
regenerated source facts say.
Reply: one entry per event, `((store keys in insertion order) (ids queued on msg_queue) answer)`
with answer `T`/`F` for a query and `none` otherwise.
-/
namespace PynetVerif.Driver
open PynetVerif.Cancel

private def cancelEvOf : SExp → Option DEv
  | .list [.sym "recv", .nat id] => some (.ev (.recvCancel id))
  | .list [.sym "begin", .nat id] => some (.ev (.beginOp id))
  | .list [.sym "query", .nat id] => some (.ev (.query id))
  | .sym "end" => some (.ev .endOp)
  | .sym "endraise" => some (.ev .endOpRaise)
  | .sym "side" => some .side
  | _ => none

def cancelSideClears : Bool :=
  sideClears Gen.Cancel.serveTry Gen.Cancel.clearGuards Gen.Cancel.sideThread

def cancelOps (op : String) (args : List SExp) : Option SExp :=
  match op, args with
  | "cancel", [.list evs] =>
    match evs.mapM cancelEvOf with
    | some evs =>
      some (.list ((dtrace cancelSideClears Cancel.init evs).map (fun r =>
        .list [.list (r.1.store.map .nat), .list (r.1.queued.map .nat),
               match r.2 with | some b => SExp.ofBool b | none => .sym "none"])))
    | none => some (.sym "ERR:bad-args")
  | _, _ => none

end PynetVerif.Driver
