import PynetVerif.Model.SExp
import PynetVerif.Model.Cancel
/-!
`(cancel (<ev> ...))` — run the C-CANCEL store model from the empty state.
Events: `(recv id)`, `(begin id)`, `(query id)`, `end`, `endraise`.
Reply: one entry per event, `((store keys in insertion order) (ids queued on msg_queue) answer)`
with answer `T`/`F` for a query and `none` otherwise.
-/
namespace PynetVerif.Driver
open PynetVerif.Cancel

private def cancelEvOf : SExp → Option Ev
  | .list [.sym "recv", .nat id] => some (.recvCancel id)
  | .list [.sym "begin", .nat id] => some (.beginOp id)
  | .list [.sym "query", .nat id] => some (.query id)
  | .sym "end" => some .endOp
  | .sym "endraise" => some .endOpRaise
  | _ => none

def cancelOps (op : String) (args : List SExp) : Option SExp :=
  match op, args with
  | "cancel", [.list evs] =>
    match evs.mapM cancelEvOf with
    | some evs =>
      some (.list ((trace Cancel.init evs).map (fun r =>
        .list [.list (r.1.store.map .nat), .list (r.1.queued.map .nat),
               match r.2 with | some b => SExp.ofBool b | none => .sym "none"])))
    | none => some (.sym "ERR:bad-args")
  | _, _ => none

end PynetVerif.Driver
