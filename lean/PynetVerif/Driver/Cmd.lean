import PynetVerif.Model.SExp
import PynetVerif.Model.Cmd
/- S-expression adapter of the command-set / primitive model (C17).

   element value  (nums n…) | (strs x… x…)
   parameter      none | (int n) | (str x…) | (list n…)
   primitive      ((tag value)…) data      with data = none | x…                        -/
namespace PynetVerif.Driver
open PynetVerif.Cmd

private def vrOfSym : String → Option VR
  | "UL" => some .UL | "US" => some .US | "UI" => some .UI
  | "AE" => some .AE | "LO" => some .LO | "AT" => some .AT | _ => none

private def natsOf : List SExp → Option (List Nat)
  | [] => some []
  | .nat n :: r => (natsOf r).map (n :: ·)
  | _ => none

private def bytessOf : List SExp → Option (List Bytes)
  | [] => some []
  | .bytes b :: r => (bytessOf r).map (b :: ·)
  | _ => none

private def evalOf : SExp → Option EVal
  | .list (.sym "nums" :: r) => (natsOf r).map .nums
  | .list (.sym "strs" :: r) => (bytessOf r).map .strs
  | _ => none

private def evalTo : EVal → SExp
  | .nums xs => .list (.sym "nums" :: xs.map .nat)
  | .strs xs => .list (.sym "strs" :: xs.map .bytes)

private def valOf : SExp → Option (Option Val)
  | .sym "none" => some none
  | .list [.sym "int", .nat n] => some (some (.int n))
  | .list [.sym "str", .bytes b] => some (some (.str b))
  | .list (.sym "list" :: r) => (natsOf r).map (fun xs => some (.list xs))
  | _ => none

private def valTo : Option Val → SExp
  | none => .sym "none"
  | some (.int n) => .list [.sym "int", .nat n]
  | some (.str b) => .list [.sym "str", .bytes b]
  | some (.list xs) => .list (.sym "list" :: xs.map .nat)

private def elemsOf : List SExp → Option (List Elem)
  | [] => some []
  | .list [.nat t, v] :: r =>
    match evalOf v, elemsOf r with
    | some ev, some rest => some ((t, ev) :: rest)
    | _, _ => none
  | _ => none

private def elemsTo (c : List Elem) : SExp := .list (c.map (fun e => .list [.nat e.1, evalTo e.2]))

private def parsOf : List SExp → Option (List (Nat × Option Val))
  | [] => some []
  | .list [.nat t, v] :: r =>
    match valOf v, parsOf r with
    | some x, some rest => some ((t, x) :: rest)
    | _, _ => none
  | _ => none

private def dataOf : SExp → Option (Option Bytes)
  | .sym "none" => some none
  | .bytes b => some (some b)
  | _ => none

private def dataTo : Option Bytes → SExp
  | none => .sym "none"
  | some b => .bytes b

private def primOf (ps : SExp) (d : SExp) : Option Prim :=
  match ps, dataOf d with
  | .list l, some data =>
    (parsOf l).map (fun kv => { par := fun t => (kv.lookup t).join, data := data })
  | _, _ => none

/-- every parameter that is not `None`, in tag order -/
private def primTo (p : Prim) : List SExp :=
  [.list (vrTable.filterMap (fun (t, _) =>
      match p.par t with
      | none => none
      | some v => some (.list [.nat t, valTo (some v)]))),
   dataTo p.data]

private def RAISE : SExp := .sym "raise"

def cmdOps (op : String) (args : List SExp) : Option SExp :=
  match op, args with
  | "cmd.encval", [.sym vr, v] =>
    some (match vrOfSym vr, evalOf v with
      | some vr, some ev => (match encodeVal vr ev with | some b => .bytes b | none => RAISE)
      | _, _ => .sym "ERR:args")
  | "cmd.decval", [.sym vr, .bytes b] =>
    some (match vrOfSym vr with
      | some vr => (match decodeVal vr b with | some ev => evalTo ev | none => RAISE)
      | none => .sym "ERR:args")
  | "cmd.enc", [.list es] =>
    some (match elemsOf es with
      | some l => (match encodeCmd (Cmd.ofList l) with | some b => .bytes b | none => RAISE)
      | none => .sym "ERR:args")
  | "cmd.dec", [.bytes b] =>
    some (match decodeCmd b with | some c => elemsTo c | none => RAISE)
  | "prim.set", [.sym cls, .nat t, v] =>
    some (match classes.find? (fun c => c.name == cls), valOf v with
      | some c, some x =>
        (match c.setter? t with
         | none => .sym "noattr"
         | some s => (match store s x with | some y => .list [.sym "ok", valTo y] | none => RAISE))
      | _, _ => .sym "ERR:args")
  | "prim.cmd", [.sym row, ps, d] =>
    some (match rowByName row, primOf ps d with
      | some r, some p => (match primToCmd r p with | some c => elemsTo c | none => RAISE)
      | _, _ => .sym "ERR:args")
  | "prim.enc", [.sym row, ps, d] =>
    some (match rowByName row, primOf ps d with
      | some r, some p =>
        (match encodeMsg r p with | some (b, ds) => .list [.sym "ok", .bytes b, .bytes ds] | none => RAISE)
      | _, _ => .sym "ERR:args")
  | "prim.dec", [.bytes b, .bytes d] =>
    some (match decodeMsg rows b d with
      | some (r, q) => .list (.sym "ok" :: .sym r.name :: primTo q)
      | none => RAISE)
  | "prim.rt", [.sym row, ps, d] =>
    some (match rowByName row, primOf ps d with
      | some r, some p =>
        (match encodeMsg r p with
         | some (b, ds) =>
           (match decodeMsg rows b ds with
            | some (r', q) => .list (.sym "ok" :: .sym r'.name :: primTo q)
            | none => .sym "raise-dec")
         | none => RAISE)
      | _, _ => .sym "ERR:args")
  | "prim.canon", [.sym row, ps, d] =>
    some (match rowByName row, primOf ps d with
      | some r, some p => .list (primTo (canon r p))
      | _, _ => .sym "ERR:args")
  | "prim.kind", [.sym cls, ps] =>
    some (match classes.find? (fun c => c.name == cls), primOf ps (.sym "none") with
      | some c, some p => (match kindOf c p with | some r => .sym r.name | none => .sym "none")
      | _, _ => .sym "ERR:args")
  | _, _ => none

end PynetVerif.Driver
