import PynetVerif.Model.SExp
import PynetVerif.Model.PduWf
/-! S-expression adapter of the PDU model (C01 / C02).

terms:  PDU      (rq ver xCalled xCalling (item…)) | (ac …) | (rj r s d) | (pdata ((id xData)…)) | (relrq) | (relrp) | (abort s r)
        VarItem  (app xUid) | (pcrq id (syn…)) | (pcac id res (syn…)) | (ui (sub…))
        SynItem  (abs xUid) | (ts xUid)
        UserSub  (maxlen n) | (impluid x) | (async i p) | (role x scu scp) | (implver x) | (sopext x x)
                 | (common ver x x (x…)) | (uidrq t r x x) | (uidac x)
-/
namespace PynetVerif.Driver
open PynetVerif.Pdu

private def optMap {α β : Type} (f : α → Option β) : List α → Option (List β)
  | [] => some []
  | x :: xs =>
    match f x, optMap f xs with
    | some y, some ys => some (y :: ys)
    | _, _ => none

private def bytesOf : SExp → Option Bytes
  | .bytes b => some b
  | _ => none

private def synOfSExp : SExp → Option SynItem
  | .list [.sym "abs", .bytes u] => some (.abstract u)
  | .list [.sym "ts", .bytes u] => some (.transfer u)
  | _ => none

private def userOfSExp : SExp → Option UserSub
  | .list [.sym "maxlen", .nat n] => some (.maxLen n)
  | .list [.sym "impluid", .bytes u] => some (.implUid u)
  | .list [.sym "async", .nat i, .nat p] => some (.asyncOps i p)
  | .list [.sym "role", .bytes u, .nat a, .nat b] => some (.role u a b)
  | .list [.sym "implver", .bytes n] => some (.implVer n)
  | .list [.sym "sopext", .bytes u, .bytes i] => some (.sopExt u i)
  | .list [.sym "common", .nat v, .bytes a, .bytes b, .list rel] =>
    match optMap bytesOf rel with
    | some r => some (.commonExt v a b r)
    | none => none
  | .list [.sym "uidrq", .nat t, .nat r, .bytes p, .bytes s] => some (.userIdRq t r p s)
  | .list [.sym "uidac", .bytes r] => some (.userIdAc r)
  | _ => none

private def varOfSExp : SExp → Option VarItem
  | .list [.sym "app", .bytes u] => some (.appCtx u)
  | .list [.sym "pcrq", .nat id, .list subs] => (optMap synOfSExp subs).map (.pcRq id)
  | .list [.sym "pcac", .nat id, .nat res, .list subs] => (optMap synOfSExp subs).map (.pcAc id res)
  | .list [.sym "ui", .list subs] => (optMap userOfSExp subs).map .userInfo
  | _ => none

private def pdvOfSExp : SExp → Option PDV
  | .list [.nat id, .bytes d] => some ⟨id, d⟩
  | _ => none

private def pduOfSExp : SExp → Option PDU
  | .list [.sym "rq", .nat v, .bytes a, .bytes b, .list items] => (optMap varOfSExp items).map (.rq v a b)
  | .list [.sym "ac", .nat v, .bytes a, .bytes b, .list items] => (optMap varOfSExp items).map (.ac v a b)
  | .list [.sym "rj", .nat r, .nat s, .nat d] => some (.rj r s d)
  | .list [.sym "pdata", .list pdvs] => (optMap pdvOfSExp pdvs).map .pdata
  | .list [.sym "relrq"] => some .relRq
  | .list [.sym "relrp"] => some .relRp
  | .list [.sym "abort", .nat s, .nat r] => some (.abort s r)
  | _ => none

private def synToSExp : SynItem → SExp
  | .abstract u => .list [.sym "abs", .bytes u]
  | .transfer u => .list [.sym "ts", .bytes u]

private def userToSExp : UserSub → SExp
  | .maxLen n => .list [.sym "maxlen", .nat n]
  | .implUid u => .list [.sym "impluid", .bytes u]
  | .asyncOps i p => .list [.sym "async", .nat i, .nat p]
  | .role u a b => .list [.sym "role", .bytes u, .nat a, .nat b]
  | .implVer n => .list [.sym "implver", .bytes n]
  | .sopExt u i => .list [.sym "sopext", .bytes u, .bytes i]
  | .commonExt v a b rel => .list [.sym "common", .nat v, .bytes a, .bytes b, .list (rel.map .bytes)]
  | .userIdRq t r p s => .list [.sym "uidrq", .nat t, .nat r, .bytes p, .bytes s]
  | .userIdAc r => .list [.sym "uidac", .bytes r]

private def varToSExp : VarItem → SExp
  | .appCtx u => .list [.sym "app", .bytes u]
  | .pcRq id subs => .list [.sym "pcrq", .nat id, .list (subs.map synToSExp)]
  | .pcAc id res subs => .list [.sym "pcac", .nat id, .nat res, .list (subs.map synToSExp)]
  | .userInfo subs => .list [.sym "ui", .list (subs.map userToSExp)]

private def pduToSExp : PDU → SExp
  | .rq v a b items => .list [.sym "rq", .nat v, .bytes a, .bytes b, .list (items.map varToSExp)]
  | .ac v a b items => .list [.sym "ac", .nat v, .bytes a, .bytes b, .list (items.map varToSExp)]
  | .rj r s d => .list [.sym "rj", .nat r, .nat s, .nat d]
  | .pdata pdvs => .list [.sym "pdata", .list (pdvs.map (fun p => .list [.nat p.id, .bytes p.data]))]
  | .relRq => .list [.sym "relrq"]
  | .relRp => .list [.sym "relrp"]
  | .abort s r => .list [.sym "abort", .nat s, .nat r]

private def errToSExp : Err → SExp
  | .struct => .sym "struct" | .assert => .sym "assert" | .key => .sym "key"
  | .value => .sym "value" | .attr => .sym "attr" | .level => .sym "level"

private def optBytes : Option Bytes → SExp
  | none => .sym "none"
  | some b => .bytes b

private def optNat : Option Nat → SExp
  | none => .sym "none"
  | some n => .nat n

private def ctxToSExp (c : PCtx) : SExp :=
  .list [.nat c.id, optBytes c.abstract, .list (c.transfer.map .bytes), optNat c.result]

private def uprimToSExp : UserPrim → SExp
  | .maxLen n => .list [.sym "maxlen", .nat n]
  | .implUid u => .list [.sym "impluid", .bytes u]
  | .implVer n => .list [.sym "implver", .bytes n]
  | .asyncOps i p => .list [.sym "async", .nat i, .nat p]
  | .role u a b => .list [.sym "role", .bytes u, SExp.ofBool a, SExp.ofBool b]
  | .sopExt u i => .list [.sym "sopext", .bytes u, .bytes i]
  | .commonExt a b rel => .list [.sym "common", .bytes a, .bytes b, .list (rel.map .bytes)]
  | .userIdRq t r p s => .list [.sym "uidrq", .nat t, SExp.ofBool r, .bytes p, .bytes s]
  | .userIdAc r => .list [.sym "uidac", .bytes r]

private def primToSExp : Prim → SExp
  | .assocRq calling called app cs ui =>
    .list [.sym "assocrq", .bytes calling, .bytes called, optBytes app, .list (cs.map ctxToSExp), .list (ui.map uprimToSExp)]
  | .assocAc calling called app cs ui =>
    .list [.sym "assocac", .bytes calling, .bytes called, optBytes app, .list (cs.map ctxToSExp), .list (ui.map uprimToSExp)]
  | .assocRj r s d => .list [.sym "assocrj", .nat r, .nat s, .nat d]
  | .pdata pdvs => .list [.sym "pdata", .list (pdvs.map (fun p => .list [.nat p.1, .bytes p.2]))]
  | .releaseRq => .list [.sym "releaserq"]
  | .releaseRp => .list [.sym "releaserp"]
  | .abort s => .list [.sym "abort", .nat s]
  | .pabort r => .list [.sym "pabort", .nat r]

private def optBytesOf : SExp → Option (Option Bytes)
  | .sym "none" => some none
  | .bytes b => some (some b)
  | _ => none

private def optNatOf : SExp → Option (Option Nat)
  | .sym "none" => some none
  | .nat n => some (some n)
  | _ => none

private def ctxOfSExp : SExp → Option PCtx
  | .list [.nat id, a, .list ts, r] =>
    match optBytesOf a, optMap bytesOf ts, optNatOf r with
    | some a, some ts, some r => some ⟨id, a, ts, r⟩
    | _, _, _ => none
  | _ => none

private def boolOf : SExp → Option Bool
  | .sym "T" => some true
  | .sym "F" => some false
  | _ => none

private def uprimOfSExp : SExp → Option UserPrim
  | .list [.sym "maxlen", .nat n] => some (.maxLen n)
  | .list [.sym "impluid", .bytes u] => some (.implUid u)
  | .list [.sym "implver", .bytes n] => some (.implVer n)
  | .list [.sym "async", .nat i, .nat p] => some (.asyncOps i p)
  | .list [.sym "role", .bytes u, a, b] =>
    match boolOf a, boolOf b with
    | some a, some b => some (.role u a b)
    | _, _ => none
  | .list [.sym "sopext", .bytes u, .bytes i] => some (.sopExt u i)
  | .list [.sym "common", .bytes a, .bytes b, .list rel] => (optMap bytesOf rel).map (.commonExt a b)
  | .list [.sym "uidrq", .nat t, r, .bytes p, .bytes s] => (boolOf r).map (fun r => .userIdRq t r p s)
  | .list [.sym "uidac", .bytes r] => some (.userIdAc r)
  | _ => none

private def primOfSExp : SExp → Option Prim
  | .list [.sym "assocrq", .bytes calling, .bytes called, app, .list cs, .list ui] =>
    match optBytesOf app, optMap ctxOfSExp cs, optMap uprimOfSExp ui with
    | some app, some cs, some ui => some (.assocRq calling called app cs ui)
    | _, _, _ => none
  | .list [.sym "assocac", .bytes calling, .bytes called, app, .list cs, .list ui] =>
    match optBytesOf app, optMap ctxOfSExp cs, optMap uprimOfSExp ui with
    | some app, some cs, some ui => some (.assocAc calling called app cs ui)
    | _, _, _ => none
  | .list [.sym "assocrj", .nat r, .nat s, .nat d] => some (.assocRj r s d)
  | .list [.sym "pdata", .list pdvs] =>
    (optMap (fun e => match e with | SExp.list [.nat i, .bytes d] => some (i, d) | _ => none) pdvs).map .pdata
  | .list [.sym "releaserq"] => some .releaseRq
  | .list [.sym "releaserp"] => some .releaseRp
  | .list [.sym "abort", .nat s] => some (.abort s)
  | .list [.sym "pabort", .nat r] => some (.pabort r)
  | _ => none

private def exceptToSExp {α : Type} (f : α → SExp) : Except Err α → SExp
  | .ok a => .list [.sym "ok", f a]
  | .error e => .list [.sym "err", errToSExp e]

private def recvToSExp : Recv → SExp
  | .closed => .sym "closed"
  | .unrecognised => .sym "unrec"
  | .invalid e => .list [.sym "invalid", errToSExp e]
  | .ok p => .list [.sym "ok", pduToSExp p]
  | .levelViolation => .sym "level"

def pduOps (op : String) (args : List SExp) : Option SExp :=
  match op, args with
  | "pdu.enc", [t] =>
    match pduOfSExp t with
    | some p => some (.bytes (encode p))
    | none => some (.sym "ERR:term")
  | "pdu.dec", [.bytes b] => some (exceptToSExp pduToSExp (decode b))
  | "pdu.accept", [.bytes b] => some (exceptToSExp pduToSExp (accept b))
  | "pdu.cls", [.bytes b] => some (recvToSExp (classify b))
  | "pdu.toprim", [t] =>
    match pduOfSExp t with
    | some p => some (exceptToSExp primToSExp (toPrim p))
    | none => some (.sym "ERR:term")
  | "pdu.fromprim", [t] =>
    match primOfSExp t with
    | some a => some (pduToSExp (fromPrim a))
    | none => some (.sym "ERR:term")
  | "pdu.props", [t] =>
    -- (wf encOk bounded normal encodable) of a term, and canon
    match pduOfSExp t with
    | some p => some (.list [SExp.ofBool (wf p), SExp.ofBool (encOk p), SExp.ofBool (bounded p),
        SExp.ofBool (normal p), SExp.ofBool (encodable p), pduToSExp (canon p)])
    | none => some (.sym "ERR:term")
  | "pdu.lengths", [.bytes b] => some (SExp.ofBool (lengthsExact b))
  | _, _ => none

end PynetVerif.Driver
