import PynetVerif.Model.SExp
import PynetVerif.Model.Dimse
import PynetVerif.Gen.Dimse
/- S-expression adapter of the DIMSE fragmentation / reassembly model (C15, C16). -/
namespace PynetVerif.Driver
open PynetVerif.Dimse

private def pdvToSExp (p : PDV) : SExp := .list [.nat p.ctx, .nat p.ctl, .bytes p.payload]

private def pdvOfSExp : SExp → Option PDV
  | .list [.nat c, .nat k, .bytes b] => some ⟨c, k, b⟩
  | _ => none

private def errToSExp : Option EncErr → SExp
  | none => .sym "none"
  | some .valueError => .sym "ValueError"
  | some .zeroDivision => .sym "ZeroDivisionError"
  | some .stopIteration => .sym "RuntimeError"

private def optBytesOfSExp : SExp → Option (Option Bytes)
  | .sym "none" => some none
  | .bytes b => some (some b)
  | _ => none

private def pathOfSExp : SExp → Option (Option (Bytes × Nat))
  | .sym "none" => some none
  | .list [.bytes b, .nat o] => some (some (b, o))
  | _ => none

/-- class name → is it a key of `_DATASET_KEYWORDS` (from the regenerated table) -/
private def kwOf (cls : String) : Option Bool :=
  (Gen.Dimse.messageTypes.find? (fun t => t.2.1 == cls)).map (·.2.2)

private def messageFields : List Nat := Gen.Dimse.messageTypes.map (·.1)

private def outcomeToSExp : Outcome → SExp
  | .complete => .sym "complete" | .more => .sym "more" | .error => .sym "error"

private def groupsOfSExp : List SExp → Option (List (List PDV))
  | [] => some []
  | .list g :: rest => do
    let g' ← g.mapM pdvOfSExp
    let r ← groupsOfSExp rest
    pure (g' :: r)
  | _ => none

def dimseOps (op : String) (args : List SExp) : Option SExp :=
  match op, args with
  | "dimse.peermax", [.sym r, .nat rq, .nat ac] => some (.nat (peerMax (r == "T") rq ac))
  | "dimse.frag", [.bytes b, .nat max] =>
    some (match fragments b max with
      | none => .sym "ValueError"
      | some frs => .list (frs.map .bytes))
  | "dimse.enc", [.nat ctx, .bytes cmd, .sym cls, ds, path, .nat max] =>
    some (match kwOf cls, optBytesOfSExp ds, pathOfSExp path with
      | some kw, some ds, some path =>
        let m := primToMsg ⟨kw, ds, path⟩
        let r := encodeMsgFull ctx cmd m max
        .list [SExp.ofBool m.hasDS, .list (r.1.map pdvToSExp), errToSExp r.2]
      | _, _, _ => .sym "ERR:args")
  | "dimse.dec", [.list groups] =>
    some (match groupsOfSExp groups with
      | none => .sym "ERR:args"
      | some gs =>
        let r := decodeMsg (cmdInfo messageFields) {} gs
        .list [outcomeToSExp r.2.1, .nat r.2.2.length, .bytes r.1.cmdBuf, .bytes r.1.ds,
               SExp.ofOptNat r.1.ctx])
  | "dimse.cmdinfo", [.bytes cmd] =>
    some (match cmdInfo messageFields cmd with
      | none => .sym "none"
      | some b => SExp.ofBool b)
  | _, _ => none

end PynetVerif.Driver
