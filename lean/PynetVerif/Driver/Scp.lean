import PynetVerif.Model.SExp
import PynetVerif.Model.Scp
/-
S-expression adapter for M-Scp.  Grammar: see harness/scp_driver.py.

  (scp.find  table cx msgId handler)      (scp.rp   table cx msgId handler)
  (scp.get   table cx msgId handler)      (scp.move table cx msgId handler)
  (scp.echo  table cx msgId handler)      (scp.store table cx msgId handler)
  (scp.n prim table cx msgId reqHasInst handler)
  reply: ((rsp…) (subop…) crashed)
  rsp = (status msgIdResp cx ident rem fail warn comp errorComment offendingElement errorID affClass affInst)
-/
namespace PynetVerif.Driver
open PynetVerif.Scp

namespace ScpParse

def bool? : SExp → Option Bool
  | .sym "T" => some true
  | .sym "F" => some false
  | _ => none

def optNat? : SExp → Option (Option Nat)
  | .sym "none" => some none
  | .nat n => some (some n)
  | _ => none

def kw? : SExp → Option Kw
  | .sym "status" => some .status | .sym "msgIdResp" => some .msgIdResp | .sym "nRem" => some .nRem
  | .sym "nFail" => some .nFail | .sym "nWarn" => some .nWarn | .sym "nComp" => some .nComp
  | .sym "errorComment" => some .errorComment | .sym "offendingElement" => some .offendingElement
  | .sym "errorID" => some .errorID | .sym "affClass" => some .affClass | .sym "affInst" => some .affInst
  | .sym "other" => some .other
  | _ => none

def prim? : SExp → Option Prim
  | .sym "echo" => some .echo | .sym "store" => some .store | .sym "find" => some .find
  | .sym "get" => some .get | .sym "move" => some .move | .sym "nAction" => some .nAction
  | .sym "nCreate" => some .nCreate | .sym "nDelete" => some .nDelete
  | .sym "nEventReport" => some .nEventReport | .sym "nGet" => some .nGet | .sym "nSet" => some .nSet
  | _ => none

def elem? : SExp → Option (Kw × Nat)
  | .list [k, .nat v] => (kw? k).map (·, v)
  | _ => none

def status? : SExp → Option StatusVal
  | .sym "bad" => some .bad
  | .list [.sym "i", .nat n] => some (.int n)
  | .list [.sym "in", .nat n] => some (.int (-(n : Int)))
  | .list (.sym "d" :: es) => (es.mapM elem?).map .ds
  | _ => none

def ds? : SExp → Option DsVal
  | .sym "none" => some .none
  | .sym "jt" => some .junkTruthy
  | .sym "jf" => some .junkFalsy
  | .list [.sym "ds", uid, fl, aff, other, enc] => do
    pure (.ds (← optNat? uid) (← bool? fl) (← optNat? aff) (← bool? other) (← bool? enc))
  | _ => none

def outcome? : SExp → Option Outcome
  | .sym "su" => some .success
  | .sym "wa" | .sym "wa2" | .sym "wa3" => some .warning
  | .sym "fa" | .sym "fa2" | .sym "fa3" => some .failure
  | .sym "ex" | .sym "ex2" | .sym "ex3" | .sym "ex4" | .sym "ex5" => some .exception
  | .sym "ca" => some .cancel
  | _ => none

/-- bit 0: handler abort; bits 1, 2: peer abort / peer release request (the code ORs them) -/
def ev? : SExp → Option Ev
  | .nat n => some { hAbort := n % 2 == 1, peer := (n / 2) % 4 != 0 }
  | _ => none

def dest? : SExp → Option Dest
  | .sym "ok" => some .ok | .sym "unk" => some .unknown | .sym "ref" => some .refused
  | .sym "bad" => some .raises
  | _ => none

def value? : SExp → Option YieldVal
  | .sym "junk" => some .junk
  | .list [.sym "p", s, d, o] => do pure (.pair (← status? s) (← ds? d) (← outcome? o))
  | .list [.sym "s", s] => (status? s).map .status
  | .list [.sym "dest", k] => (dest? k).map .dest
  | _ => none

def item? : SExp → Option Item
  | .list [.sym "y", v, e] => do pure (.yield (← value? v) (← ev? e))
  | .list [.sym "r", te, e] => do pure (.raise (← bool? te) (← ev? e))
  | .list [.sym "ret", e] => (ev? e).map .ret
  | _ => none

def handler? : SExp → Option Handler
  | .list (.sym "gen" :: items) => (items.mapM item?).map .gen
  | .list [.sym "fr", te, e] => do pure (.fnRaise (← bool? te) (← ev? e))
  | .list [.sym "fnone", e] => (ev? e).map .fnNone
  | .list [.sym "fjunk", e] => (ev? e).map .fnJunk
  | .list [.sym "fv", v, e] => do pure (.fnVal (← value? v) (← ev? e))
  | _ => none

end ScpParse

def intToSExp : Int → SExp
  | .ofNat n => .nat n
  | .negSucc n => .list [.sym "neg", .nat (n + 1)]

def identToSExp : Ident → SExp
  | .none => .sym "none"
  | .data => .sym "data"
  | .handler => .sym "handler"
  | .failed uids => .list (.sym "fl" :: uids.map (fun u => match u with | some n => .nat n | none => .sym "e"))

def snapToSExp (s : Snap) : SExp :=
  let r := s.r
  .list [intToSExp r.status, .nat r.msgIdResp, .nat s.cx, identToSExp r.ident,
         SExp.ofOptNat r.rem, SExp.ofOptNat r.fail, SExp.ofOptNat r.warn, SExp.ofOptNat r.comp,
         SExp.ofOptNat r.errorComment, SExp.ofOptNat r.offendingElement, SExp.ofOptNat r.errorID,
         SExp.ofOptNat r.affClass, SExp.ofOptNat r.affInst]

def outcomeToSExp : Outcome → SExp
  | .success => .sym "su" | .warning => .sym "wa" | .failure => .sym "fa"
  | .exception => .sym "ex" | .cancel => .sym "ca"

def subopToSExp : SubOp → SExp
  | .invalid => .sym "inv"
  | .store uid o => .list [.sym "st", SExp.ofOptNat uid, outcomeToSExp o]

def outToSExp (o : Out) : SExp :=
  .list [.list (o.rsps.map snapToSExp), .list (o.subops.map subopToSExp), SExp.ofBool o.crashed]

def scpOps (op : String) (args : List SExp) : Option SExp :=
  let run4 (f : Table → Nat → Nat → Handler → Out) : SExp :=
    match args with
    | [.sym t, .nat cx, .nat mid, h] =>
      match ScpParse.handler? h with
      | some h => outToSExp (f (tableNamed t) cx mid h)
      | none => .sym "ERR:handler"
    | _ => .sym "ERR:args"
  match op with
  | "scp.find" => some (run4 findScp)
  | "scp.rp" => some (run4 rpScp)
  | "scp.get" => some (run4 getScp)
  | "scp.move" => some (run4 moveScp)
  | "scp.echo" => some (run4 (fun _ => echoScp))
  | "scp.store" => some (run4 (fun _ => statusOnlyScp .store 0xC211))
  | "scp.n" =>
    match args with
    | [p, .sym t, .nat cx, .nat mid, inst, h] =>
      match ScpParse.prim? p, ScpParse.bool? inst, ScpParse.handler? h with
      | some p, some inst, some h =>
        if p == .nDelete then some (outToSExp (statusOnlyScp .nDelete 0x0110 cx mid h))
        else some (outToSExp (nScp p (tableNamed t) cx mid inst h))
      | _, _, _ => some (.sym "ERR:args")
    | _ => some (.sym "ERR:args")
  | _ => none

end PynetVerif.Driver
