import PynetVerif.Model.SExp
import PynetVerif.Model.Ctx
/- S-expression adapter for M-Ctx (ops `ctx`, `ctx.send`, `serve`, `substore`). -/
namespace PynetVerif.Driver
open PynetVerif.Ctx

private def boolOf : SExp → Option Bool
  | .sym "T" => some true
  | .sym "F" => some false
  | _ => none

private def tsOf : SExp → Option Ts
  | .list [.nat u, k, c, l] => do
    pure { uid := u, known := (← boolOf k), compressed := (← boolOf c), little := (← boolOf l) }
  | _ => none

private def optTsOf : SExp → Option (Option Ts)
  | .sym "none" => some none
  | e => (tsOf e).map some

private def cxOf : SExp → Option Cx
  | .list [.nat i, .nat a, t, u, p] => do
    pure { id := i, ab := a, ts := (← tsOf t), asScu := (← boolOf u), asScp := (← boolOf p) }
  | _ => none

private def accOf : SExp → Option (List Cx)
  | .list xs => xs.mapM cxOf
  | _ => none

private def roleOf : SExp → Option (Option Role)
  | .sym "none" => some none
  | .sym "scu" => some (some .scu)
  | .sym "scp" => some (some .scp)
  | _ => none

private def optNatOf : SExp → Option (Option Nat)
  | .sym "none" => some none
  | .nat n => some (some n)
  | _ => none

private def kindOf : String → Option Kind
  | "cEcho" => some .cEcho | "cStore" => some .cStore | "cFind" => some .cFind | "cGet" => some .cGet
  | "cMove" => some .cMove | "nEventReport" => some .nEventReport | "nGet" => some .nGet
  | "nSet" => some .nSet | "nAction" => some .nAction | "nCreate" => some .nCreate
  | "nDelete" => some .nDelete | _ => none

private def kindName : Kind → String
  | .cEcho => "cEcho" | .cStore => "cStore" | .cFind => "cFind" | .cGet => "cGet" | .cMove => "cMove"
  | .nEventReport => "nEventReport" | .nGet => "nGet" | .nSet => "nSet" | .nAction => "nAction"
  | .nCreate => "nCreate" | .nDelete => "nDelete"

private def svcOf : String → Option Svc
  | "verification" => some .verification | "storage" => some .storage | "qr" => some .qr
  | "worklist" => some .worklist | "substance" => some .substance
  | "relevantPatient" => some .relevantPatient | "appEvent" => some .appEvent
  | "display" => some .display | "instanceAvail" => some .instanceAvail
  | "mediaCreation" => some .mediaCreation | "print" => some .print
  | "procedureStep" => some .procedureStep | "rtMachine" => some .rtMachine
  | "storageCommit" => some .storageCommit | "storageMgmt" => some .storageMgmt
  | "ups" => some .ups | "base" => some .base | _ => none

private def sendOpOf : SExp → Option SendOp
  | .list [.sym "cEcho"] => some .cEcho
  | .list [.sym "cFind", .nat q] => some (.cFind q)
  | .list [.sym "cGet", .nat q] => some (.cGet q)
  | .list [.sym "cMove", .nat q] => some (.cMove q)
  | .list [.sym "cStore", .nat s, t, ch] => do pure (.cStore s (← tsOf t) (← boolOf ch))
  | .list [.sym "cCancelModel", .nat q] => some (.cCancelModel q)
  | .list [.sym "cCancelId", .nat k] => some (.cCancelId k)
  | .list [.sym "nEventReport", .nat c] => some (.nEventReport c)
  | .list [.sym "nGet", .nat c] => some (.nGet c)
  | .list [.sym "nSet", .nat c] => some (.nSet c)
  | .list [.sym "nAction", .nat c] => some (.nAction c)
  | .list [.sym "nCreate", .nat c] => some (.nCreate c)
  | .list [.sym "nDelete", .nat c] => some (.nDelete c)
  | _ => none

private def err : SExp := .sym "ERR:args"

private def ctxQuery : List SExp → SExp
  | [acc, .nat ab, ts, role, ctxId, conv] =>
    match accOf acc, optTsOf ts, roleOf role, optNatOf ctxId, boolOf conv with
    | some a, some t, some r, some k, some c =>
      SExp.ofOptNat ((getValidContext a ab t r k c).map (·.id))
    | _, _, _, _, _ => err
  | _ => err

private def ctxSend : List SExp → SExp
  | [acc, op] =>
    match accOf acc, sendOpOf op with
    | some a, some o => SExp.ofOptNat (sendCtx a o)
    | _, _ => err
  | _ => err

private def ctxOutcomeToSExp (o : Outcome) : SExp :=
  let tag := match o with
    | .ignored => "ignored" | .aborted => "aborted" | .dispatched _ _ => "dispatched"
  .list [.sym tag,
    .list (o.handlerCalls.map (fun (h, n) => .list [.sym (kindName h), .nat n])),
    .list (o.responses.map .nat)]

private def serve : List SExp → SExp
  | [rel, valid, acc, .nat ctxId, .sym svc, .sym kind, sup] =>
    match boolOf rel, boolOf valid, accOf acc, svcOf svc, kindOf kind, boolOf sup with
    | some r, some v, some a, some s, some k, some p => ctxOutcomeToSExp (serveRequest r v a ctxId s k p)
    | _, _, _, _, _, _ => err
  | _ => err

private def substore : List SExp → SExp
  | [acc, .nat reqCtx, .nat ab, g] =>
    match accOf acc, boolOf g with
    | some a, some guard =>
      let r := cStoreScp guard a reqCtx ab
      .list [SExp.ofOptNat (r.handler.map (·.id)), SExp.ofOptNat r.rspCtx, SExp.ofBool r.refused, SExp.ofBool r.aborted]
    | _, _ => err
  | _ => err

private def optBoolOf : SExp → Option (Option Bool)
  | .sym "none" => some none
  | e => (boolOf e).map some

private def effTs : List SExp → SExp
  | [ti, tl, di, dl] =>
    match boolOf ti, boolOf tl, optBoolOf di, optBoolOf dl with
    | some a, some b, some c, some d =>
      .sym (match storeEffTs (a, b) (c, d) with
        | .fileMeta => "fileMeta" | .implicitLE => "implicitLE" | .explicitBE => "explicitBE"
        | .attributeError => "attributeError")
    | _, _, _, _ => err
  | _ => err

def ctxOps (op : String) (args : List SExp) : Option SExp :=
  match op with
  | "ctx" => some (ctxQuery args)
  | "ctx.send" => some (ctxSend args)
  | "serve" => some (serve args)
  | "substore" => some (substore args)
  | "ctx.eff" => some (effTs args)
  | _ => none

end PynetVerif.Driver
