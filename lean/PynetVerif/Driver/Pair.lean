import PynetVerif.Model.SExp
import PynetVerif.Model.Pair
import PynetVerif.Driver.Dul
/-!
Driver ops of the two-sided product model.

`(pair.run (<pstep> ...))` with `<pstep>` one of `(r <step>)`, `(a <step>)`, `deliverRA`,
`deliverAR`, where `<step>` is the per-side step syntax of `dul.run` minus the peer steps
(`a`, `b`, `break`, `artimFire`, `connectWillFail`, `(local <prim>)`).  Reply: after every step
`((<side r>) (<side a>) up rSeen aSeen rEof aEof)` with
`<side> = (<the 13-field observation of dul.run> (<sent PDU event> ...) <outcome> <abortedAwaiting>)`,
sent PDUs oldest first as the event number the PDU raises at the receiver (6 RQ, 3 AC, 4 RJ,
10 P-DATA, 12 release RQ, 13 release RP, 16 abort), last dispatch `(evt state hasAction next)` or
`none`, outcome `released` / `rejected` / `aborted` (meaningful once `kill` is `T`).
`(pair.runok (<pstep> ...))` → `T`/`F`: both local users synchronously admissible (`Pair.runOk`).
`(pair.verdict (<pstep> ...))` → `(endedR endedA outcomeR outcomeA agree)` of the final state.
-/
namespace PynetVerif.Driver
open PynetVerif.Dul PynetVerif.Fsm

private def pairPrimOfSExp : SExp → Option Prim
  | .sym "assocRq" => some .assocRq | .sym "accept" => some .accept | .sym "reject" => some .reject
  | .sym "pdata" => some .pdata | .sym "releaseRq" => some .releaseRq | .sym "releaseRp" => some .releaseRp
  | .sym "abort" => some (.abort false) | .sym "pabort" => some (.abort true)
  | _ => none

private def pairSideStep : SExp → Option Step
  | .sym "a" => some .a
  | .sym "b" => some .b
  | .sym "break" => some (.env .breakConn)
  | .sym "artimFire" => some (.env .artimFire)
  | .sym "connectWillFail" => some (.env .connectWillFail)
  | .list [.sym "local", p] => (pairPrimOfSExp p).map (fun p => .env (.local p))
  | _ => none

private def pstepOfSExp : SExp → Option PStep
  | .sym "deliverRA" => some .deliverRA
  | .sym "deliverAR" => some .deliverAR
  | .list [.sym "r", st] => (pairSideStep st).map .r
  | .list [.sym "a", st] => (pairSideStep st).map .a
  | _ => none

private def outcomeSym : ProvOutcome → SExp
  | .released => .sym "released" | .rejected => .sym "rejected" | .aborted => .sym "aborted"

private def sentKinds (s : St) : List SExp :=
  s.sent.reverse.map fun f => match wireOf f with
    | .pdu e _ => .nat e
    | _ => .sym "none"

private def sideObs (s : St) : SExp :=
  .list [dulObs s, .list (sentKinds s), outcomeSym (provOutcome s), SExp.ofBool (abortedAwaiting s)]

private def pairObs (p : Pair) : SExp :=
  .list [sideObs p.r, sideObs p.a, SExp.ofBool p.up, .nat p.rSeen, .nat p.aSeen, SExp.ofBool p.rEof,
         SExp.ofBool p.aEof]

def pairOps (op : String) (args : List SExp) : Option SExp :=
  match op, args with
  | "pair.run", [.list steps] =>
    match steps.mapM pstepOfSExp with
    | none => some (.sym "ERR:args")
    | some sched =>
      let (_, out) := sched.foldl (fun (acc : Pair × List SExp) st =>
        let p' := Pair.step acc.1 st; (p', pairObs p' :: acc.2)) (Pair.init, [])
      some (.list out.reverse)
  | "pair.runok", [.list steps] =>
    match steps.mapM pstepOfSExp with
    | none => some (.sym "ERR:args")
    | some sched => some (SExp.ofBool (Pair.runOk Pair.init sched))
  | "pair.verdict", [.list steps] =>
    match steps.mapM pstepOfSExp with
    | none => some (.sym "ERR:args")
    | some sched =>
      let p := Pair.run Pair.init sched
      some (.list [SExp.ofBool (ended p.r), SExp.ofBool (ended p.a), outcomeSym (provOutcome p.r),
                   outcomeSym (provOutcome p.a), SExp.ofBool ((provOutcome p.r).agree (provOutcome p.a))])
  | _, _ => none

end PynetVerif.Driver
