import PynetVerif.Model.SExp
import PynetVerif.Model.Timeouts
import PynetVerif.Model.Idle
namespace PynetVerif.Driver
open PynetVerif.Timeouts

private def chunkOf : SExp → Option (Nat × Bytes)
  | .list [.nat d, .bytes b] => some (d, b)
  | _ => none

/-- `(recv.timeout <timeout|none> <eof|stall> ((delay bytes) ...) <need>)` → (ok data elapsed) | (timeout elapsed) | blocked -/
def timeoutsOps (op : String) (args : List SExp) : Option SExp :=
  match op, args with
  | "recv.timeout", [t, .sym tail, .list cs, .nat need] =>
    match cs.mapM chunkOf with
    | none => some (.sym "ERR:args")
    | some chunks =>
      let to := match t with | .nat n => some n | _ => none
      let r := recvN to (if tail == "eof" then .eof else .stall) chunks need [] 0
      some (match r with
        | .ok d e => .list [.sym "ok", .bytes d, .nat e]
        | .timedOut e => .list [.sym "timeout", .nat e]
        | .blocked => .sym "blocked")
  | "idle.aborted", [.sym pol, .nat t, .list cs] =>
    -- `(idle.aborted <perPdu|perChunk> <T> ((gap last) ...))` → T/F
    let chunk : SExp → Option (Nat × Bool)
      | .list [.nat g, .sym l] => some (g, l == "T")
      | _ => none
    match cs.mapM chunk with
    | none => some (.sym "ERR:args")
    | some chunks =>
      some (SExp.ofBool (PynetVerif.Idle.aborted (if pol == "perChunk" then .perChunk else .perPdu) t 0 chunks))
  | _, _ => none

end PynetVerif.Driver
