import PynetVerif.Model.SExp
import PynetVerif.Model.History
namespace PynetVerif.Driver
open PynetVerif.History

private def notifOfSExp : SExp → Notif
  | .sym "connOpen" => .connOpen | .sym "connClose" => .connClose
  | .list [.sym "fsm", .nat c, .nat e, .nat n] => .fsm c e n
  | .list [.sym "pduSent", .nat k] => .pduSent k | .list [.sym "pduRecv", .nat k] => .pduRecv k
  | .list [.sym "dataSent", .nat k] => .dataSent k | .list [.sym "dataRecv", .nat k] => .dataRecv k
  | .sym "established" => .established | .sym "released" => .released | .sym "aborted" => .aborted
  | .sym "rejected" => .rejected
  | _ => .other

/-- `(hist.wf <complete T/F> (<notif> ...))` → verdict symbol, sent (data, pdu) kinds, recv (data, pdu) kinds -/
def historyOps (op : String) (args : List SExp) : Option SExp :=
  match op, args with
  | "hist.wf", [.sym c, .list ns] =>
    let h := ns.map notifOfSExp
    let s := sentKinds h
    let r := recvKinds h
    some (.list [.sym (verdict (c == "T") h), .list (s.1.map .nat), .list (s.2.map .nat),
                 .list (r.1.map .nat), .list (r.2.map .nat)])
  | _, _ => none

end PynetVerif.Driver
