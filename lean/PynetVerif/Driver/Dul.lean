import PynetVerif.Model.SExp
import PynetVerif.Model.Dul
import PynetVerif.Model.DulAdmissible
namespace PynetVerif.Driver
open PynetVerif.Dul PynetVerif.Fsm

private def primOfSExp : SExp → Option Prim
  | .sym "assocRq" => some .assocRq | .sym "accept" => some .accept | .sym "reject" => some .reject
  | .sym "pdata" => some .pdata | .sym "releaseRq" => some .releaseRq | .sym "releaseRp" => some .releaseRp
  | .sym "abort" => some (.abort false) | .sym "pabort" => some (.abort true)
  | _ => none

private def primToSExp : Prim → SExp
  | .assocRq => .sym "assocRq" | .connectOk => .sym "connectOk" | .connectFail => .sym "connectFail"
  | .accept => .sym "accept" | .reject => .sym "reject" | .pdata => .sym "pdata"
  | .releaseRq => .sym "releaseRq" | .releaseRp => .sym "releaseRp"
  | .abort false => .sym "abort" | .abort true => .sym "pabort"

private def stepOfSExp : SExp → Option Step
  | .sym "a" => some .a
  | .sym "b" => some .b
  | .list [.sym "pdu", .nat e, .sym alt] => some (.env (.peer (.pdu e (alt == "T"))))
  | .sym "invalid" => some (.env (.peer .invalid))
  | .sym "eof" => some (.env (.peer .eof))
  | .sym "break" => some (.env .breakConn)
  | .sym "artimFire" => some (.env .artimFire)
  | .sym "connectWillFail" => some (.env .connectWillFail)
  | .list [.sym "local", p] => (primOfSExp p).map (fun p => .env (.local p))
  | _ => none

private def artimToSExp : Artim → SExp
  | .off => .sym "off" | .running => .sym "running" | .runningExpired => .sym "runningExpired"
  | .stoppedOk => .sym "stoppedOk" | .stoppedExpired => .sym "stoppedExpired"

/-- the observation of one reactor compared in lockstep with the real thread (13 fields) -/
def dulObs (s : St) : SExp :=
  .list [.nat s.fsm, .list (s.eventQ.map .nat), .list (s.provQ.map primToSExp), SExp.ofBool s.connected,
         SExp.ofBool s.artim.expired, SExp.ofBool s.kill, SExp.ofBool s.dead, .nat s.sent.length,
         .nat (s.toUser.filter (· != .indPdata)).length, .nat s.recvPdu.length, .nat s.closes,
         match s.log with
         | d :: _ => .list [.nat d.evt, .nat d.state, SExp.ofBool d.action.isSome, .nat d.next]
         | [] => .sym "none",
         SExp.ofBool (s.artim == .running || s.artim == .runningExpired)]

/-- `(dul.run <requestor T/F> (<step> ...))` → the observation after every step -/
def dulOps (op : String) (args : List SExp) : Option SExp :=
  match op, args with
  | "dul.run", [.sym r, .list steps] =>
    match steps.mapM stepOfSExp with
    | none => some (.sym "ERR:args")
    | some sched =>
      let s0 := if r == "T" then initRequestor else initAcceptor
      let (_, out) := sched.foldl (fun (acc : St × List SExp) st =>
        let s' := step acc.1 st; (s', dulObs s' :: acc.2)) (s0, [])
      some (.list out.reverse)
  | "dul.runok", [.sym r, .list steps] =>
    match steps.mapM stepOfSExp with
    | none => some (.sym "ERR:args")
    | some sched => some (SExp.ofBool (runOk (if r == "T" then initRequestor else initAcceptor) sched))
  | _, _ => none

end PynetVerif.Driver
