import PynetVerif.Model.SExp
import PynetVerif.Model.Status
namespace PynetVerif.Driver

def statusOps (op : String) (args : List SExp) : Option SExp :=
  match op, args with
  | "status", [.nat c] => some (.nat (Status.category c).toNat)
  | "scufinal", [.sym rq, .nat c] => some (SExp.ofBool (Status.scuFinal (rq == "T") c))
  | _, _ => none

end PynetVerif.Driver
