import PynetVerif.Model.SExp
import PynetVerif.Model.Release
namespace PynetVerif.Driver
open PynetVerif.Release

/-- `(release.serve <n> <arrival> <peekConsumes T/F>)` → (pending finalSent rpSent released) -/
def releaseOps (op : String) (args : List SExp) : Option SExp :=
  match op, args with
  | "release.serve", [.nat n, .nat a, .sym c] =>
    let o := serve n a (c == "T")
    some (.list [.nat o.pending, SExp.ofBool o.finalSent, SExp.ofBool o.rpSent, SExp.ofBool o.released])
  | _, _ => none

end PynetVerif.Driver
