import PynetVerif.Model.SExp
import PynetVerif.Model.Nego
import PynetVerif.Spec.Roles
/-
S-expression adapter of M-Nego.

  cx     ::= (id abs (ts ...) scu scp)          scu/scp ::= T | F | none
  roles  ::= ((uid scu scp) ...)
  wirecx ::= (id result (ts ...))
  (nego.acc (cx ...) (cx ...) roles)            -> (ok (acc ...) (item ...)) | (err index|key|value)
  (nego.unr (storage-like abs ...) (cx ...) (cx ...) roles)
  (nego.req (cx ...) (wirecx ...) roles)        -> (ok (req ...))
  (nego.assoc T|F (storage-like ...) (cx ...) roles (cx ...)) -> (ok (acc ...) (req ...))
  (roles.doc rqitem cfg)  rqitem ::= none | (scu scp)   cfg ::= (scu scp) over T|F|none
        -> none | default | inverted | both | rejected   (Spec.Roles.documented)
  acc  ::= (id abs result ts asScu asScp)   item ::= (uid scu scp)   req ::= (id abs result (ts ...) asScu asScp)
-/
namespace PynetVerif.Driver
open PynetVerif.Nego

private def roleOf : SExp → Option Role
  | .sym "T" => some (some true)
  | .sym "F" => some (some false)
  | .sym "none" => some none
  | _ => none

private def natsOf : List SExp → Option (List Nat)
  | [] => some []
  | .nat n :: r => (natsOf r).map (n :: ·)
  | _ => none

private def cxOf : SExp → Option Cx
  | .list [.nat i, .nat a, .list ts, u, p] => do
    let ts ← natsOf ts
    let u ← roleOf u
    let p ← roleOf p
    pure { id := i, abs := a, ts := ts, scu := u, scp := p }
  | _ => none

private def roleKvOf : SExp → Option (Nat × RolePair)
  | .list [.nat u, a, b] => do
    let a ← roleOf a
    let b ← roleOf b
    pure (u, (a, b))
  | _ => none

private def wireOf : SExp → Option WireCx
  | .list [.nat i, .nat r, .list ts] => do
    let ts ← natsOf ts
    pure { id := i, result := r, ts := ts }
  | _ => none

private def optBool : Option Bool → SExp
  | none => .sym "none"
  | some b => SExp.ofBool b

private def accToS (r : AccCx) : SExp :=
  .list [.nat r.id, .nat r.abs, .nat r.result, .nat r.ts, optBool r.asScu, optBool r.asScp]
private def itemToS (r : RoleItem) : SExp := .list [.nat r.uid, SExp.ofBool r.scu, SExp.ofBool r.scp]
private def reqToS (r : ReqCx) : SExp :=
  .list [.nat r.id, .nat r.abs, .nat r.result, .list (r.ts.map .nat), SExp.ofBool r.asScu, SExp.ofBool r.asScp]

private def errToS : Err → SExp
  | .index => .list [.sym "err", .sym "index"]
  | .key => .list [.sym "err", .sym "key"]
  | .value => .list [.sym "err", .sym "value"]

private def accResToS : Except Err (List AccCx × List RoleItem) → SExp
  | .error e => errToS e
  | .ok (res, items) => .list [.sym "ok", .list (res.map accToS), .list (items.map itemToS)]

private def outcomeToS : Option Spec.Roles.Outcome → SExp
  | none => .sym "none"
  | some .default => .sym "default"
  | some .inverted => .sym "inverted"
  | some .both => .sym "both"
  | some .rejected => .sym "rejected"

private def negoRun (op : String) (args : List SExp) : Option SExp :=
  match op, args with
  | "nego.acc", [.list rq, .list ac, .list roles] => do
    let rq ← rq.mapM cxOf
    let ac ← ac.mapM cxOf
    let roles ← roles.mapM roleKvOf
    pure (accResToS (negotiateAsAcceptor rq ac roles))
  | "nego.unr", [.list sl, .list rq, .list ac, .list roles] => do
    let sl ← natsOf sl
    let rq ← rq.mapM cxOf
    let ac ← ac.mapM cxOf
    let roles ← roles.mapM roleKvOf
    pure (accResToS (negotiateUnrestricted (fun a => sl.contains a) rq ac roles))
  | "nego.req", [.list rq, .list acs, .list roles] => do
    let rq ← rq.mapM cxOf
    let acs ← acs.mapM wireOf
    let roles ← roles.mapM roleKvOf
    pure (match negotiateAsRequestor rq acs roles with
      | .error e => errToS e
      | .ok out => .list [.sym "ok", .list (out.map reqToS)])
  | "nego.assoc", [.sym u, .list sl, .list rq, .list roles, .list ac] => do
    let sl ← natsOf sl
    let rq ← rq.mapM cxOf
    let ac ← ac.mapM cxOf
    let roles ← roles.mapM roleKvOf
    pure (match associate (u == "T") (fun a => sl.contains a) rq roles ac with
      | .error e => errToS e
      | .ok (res, out) => .list [.sym "ok", .list (res.map accToS), .list (out.map reqToS)])
  | "roles.doc", [rq, .list [cu, cp]] => do
    let cu ← roleOf cu
    let cp ← roleOf cp
    let item : Spec.Roles.Item ← match rq with
      | .sym "none" => some none
      | .list [.sym a, .sym b] => some (some (a == "T", b == "T"))
      | _ => none
    pure (outcomeToS (Spec.Roles.documented item (cu, cp)))
  | _, _ => none

def negoOps (op : String) (args : List SExp) : Option SExp :=
  if op == "nego.acc" || op == "nego.unr" || op == "nego.req" || op == "nego.assoc" || op == "roles.doc" then
    some ((negoRun op args).getD (.sym "ERR:args"))
  else none

end PynetVerif.Driver
