import PynetVerif.Model.SExp
import PynetVerif.Model.Pause
/-!
`(pause.run <recheck T/F> (<who> ...))` with `<who>` = `reactor` | `user` →
`(<reactor pc> <user pc> <paused> <chk> <ever overlapped>)` of the final state.
-/
namespace PynetVerif.Driver
open PynetVerif.Pause

private def whoOf : SExp → Option Who
  | .sym "reactor" => some .reactor
  | .sym "user" => some .user
  | _ => none

private def rpcSym : RPc → SExp
  | .setP => .sym "setP" | .wait => .sym "wait" | .clrP => .sym "clrP" | .recheck => .sym "recheck" | .body => .sym "body"
private def upcSym : UPc → SExp
  | .idle => .sym "idle" | .spin => .sym "spin" | .crit => .sym "crit"

def pauseOps (op : String) (args : List SExp) : Option SExp :=
  match op, args with
  | "pause.run", [.sym rc, .list ws] =>
    match ws.mapM whoOf with
    | none => some (.sym "ERR:args")
    | some sched =>
      let s := run (rc == "T") init sched
      some (.list [rpcSym s.r, upcSym s.u, SExp.ofBool s.paused, SExp.ofBool s.chk,
                   SExp.ofBool (everOverlap (rc == "T") init sched)])
  | _, _ => none

end PynetVerif.Driver
