import PynetVerif.Model.SExp
import PynetVerif.Model.Trigger
namespace PynetVerif.Driver
open PynetVerif.Trigger

private def hOf : SExp → H
  | .sym "raise" => .raise
  | .nat v => .ok v
  | _ => .ok 0

/-- `(trigger <notification|intervention> (<nat>|raise ...))` → (called value propagates);
`(reaction <event name>)` → documented reaction -/
def triggerOps (op : String) (args : List SExp) : Option SExp :=
  match op, args with
  | "trigger", [.sym k, .list hs] =>
    let r := trigger (if k == "intervention" then .intervention else .notification) (hs.map hOf)
    some (.list [.nat r.called, SExp.ofOptNat r.value, SExp.ofBool r.propagates])
  | "reaction", [.sym e] =>
    some (match documentedReaction e with
      | some (.status c) => .list [.sym "status", .nat c]
      | some .reject => .sym "reject"
      | some .default => .sym "default"
      | none => .sym "none")
  | _, _ => none

end PynetVerif.Driver
