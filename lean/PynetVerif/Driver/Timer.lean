import PynetVerif.Model.SExp
import PynetVerif.Model.Timer
/-!
`(timer <mono|wall> <timeout> (<op> ...))` — run the Timer model.
Integers: a natural, or `(neg n)`; timeout: integer or `none`.
Operations: `(start m off)`, `(stop m off)`, `(restart m off)`, `(expired m off)`,
`(remaining m off)`, `(set m off v)`; `m` the monotonic reading, `off` the
wall-clock offset at that moment.  Reply: list of `T`/`F` (expired) and integers
(remaining), in order.
-/
namespace PynetVerif.Driver
open PynetVerif.Timer

private def intOf : SExp → Option Int
  | .nat n => some (Int.ofNat n)
  | .list [.sym "neg", .nat n] => some (-(Int.ofNat n))
  | _ => none

private def sexpOfInt (i : Int) : SExp :=
  if i < 0 then .list [.sym "neg", .nat i.natAbs] else .nat i.toNat

private def optIntOf : SExp → Option (Option Int)
  | .sym "none" => some none
  | e => (intOf e).map some

private def stampedOf : SExp → Option Stamped
  | .list [.sym name, m, off] => do
    let m ← intOf m
    let off ← intOf off
    let op ← match name with
      | "start" => some Op.start
      | "stop" => some Op.stop
      | "restart" => some Op.restart
      | "expired" => some Op.expired
      | "remaining" => some Op.remaining
      | _ => none
    pure ⟨op, m, off⟩
  | .list [.sym "set", m, off, v] => do
    let m ← intOf m
    let off ← intOf off
    let v ← optIntOf v
    pure ⟨.setTimeout v, m, off⟩
  | _ => none

private def sexpOfObs : Obs → SExp
  | .bool b => SExp.ofBool b
  | .val r => sexpOfInt r

def timerOps (op : String) (args : List SExp) : Option SExp :=
  match op, args with
  | "timer", [.sym clock, timeout, .list ops] =>
    let c : Option Clock := match clock with
      | "mono" => some .monotonic
      | "wall" => some .wall
      | _ => none
    match c, optIntOf timeout, ops.mapM stampedOf with
    | some c, some to, some ops => some (.list ((runTimer c to ops).map sexpOfObs))
    | _, _, _ => some (.sym "ERR:bad-args")
  | _, _ => none

end PynetVerif.Driver
