import PynetVerif.Model.SExp
import PynetVerif.Model.Conform
/- S-expression adapter for the A-ASSOCIATE assembly/conformance model (C12).

cfg  = `(<calling> <called> ((<abstract> (<ts>…))…) <maxPdu> <implUid> <implVersion>|none (<ext>…))`
ext  = `(role u scu scp)` `(async i p)` `(userId t rr)` `(sopExt u info)` `(sopCommon u svc (rel…))`
tree = `(<called16> <calling16> (<app>…) ((<id> <result> (<abstract>…) (<ts>…))…) ((<sub>…)…))`
sub  = `(maxLength n)` `(implUid u)` `(async i p)` `(role u scu scp)` `(implVersion v)` `(sopExt u info)`
       `(sopCommon u svc (rel…))` `(userId t rr)` `userIdResponse` `(unknown tag)`

`(conform.rq cfg)`            → `(<acceptedByApi> <uidsLegal> <tree of buildRQ> <conformantRQ>)`
`(conform.check tree)`        → `(<structureRQ> <valuesOk>)`
`(conform.ac rqtree (res…) (sub…))` → `(<tree of buildAC> <conformantAC>)`, res = `(id result (ts…))`
`(conform.checkac rqtree actree)`   → `<conformantAC>` -/
namespace PynetVerif.Driver
open PynetVerif.Conform

private def bytesList : List SExp → Option (List Bytes)
  | [] => some []
  | .bytes b :: rest => (bytesList rest).map (b :: ·)
  | _ => none

private def mapM' {α β : Type} (f : α → Option β) : List α → Option (List β)
  | [] => some []
  | x :: xs => do
    let y ← f x
    let ys ← mapM' f xs
    pure (y :: ys)

private def tf (s : String) : Bool := s == "T"

private def extOf : SExp → Option Ext
  | .list [.sym "role", .bytes u, .sym a, .sym b] => some (.role u (tf a) (tf b))
  | .list [.sym "async", .nat i, .nat p] => some (.async i p)
  | .list [.sym "userId", .nat t, .sym r] => some (.userId t (tf r))
  | .list [.sym "sopExt", .bytes u, .bytes i] => some (.sopExt u i)
  | .list [.sym "sopCommon", .bytes u, .bytes s, .list rel] => (bytesList rel).map (.sopCommon u s ·)
  | _ => none

private def ctxOf : SExp → Option Ctx
  | .list [.bytes a, .list ts] => (bytesList ts).map (⟨a, ·⟩)
  | _ => none

private def cfgOf : SExp → Option Cfg
  | .list [.bytes calling, .bytes called, .list cxs, .nat mx, .bytes impl, ver, .list exts] => do
    let cxs ← mapM' ctxOf cxs
    let exts ← mapM' extOf exts
    let ver ← match ver with
      | .sym "none" => some none
      | .bytes v => some (some v)
      | _ => none
    pure ⟨calling, called, cxs, mx, impl, ver, exts⟩
  | _ => none

private def subOf : SExp → Option Sub
  | .list [.sym "maxLength", .nat n] => some (.maxLength n)
  | .list [.sym "implUid", .bytes u] => some (.implUid u)
  | .list [.sym "async", .nat i, .nat p] => some (.async i p)
  | .list [.sym "role", .bytes u, .sym a, .sym b] => some (.role u (tf a) (tf b))
  | .list [.sym "implVersion", .bytes v] => some (.implVersion v)
  | .list [.sym "sopExt", .bytes u, .bytes i] => some (.sopExt u i)
  | .list [.sym "sopCommon", .bytes u, .bytes s, .list rel] => (bytesList rel).map (.sopCommon u s ·)
  | .list [.sym "userId", .nat t, .sym r] => some (.userId t (tf r))
  | .sym "userIdResponse" => some .userIdResponse
  | .list [.sym "unknown", .nat t] => some (.unknown t)
  | _ => none

private def bl (l : List Bytes) : SExp := .list (l.map .bytes)

private def subTo : Sub → SExp
  | .maxLength n => .list [.sym "maxLength", .nat n]
  | .implUid u => .list [.sym "implUid", .bytes u]
  | .async i p => .list [.sym "async", .nat i, .nat p]
  | .role u a b => .list [.sym "role", .bytes u, SExp.ofBool a, SExp.ofBool b]
  | .implVersion v => .list [.sym "implVersion", .bytes v]
  | .sopExt u i => .list [.sym "sopExt", .bytes u, .bytes i]
  | .sopCommon u s r => .list [.sym "sopCommon", .bytes u, .bytes s, bl r]
  | .userId t r => .list [.sym "userId", .nat t, SExp.ofBool r]
  | .userIdResponse => .sym "userIdResponse"
  | .unknown t => .list [.sym "unknown", .nat t]

private def pcOf : SExp → Option Pc
  | .list [.nat i, .nat r, .list ab, .list ts] => do
    let ab ← bytesList ab
    let ts ← bytesList ts
    pure ⟨i, r, ab, ts⟩
  | _ => none

private def resOf : SExp → Option Pc
  | .list [.nat i, .nat r, .list ts] => (bytesList ts).map (⟨i, r, [], ·⟩)
  | _ => none

private def treeOf : SExp → Option Assoc
  | .list [.bytes cd, .bytes cg, .list app, .list pcs, .list user] => do
    let app ← bytesList app
    let pcs ← mapM' pcOf pcs
    let user ← mapM' (fun u => match u with
      | .list subs => mapM' subOf subs
      | _ => none) user
    pure ⟨cd, cg, app, pcs, user⟩
  | _ => none

private def treeTo (a : Assoc) : SExp :=
  .list [.bytes a.called, .bytes a.calling, bl a.app,
    .list (a.pcs.map fun p => .list [.nat p.id, .nat p.result, bl p.abstract, bl p.transfer]),
    .list (a.user.map fun u => .list (u.map subTo))]

def conformOps (op : String) (args : List SExp) : Option SExp :=
  match op, args with
  | "conform.rq", [c] =>
    match cfgOf c with
    | some c =>
      let t := buildRQ c
      some (.list [SExp.ofBool (acceptedByApi c), SExp.ofBool (uidsLegal c), treeTo t, SExp.ofBool (conformantRQ t)])
    | none => some (.sym "ERR:args")
  | "conform.check", [t] =>
    match treeOf t with
    | some t => some (.list [SExp.ofBool (structureRQ t), SExp.ofBool (valuesOk t)])
    | none => some (.sym "ERR:args")
  | "conform.ac", [rq, .list res, .list user] =>
    match treeOf rq, mapM' resOf res, mapM' subOf user with
    | some rq, some res, some user =>
      -- the acceptor sees the request's titles through the PDU setters (Policy.decodeTitle)
      match Policy.decodeTitle rq.called, Policy.decodeTitle rq.calling with
      | some cd, some cg =>
        let t := buildAC cd cg res user
        some (.list [treeTo t, SExp.ofBool (conformantAC rq t)])
      | _, _ => some (.sym "ERR:titles")
    | _, _, _ => some (.sym "ERR:args")
  | "conform.checkac", [rq, ac] =>
    match treeOf rq, treeOf ac with
    | some rq, some ac => some (SExp.ofBool (conformantAC rq ac))
    | _, _ => some (.sym "ERR:args")
  | _, _ => none

end PynetVerif.Driver
