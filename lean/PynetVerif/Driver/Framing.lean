import PynetVerif.Model.SExp
import PynetVerif.Model.Framing
namespace PynetVerif.Driver
open PynetVerif.Framing

private def rrOfSExp : SExp → Option RR
  | .nat k => some (.got k)
  | .sym "timeout" => some .timeout
  | _ => none

private def frameToSExp : Frame → SExp
  | .pdu b => .list [.sym "pdu", .bytes b]
  | .unrecognised h => .list [.sym "unrec", .bytes h]
  | .closed => .sym "closed"

/-- `(frame <stream> (<oracle> ...))` → list of frames -/
def framingOps (op : String) (args : List SExp) : Option SExp :=
  match op, args with
  | "frame", [.bytes s, .list ks] =>
    match ks.mapM rrOfSExp with
    | some ks => some (.list ((frames (s.length + 2) s ks).map frameToSExp))
    | none => some (.sym "ERR:args")
  | _, _ => none

end PynetVerif.Driver
