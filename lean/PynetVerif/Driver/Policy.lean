import PynetVerif.Model.SExp
import PynetVerif.Model.Policy
/- S-expression adapter for the acceptance-policy model (C13).

`(assoc.policy (<required calling title>…) <requireCalled T/F> <ae title> <max>
               <calling raw> <called raw> <identity> <active>)`
identity = `none` | `(<type> <responseRequested T/F> <handler>)`,
handler = `notBound` | `raises` | `(returns <ok T/F> <response T/F>)`.
Reply: `(<outcome> <service loop entered T/F> <identity response item T/F>)`,
outcome = `accept` | `invalid` | `(reject r s d)`. -/
namespace PynetVerif.Driver
open PynetVerif.Policy

private def titles : List SExp → Option (List Title)
  | [] => some []
  | .bytes b :: rest => (titles rest).map (b :: ·)
  | _ => none

private def handlerOf : SExp → Option Handler
  | .sym "notBound" => some .notBound
  | .sym "raises" => some .raises
  | .list [.sym "returns", .sym ok, .sym r] => some (.returns (ok == "T") (r == "T"))
  | _ => none

private def identityOf : SExp → Option (Option Identity)
  | .sym "none" => some none
  | .list [.nat t, .sym rr, h] => (handlerOf h).map fun h => some ⟨t, rr == "T", h⟩
  | _ => none

private def outcomeToSExp : Outcome → SExp
  | .invalid => .sym "invalid"
  | .accept => .sym "accept"
  | .reject (r, s, d) => .list [.sym "reject", .nat r, .nat s, .nat d]

def policyOps (op : String) (args : List SExp) : Option SExp :=
  match op, args with
  | "assoc.policy", [.list req, .sym rc, .bytes ae, .nat mx, .bytes calling, .bytes called, ident, .nat active] =>
    match titles req, identityOf ident with
    | some req, some ident =>
      let p : Policy := ⟨req, rc == "T", ae, mx⟩
      let o := decideAssoc p calling called ident active
      let tr := runAcceptor p calling called ident active ⟨false, false⟩
      some (.list [outcomeToSExp o, SExp.ofBool (tr.contains .serviceLoop),
        SExp.ofBool (o == .accept && identityResponse ident)])
    | _, _ => some (.sym "ERR:args")
  | "assoc.policy", _ => some (.sym "ERR:args")
  | _, _ => none

end PynetVerif.Driver
