import PynetVerif.Model.SExp
import PynetVerif.Model.Life
/-!
`(life.accepts <acceptor T/F> <guard T/F> (<notif> ...))` → `T` / `F`: can the lifecycle model emit
this history?  `(life.run <acceptor> <guard> (<op> ...))` → `(<runOk> (<notif> ...) <est> <rel> <abt> <rej>)`.
Notifications: `requested accepted established released aborted rejected`; operations: `(a <env>)`,
`uAbort`, `uRelease`, `(u <env>)`, `dulCrash`.
-/
namespace PynetVerif.Driver
open PynetVerif.Life

private def nOf : SExp → Option N
  | .sym "requested" => some .requested
  | .sym "accepted" => some .accepted
  | .sym "established" => some .established
  | .sym "released" => some .released
  | .sym "aborted" => some .aborted
  | .sym "rejected" => some .rejected
  | _ => none

private def nSym : N → SExp
  | .requested => .sym "requested" | .accepted => .sym "accepted" | .established => .sym "established"
  | .released => .sym "released" | .aborted => .sym "aborted" | .rejected => .sym "rejected"

private def envOf : String → Option Env
  | "tick" => some .tick | "timeout" => some .timeout | "reject" => some .reject | "accept" => some .accept
  | "acceptNoCx" => some .acceptNoCx | "invalid" => some .invalid | "peerAbort" => some .peerAbort
  | "peerRelease" => some .peerRelease | "connectFail" => some .connectFail | "dulDead" => some .dulDead
  | "idleAbort" => some .idleAbort | "idleReleaseOk" => some .idleReleaseOk
  | "idleReleaseFail" => some .idleReleaseFail | "noContexts" => some .noContexts
  | _ => none

private def opOf : SExp → Option Op
  | .sym "uAbort" => some .uAbort
  | .sym "uRelease" => some .uRelease
  | .sym "dulCrash" => some .dulCrash
  | .list [.sym "a", .sym e] => (envOf e).map .a
  | .list [.sym "u", .sym e] => (envOf e).map .u
  | _ => none

def lifeOps (op : String) (args : List SExp) : Option SExp :=
  match op, args with
  | "life.accepts", [.sym acc, .sym g, .list ns] =>
    match ns.mapM nOf with
    | none => some (.sym "ERR:args")
    | some h => some (SExp.ofBool (accepts ⟨acc == "T", g == "T"⟩ h))
  | "life.run", [.sym acc, .sym g, .list os] =>
    match os.mapM opOf with
    | none => some (.sym "ERR:args")
    | some ops =>
      let c : Cfg := ⟨acc == "T", g == "T"⟩
      let s := run c init ops
      some (.list [SExp.ofBool (runOk c init ops), .list (s.hist.map nSym), SExp.ofBool s.core.est,
                   SExp.ofBool s.core.rel, SExp.ofBool s.core.abt, SExp.ofBool s.core.rej])
  | _, _ => none

end PynetVerif.Driver
