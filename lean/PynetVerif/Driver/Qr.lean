import PynetVerif.Model.SExp
import PynetVerif.Model.QrMatch
import PynetVerif.Spec.Match
/- S-expression adapter for C29: one request carries a database (rows of 12
optional strings) and a list of queries; per query the reply has the model's
result of `search`, the PS3.4 selection for both admissible PN case rules,
and the keys on which the code's SQL condition and the PS3.4 matcher disagree
for some row.  Strings travel as byte strings (ASCII alphabet). -/
namespace PynetVerif.Driver
open PynetVerif

namespace Qr

def strOfBytes (b : Bytes) : List Char := b.map (fun x => Char.ofNat x.toNat)

def optStr : SExp → Option (Option (List Char))
  | .sym "none" => some none
  | .bytes b => some (some (strOfBytes b))
  | _ => none

def rowOf : SExp → Option (List (Option (List Char)))
  | .list xs => xs.mapM optStr
  | _ => none

def valOf : SExp → Option QrMatch.Val
  | .sym "none" => some .none
  | .bytes b => some (.str (strOfBytes b))
  | .list (.sym "m" :: xs) =>
    (xs.mapM (fun (x : SExp) => match x with | SExp.bytes b => some (strOfBytes b) | _ => none)).map .multi
  | _ => none

def modelKey : SExp → Option (Nat × QrMatch.Val)
  | .list [.nat c, v] => (valOf v).map (fun x => (c, x))
  | _ => none

def specKey : SExp → Option (Nat × Spec.Match.Key)
  | .list [.nat c, .list xs] =>
    (xs.mapM (fun (x : SExp) => match x with | SExp.bytes b => some (strOfBytes b) | _ => none)).map (fun k => (c, k))
  | _ => none

def natList (tag : String) (xs : List Nat) : SExp := .list (.sym tag :: xs.map .nat)

def resultSExp : QrMatch.Result → SExp
  | .invalid => .sym "invalid"
  | .error => .sym "error"
  | .rows is => natList "rows" is

def specSExp : Option (List Nat) → SExp
  | none => .sym "invalid"
  | some is => natList "ents" is

/-- keys (column, first row index) where the SQL condition of the model and the PS3.4 matcher
(under both PN case rules) give different answers; row index 999999 = the condition raises -/
def keyDiffs (mk : List (Nat × QrMatch.Val)) (sk : List (Nat × Spec.Match.Key))
    (rows : List (List (Option (List Char)))) : List SExp :=
  sk.filterMap (fun (c, key) =>
    match mk.find? (fun k => k.1 == c), Spec.Match.attrs[c]? with
    | some (_, val), some a =>
      let f := QrMatch.buildFilter ((QrMatch.vrs[c]?).getD "UN") val
      if f == .error then some (.list [.nat c, .nat 999999])
      else
        let bad := ((List.range rows.length).zip rows).find? (fun (_, r) =>
          let v := QrMatch.Row.col r c
          let m := QrMatch.evalFilter f v
          m != Spec.Match.matchKey false a.vr key v && m != Spec.Match.matchKey true a.vr key v)
        bad.map (fun (i, _) => .list [.nat c, .nat i])
    | _, _ => none)

def oneQuery (rows : List (List (Option (List Char)))) : SExp → SExp
  | .list [.sym root, .sym retr, lvl, .list mks, .list sks] =>
    match mks.mapM modelKey, sks.mapM specKey with
    | some mk, some sk =>
      let retrieve := retr == "T"
      let lvlStr : Option String := match lvl with
        | .bytes b => some (String.ofList (strOfBytes b))
        | _ => none
      let mroot := if root == "P" then QrMatch.Root.patientRoot else QrMatch.Root.studyRoot
      let sroot := if root == "P" then Spec.Match.Root.patientRoot else Spec.Match.Root.studyRoot
      let mres := QrMatch.search mroot retrieve { level := lvlStr, keys := mk } rows
      let sid : Spec.Match.Ident := { level := lvlStr.bind Spec.Match.parseLevel, keys := sk }
      let sel := fun pn => if retrieve then Spec.Match.selectRetrieve pn sroot sid rows
                           else Spec.Match.selectFind pn sroot sid rows
      .list [resultSExp mres, specSExp (sel false), specSExp (sel true), .list (keyDiffs mk sk rows)]
    | _, _ => .sym "ERR:args"
  | _ => .sym "ERR:args"

end Qr

def qrOps (op : String) (args : List SExp) : Option SExp :=
  match op, args with
  | "qr.batch", [.list rs, .list qs] =>
    match rs.mapM Qr.rowOf with
    | some rows => some (.list (qs.map (Qr.oneQuery rows)))
    | none => some (.sym "ERR:args")
  | "qr.wild", [.bytes p, .bytes s] => some (SExp.ofBool (Spec.Match.wild (Qr.strOfBytes p) (Qr.strOfBytes s)))
  | "qr.like", [.bytes p, .bytes s] => some (SExp.ofBool (QrMatch.like (Qr.strOfBytes p) (Qr.strOfBytes s)))
  | _, _ => none

end PynetVerif.Driver
