import PynetVerif.Model.SExp
import PynetVerif.Model.Deliver
namespace PynetVerif.Driver
open PynetVerif.Deliver

private def bytesOf : SExp → Option Bytes
  | .bytes b => some b
  | _ => none

/-- `(deliver <memory|chunked> <metaRest> (<frag> ...) <evMeta>)` →
(file-or-none, encoded_dataset(False), encoded_dataset(True), dataset source bytes) -/
def deliverOps (op : String) (args : List SExp) : Option SExp :=
  match op, args with
  | "deliver", [.sym mode, .bytes metaRest, .list frags, .bytes evMeta] =>
    match frags.mapM bytesOf with
    | none => some (.sym "ERR:args")
    | some fs =>
      let s := store (if mode == "chunked" then .chunked else .memory) metaRest fs
      some (.list [match s.file with | some f => .bytes f | none => .sym "none",
                   .bytes (encodedDataset s evMeta false), .bytes (encodedDataset s evMeta true),
                   .bytes (datasetSource s)])
  | "deliver.sendfile", [.bytes file] => some (.bytes (chunkedSendBytes file))
  | _, _ => none

end PynetVerif.Driver
