import PynetVerif.Model.SExp
import PynetVerif.Spec.Ps38Fsm
/- S-expression adapter: what PS3.8 expects for one (event, state, requestor, alt) input. -/
namespace PynetVerif.Driver
open PynetVerif.Fsm

private def effToSExp : Eff → SExp
  | .connect => .sym "connect" | .sendRq => .sym "sendRq" | .sendAc => .sym "sendAc"
  | .sendRj a b c => .list [.sym "sendRj", .nat a, .nat b, .nat c]
  | .sendPdata => .sym "sendPdata" | .sendRelRq => .sym "sendRelRq" | .sendRelRp => .sym "sendRelRp"
  | .sendAbort a b => .list [.sym "sendAbort", .nat a, .nat b]
  | .close => .sym "close" | .indAssocRq => .sym "indAssocRq" | .confAccept => .sym "confAccept"
  | .confReject => .sym "confReject" | .indPdata => .sym "indPdata" | .indRelease => .sym "indRelease"
  | .confRelease => .sym "confRelease" | .indAbort a => .list [.sym "indAbort", .nat a]
  | .indPAbort a => .list [.sym "indPAbort", .nat a]
  | .artimStart => .sym "artimStart" | .artimStop => .sym "artimStop" | .artimRestart => .sym "artimRestart"
  | .sentinel => .sym "sentinel" | .notifyConnClose => .sym "notifyConnClose" | .kill => .sym "kill"
  | .popPrim => .sym "popPrim" | .popPdu => .sym "popPdu" | .other => .sym "other"

private def fsmExpected : List SExp → SExp
  | [.nat e, .nat s, .sym r, .sym a] =>
    match Spec.Ps38.expected (e, s, r == "T", a == "T") with
    | .invalid => .sym "invalid"
    | .raised => .sym "raised"
    | .ok effs n => .list [.sym "ok", .list (effs.map effToSExp), .nat n]
  | _ => .sym "ERR:args"

def fsmOps (op : String) (args : List SExp) : Option SExp :=
  match op with
  | "fsm.expected" => some (fsmExpected args)
  | _ => none

end PynetVerif.Driver
