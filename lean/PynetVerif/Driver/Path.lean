import PynetVerif.Model.SExp
import PynetVerif.Model.Path
import PynetVerif.Gen.Paths
/- S-expression adapter for the path model (C30).  Strings travel as lists of
code points.  The digit class is the real one: the extension of the real
`re.sub` on every code point, regenerated into `Gen.Paths.keepRuns`. -/
namespace PynetVerif.Driver
open PynetVerif.Path

namespace PathD

/-- the characters the real `\d` matches: kept by the real sanitiser and not '.' -/
def realDigit (c : Char) : Bool := inRuns Gen.Paths.keepRuns c.toNat && c != '.'

def strOfSExp : SExp → Option Str
  | .list xs => xs.mapM (fun x => match x with | .nat n => some (Char.ofNat n) | _ => none)
  | _ => none

def sexpOfStr (s : Str) : SExp := .list (s.map (fun c => .nat c.toNat))

def kindOf (n : Str) : SExp := .sym (if properName n then "child" else "notchild")

end PathD
open PathD

def pathOps (op : String) (args : List SExp) : Option SExp :=
  match op, args with
  | "path.qrscp", [d, u] =>
    match strOfSExp d, strOfSExp u with
    | some dir, some uid =>
      let name := qrscpName realDigit uid
      some (.list [sexpOfStr (qrscpTarget realDigit dir uid), sexpOfStr name, kindOf name])
    | _, _ => some (.sym "ERR:args")
  | "path.storescp", [d, c, u] =>
    match strOfSExp c, strOfSExp u with
    | some cls, some uid =>
      let dir := match d with | .sym _ => some none | x => (strOfSExp x).map some
      match dir with
      | some dir =>
        let name := storescpName realDigit Gen.Paths.prefixes Gen.Paths.defaultPrefix cls uid
        some (.list [sexpOfStr (storescpTarget realDigit Gen.Paths.prefixes Gen.Paths.defaultPrefix dir cls uid),
                     sexpOfStr name, kindOf name])
      | none => some (.sym "ERR:args")
    | _, _ => some (.sym "ERR:args")
  | "path.join", [a, b] =>
    match strOfSExp a, strOfSExp b with
    | some x, some y => some (sexpOfStr (join x y))
    | _, _ => some (.sym "ERR:args")
  | "path.resolve", [a] =>
    match strOfSExp a with
    | some x => some (.list ((resolve x).map sexpOfStr))
    | _ => some (.sym "ERR:args")
  | _, _ => none

end PynetVerif.Driver
