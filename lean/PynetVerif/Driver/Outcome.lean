import PynetVerif.Model.SExp
import PynetVerif.Model.Outcome
namespace PynetVerif.Driver
open PynetVerif.History PynetVerif.Outcome

private def notifOf : SExp → Notif
  | .sym "established" => .established | .sym "released" => .released | .sym "aborted" => .aborted
  | .sym "rejected" => .rejected | .sym "connOpen" => .connOpen | .sym "connClose" => .connClose
  | _ => .other

private def sideOf : SExp → Option Side
  | .list [.sym e, .sym r, .sym a, .sym j, .list h] =>
    some ⟨e == "T", r == "T", a == "T", j == "T", h.map notifOf⟩
  | _ => none

/-- `(outcome.verdict <requestor side> <acceptor side>)`, side = (established released aborted rejected (notif …)) -/
def outcomeOps (op : String) (args : List SExp) : Option SExp :=
  match op, args with
  | "outcome.verdict", [a, b] =>
    match sideOf a, sideOf b with
    | some a, some b => some (.sym (verdict a b))
    | _, _ => some (.sym "ERR:args")
  | _, _ => none

end PynetVerif.Driver
