import PynetVerif.Model.SExp
import PynetVerif.Model.MaxAssoc
/- S-expression adapter for the maximum-associations model (C14).

`(maxassoc <max> (<act>…))`, act = `spawn` | `(check i)` | `(establish i)` | `(finish i)` | `(die i)`.
Reply: `((<enabled T/F> <live> <established> <phase of the acting thread after the step>)… ) (<final phase>…)`
as a two-element list. -/
namespace PynetVerif.Driver
open PynetVerif.MaxAssoc

private def actOf : SExp → Option Act
  | .sym "spawn" => some .spawn
  | .list [.sym "check", .nat i] => some (.check i)
  | .list [.sym "establish", .nat i] => some (.establish i)
  | .list [.sym "finish", .nat i] => some (.finish i)
  | .list [.sym "die", .nat i] => some (.die i)
  | _ => none

private def actsOf : List SExp → Option (List Act)
  | [] => some []
  | x :: rest => do
    let a ← actOf x
    let r ← actsOf rest
    pure (a :: r)

private def phaseName : Phase → String
  | .spawned => "spawned" | .passed => "passed" | .established => "established"
  | .rejected => "rejected" | .ended => "ended" | .dead => "dead"

private def actor (s : State) : Act → Option Phase
  | .spawn => s.getLast?
  | .check i | .establish i | .finish i | .die i => s[i]?

/-- `MaxAssoc.trace` plus the phase of the acting thread after each step -/
private def traceX (mx : Nat) : State → List Act → List SExp
  | _, [] => []
  | s, a :: rest =>
    let s' := step mx s a
    let ph := match actor s' a with
      | some ph => SExp.sym (phaseName ph)
      | none => SExp.sym "none"
    SExp.list [SExp.ofBool (enabled s a), .nat (live s'), .nat (established s'), ph] :: traceX mx s' rest

def maxAssocOps (op : String) (args : List SExp) : Option SExp :=
  match op, args with
  | "maxassoc", [.nat mx, .list acts] =>
    match actsOf acts with
    | some acts =>
      some (.list [.list (traceX mx [] acts),
        .list ((run mx [] acts).map fun ph => .sym (phaseName ph))])
    | none => some (.sym "ERR:args")
  | "maxassoc", _ => some (.sym "ERR:args")
  | _, _ => none

end PynetVerif.Driver
