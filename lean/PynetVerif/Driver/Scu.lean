import PynetVerif.Model.SExp
import PynetVerif.Model.Scu
/- S-expression adapter for the SCU model (C24, and the SCU finality probe of C28). -/
namespace PynetVerif.Driver
open PynetVerif.Scu

private def kindOfSym : String → Option Kind
  | "find" => some .find | "get" => some .get | "move" => some .move | "store" => some .store
  | "echo" => some .echo | "nAction" => some .nAction | "nCreate" => some .nCreate
  | "nDelete" => some .nDelete | "nEventReport" => some .nEventReport | "nGet" => some .nGet
  | "nSet" => some .nSet | _ => none

private def identOfSym : String → Option Ident
  | "absent" => some .absent | "empty" => some .empty | "good" => some .good | "bad" => some .bad
  | _ => none

private def noRspOfSym : String → Option NoRsp
  | "timeout" => some .timeout | "aAbort" => some .aAbort | "apAbort" => some .apAbort
  | "dead" => some .dead | _ => none

private def storeCxOfSym : String → Option StoreCx
  | "noClass" => some .noClass | "unaccepted" => some .unaccepted | "accepted" => some .accepted
  | _ => none

private def svcOfSym : String → Option Svc
  | "echo" => some .echo | "store" => some .store | "nDelete" => some .nDelete
  | "nAction" => some .nAction | "nCreate" => some .nCreate | "nEventReport" => some .nEventReport
  | "nGet" => some .nGet | "nSet" => some .nSet | _ => none

private def msgOfSExp : SExp → Option PeerMsg
  | .list [.sym "rsp", .sym k, .sym v, .nat st, .sym id] => do
      let k ← kindOfSym k
      let id ← identOfSym id
      pure (.rsp k (v == "T") st id)
  | .list [.sym "storeRq", .sym cx] => do pure (.storeRq (← storeCxOfSym cx))
  | .list [.sym "none", .sym w] => do pure (.none (← noRspOfSym w))
  | _ => none

private def msgsOfSExp : List SExp → Option (List PeerMsg)
  | [] => some []
  | x :: xs => do
      let m ← msgOfSExp x
      let ms ← msgsOfSExp xs
      pure (m :: ms)

private def identResToSExp : IdentRes → SExp
  | .none => .sym "none" | .emptyDs => .sym "empty" | .ds => .sym "ds"

private def yieldToSExp (y : Yield) : SExp :=
  .list [SExp.ofOptNat y.status, identResToSExp y.ident, SExp.ofBool y.lockHeld, SExp.ofBool y.paused]

/-- the observable summary of a trace:
(yields aborts recvs (store-rsp statuses) checkpoint-set-at-end lock-held-at-end raised return) -/
private def summary (es : List Ev) : SExp :=
  let fin := finalState St.init es
  .list [
    .list ((observe St.init es).map yieldToSExp),
    .nat (aborts es), .nat (recvs es), .list ((storeRsps es).map .nat),
    SExp.ofBool fin.ckpt, SExp.ofBool fin.lock, SExp.ofBool (raised es),
    match returned es with
    | none => .sym "none"
    | some (s, r) => .list [SExp.ofOptNat s, identResToSExp r]]

private def scuRun : List SExp → SExp
  | [.sym svc, .list msgs] =>
    match msgsOfSExp msgs with
    | none => .sym "ERR:msg"
    | some peer =>
      match svc with
      | "find" => summary (sendCFind false peer)
      | "findrq" => summary (sendCFind true peer)
      | "get" => summary (sendCGet peer)
      | "move" => summary (sendCMove peer)
      | "cancel" => summary sendCCancel
      | s =>
        match svcOfSym s with
        | some v => summary (sendSingle v peer)
        | none => .sym "ERR:svc"
  | _ => .sym "ERR:args"

def scuOps (op : String) (args : List SExp) : Option SExp :=
  match op with
  | "scu.run" => some (scuRun args)
  | _ => none

end PynetVerif.Driver
