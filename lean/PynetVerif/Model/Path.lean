/-
Model of how the two storage applications build the path they write to (C30).

  storescp  pynetdicom/apps/common.py::handle_store
      sop_instance = re.sub(r"[^\d.]", "_", ds.SOPInstanceUID)
      mode_prefix  = SOP_CLASS_PREFIXES[sop_class][0]   (KeyError -> "UN")
      filename     = f"{mode_prefix}.{sop_instance}"
      if args.output_directory is not None:
          filename = os.path.join(args.output_directory, filename)
      open(filename, "wb") / ds.save_as(filename)
  qrscp     pynetdicom/apps/qrscp/handlers.py::handle_store
      fpath = os.path.join(storage_dir, re.sub(r"[^\d.]", "_", sop_instance))
      ds.save_as(fpath)

Python strings are modelled as `List Char`.  Python's `\d` matches every
Unicode decimal digit (category Nd), not only ASCII 0-9, so the digit class is
a *parameter* `isDigit : Char → Bool`; the theorems need of it only that it
excludes '/' and NUL (the real extension of the sanitiser on all code points
is regenerated into `Gen.Paths.keepRuns`, and `Props/C30` checks that fact on
it).  `os.path.join` is the POSIX one (`posixpath.join`), including its
quirk that an absolute second component *replaces* the first.
-/
namespace PynetVerif.Path

abbrev Str := List Char

def nul : Char := Char.ofNat 0

/-- the characters `[^\d.]` does NOT match, i.e. the ones `re.sub` keeps -/
def keep (isDigit : Char → Bool) (c : Char) : Bool := isDigit c || c == '.'

/-- `re.sub(r"[^\d.]", "_", s)`: every character outside the class becomes '_'. -/
def sanitise (isDigit : Char → Bool) (s : Str) : Str :=
  s.map (fun c => if keep isDigit c then c else '_')

/-- `posixpath.join(a, b)`:
      if b.startswith('/'): path = b
      elif not path or path.endswith('/'): path += b
      else: path += '/' + b -/
def join (a b : Str) : Str :=
  if b.head? == some '/' then b
  else if a.isEmpty || a.getLast? == some '/' then a ++ b
  else a ++ '/' :: b

/-- `p.split('/')` -/
def split : Str → List Str
  | [] => [[]]
  | c :: cs =>
    if c = '/' then [] :: split cs
    else match split cs with
      | h :: t => (c :: h) :: t
      | [] => [[c]]

def isAbs (p : Str) : Bool := p.head? == some '/'

/-- One step of lexical path resolution (what the kernel's path walk does in
the absence of symbolic links, and what `os.path.normpath` computes): the
stack holds the components reached so far, innermost first.  Empty and "."
components stay, ".." goes to the parent (the root is its own parent; a
relative path keeps leading ".."). -/
def normStep (abs : Bool) (stack : List Str) (comp : Str) : List Str :=
  if comp = [] ∨ comp = ['.'] then stack
  else if comp = ['.', '.'] then
    match stack with
    | top :: rest => if top = ['.', '.'] then comp :: stack else rest
    | [] => if abs then [] else [comp]
  else comp :: stack

/-- the directory entry a path denotes, as the list of names walked from the
root (absolute) or from the current directory (relative) -/
def resolve (p : Str) : List Str :=
  ((split p).foldl (normStep (isAbs p)) []).reverse

/-- a name that denotes a proper entry *inside* the directory it is joined to -/
def properName (n : Str) : Prop := n ≠ [] ∧ n ≠ ['.'] ∧ n ≠ ['.', '.']

instance (n : Str) : Decidable (properName n) := by unfold properName; exact inferInstance

/-- `SOP_CLASS_PREFIXES[sop_class][0]` with `except KeyError: "UN"` (the default is a parameter,
regenerated from the source) -/
def prefixOf (tbl : List (Str × Str)) (dflt : Str) (cls : Str) : Str :=
  match tbl.lookup cls with
  | some p => p
  | none => dflt

/-- `f"{mode_prefix}.{sop_instance}"` -/
def storescpName (isDigit : Char → Bool) (tbl : List (Str × Str)) (dflt cls uid : Str) : Str :=
  prefixOf tbl dflt cls ++ '.' :: sanitise isDigit uid

/-- storescp: `args.output_directory` may be `None` (then the bare name is opened, relative to the cwd) -/
def storescpTarget (isDigit : Char → Bool) (tbl : List (Str × Str)) (dflt : Str)
    (dir : Option Str) (cls uid : Str) : Str :=
  match dir with
  | none => storescpName isDigit tbl dflt cls uid
  | some d => join d (storescpName isDigit tbl dflt cls uid)

def qrscpName (isDigit : Char → Bool) (uid : Str) : Str := sanitise isDigit uid

def qrscpTarget (isDigit : Char → Bool) (dir uid : Str) : Str := join dir (qrscpName isDigit uid)

/-- what a prefix must satisfy for `prefix.<anything>` to be a proper single component -/
def okPrefix (p : Str) : Bool :=
  !p.isEmpty && !p.contains '/' && !p.contains nul && p.head? != some '.'

/-- membership in a list of inclusive runs -/
def inRuns (rs : List (Nat × Nat)) (n : Nat) : Bool :=
  rs.any (fun r => Nat.ble r.1 n && Nat.ble n r.2)

end PynetVerif.Path
