import PynetVerif.Model.Dul
import PynetVerif.Model.DulAdmissible
/-!
M-PAIR: the two-sided product of the reactor model (`Model/Dul.lean`).

Two reactors — the requestor's `r` and the acceptor's `a` — composed through two FIFO, lossless
byte channels.  Nothing of the reactor is re-modelled: a per-side step IS `Dul.step`; the only new
things are the two deliveries (the next PDU a side has put on the wire becomes readable in the other
side's inbox; once a side has closed its socket or stopped, and everything it sent has been
delivered, EOF becomes readable) and the fact that the acceptor's reactor comes into existence when
the requestor's transport connection is made (AE-1).  `Env.peer` steps of the single-reactor model
are not steps of the product: the peer IS the other reactor.
-/
namespace PynetVerif
open Dul Fsm

/-- the PDU a send effect puts on the wire, as the other side's transport reads it
(`alt` of an A-ABORT PDU: provider-sourced) -/
def wireOf : Eff → Wire
  | .sendRq => .pdu 6 false
  | .sendAc => .pdu 3 false
  | .sendRj .. => .pdu 4 false
  | .sendPdata => .pdu 10 false
  | .sendRelRq => .pdu 12 false
  | .sendRelRp => .pdu 13 false
  | .sendAbort src _ => .pdu 16 (src == 2)
  | _ => .invalid             -- not a PDU: never in `St.sent` (`applyEff` records `isSend` effects only)

structure Pair where
  r : St := initRequestor
  a : St := initAcceptor
  /-- the transport connection has been made: the acceptor's reactor exists -/
  up : Bool := false
  /-- how many of `r.sent` (oldest first) have been delivered into `a.inbox` -/
  rSeen : Nat := 0
  aSeen : Nat := 0
  /-- EOF of the r→a direction has been delivered -/
  rEof : Bool := false
  aEof : Bool := false
  deriving Repr

inductive PStep
  | r (st : Step) | a (st : Step)
  | deliverRA | deliverAR
  deriving DecidableEq, Repr

namespace Pair

def init : Pair := {}

/-- per-side steps of the product: everything but `Env.peer` -/
def allowed : Step → Bool
  | .env (.peer _) => false
  | _ => true

/-- the side no longer writes: its socket object is closed, or its reactor has stopped (every action
that leads to Sta1 closes or shuts down the socket) -/
def closed (s : St) : Bool := !s.connected || s.kill

/-- the `n`-th PDU a side has put on the wire (`sent` is most-recent-first) -/
def nth (s : St) (n : Nat) : Option Eff := s.sent.reverse[n]?

/-- one delivery from `snd` into `rcv`'s inbox: the next undelivered PDU; when there is none and the
sender has closed, EOF (once) -/
def deliver (snd rcv : St) (seen : Nat) (eof : Bool) : St × Nat × Bool :=
  match nth snd seen with
  | some f => (env (.peer (wireOf f)) rcv, seen + 1, eof)
  | none => if closed snd && !eof then (env (.peer .eof) rcv, seen, true) else (rcv, seen, eof)

def step (p : Pair) : PStep → Pair
  | .r st =>
    if allowed st then
      let r' := Dul.step p.r st
      { p with r := r', up := p.up || r'.connected }
    else p
  | .a st => if allowed st && p.up then { p with a := Dul.step p.a st } else p
  | .deliverRA =>
    if p.up then
      let d := deliver p.r p.a p.rSeen p.rEof
      { p with a := d.1, rSeen := d.2.1, rEof := d.2.2 }
    else p
  | .deliverAR =>
    if p.up then
      let d := deliver p.a p.r p.aSeen p.aEof
      { p with r := d.1, aSeen := d.2.1, aEof := d.2.2 }
    else p

def run (p : Pair) (sched : List PStep) : Pair := sched.foldl step p

/-- synchronous admissibility of both local users (`Dul.stepOkSync` of the side the step belongs to: primitives only at quiescent points — the streamed P-DATA requests `Dul.stepOk` also admits are not part of the C06 hypotheses) -/
def stepOk (p : Pair) : PStep → Bool
  | .r st => Dul.stepOkSync p.r st
  | .a st => Dul.stepOkSync p.a st
  | _ => true

def runOk : Pair → List PStep → Bool
  | _, [] => true
  | p, st :: rest => stepOk p st && runOk (step p st) rest

/-- the step is not a send failure injected by the environment -/
def noBreak : PStep → Bool
  | .r (.env .breakConn) | .a (.env .breakConn) => false
  | _ => true

end Pair
end PynetVerif

/-! ### what is observed of the wire: event sequences -/
namespace PynetVerif
open Dul Fsm

/-- the PDU events a list of readable items stands for (EOF and invalid items carry none) -/
def wireEvts (l : List Wire) : List Nat :=
  l.filterMap fun w => match w with
    | .pdu e _ => if pduEv e then some e else none
    | _ => none

/-- the PDU events of everything a reactor has put on the wire, oldest first -/
def sentEvts (s : St) : List Nat := wireEvts (s.sent.reverse.map wireOf)

/-- the PDU events a reactor has dispatched, oldest first (from its dispatch log) -/
def dispatchedPdus (s : St) : List Nat := (s.log.reverse.map (·.evt)).filter pduEv

/-- the PDU events a reactor has READ from its transport, oldest first: those already dispatched
followed by those `readTransport` has queued and phase B has not popped yet -/
def readEvts (s : St) : List Nat := dispatchedPdus s ++ s.eventQ.filter pduEv

/-- everything that has been delivered to a reactor: read, or still unread in its inbox -/
def lineEvts (s : St) : List Nat := readEvts s ++ wireEvts s.inbox

end PynetVerif

/-! ### how the association ended, as one provider saw it -/
namespace PynetVerif
open Dul Fsm

inductive ProvOutcome | released | rejected | aborted
  deriving DecidableEq, Repr, Inhabited

/-- the reactor has completed the action `a` (a logged dispatch with a transition notification) -/
def didOk (s : St) (a : Action) : Bool := s.log.any fun d => d.action == some a && d.ok

/-- Outcome of an association for one provider, read off its dispatch log.
`released`: the release it requested was confirmed (AR-3), or it answered a release request (AR-4:
A-RELEASE-RP sent, then Sta13 until the connection closes, AR-5/AA-2).
`rejected`: it received A-ASSOCIATE-RJ (AE-4), or it sent one (AE-8, or AE-6 on an unsupported
protocol version).
`aborted`: everything else — it sent or received A-ABORT / A-P-ABORT, or the connection closed on it
(pynetdicom reports a connection closed under it as A-P-ABORT). -/
def provOutcome (s : St) : ProvOutcome :=
  if didOk s .AR_3 || didOk s .AR_4 then .released
  else if didOk s .AE_4 || didOk s .AE_8 || s.log.any (fun d => d.action == some .AE_6 && d.ok && d.next == 13)
  then .rejected
  else .aborted

/-- the reactor has ended in an orderly way: stopped, and not through an exception -/
def ended (s : St) : Bool := s.kill && !s.dead

/-- `Outcome.consistent` for provider outcomes -/
def ProvOutcome.agree : ProvOutcome → ProvOutcome → Bool
  | .released, .released | .rejected, .rejected | .aborted, .aborted => true
  | _, _ => false

/-- the local user aborted while a confirmation it had asked for was outstanding: A-ASSOCIATE
(Sta5) or A-RELEASE (Sta7, Sta11).  (A-ABORT is unconfirmed: it can cross the peer's answer.) -/
def abortedAwaiting (s : St) : Bool :=
  s.log.any fun d => d.action == some .AA_1 && (d.state == 5 || d.state == 7 || d.state == 11)

end PynetVerif
