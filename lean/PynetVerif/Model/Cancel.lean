/-
Model of the C-CANCEL bookkeeping of an association acting as SCP:

`DIMSEServiceProvider.receive_primitive` (dimse.py), for a decoded C-CANCEL-RQ:

    if isinstance(d_primitive, C_CANCEL) and len(self.cancel_req) < 10:
        self.cancel_req[d_primitive.MessageIDBeingRespondedTo] = d_primitive
    elif isinstance(d_primitive, N_EVENT_REPORT) and ...:  (not a C-CANCEL)
    else:
        self.msg_queue.put((context_id, d_primitive))      # <- the 11th pending C-CANCEL

`ServiceClass.is_cancelled(msg_id)` (service_class.py), reached from
`Event.is_cancelled` with the message ID of the request being served:

    if msg_id in self.dimse.cancel_req:
        del self.dimse.cancel_req[msg_id]; return True
    return False

`Association._serve_request` (association.py), around the service class call:

    clear_cancel = not isinstance(msg, N_EVENT_REPORT)   # see "requests served in a thread of their own"
    try:
        if clear_cancel: self.dimse.cancel_req = {}        # beginOp
        self._is_paused = True
        service_class.SCP(msg, context)   # handlers run here and query
        self._is_paused = False
        if clear_cancel: self.dimse.cancel_req = {}        # endOp  (skipped if SCP raised: the
    except ...: self.abort(); return      #         association is aborted instead)

`cancel_req` is a Python dict: keys unique, kept in insertion order, assigning
an existing key keeps its position.  The store is the list of its keys in that
order; `queued` lists the IDs of the C-CANCEL primitives that were put on
`msg_queue` instead (where the reactor would later take them for service
requests).
-/
namespace PynetVerif.Cancel

/-- `len(self.cancel_req) < 10` -/
def bound : Nat := 10

structure S where
  store : List Nat     -- keys of `dimse.cancel_req`, insertion order
  queued : List Nat    -- IDs of C-CANCELs that went to `dimse.msg_queue`, FIFO
  deriving DecidableEq, Repr, Inhabited

def init : S := ⟨[], []⟩

inductive Ev
  | recvCancel (id : Nat)   -- a C-CANCEL-RQ for `id` is completely received
  | beginOp (id : Nat)      -- `_serve_request` reaches the first clearing statement for request `id`
  | query (id : Nat)        -- `ServiceClass.is_cancelled(id)`
  | endOp                   -- SCP returned: second clearing statement
  | endOpRaise              -- SCP raised: no second clearing (association aborted)
  deriving DecidableEq, Repr, Inhabited

/-- `d[id] = v` on the key list -/
def dictSet (keys : List Nat) (id : Nat) : List Nat :=
  if id ∈ keys then keys else keys ++ [id]

/-- the C-CANCEL branch of `receive_primitive` -/
def recv (s : S) (id : Nat) : S :=
  if s.store.length < bound then { s with store := dictSet s.store id }
  else { s with queued := s.queued ++ [id] }

/-- `ServiceClass.is_cancelled` -/
def query (s : S) (id : Nat) : S × Bool :=
  if id ∈ s.store then ({ s with store := s.store.filter (· != id) }, true)
  else (s, false)

def step (s : S) : Ev → S × Option Bool
  | .recvCancel id => (recv s id, none)
  | .beginOp _ => ({ s with store := [] }, none)
  | .query id => let r := query s id; (r.1, some r.2)
  | .endOp => ({ s with store := [] }, none)
  | .endOpRaise => (s, none)

def exec (s : S) : List Ev → S
  | [] => s
  | e :: rest => exec (step s e).1 rest

/-- the answers of the `query` events, in order -/
def run (s : S) : List Ev → List Bool
  | [] => []
  | e :: rest =>
    match (step s e).2 with
    | some b => b :: run (step s e).1 rest
    | none => run (step s e).1 rest

/-- what an `is_cancelled(id)` call would answer in state `s` -/
def answer (s : S) (id : Nat) : Bool := (query s id).2

/-- store and queue after each event (for the differential run) -/
def trace (s : S) : List Ev → List (S × Option Bool)
  | [] => []
  | e :: rest => ((step s e).1, (step s e).2) :: trace (step s e).1 rest

/-- events that empty the store -/
def Ev.clears : Ev → Bool
  | .beginOp _ => true
  | .endOp => true
  | _ => false

def Ev.isRecv : Ev → Bool
  | .recvCancel _ => true
  | _ => false

/-- `b` neither empties the store nor consumes a cancel for `id` -/
def keeps (id : Nat) (b : List Ev) : Prop :=
  ∀ e ∈ b, e.clears = false ∧ e ≠ .query id

/-! ### requests served in a thread of their own

`receive_primitive` starts a thread on `_serve_request` for a valid N-EVENT-REPORT request, so that
request is served while an operation may be in progress.  Whether its `_serve_request` run empties
the store is read from the source: the shape of the `try` body (`clear` = unconditional,
`clear-if` = under the test listed in `guards`) and the class served that way. -/

/-- does `_serve_request` empty the store when it serves a request of class `c` -/
def clearsFor (shape guards : List String) (c : String) : Bool :=
  shape.contains "clear" ||
    (shape.contains "clear-if" && guards.any (fun g => g != "not isinstance(msg, " ++ c ++ ")"))

/-- … for some class that is served in a thread of its own -/
def sideClears (shape guards side : List String) : Bool := side.any (clearsFor shape guards)

/-- the events a whole `_serve_request` run of such a request contributes -/
def sideEvents (clears : Bool) : List Ev := if clears then [.beginOp 0, .endOp] else []

/-- driver events: a model event, or a whole side-thread run -/
inductive DEv
  | ev (e : Ev)
  | side
  deriving Repr

def dtrace (clears : Bool) (s : S) : List DEv → List (S × Option Bool)
  | [] => []
  | .ev e :: rest => ((step s e).1, (step s e).2) :: dtrace clears (step s e).1 rest
  | .side :: rest => (exec s (sideEvents clears), none) :: dtrace clears (exec s (sideEvents clears)) rest

end PynetVerif.Cancel
