/-
Model of `pynetdicom.status.code_to_category` and of the finality decision
made from it.  The function is given by its table of ranges (what the chain of
`if code in …` tests in the Python function amounts to); `Props/C28.lean`
proves this table equal to the extension of the real function on all 65536
codes, regenerated from the source on every run.
-/
namespace PynetVerif.Status

inductive Category | success | warning | failure | cancel | pending | unknown
  deriving DecidableEq, Repr, Inhabited

def Category.toNat : Category → Nat
  | .success => 0 | .warning => 1 | .failure => 2 | .cancel => 3 | .pending => 4 | .unknown => 5

def Category.ofCode : Nat → Category
  | 0 => .success | 1 => .warning | 2 => .failure | 3 => .cancel | 4 => .pending | _ => .unknown

/-- (lo, hi, category) — 0 Success 1 Warning 2 Failure 3 Cancel 4 Pending 5 Unknown -/
def runs : List (Nat × Nat × Nat) := [
  (0x0000, 0x0000, 0),                      -- Success
  (0x0001, 0x0001, 1),                      -- Warning: requested optional attributes not supported
  (0x0002, 0x0104, 5),
  (0x0105, 0x0106, 2),                      -- general failures
  (0x0107, 0x0107, 1),                      -- Warning: attribute list error
  (0x0108, 0x010F, 5),
  (0x0110, 0x0115, 2),
  (0x0116, 0x0116, 1),                      -- Warning: attribute value out of range
  (0x0117, 0x0119, 2),
  (0x011A, 0x011F, 5),
  (0x0120, 0x0124, 2),
  (0x0125, 0x020F, 5),
  (0x0210, 0x0213, 2),
  (0x0214, 0x9FFF, 5),
  (0xA000, 0xAFFF, 2),                      -- Failure Axxx
  (0xB000, 0xBFFF, 1),                      -- Warning Bxxx
  (0xC000, 0xCFFF, 2),                      -- Failure Cxxx
  (0xD000, 0xFDFF, 5),
  (0xFE00, 0xFE00, 3),                      -- Cancel
  (0xFE01, 0xFEFF, 5),
  (0xFF00, 0xFF01, 4),                      -- Pending
  (0xFF02, 0xFFFF, 5)]

def lookup : List (Nat × Nat × Nat) → Nat → Option Nat
  | [], _ => none
  | (lo, hi, v) :: rs, c => if lo ≤ c ∧ c ≤ hi then some v else lookup rs c

/-- the category number of a 16-bit code, or `none` above 0xFFFF -/
def categoryNat (c : Nat) : Option Nat := lookup runs c

/-- the category of a status code (any non-negative integer; ≥ 65536 is Unknown, as in the code) -/
def category (c : Nat) : Category := Category.ofCode ((lookup runs c).getD 5)

/-- SCU rule (`Association._wrap_find_responses`, `_wrap_get_move_responses`):
a response ends the iteration unless it is Pending; the Repository Query
response-limit warning 0xB001 is the one documented non-final exception. -/
def scuFinal (repositoryQuery : Bool) (c : Nat) : Bool :=
  if repositoryQuery && c == 0xB001 then false else category c != .pending

end PynetVerif.Status
