import PynetVerif.Model.Policy
/-
Model of how pynetdicom assembles the A-ASSOCIATE-RQ it sends (C12) and the
A-ASSOCIATE-AC it answers with, as abstract item trees (the byte codec is C01's).

* `AE.associate` (ae.py): `_validate_requested_contexts` (≤ 128, every context has an
  abstract syntax and ≥ 1 transfer syntax), "at least one context", ids `2*ii + 1`,
  the `set_ae` validation of both titles and of the implementation version name,
  `implementation_class_uid` must be `UID.is_valid`, the requestor `ServiceUser`
  (`_user_info` = [Maximum Length, Implementation Class UID, (Implementation Version
  Name)], then `extended_negotiation` = the `_ext_neg` dict in insertion order:
  role selection, asynchronous operations window, user identity, SOP class extended,
  SOP class common extended);
* `ACSE.send_request` → `A_ASSOCIATE_RQ.from_primitive`: one Application Context item,
  one Presentation Context item per requested context, ONE User Information item;
  titles are `ljust(16)`;
* `ACSE._negotiate_as_acceptor`/`send_accept`: `_accepted_cx` is a dict keyed by
  context id, `accepted_contexts` its values sorted by id, the AC carries
  `accepted_contexts + rejected_contexts`, the titles of the request are echoed.
UIDs and titles are byte strings (ASCII).
-/
namespace PynetVerif.Conform
open PynetVerif.Policy (validAE pyStrip)

abbrev Str := Bytes

/-! ### value legality (PS3.5 §6.2 VR AE / UI, PS3.8 §9.3.2) -/

def isDigit (c : UInt8) : Bool := 0x30 ≤ c && c ≤ 0x39

/-- split at '.' -/
def splitDots : Bytes → List Bytes
  | [] => [[]]
  | c :: rest =>
    match splitDots rest with
    | [] => [[c]]   -- unreachable: splitDots never returns []
    | comp :: comps => if c == 0x2e then [] :: comp :: comps else (c :: comp) :: comps

/-- a UID component: digits, non-empty, no leading zero unless it is "0" -/
def compOk (c : Bytes) : Bool :=
  !c.isEmpty && c.all isDigit && (c.length == 1 || c.head? != some 0x30)

/-- legal for VR UI (what pydicom's `UID.is_valid` accepts): 1–64 characters, dot-separated
numeric components without leading zeros -/
def legalUid (u : Str) : Bool :=
  !u.isEmpty && u.length ≤ 64 && (splitDots u).all compOk

/-- a character allowed in an AE title: printable ASCII (the default repertoire without
control characters) except backslash -/
def legalAEChar (c : UInt8) : Bool := 0x20 ≤ c && c ≤ 0x7e && c != 0x5c

/-- a 16-byte title field as it appears in the PDU: legal characters, not entirely spaces -/
def legalTitleField (f : Bytes) : Bool :=
  f.length == 16 && f.all legalAEChar && !(f.all (· == 0x20))

/-! ### configuration of the requestor (what `AE.associate` is called with) -/

structure Ctx where
  abstract : Str
  transfer : List Str
  deriving Repr, DecidableEq

inductive Ext where
  | role (uid : Str) (scu scp : Bool)
  | async (invoked performed : Nat)
  | userId (idType : Nat) (responseRequested : Bool)
  | sopExt (uid : Str) (info : Bytes)
  | sopCommon (uid svc : Str) (related : List Str)
  deriving Repr, DecidableEq

structure Cfg where
  calling : Str                  -- `ae.ae_title`
  called : Str                   -- `associate(ae_title=…)`
  contexts : List Ctx            -- `contexts` or `ae.requested_contexts`
  maxPdu : Nat                   -- `max_pdu`
  implUid : Str                  -- `ae.implementation_class_uid`
  implVersion : Option Str       -- `ae.implementation_version_name`
  ext : List Ext                 -- `ext_neg`
  deriving Repr

/-! ### the item tree -/

/-- user-information sub-items (item type in the comment) -/
inductive Sub where
  | maxLength (n : Nat)                                  -- 0x51
  | implUid (uid : Str)                                  -- 0x52
  | async (invoked performed : Nat)                      -- 0x53
  | role (uid : Str) (scu scp : Bool)                    -- 0x54
  | implVersion (name : Str)                             -- 0x55
  | sopExt (uid : Str) (info : Bytes)                    -- 0x56
  | sopCommon (uid svc : Str) (related : List Str)       -- 0x57
  | userId (idType : Nat) (responseRequested : Bool)     -- 0x58
  | userIdResponse                                       -- 0x59
  | unknown (tag : Nat)
  deriving Repr, DecidableEq

/-- a presentation-context item: the abstract/transfer syntax sub-items it holds (as lists:
"exactly one" is part of the predicate, not of the type); `result` is 0 in a request -/
structure Pc where
  id : Nat
  result : Nat
  abstract : List Str
  transfer : List Str
  deriving Repr, DecidableEq

structure Assoc where
  called : Bytes            -- 16-byte field
  calling : Bytes
  app : List Str            -- application-context items
  pcs : List Pc
  user : List (List Sub)    -- user-information items
  deriving Repr, DecidableEq

/-- "1.2.840.10008.3.1.1.1" (`_globals.APPLICATION_CONTEXT_NAME`) -/
def applicationContextName : Str :=
  [0x31, 0x2e, 0x32, 0x2e, 0x38, 0x34, 0x30, 0x2e, 0x31, 0x30, 0x30, 0x30, 0x38, 0x2e, 0x33, 0x2e, 0x31, 0x2e, 0x31, 0x2e, 0x31]

/-- `str.ljust(16)` -/
def pad16 (t : Str) : Bytes := t ++ List.replicate (16 - t.length) 0x20

/-- context ids `2*ii + 1 for ii, context in enumerate(contexts)` -/
def ids (n : Nat) : List Nat := (List.range n).map (fun i => 2 * i + 1)

def isRole : Ext → Bool | .role .. => true | _ => false
def isAsync : Ext → Bool | .async .. => true | _ => false
def isUserId : Ext → Bool | .userId .. => true | _ => false
def isSopExt : Ext → Bool | .sopExt .. => true | _ => false
def isSopCommon : Ext → Bool | .sopCommon .. => true | _ => false

def Ext.toSub : Ext → Sub
  | .role u a b => .role u a b
  | .async i p => .async i p
  | .userId t r => .userId t r
  | .sopExt u i => .sopExt u i
  | .sopCommon u s r => .sopCommon u s r

/-- `ServiceUser.extended_negotiation` (writeable): the `_ext_neg` dict, type by type -/
def extSubs (es : List Ext) : List Sub :=
  (es.filter isRole ++ es.filter isAsync ++ es.filter isUserId ++ es.filter isSopExt ++
    es.filter isSopCommon).map Ext.toSub

/-- `ServiceUser.user_information` = `_user_info + extended_negotiation` -/
def userInfo (maxPdu : Nat) (implUid : Str) (implVersion : Option Str) (es : List Ext) : List Sub :=
  [.maxLength maxPdu, .implUid implUid] ++
    (match implVersion with | some v => [.implVersion v] | none => []) ++ extSubs es

def pcsOf (cs : List Ctx) : List Pc :=
  (List.zip (ids cs.length) cs).map fun (i, c) => ⟨i, 0, [c.abstract], c.transfer⟩

/-- the A-ASSOCIATE-RQ `associate()` puts on the wire -/
def buildRQ (c : Cfg) : Assoc :=
  { called := pad16 c.called, calling := pad16 c.calling, app := [applicationContextName],
    pcs := pcsOf c.contexts, user := [userInfo c.maxPdu c.implUid c.implVersion c.ext] }

/-! ### the API's own validation -/

/-- `set_ae(value, name, allow_empty=False, allow_none=False)` -/
def titleAccepted (t : Str) : Bool := !(pyStrip t).isEmpty && validAE t

/-- `validate_ui` with the default `ENFORCE_UID_CONFORMANCE = False`, plus non-empty -/
def uidAccepted (u : Str) : Bool := !u.isEmpty && u.length ≤ 64

def ctxAccepted (c : Ctx) : Bool :=
  uidAccepted c.abstract && !c.transfer.isEmpty && c.transfer.all uidAccepted

def extAccepted : Ext → Bool
  | .role u scu scp => uidAccepted u && (scu || scp)  -- else `from_primitive` raises: nothing is sent
  | .async i p => i < 65536 && p < 65536              -- else struct.error: nothing is sent
  | .userId t _ => 1 ≤ t && t ≤ 5
  | .sopExt u _ => uidAccepted u
  | .sopCommon u s rel => uidAccepted u && uidAccepted s && rel.all uidAccepted

/-- `associate()` returns without raising and a request is actually sent -/
def acceptedByApi (c : Cfg) : Bool :=
  titleAccepted c.calling && titleAccepted c.called &&
  1 ≤ c.contexts.length && c.contexts.length ≤ 128 && c.contexts.all ctxAccepted &&
  c.maxPdu < 4294967296 &&                    -- `max_pdu >= 2**32` passes the API but cannot be encoded
  legalUid c.implUid &&                       -- `implementation_class_uid` setter: `uid.is_valid`
  (match c.implVersion with | some v => titleAccepted v | none => true) &&
  c.ext.all extAccepted

/-- every UID of the configuration is conformant (what `ENFORCE_UID_CONFORMANCE = True` would demand) -/
def extUidsLegal : Ext → Bool
  | .role u _ _ => legalUid u
  | .async .. => true
  | .userId .. => true
  | .sopExt u _ => legalUid u
  | .sopCommon u s rel => legalUid u && legalUid s && rel.all legalUid

def uidsLegal (c : Cfg) : Bool :=
  c.contexts.all (fun x => legalUid x.abstract && x.transfer.all legalUid) && c.ext.all extUidsLegal

/-! ### conformance predicates (the property) -/

def subUidsLegal : Sub → Bool
  | .implUid u => legalUid u
  | .role u _ _ => legalUid u
  | .sopExt u _ => legalUid u
  | .sopCommon u s rel => legalUid u && legalUid s && rel.all legalUid
  | _ => true

def isMaxLength : Sub → Bool | .maxLength _ => true | _ => false
def isImplUid : Sub → Bool | .implUid _ => true | _ => false

/-- exactly one user-information item holding exactly one maximum-length and one
implementation-class-UID sub-item -/
def userOk (user : List (List Sub)) : Bool :=
  match user with
  | [u] => u.countP isMaxLength == 1 && u.countP isImplUid == 1
  | _ => false

def idOk (i : Nat) : Bool := i % 2 == 1 && 1 ≤ i && i ≤ 255

/-- structure of an A-ASSOCIATE-RQ -/
def structureRQ (a : Assoc) : Bool :=
  1 ≤ a.pcs.length && a.pcs.length ≤ 128 &&
  (a.pcs.map (·.id)).all idOk && decide ((a.pcs.map (·.id)).Nodup) &&
  a.pcs.all (fun p => p.abstract.length == 1 && 1 ≤ p.transfer.length) &&
  a.app.length == 1 && userOk a.user

/-- legality of every title and UID in the PDU -/
def valuesOk (a : Assoc) : Bool :=
  legalTitleField a.called && legalTitleField a.calling &&
  a.app.all legalUid &&
  a.pcs.all (fun p => p.abstract.all legalUid && p.transfer.all legalUid) &&
  a.user.all (·.all subUidsLegal)

def conformantRQ (a : Assoc) : Bool := structureRQ a && valuesOk a

/-! ### the acceptor's answer -/

/-- `{cx.context_id: cx for cx in …}`: a later entry with the same id replaces the value
at the position of the first -/
def dictInsert (d : List Pc) (r : Pc) : List Pc :=
  if d.any (·.id == r.id) then d.map (fun x => if x.id == r.id then r else x) else d ++ [r]

def dictOf (l : List Pc) : List Pc := l.foldl dictInsert []

def insertPc (p : Pc) : List Pc → List Pc
  | [] => [p]
  | q :: qs => if p.id ≤ q.id then p :: q :: qs else q :: insertPc p qs

/-- `sorted(…, key=lambda x: x.context_id)` (stable) -/
def sortById (l : List Pc) : List Pc := l.foldr insertPc []

/-- `accepted_contexts + rejected_contexts` for the negotiation result `res` -/
def resultItems (res : List Pc) : List Pc :=
  sortById (dictOf (res.filter (·.result == 0))) ++ res.filter (·.result != 0)

/-- the A-ASSOCIATE-AC `send_accept` puts on the wire: `calledT`/`callingT` are the titles of
the received request PRIMITIVE (`req.called_ae_title`: decoded and stripped by the PDU setter,
validated by `set_ae`) — they are re-padded, so the "reserved" fields echo the request's
titles without their leading padding —, `res` the negotiation result
(presentation.negotiate_as_acceptor — property C10), `user` the acceptor's user information -/
def buildAC (calledT callingT : Str) (res : List Pc) (user : List Sub) : Assoc :=
  { called := pad16 calledT, calling := pad16 callingT, app := [applicationContextName],
    pcs := resultItems res, user := [user] }

/-- an A-ASSOCIATE-AC answering `rq`: one result item per proposed context, exactly one
transfer syntax on every accepted item, one application context, one user-information item
with one maximum length and one implementation class UID, legal titles and UIDs -/
def conformantAC (rq ac : Assoc) : Bool :=
  legalTitleField ac.called && legalTitleField ac.calling &&
  decide ((ac.pcs.map (·.id)).Perm (rq.pcs.map (·.id))) &&
  ac.pcs.all (fun p => p.result != 0 || (p.transfer.length == 1 && p.transfer.all legalUid)) &&
  ac.app.length == 1 && ac.app.all legalUid && userOk ac.user && ac.user.all (·.all subUidsLegal)

end PynetVerif.Conform
