/-!
Vocabulary for the byte-layout tables of the PDUs and items (C01_layout_tables):
one `Field` per entry of a pynetdicom `_encoders` table / per row of a PS3.8 §9.3
or PS3.7 Annex D.3.3 table.
-/
namespace PynetVerif.PduLayout

inductive Field
  | fld (name : String) (width : Nat)        -- unsigned big-endian integer of 1 / 2 / 4 bytes
  | res (width : Nat) (value : Nat)          -- reserved bytes sent with a constant value
  | str (name : String) (pad : Nat)          -- ASCII string; pad > 0: space padded to that many bytes
  | bytes (name : String)                    -- byte string, length given by an earlier field / the item length
  | items (name : String)                    -- sequence of (sub-)items
  | uids (name : String)                     -- sequence of (u16 length, UID)
  deriving DecidableEq, Repr, Inhabited

/-- adjacent zero-valued reserved fields are one reserved run (the code writes the 32 reserved bytes
of an A-ASSOCIATE-RQ/AC as eight u32 zeros) -/
def mergeRes : List Field → List Field
  | .res w1 0 :: rest =>
    match mergeRes rest with
    | .res w2 0 :: rest' => .res (w1 + w2) 0 :: rest'
    | r => .res w1 0 :: r
  | f :: rest => f :: mergeRes rest
  | [] => []

structure Table where
  cls : String            -- pynetdicom class
  typ : Option Nat        -- PDU type / item type (none: the PDV item has no type byte)
  fields : List Field
  deriving DecidableEq, Repr, Inhabited

end PynetVerif.PduLayout
