/-
Vocabulary of the upper-layer state machine: actions, observable effects and
the outcome of dispatching one event.  States are 1..13 and events 1..19
(PS3.8 §9.2.3); the tables themselves live in Spec/Ps38Fsm.lean (standard) and
Gen/Fsm.lean (regenerated from the code).
-/
namespace PynetVerif.Fsm

inductive Action
  | AE_1 | AE_2 | AE_3 | AE_4 | AE_5 | AE_6 | AE_7 | AE_8
  | DT_1 | DT_2
  | AR_1 | AR_2 | AR_3 | AR_4 | AR_5 | AR_6 | AR_7 | AR_8 | AR_9 | AR_10
  | AA_1 | AA_2 | AA_3 | AA_4 | AA_5 | AA_6 | AA_7 | AA_8
  deriving DecidableEq, Repr, Inhabited

/-- What an action is observed to do.  The first three groups are the effects
PS3.8 Tables 9-6…9-9 speak about; the last group is pynetdicom bookkeeping. -/
inductive Eff
  -- towards the transport
  | connect | sendRq | sendAc | sendRj (result source reason : Nat) | sendPdata
  | sendRelRq | sendRelRp | sendAbort (source reason : Nat) | close
  -- towards the service user
  | indAssocRq | confAccept | confReject | indPdata | indRelease | confRelease
  | indAbort (source : Nat) | indPAbort (reason : Nat)
  -- ARTIM
  | artimStart | artimStop | artimRestart
  -- pynetdicom-specific: DIMSE queue sentinel, EVT_CONN_CLOSE, reactor kill flag, queue pops
  | sentinel | notifyConnClose | kill | popPrim | popPdu
  | other
  deriving DecidableEq, Repr, Inhabited

inductive Outcome
  | invalid                                   -- InvalidEventError: no entry for (event, state)
  | raised                                    -- any other exception escaped do_action
  | ok (effects : List Eff) (next : Nat)
  deriving DecidableEq, Repr, Inhabited

def Eff.isProtocol : Eff → Bool
  | .sentinel | .notifyConnClose | .kill | .popPrim | .popPdu => false
  | _ => true

/-- projection to what PS3.8 prescribes -/
def Outcome.project : Outcome → Outcome
  | .ok effs n => .ok (effs.filter Eff.isProtocol) n
  | o => o

def lookup (t : List (Nat × Nat × Action)) (e s : Nat) : Option Action :=
  (t.find? (fun r => r.1 == e && r.2.1 == s)).map (·.2.2)

/-- the full input domain in the translator's order -/
def domain : List (Nat × Nat × Bool × Bool) :=
  (List.range 19).flatMap fun e => (List.range 13).flatMap fun s =>
    [(e + 1, s + 1, true, false), (e + 1, s + 1, true, true), (e + 1, s + 1, false, false), (e + 1, s + 1, false, true)]

end PynetVerif.Fsm
