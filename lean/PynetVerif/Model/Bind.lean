/-!
`bind()` / `unbind()` of event handlers (`events._add_handler`, `_remove_handler`), as far as *which* handler ends
up bound.  Handlers are identified by a number; `0` is the event's default handler (`get_default_handler`).

* an **intervention** event (EVT_USER_ID, EVT_C_ECHO, …) has exactly one handler: `bind` replaces it; `unbind h`
  puts the default back **if `h` is the bound one** and otherwise changes nothing;
* a **notification** event has an ordered list without duplicates: `bind` appends if absent, `unbind` removes.
-/
namespace PynetVerif.Bind

inductive Op
  | bind (h : Nat)
  | unbind (h : Nat)
  deriving DecidableEq, Repr, Inhabited

/-- intervention events: the bound handler -/
def stepI (cur : Nat) : Op → Nat
  | .bind h => h
  | .unbind h => if h = cur then 0 else cur

def runI (ops : List Op) : Nat := ops.foldl stepI 0

/-- notification events: the bound handlers, in call order -/
def stepN (l : List Nat) : Op → List Nat
  | .bind h => if l.contains h then l else l ++ [h]
  | .unbind h => l.filter (· != h)

def runN (ops : List Op) : List Nat := ops.foldl stepN []

def isBind : Op → Bool
  | .bind _ => true
  | .unbind _ => false

/-- what the API documents, read off the operation list: the handler of the LAST `bind`, unless that very handler was
unbound afterwards (then the default).  Unbinding any other handler is irrelevant. -/
def specI : List Op → Nat
  | [] => 0
  | .bind h :: rest => if rest.any isBind then specI rest else if rest.contains (.unbind h) then 0 else h
  | .unbind _ :: rest => specI rest

end PynetVerif.Bind
