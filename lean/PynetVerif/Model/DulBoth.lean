import PynetVerif.Model.Dul
/-
A deliberately WRONG variant of the reactor, used only for a negative result (Props/C05Stream.lean):
phase A serves BOTH event sources in one iteration — it peeks the provider queue AND reads the transport —
instead of "a primitive OR a PDU per loop of the reactor" (dul.py `run_reactor`:
`if self._process_recv_primitive(): pass  elif self._is_transport_event(): ...`).  Everything else
(ARTIM check, phase B, environment) is `Model/Dul.lean` unchanged.  `Dul.step` is not touched.
-/
namespace PynetVerif.Dul

/-- `Dul.iterA` with the `match` on the provider queue no longer excluding the transport: compare line by
line with `iterA` — the only difference is that the transport branch (the `| [] =>` arm of `iterA`) is run
after the peek whether or not a primitive was found -/
def iterABoth (s : St) : St :=
  if !s.live || s.phaseB then s else
  let s := if s.artim.expired then { s with eventQ := s.eventQ ++ [18] } else s
  let s :=
    match s.provQ with
    | p :: _ => { s with eventQ := s.eventQ ++ [p.event] }
    | [] => s
  let s :=
      if s.fsm = 13 then
        (if s.connected && !s.inbox.isEmpty then readTransport s else closeSock s)
      else if s.connected && !s.inbox.isEmpty then readTransport s else s
  -- an empty event queue ends the iteration (`except queue.Empty: continue`)
  { s with phaseB := !s.eventQ.isEmpty }

def stepBoth (s : St) : Step → St
  | .env e => env e s
  | .a => iterABoth s
  | .b => iterB s

def runBoth (s : St) (sched : List Step) : St := sched.foldl stepBoth s

end PynetVerif.Dul
