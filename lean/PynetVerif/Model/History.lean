import PynetVerif.Model.Dul
/-
Well-formedness of the notification history one association emits (C27), as an executable
checker over an abstract event alphabet, and the history the reactor model emits.
-/
namespace PynetVerif.History

inductive Notif
  | connOpen | connClose
  | fsm (cur evt next : Nat)
  | pduSent (k : Nat) | pduRecv (k : Nat)        -- k = PDU type 1..7
  | dataSent (k : Nat) | dataRecv (k : Nat)      -- first byte of the data
  | established | released | aborted | rejected
  | other
  deriving DecidableEq, Repr, Inhabited

def isWire : Notif → Bool
  | .pduSent _ | .pduRecv _ | .dataSent _ | .dataRecv _ => true
  | _ => false

/-- each state-machine transition starts in the state the previous one ended in (the first in Sta1) -/
def chainFrom : Nat → List Notif → Bool
  | _, [] => true
  | st, .fsm c _ n :: rest => c == st && chainFrom n rest
  | st, _ :: rest => chainFrom st rest

/-- connection-open at most once and before every wire event / connection-close -/
def openFirst : Bool → List Notif → Bool
  | _, [] => true
  | opened, .connOpen :: rest => !opened && openFirst true rest
  | opened, n :: rest => (if isWire n || n == .connClose then opened else true) && openFirst opened rest

/-- connection-close at most once and last among the connection events -/
def closeLast : Bool → List Notif → Bool
  | _, [] => true
  | closed, .connClose :: rest => !closed && closeLast true rest
  | closed, n :: rest => (if isWire n || n == .connOpen then !closed else true) && closeLast closed rest

/-- established at most once and before any released / aborted notification -/
def estOrder : (est term : Bool) → List Notif → Bool
  | _, _, [] => true
  | est, term, .established :: rest => !est && !term && estOrder true term rest
  | est, _, .released :: rest => estOrder est true rest
  | est, _, .aborted :: rest => estOrder est true rest
  | est, term, _ :: rest => estOrder est term rest

/-- every PDU notification is matched by the data notification of the same PDU type, in order:
sent: DATA_SENT then PDU_SENT; received: DATA_RECV then PDU_RECV -/
def sentKinds : List Notif → List Nat × List Nat
  | [] => ([], [])
  | .dataSent k :: r => let p := sentKinds r; (k :: p.1, p.2)
  | .pduSent k :: r => let p := sentKinds r; (p.1, k :: p.2)
  | _ :: r => sentKinds r
def recvKinds : List Notif → List Nat × List Nat
  | [] => ([], [])
  | .dataRecv k :: r => let p := recvKinds r; (k :: p.1, p.2)
  | .pduRecv k :: r => let p := recvKinds r; (p.1, k :: p.2)
  | _ :: r => recvKinds r

/-- `complete`: the association has ended (then a connection that was opened must have been closed) -/
def wf (complete : Bool) (h : List Notif) : Bool :=
  chainFrom 1 h && openFirst false h && closeLast false h && estOrder false false h &&
  (if complete && h.contains .connOpen then h.contains .connClose else true)

/-- which rule fails first (for reports) -/
def verdict (complete : Bool) (h : List Notif) : String :=
  if !chainFrom 1 h then "fsm-chain-broken"
  else if !openFirst false h then "conn-open-not-first-or-repeated"
  else if !closeLast false h then "conn-close-repeated-or-not-last"
  else if !estOrder false false h then "established-order"
  else if complete && h.contains .connOpen && !h.contains .connClose then "conn-close-missing"
  else "ok"

/-- the state the transitions of a history end in -/
def endFrom : Nat → List Notif → Nat
  | st, [] => st
  | _, .fsm _ _ n :: rest => endFrom n rest
  | st, _ :: rest => endFrom st rest

/-- the state-machine part of the history the reactor model emits (oldest first) -/
def ofLog (log : List Dul.Dispatch) : List Notif :=
  (log.reverse.filter (fun d => d.ok)).map (fun d => .fsm d.state d.evt d.next)

end PynetVerif.History
