import PynetVerif.Model.SExp
/-
Blocking reads against a peer that may go silent (C08).

The peer is a list of chunks, each arriving `delay` ticks after the previous read position was
reached, followed either by end-of-stream or by silence with the connection kept open (`stall`).
`recvN` is `AssociationSocket.recv(need)` over a socket whose timeout is `timeout`
(`none` = blocking socket): every `socket.recv` waits for the next chunk; if the wait exceeds the
timeout the read raises (→ `_read_pdu_data` queues Evt17); with no timeout and a stalled peer the
call never returns.
-/
namespace PynetVerif.Timeouts

inductive Tail | eof | stall
  deriving DecidableEq, Repr

inductive Res
  | ok (data : Bytes) (elapsed : Nat)        -- returned (possibly short, at end of stream)
  | timedOut (elapsed : Nat)                 -- raised TimeoutError after `elapsed` ticks
  | blocked                                  -- never returns
  deriving DecidableEq, Repr

def Res.returns : Res → Bool
  | .blocked => false
  | _ => true

def Res.elapsed : Res → Nat
  | .ok _ e => e
  | .timedOut e => e
  | .blocked => 0

/-- `AssociationSocket.recv(need)`; `fuel` = number of chunks + 1 is always enough -/
def recvN (timeout : Option Nat) (tail : Tail) :
    (chunks : List (Nat × Bytes)) → (need : Nat) → (acc : Bytes) → (elapsed : Nat) → Res
  | [], need, acc, elapsed =>
    if need = 0 then .ok acc elapsed else
    match tail with
    | .eof => .ok acc elapsed                                     -- empty read: return what we have
    | .stall =>
      match timeout with
      | none => .blocked
      | some t => .timedOut (elapsed + t)
  | (d, b) :: rest, need, acc, elapsed =>
    if need = 0 then .ok acc elapsed else
    match timeout with
    | some t =>
      if t < d then .timedOut (elapsed + t)
      else recvN timeout tail rest (need - min need b.length) (acc ++ b.take need) (elapsed + d)
    | none => recvN timeout tail rest (need - min need b.length) (acc ++ b.take need) (elapsed + d)

/-- what the socket timeout of a PDU-reading socket is set to (translator: transport.py) -/
inductive TimeoutExpr | networkTimeout | connectionTimeout | noTimeout | other
  deriving DecidableEq, Repr

end PynetVerif.Timeouts
