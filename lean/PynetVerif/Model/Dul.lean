import PynetVerif.Model.Fsm
import PynetVerif.Spec.Ps38Fsm
/-
M-DUL: the reactor of `DULServiceProvider.run_reactor` (dul.py) as a labelled
transition system at micro-step granularity.

One reactor iteration = phase A (`iterA`: ARTIM check, then ONE event source —
the head of the provider queue is *peeked*, local primitives have priority over
the transport; in Sta13 an idle socket is closed) followed by phase B
(`iterB`: ONE event popped and dispatched through the state machine).
Environment steps (peer PDU arrives, peer closes, connection breaks, ARTIM
expires, the local association code enqueues a primitive) may happen between
any two micro-steps.

What an action does is taken from `Spec.Ps38.effects` (proved equal to the
executed code in C04) plus the bookkeeping below (queue pops; C05 proves it
equal to what the executed code does as well).
-/
namespace PynetVerif.Dul
open PynetVerif.Fsm

/-- primitives the association code can put on `to_provider_queue` -/
inductive Prim
  | assocRq | connectOk | connectFail | accept | reject | pdata | releaseRq | releaseRp
  | abort (alt : Bool)        -- A-ABORT (false) or A-P-ABORT (true)
  deriving DecidableEq, Repr, Inhabited

/-- `_process_recv_primitive`: the event a queued primitive stands for -/
def Prim.event : Prim → Nat
  | .assocRq => 1 | .connectOk => 2 | .connectFail => 17 | .accept => 7 | .reject => 8
  | .pdata => 9 | .releaseRq => 11 | .releaseRp => 14 | .abort _ => 15

/-- what becomes readable on the socket -/
inductive Wire
  | pdu (evt : Nat) (alt : Bool)   -- a well-formed PDU whose event is `evt` ∈ {3,4,6,10,12,13,16}
  | invalid                         -- unrecognised type or undecodable PDU (Evt19)
  | eof                             -- the peer closed: every further read reports Evt17
  deriving DecidableEq, Repr, Inhabited

inductive Artim | off | running | runningExpired | stoppedOk | stoppedExpired
  deriving DecidableEq, Repr, Inhabited

def Artim.expired : Artim → Bool
  | .runningExpired | .stoppedExpired => true
  | _ => false
def Artim.start : Artim → Artim := fun _ => .running
def Artim.stop : Artim → Artim
  | .running => .stoppedOk
  | .runningExpired => .stoppedExpired       -- `stop` freezes elapsed > timeout: `expired` stays true
  | a => a
def Artim.fire : Artim → Artim
  | .running => .runningExpired
  | a => a

/-- one dispatched event: `action = none` means InvalidEventError (no table entry) -/
structure Dispatch where
  evt : Nat
  state : Nat
  action : Option Action
  next : Nat
  ok : Bool := true        -- the action completed (an EVT_FSM_TRANSITION notification was emitted)
  deriving DecidableEq, Repr

structure St where
  requestor : Bool
  fsm : Nat := 1
  eventQ : List Nat := []
  provQ : List Prim := []
  recvPdu : List (Nat × Bool) := []     -- `_recv_pdu`: decoded PDUs waiting for their action (event, alt)
  inbox : List Wire := []               -- bytes the peer has sent and the reactor has not read
  connected : Bool := false             -- `AssociationSocket._is_connected`
  broken : Bool := false                -- sends fail (connection reset)
  connectOk : Bool := true              -- what the next TCP connect attempt will do
  artim : Artim := .off
  kill : Bool := false
  dead : Bool := false                  -- the thread died with an exception out of `do_action`
  phaseB : Bool := false                -- between phase A and phase B of an iteration
  sent : List Eff := []                 -- PDUs put on the wire, most recent first
  toUser : List Eff := []               -- indications/confirmations, most recent first
  log : List Dispatch := []             -- dispatched events, most recent first
  closes : Nat := 0                     -- EVT_CONN_CLOSE notifications
  deriving Repr

def initRequestor : St := { requestor := true }
/-- an accepted connection: `AssociationSocket.__init__` queues Evt5 -/
def initAcceptor : St := { requestor := false, connected := true, eventQ := [5] }

def St.live (s : St) : Bool := !s.kill && !s.dead

/-- environment -/
inductive Env
  | peer (w : Wire)          -- something becomes readable
  | breakConn                -- sends start failing
  | artimFire                -- the ARTIM timeout elapses
  | local (p : Prim)         -- the association thread calls `dul.send_pdu(p)`
  | connectWillFail
  deriving DecidableEq, Repr

def env (e : Env) (s : St) : St :=
  match e with
  | .peer w => { s with inbox := s.inbox ++ [w] }
  | .breakConn => { s with broken := true }
  | .artimFire => { s with artim := s.artim.fire }
  | .local p => { s with provQ := s.provQ ++ [p] }
  | .connectWillFail => { s with connectOk := false }

/-- `_read_pdu_data` on a readable socket -/
def readTransport (s : St) : St :=
  match s.inbox with
  | [] => s
  | .pdu e alt :: rest => { s with inbox := rest, eventQ := s.eventQ ++ [e], recvPdu := s.recvPdu ++ [(e, alt)] }
  | .invalid :: rest => { s with inbox := rest, eventQ := s.eventQ ++ [19] }
  | .eof :: _ => { s with eventQ := s.eventQ ++ [17] }       -- EOF stays readable

/-- `AssociationSocket.close()` -/
def closeSock (s : St) : St :=
  if s.connected then { s with connected := false, eventQ := s.eventQ ++ [17] } else s

/-- phase A of an iteration -/
def iterA (s : St) : St :=
  if !s.live || s.phaseB then s else
  let s := if s.artim.expired then { s with eventQ := s.eventQ ++ [18] } else s
  let s :=
    match s.provQ with
    | p :: _ => { s with eventQ := s.eventQ ++ [p.event] }
    | [] =>
      if s.fsm = 13 then
        (if s.connected && !s.inbox.isEmpty then readTransport s else closeSock s)
      else if s.connected && !s.inbox.isEmpty then readTransport s else s
  -- an empty event queue ends the iteration (`except queue.Empty: continue`)
  { s with phaseB := !s.eventQ.isEmpty }

/-- which queue an action pops (bookkeeping of fsm.py) -/
def popsPrim : Action → Bool
  | .AE_1 | .AE_2 | .AE_7 | .AE_8 | .DT_1 | .AR_1 | .AR_4 | .AR_7 | .AR_9 => true
  | _ => false
def popsPdu : Action → Bool
  | .AE_3 | .AE_4 | .AE_6 | .DT_2 | .AR_2 | .AR_3 | .AR_6 | .AR_8 | .AR_10 | .AA_3 | .AA_6 => true
  | _ => false

def isSend : Eff → Bool
  | .sendRq | .sendAc | .sendRj .. | .sendPdata | .sendRelRq | .sendRelRp | .sendAbort .. => true
  | _ => false
def isInd : Eff → Bool
  | .indAssocRq | .confAccept | .confReject | .indPdata | .indRelease | .confRelease | .indAbort _
  | .indPAbort _ => true
  | _ => false

/-- apply one protocol effect -/
def applyEff (s : St) (f : Eff) : St :=
  if isSend f then
    (if s.connected && !s.broken then { s with sent := f :: s.sent }
     else { s with eventQ := s.eventQ ++ [17] })              -- `AssociationSocket.send` failed
  else if isInd f then { s with toUser := f :: s.toUser }
  else match f with
    | .artimStart | .artimRestart => { s with artim := s.artim.start }
    | .artimStop => { s with artim := s.artim.stop }
    | .close => closeSock s
    | .connect =>
      if s.connectOk then { s with connected := true, provQ := s.provQ ++ [.connectOk] }
      else { s with provQ := s.provQ ++ [.connectFail] }
    | _ => s

/-- the `alt` data of the input an action consumes -/
def altOf (s : St) (a : Action) (_e : Nat) : Bool :=
  if popsPdu a then
    (match s.recvPdu with | (_, alt) :: _ => alt | [] => false)
  else false

/-- protocol effects of an action in this state: `Spec.Ps38.effects`, except that AA-1 takes the
A-ABORT PDU's source/reason from an abort primitive at the head of the provider queue whatever
event triggered it (fsm.py `AA_1`) -/
def effectsOf (s : St) (a : Action) (e : Nat) : List Eff × Nat :=
  if a = .AA_1 then
    (match s.provQ with
     | .abort true :: _ => ([.sendAbort 2 1, .artimRestart], 13)
     | _ => ([.sendAbort 0 0, .artimRestart], 13))
  else Spec.Ps38.effects a e s.requestor (altOf s a e)

/-- the cases in which the action itself raises: an action that finds its input queue empty
(`queue.get(False)` raises), or AA-1 with a non-abort primitive at the head of the provider queue
(it feeds that primitive to `A_ABORT_RQ.from_primitive`, which leaves source/reason unset, and
`encode()` raises).  `do_action` then sets the kill flag and re-raises. -/
def fatal (s : St) (a : Action) : Bool :=
  (popsPrim a && s.provQ.isEmpty) || (popsPdu a && a != .AA_6 && s.recvPdu.isEmpty) ||
  (a == .AA_1 && (match s.provQ with | [] => false | .abort _ :: _ => false | _ => true))

/-- the queue pops of an action (every action reads its input before acting) -/
def popPrimQ (s : St) (a : Action) : St :=
  if popsPrim a then { s with provQ := s.provQ.tail } else s
def popAbortQ (s : St) (a : Action) : St :=
  if a = .AA_1 then
    (match s.provQ with | .abort _ :: rest => { s with provQ := rest } | _ => s)
  else s
def popPduQ (s : St) (a : Action) : St :=
  if popsPdu a then { s with recvPdu := s.recvPdu.tail } else s
def popInputs (s : St) (a : Action) : St := popPduQ (popAbortQ (popPrimQ s a) a) a

/-- the normal path of an action -/
def act (s : St) (a : Action) (e : Nat) : St :=
  let r := effectsOf s a e
  let s1 := popInputs s a
  -- AA-4, AA-5, AR-5 only shut the raw socket down (`_shutdown_socket`): the connected flag stays
  -- and no Evt17 is queued, unlike `AssociationSocket.close()`
  let effs := if a = .AA_4 || a = .AA_5 || a = .AR_5 then r.1.filter (· != .close) else r.1
  let s2 := effs.foldl applyEff s1
  -- a P-DATA PDU whose DIMSE payload cannot be decoded (`alt`): `receive_primitive` queues Evt19
  let s2 := if (a = .DT_2 || a = .AR_6) && altOf s a e then { s2 with eventQ := s2.eventQ ++ [19] } else s2
  let idle := r.2 == 1
  { s2 with fsm := r.2, kill := s2.kill || idle, closes := s2.closes + (if idle then 1 else 0),
            log := ⟨e, s.fsm, some a, r.2, true⟩ :: s2.log }

/-- `StateMachine.do_action`.  An undefined pair raises InvalidEventError before anything happens;
a raising action is caught by `do_action`, which sets the kill flag and re-raises: in both cases
the thread dies. -/
def dispatch (s : St) (e : Nat) : St :=
  match lookup Spec.Ps38.table e s.fsm with
  | none => { s with dead := true, log := ⟨e, s.fsm, none, s.fsm, false⟩ :: s.log }
  | some a =>
    if fatal s a then { s with dead := true, kill := true, log := ⟨e, s.fsm, some a, s.fsm, false⟩ :: s.log }
    else act s a e

/-- phase B of an iteration -/
def iterB (s : St) : St :=
  if !s.live || !s.phaseB then s else
  match s.eventQ with
  | [] => { s with phaseB := false }
  | e :: rest => dispatch { s with eventQ := rest, phaseB := false } e

inductive Step | env (e : Env) | a | b
  deriving DecidableEq, Repr

def step (s : St) : Step → St
  | .env e => env e s
  | .a => iterA s
  | .b => iterB s

def run (s : St) (sched : List Step) : St := sched.foldl step s

/-- events that originate from the transport: PDUs, invalid PDU, connection closed -/
def transportPdu (e : Nat) : Bool := e == 3 || e == 4 || e == 6 || e == 10 || e == 12 || e == 13 || e == 16 || e == 19

end PynetVerif.Dul
