import PynetVerif.Model.SExp
/-
Model of PDU framing over a stream socket:
`AssociationSocket.recv` (transport.py) and the header/length logic of
`DULServiceProvider._read_pdu_data` (dul.py).

The transport is the byte string the peer will have sent before closing
(`rest`) plus an adversarial *read oracle*: each `socket.recv(bufsize)` returns
a non-empty prefix of what is left, of a length chosen by the oracle
(`got k` = at most k+1 bytes), or raises (`timeout`, standing for
TimeoutError/OSError).  An empty read happens only at end of stream.  This
covers every TCP segmentation and every kernel coalescing.  An exhausted
oracle list means "read greedily".
-/
namespace PynetVerif.Framing

inductive RR | got (k : Nat) | timeout
  deriving DecidableEq, Repr, Inhabited

/-- one `socket.recv(bufsize)`: `none` = exception -/
def recv1 (rest : Bytes) (r : RR) (bufsize : Nat) : Option (Bytes × Bytes) :=
  match r with
  | .timeout => none
  | .got k =>
    let m := min (min (k + 1) bufsize) rest.length
    some (rest.take m, rest.drop m)

def pop : List RR → RR × List RR
  | [] => (.got 4095, [])
  | r :: ks => (r, ks)

/-- `AssociationSocket.recv(nr_bytes)`: loop requesting `min 4096 remaining`
until `nr_bytes` were read or a read returns nothing.  `fuel` bounds the loop
(every iteration that continues has read ≥ 1 byte, so `need` suffices). -/
def recvN : (fuel : Nat) → (rest : Bytes) → (ks : List RR) → (need : Nat) → (acc : Bytes) →
    Option (Bytes × Bytes × List RR)
  | 0, rest, ks, _, acc => some (acc, rest, ks)
  | fuel + 1, rest, ks, need, acc =>
    if need = 0 then some (acc, rest, ks) else
    let (r, ks') := pop ks
    match recv1 rest r (min 4096 need) with
    | none => none
    | some (b, rest') =>
      if b = [] then some (acc, rest', ks') else recvN fuel rest' ks' (need - b.length) (acc ++ b)

def recv (rest : Bytes) (ks : List RR) (n : Nat) : Option (Bytes × Bytes × List RR) :=
  recvN n rest ks n []

inductive Frame
  | pdu (b : Bytes)        -- a complete PDU (header + body) handed to the decoder
  | unrecognised (hdr : Bytes) -- PDU type not in 1..7  (Evt19); only the 6 header bytes are consumed
  | closed                 -- connection closed / timed out / short read  (Evt17)
  deriving DecidableEq, Repr, Inhabited

/-- the bytes of the stream a frame accounts for -/
def Frame.bytes : Frame → Bytes
  | .pdu b => b
  | .unrecognised h => h
  | .closed => []

def be32 (a b c d : UInt8) : Nat := ((a.toNat * 256 + b.toNat) * 256 + c.toNat) * 256 + d.toNat

def validType (t : UInt8) : Bool := 1 ≤ t.toNat && t.toNat ≤ 7

/-- `_read_pdu_data` up to the point where the bytes go to the decoder -/
def readPdu (rest : Bytes) (ks : List RR) : Frame × Bytes × List RR :=
  match recv rest ks 6 with
  | none => (.closed, rest, ks)
  | some (hdr, rest1, ks1) =>
    match hdr with
    | [t, _, a, b, c, d] =>
      if validType t then
        let len := be32 a b c d
        match recv rest1 ks1 len with
        | none => (.closed, rest1, ks1)
        | some (body, rest2, ks2) =>
          if body.length = len then (.pdu (hdr ++ body), rest2, ks2) else (.closed, rest2, ks2)
      else (.unrecognised hdr, rest1, ks1)
    | _ => (.closed, rest1, ks1)      -- struct.error: fewer than 6 bytes

/-- what the reactor sees, one `_read_pdu_data` per iteration, until the connection is closed -/
def frames : (fuel : Nat) → Bytes → List RR → List Frame
  | 0, _, _ => []
  | fuel + 1, rest, ks =>
    match readPdu rest ks with
    | (.closed, _, _) => [.closed]
    | (f, rest', ks') => f :: frames fuel rest' ks'

/-- a correctly framed PDU: 6-byte header with a valid type and the body length, then the body -/
def mkPdu (t r : UInt8) (body : Bytes) : Bytes :=
  let n := body.length
  [t, r, UInt8.ofNat (n / 16777216), UInt8.ofNat (n / 65536 % 256), UInt8.ofNat (n / 256 % 256),
   UInt8.ofNat (n % 256)] ++ body

def NoTimeout (ks : List RR) : Prop := ∀ r ∈ ks, r ≠ .timeout

end PynetVerif.Framing
