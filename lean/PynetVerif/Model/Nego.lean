import PynetVerif.Gen.Roles
/-!
M-Nego — presentation context negotiation as `pynetdicom/presentation.py` does it.

`negotiateAsAcceptor`, `negotiateUnrestricted`, `negotiateAsRequestor` mirror
`negotiate_as_acceptor`, `negotiate_unrestricted`, `negotiate_as_requestor`
statement by statement, including the Python `dict` semantics they rely on
(insertion order of the first occurrence of a key, value of the last), the
early returns for empty lists, the stable `sorted`, and the three exceptions the
code can raise on inputs its callers do not exclude (`IndexError` for
`transfer_syntax[0]` of a context without transfer syntax, `KeyError` for a role
pair that is no key of `SCP_SCU_ROLES`, `ValueError` for an empty requestor
list).  UIDs are abstracted to `Nat` (the order of the `Nat`s stands for the
string order of the UIDs, which is only used to sort the role items).
`SCP_SCU_ROLES` is not copied here: the model looks outcomes up in
`Gen.Roles.table`, regenerated from the source on every run.

`associate` composes the two sides the way `ACSE._negotiate_as_acceptor`,
`ACSE._negotiate_as_requestor` do, with the A-ASSOCIATE-RQ/AC wire abstracted to
the identity on what the items carry (C01 owns the byte codec).
-/
namespace PynetVerif.Nego

/-- Python `None | True | False` -/
abbrev Role := Option Bool
abbrev RolePair := Role × Role
/-- the `roles` argument: `dict[UID, (scu_role, scp_role)]` as its item list -/
abbrev Roles := List (Nat × RolePair)

/-- A `PresentationContext` as an *input*: requested (id, abstract, transfer
syntaxes, and — requestor side only — the scu_role/scp_role attributes) or
supported (`id` unused). -/
structure Cx where
  id : Nat
  abs : Nat
  ts : List Nat
  scu : Role := none
  scp : Role := none
  deriving Repr, DecidableEq, Inhabited

inductive Err
  | index   -- IndexError: `transfer_syntax[0]` on an empty list
  | key     -- KeyError: SCP_SCU_ROLES[...] with a pair that is no key
  | value   -- ValueError('Requestor contexts are required')
  deriving Repr, DecidableEq, Inhabited

/-- A result context built by the acceptor: exactly one transfer syntax;
`as_scu/as_scp` are `None` only on the "no supported contexts" early return. -/
structure AccCx where
  id : Nat
  abs : Nat
  result : Nat
  ts : Nat
  asScu : Option Bool
  asScp : Option Bool
  deriving Repr, DecidableEq, Inhabited

/-- An `SCP_SCU_RoleSelectionNegotiation` item of the acceptor's answer. -/
structure RoleItem where
  uid : Nat
  scu : Bool
  scp : Bool
  deriving Repr, DecidableEq, Inhabited

/-- What an A-ASSOCIATE-AC presentation context item carries. -/
structure WireCx where
  id : Nat
  result : Nat
  ts : List Nat
  deriving Repr, DecidableEq, Inhabited

/-- A context as the requestor ends up with it. -/
structure ReqCx where
  id : Nat
  abs : Nat
  result : Nat
  ts : List Nat
  asScu : Bool
  asScp : Bool
  deriving Repr, DecidableEq, Inhabited

/-! ### Python building blocks -/

/-- `d[key x] = x` on a dict given as its value list (keys distinct, insertion order). -/
def dictSet {α κ : Type} [BEq κ] (key : α → κ) (x : α) : List α → List α
  | [] => [x]
  | y :: ys => if key y == key x then x :: ys else y :: dictSet key x ys

/-- `{key x: x for x in l}.values()` -/
def dictBy {α κ : Type} [BEq κ] (key : α → κ) (l : List α) : List α :=
  l.foldl (fun d x => dictSet key x d) []

/-- a `for` loop whose body may raise: stops at the first exception -/
def mapE {α β ε : Type} (f : α → Except ε β) : List α → Except ε (List β)
  | [] => .ok []
  | a :: as =>
    match f a with
    | .error e => .error e
    | .ok b =>
      match mapE f as with
      | .error e => .error e
      | .ok bs => .ok (b :: bs)

/-- put `x` in front of the first element whose key is not smaller -/
def insertBy {α : Type} (key : α → Nat) (x : α) : List α → List α
  | [] => [x]
  | y :: ys => if Nat.ble (key x) (key y) then x :: y :: ys else y :: insertBy key x ys

/-- `sorted(l, key=key)`: a stable sort (insertion from the right keeps equal keys in input
order, as Python's `sorted` does); structural, so the kernel can evaluate it -/
def sortBy {α : Type} (key : α → Nat) : List α → List α
  | [] => []
  | x :: xs => insertBy key x (sortBy key xs)

/-- `sorted(l, key=lambda x: x.context_id)` -/
def sortAcc (l : List AccCx) : List AccCx := sortBy (·.id) l
def sortReq (l : List ReqCx) : List ReqCx := sortBy (·.id) l
/-- `sorted(reply_roles.values(), key=lambda x: x.sop_class_uid)` -/
def sortRoles (l : List RoleItem) : List RoleItem := sortBy (·.uid) l

/-- `{cx.abstract_syntax: cx for cx in ac_contexts}.get(a)`: the last one wins -/
def acLookup (ac : List Cx) (a : Nat) : Option Cx := ac.reverse.find? (fun c => c.abs == a)

/-- `{cx.context_id: cx for cx in ac_contexts}.get(i)` -/
def wireLookup (acs : List WireCx) (i : Nat) : Option WireCx := acs.reverse.find? (fun c => c.id == i)

/-- `SCP_SCU_ROLES[rq][ac]` -/
def tableLookup (rq ac : RolePair) : Except Err (Bool × Bool × Bool × Bool) :=
  match Gen.Roles.table.lookup rq with
  | none => .error .key
  | some inner =>
    match inner.lookup ac with
    | none => .error .key
    | some o => .ok o

/-- `rq_context.transfer_syntax[0]` -/
def tsHead (p : Cx) : Except Err Nat :=
  match p.ts with
  | [] => .error .index
  | t :: _ => .ok t

/-- the acceptor's first transfer syntax that the requestor proposed:
`for tr_syntax in ac_context.transfer_syntax: if tr_syntax in rq_context.transfer_syntax` -/
def firstCommon (acTs rqTs : List Nat) : Option Nat := acTs.find? (fun t => rqTs.contains t)

/-- a rejected result echoing the proposal's first transfer syntax -/
def rejected (p : Cx) (result : Nat) (role : Option Bool) : Except Err AccCx :=
  match tsHead p with
  | .error e => .error e
  | .ok t => .ok { id := p.id, abs := p.abs, result := result, ts := t, asScu := role, asScp := role }

/-! ### negotiate_as_acceptor -/

/-- the role item built for an accepted context with a proposed role:
`False` where the proposal is `False`, the acceptor's configured value otherwise -/
def replyItem (uid : Nat) (rq : RolePair) (cu cp : Bool) : RoleItem :=
  { uid := uid
    scu := if rq.1 = some false then false else cu
    scp := if rq.2 = some false then false else cp }

/-- body of the main loop for one (deduplicated) proposal; the second component
is the `reply_roles[abstract_syntax] = role` assignment, if executed -/
def negOne (ac : List Cx) (roles : Roles) (p : Cx) : Except Err (AccCx × Option RoleItem) :=
  match acLookup ac p.abs with
  | none =>
    match rejected p 3 (some false) with
    | .error e => .error e
    | .ok r => .ok (r, none)
  | some c =>
    -- try: rq_roles = roles[ab_syntax]; has_role = True / except KeyError: (None, None), False
    let rqRoles : RolePair := (roles.lookup p.abs).getD (none, none)
    let hasRole : Bool := (roles.lookup p.abs).isSome
    match firstCommon c.ts p.ts with
    | none =>
      match rejected p 4 (some false) with
      | .error e => .error e
      | .ok r => .ok (r, none)
    | some t =>
      match c.scu, c.scp with
      | some cu, some cp =>
        match tableLookup rqRoles (some cu, some cp) with
        | .error e => .error e
        | .ok o =>
          let asScu := o.2.2.1
          let asScp := o.2.2.2
          if asScu = false ∧ asScp = false then
            .ok ({ id := p.id, abs := p.abs, result := 1, ts := t, asScu := some false, asScp := some false }, none)
          else
            .ok ({ id := p.id, abs := p.abs, result := 0, ts := t, asScu := some asScu, asScp := some asScp },
                 if hasRole then some (replyItem p.abs rqRoles cu cp) else none)
      | _, _ =>
        -- `None in ac_roles`: acceptor is SCP, no role item (has_role = False)
        .ok ({ id := p.id, abs := p.abs, result := 0, ts := t, asScu := some false, asScp := some true }, none)

/-- one proposal on the `if not ac_contexts` early return -/
def noAcOne (p : Cx) : Except Err (AccCx × Option RoleItem) :=
  match rejected p 3 none with
  | .error e => .error e
  | .ok r => .ok (r, none)

def negotiateAsAcceptor (rq ac : List Cx) (roles : Roles) : Except Err (List AccCx × List RoleItem) :=
  if rq.isEmpty then .ok ([], [])
  else if ac.isEmpty then
    match mapE noAcOne rq with
    | .error e => .error e
    | .ok rs => .ok (rs.map (·.1), [])          -- not sorted, roles stay None
  else
    match mapE (negOne ac roles) (dictBy (fun p => (p.id, p.abs)) rq) with
    | .error e => .error e
    | .ok rs => .ok (sortAcc (rs.map (·.1)), sortRoles (dictBy (·.uid) (rs.filterMap (·.2))))

/-! ### negotiate_unrestricted -/

/-- loop body for one storage-like proposal (no deduplication in this loop) -/
def unrOne (roles : Roles) (p : Cx) : Except Err (AccCx × Option RoleItem) :=
  match tsHead p with
  | .error e => .error e
  | .ok t =>
    match roles.lookup p.abs with
    | none => .ok ({ id := p.id, abs := p.abs, result := 0, ts := t, asScu := some true, asScp := some true }, none)
    | some rqRoles =>
      match tableLookup rqRoles (some true, some true) with
      | .error e => .error e
      | .ok o =>
        .ok ({ id := p.id, abs := p.abs, result := 0, ts := t, asScu := some o.2.2.1, asScp := some o.2.2.2 },
             -- role.scu_role = False if not rq_roles[0] else True
             some { uid := p.abs, scu := rqRoles.1 == some true, scp := rqRoles.2 == some true })

/-- `storageLike a` stands for `is_private or in _STORAGE_CLASSES.values() or not
hasattr(sop_class, keyword)`.  The role items of the inner `negotiate_as_acceptor`
call are overwritten (dropped), as in the code. -/
def negotiateUnrestricted (storageLike : Nat → Bool) (rq ac : List Cx) (roles : Roles) :
    Except Err (List AccCx × List RoleItem) :=
  let storage := rq.filter (fun p => storageLike p.abs)
  let nonStorage := rq.filter (fun p => !storageLike p.abs)
  match negotiateAsAcceptor nonStorage ac roles with
  | .error e => .error e
  | .ok (res, _) =>
    match mapE (unrOne roles) storage with
    | .error e => .error e
    | .ok rs => .ok (sortAcc (res ++ rs.map (·.1)), sortRoles (dictBy (·.uid) (rs.filterMap (·.2))))

/-! ### negotiate_as_requestor -/

def reqOne (acs : List WireCx) (roles : Roles) (p : Cx) : Except Err ReqCx :=
  match wireLookup acs p.id with
  | some a =>
    -- if ac_context.transfer_syntax: context.transfer_syntax = [ac_context.transfer_syntax[0]]
    let ts := a.ts.take 1
    let acRoles : RolePair := (roles.lookup p.abs).getD (none, none)
    if a.result = 0 ∧ acRoles.1.isSome ∧ acRoles.2.isSome then
      match tableLookup (p.scu, p.scp) acRoles with
      | .error e => .error e
      | .ok o => .ok { id := p.id, abs := p.abs, result := a.result, ts := ts, asScu := o.1, asScp := o.2.1 }
    else
      .ok { id := p.id, abs := p.abs, result := a.result, ts := ts, asScu := true, asScp := false }
  | none =>
    match tsHead p with
    | .error e => .error e
    | .ok t => .ok { id := p.id, abs := p.abs, result := 2, ts := [t], asScu := false, asScp := false }

def negotiateAsRequestor (rq : List Cx) (acs : List WireCx) (roles : Roles) : Except Err (List ReqCx) :=
  if rq.isEmpty then .error .value
  else
    match mapE (reqOne acs roles) (dictBy (·.id) rq) with
    | .error e => .error e
    | .ok rs => .ok (sortReq rs)

/-! ### the two ACSE halves and the wire between them -/

/-- role items of the A-ASSOCIATE-RQ as the acceptor decodes them:
`from_primitive`: `int(role) if role is not None else False`; `to_primitive`: `bool(byte)` -/
def rqRolesOnWire (roles : Roles) : Roles :=
  roles.map fun kv => (kv.1, (some (kv.2.1.getD false), some (kv.2.2.getD false)))

/-- `ACSE._negotiate_as_requestor`: `cx.scu_role, cx.scp_role = rq_roles[abstract]`, each `or False`;
a context without a role item keeps its own attributes -/
def applyOne (roles : Roles) (p : Cx) : Cx :=
  match roles.lookup p.abs with
  | some r => { p with scu := some (r.1.getD false), scp := some (r.2.getD false) }
  | none => p

def applyRoles (roles : Roles) (rq : List Cx) : List Cx := rq.map (applyOne roles)

/-- an A-ASSOCIATE-AC context item: id, result, the one transfer syntax -/
def wireCx (r : AccCx) : WireCx := { id := r.id, result := r.result, ts := [r.ts] }

/-- role items of the A-ASSOCIATE-AC as the requestor's `ac_roles` dict (values are `bool`) -/
def acRolesOnWire (rs : List RoleItem) : Roles := rs.map fun r => (r.uid, (some r.scu, some r.scp))

/-- `_config.UNRESTRICTED_STORAGE_SERVICE` selects the acceptor's function -/
def acceptorSide (unrestricted : Bool) (storageLike : Nat → Bool) (rq ac : List Cx) (roles : Roles) :
    Except Err (List AccCx × List RoleItem) :=
  if unrestricted then negotiateUnrestricted storageLike rq ac roles else negotiateAsAcceptor rq ac roles

/-- both sides of one association negotiation: what the acceptor holds and what
the requestor holds afterwards -/
def associate (unrestricted : Bool) (storageLike : Nat → Bool) (rq : List Cx) (rqRoles : Roles) (ac : List Cx) :
    Except Err (List AccCx × List ReqCx) :=
  match acceptorSide unrestricted storageLike rq ac (rqRolesOnWire rqRoles) with
  | .error e => .error e
  | .ok (res, reply) =>
    match negotiateAsRequestor (applyRoles rqRoles rq) (res.map wireCx) (acRolesOnWire reply) with
    | .error e => .error e
    | .ok out => .ok (res, out)

end PynetVerif.Nego
