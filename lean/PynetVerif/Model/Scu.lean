import PynetVerif.Model.Status
/-!
Model of the SCU side of `pynetdicom.association.Association`:
`send_c_find`/`_wrap_find_responses`, `send_c_get`/`send_c_move`/
`_wrap_get_move_responses` (with `_c_store_scp` for interleaved C-STORE
sub-operations), the single-response calls `send_c_echo`, `send_c_store`,
`send_n_*`, `_check_received_status`, `_handle_no_response`, `send_c_cancel`.

The peer is a list of `PeerMsg` — what successive `dimse.get_msg(block=True)`
calls return; a peer that has nothing more to say is silent, i.e. the DIMSE
timeout expires (`[]` behaves as `none .timeout`).  Every call is a function
from the peer to the *trace of effects* (`Ev`) in program order: lock
acquire/release (`with self.lock:`), reactor checkpoint clear/set, request and
C-STORE response sends, `abort()`, each `yield`, the `return` value, an
escaping exception.  What an observer sees at each suspension point (lock held?
reactor paused?) is *computed* from the trace by `observe`, not written into
the yields.

Mirrors the code as it is (including: no message-type check in the
single-response calls, `rsp.<Reply>` attribute access on whatever primitive
arrived, a C-STORE primitive without Affected SOP Class UID making
`_c_store_scp` raise out of the generator with the reactor still paused).
-/
namespace PynetVerif.Scu
open PynetVerif.Status

/-- class of the DIMSE primitive returned by `get_msg` -/
inductive Kind
  | find | get | move | store | echo | nAction | nCreate | nDelete | nEventReport | nGet | nSet
  deriving DecidableEq, Repr, Inhabited

/-- the data-set attribute of a received primitive (`Identifier`, `ActionReply`, `AttributeList`,
`EventReply`): `None`, `BytesIO(b"")`, decodable non-empty bytes, bytes on which `decode` raises -/
inductive Ident | absent | empty | good | bad
  deriving DecidableEq, Repr, Inhabited

/-- the circumstances when `get_msg` returned `(None, None)`: plain DIMSE timeout on an established
association; an A-ABORT / A-P-ABORT indication is at the head of the DUL's queue; the association is
no longer established -/
inductive NoRsp | timeout | aAbort | apAbort | dead
  deriving DecidableEq, Repr, Inhabited

/-- Affected SOP Class UID of a C-STORE request primitive with respect to the accepted contexts:
missing (`None`), no accepted context with the SCP role, accepted -/
inductive StoreCx | noClass | unaccepted | accepted
  deriving DecidableEq, Repr, Inhabited

inductive PeerMsg
  /-- a primitive of class `k`; `valid` = `is_valid_response` (MessageIDBeingRespondedTo and Status
  both set); `status` = its Status; `ident` = its data-set attribute -/
  | rsp (k : Kind) (valid : Bool) (status : Nat) (ident : Ident)
  /-- a C-STORE *request* primitive (no Status, so not a valid response) -/
  | storeRq (cx : StoreCx)
  /-- `get_msg` returned `(None, None)` -/
  | none (why : NoRsp)
  deriving DecidableEq, Repr, Inhabited

/-- what the caller is handed as identifier / reply: `None`, an empty `Dataset`, a non-empty `Dataset` -/
inductive IdentRes | none | emptyDs | ds
  deriving DecidableEq, Repr, Inhabited

/-- effects, in program order -/
inductive Ev
  | clearCkpt                 -- `_reactor_checkpoint.clear()` (reactor paused)
  | setCkpt                   -- `_reactor_checkpoint.set()`
  | sendRq                    -- the service request handed to `dimse.send_msg`
  | sendCancel                -- C-CANCEL request handed to `dimse.send_msg`
  | recv                      -- one `dimse.get_msg(block=True)`
  | acquire | release         -- `with self.lock:` (the AE-wide `ae._lock`)
  | abort                     -- `self.abort()`
  | sendStoreRsp (status : Nat) -- C-STORE response sent by `_c_store_scp`
  | yield (status : Option Nat) (ident : IdentRes)  -- `None` status = empty `Dataset()`
  | ret (status : Option Nat) (reply : IdentRes)    -- single-response calls
  | raise                     -- an exception escapes to the caller
  deriving DecidableEq, Repr, Inhabited

/-- status handed out by `_c_store_scp` when no context matches -/
def sopClassNotSupported : Nat := 0x0122
/-- status written by the N-* calls when the reply data set does not decode -/
def processingFailure : Nat := 0x0110
/-- status returned by the EVT_C_STORE handler bound by the harness -/
def handlerStatus : Nat := 0x0000

/-- `_handle_no_response`: abort only if neither abort indication is pending and the association is
still established -/
def handleNoResponse : NoRsp → List Ev
  | .timeout => [.abort]
  | .aAbort => []
  | .apAbort => []
  | .dead => []

/-- the three "give up" paths of both wrappers after the reaction (`abort()` or
`_handle_no_response()`): set the checkpoint, yield `(Dataset(), None)`, `return` -/
def giveUp (reaction : List Ev) : List Ev := .recv :: reaction ++ [.setCkpt, .yield .none .none]

/-- `decode(rsp.Identifier, …)` inside `try/except Exception` in `_wrap_find_responses`
(`decode(None, …)` raises AttributeError, which is caught too) -/
def decodeFind : Ident → IdentRes
  | .absent => .none
  | .empty => .emptyDs
  | .good => .ds
  | .bad => .none

/-- `_wrap_find_responses(transfer_syntax, query_model)`; `rq` = `query_model == RepositoryQuery` -/
def wrapFind (rq : Bool) : List PeerMsg → List Ev
  | [] => giveUp [.abort]                                   -- silent peer: DIMSE timeout
  | .none why :: _ => giveUp (handleNoResponse why)         -- `rsp is None`
  | .storeRq _ :: _ => giveUp [.abort]                      -- `not isinstance(rsp, C_FIND)`
  | .rsp k valid st id :: rest =>
    if k ≠ .find then giveUp [.abort]                       -- `not isinstance(rsp, C_FIND)`
    else if !valid then giveUp [.abort]                     -- `not rsp.is_valid_response`
    else if rq && st == 0xB001 then                         -- Repository Query response limit
      .recv :: .yield (some st) .none :: wrapFind rq rest
    else if category st == .pending then                    -- decode under the lock, yield outside it
      .recv :: .acquire :: .release :: .yield (some st) (decodeFind id) :: wrapFind rq rest
    else [.recv, .setCkpt, .yield (some st) .none, .setCkpt] -- final yield, `break`, unpause

/-- `_c_store_scp(req)` -/
def cStoreScp : StoreCx → List Ev
  | .noClass => [.raise]                                    -- `UID(None)` raises TypeError
  | .unaccepted => [.sendStoreRsp sopClassNotSupported]     -- `except ValueError`: 0x0122 on context 1
  | .accepted => [.sendStoreRsp handlerStatus]

/-- the final identifier of a C-GET/C-MOVE response: decoded (under the lock) only when
`rsp.Identifier` is truthy and the category is Cancel/Warning/Failure -/
def finalIdentGM (st : Nat) (id : Ident) : List Ev × IdentRes :=
  let c := category st
  if id != .absent && (c == .cancel || c == .warning || c == .failure) then
    ([.acquire, .release],
      match id with
      | .absent => .none | .empty => .emptyDs | .good => .ds | .bad => .none)
  else ([], .none)

/-- `_wrap_get_move_responses(transfer_syntax)` (the same generator serves C-GET and C-MOVE) -/
def wrapGetMove : List PeerMsg → List Ev
  | [] => giveUp [.abort]
  | .none why :: _ => giveUp (handleNoResponse why)
  | .storeRq cx :: rest =>                                  -- `isinstance(rsp, C_STORE)`
    if cx == .noClass then .recv :: cStoreScp cx            -- exception escapes, nothing is reset
    else .recv :: cStoreScp cx ++ wrapGetMove rest
  | .rsp k valid st id :: rest =>
    if k ≠ .store && k ≠ .get && k ≠ .move then giveUp [.abort]   -- not (C_STORE, C_GET, C_MOVE)
    else if k == .store then .recv :: cStoreScp .accepted ++ wrapGetMove rest
    else if !valid then giveUp [.abort]
    else if category st == .pending then .recv :: .yield (some st) .none :: wrapGetMove rest
    else
      .recv :: (finalIdentGM st id).1 ++ [.setCkpt, .yield (some st) (finalIdentGM st id).2, .setCkpt]

/-- the prologue shared by every call: pause the reactor, send the request -/
def prologue : List Ev := [.clearCkpt, .sendRq]

def sendCFind (rq : Bool) (peer : List PeerMsg) : List Ev := prologue ++ wrapFind rq peer
def sendCGet (peer : List PeerMsg) : List Ev := prologue ++ wrapGetMove peer
def sendCMove (peer : List PeerMsg) : List Ev := prologue ++ wrapGetMove peer

/-- `send_c_cancel`: one send, no lock, no checkpoint, no receive -/
def sendCCancel : List Ev := [.sendCancel]

/-- the single-response calls -/
inductive Svc | echo | store | nDelete | nAction | nCreate | nEventReport | nGet | nSet
  deriving DecidableEq, Repr, Inhabited

/-- name of a primitive's data-set attribute -/
inductive Attr | identifier | dataSet | actionReply | attributeList | eventReply
  deriving DecidableEq, Repr

/-- the response data-set attribute that exists on a primitive class -/
def Kind.attr : Kind → Option Attr
  | .find | .get | .move => some .identifier
  | .store => some .dataSet
  | .echo | .nDelete => none
  | .nAction => some .actionReply
  | .nCreate | .nGet | .nSet => some .attributeList
  | .nEventReport => some .eventReply

/-- the attribute a call reads from whatever primitive arrived (`None` = returns the status only) -/
def Svc.reads : Svc → Option Attr
  | .echo | .store | .nDelete => none
  | .nAction => some .actionReply
  | .nCreate | .nGet | .nSet => some .attributeList
  | .nEventReport => some .eventReply

/-- the primitive class a call expects as response (the code never checks it) -/
def Svc.expects : Svc → Kind
  | .echo => .echo | .store => .store | .nDelete => .nDelete | .nAction => .nAction
  | .nCreate => .nCreate | .nEventReport => .nEventReport | .nGet => .nGet | .nSet => .nSet

/-- after `get_msg` and `_reactor_checkpoint.set()` -/
def singleTail (svc : Svc) : List PeerMsg → List Ev
  | [] => [.abort, .ret .none .none]
  | .none why :: _ => handleNoResponse why ++ [.ret .none .none]
  | .storeRq _ :: _ => [.abort, .ret .none .none]          -- `_check_received_status`: invalid
  | .rsp k valid st id :: _ =>
    if !valid then [.abort, .ret .none .none]
    else match svc.reads with
      | none => [.ret (some st) .none]
      | some a =>
        let c := category st
        if !(c == .warning || c == .success) then [.ret (some st) .none]
        else if k.attr != some a then [.raise]              -- AttributeError on `rsp.<Reply>`
        else match id with
          | .absent => [.ret (some st) .emptyDs]            -- `if b and …` false: `Dataset()`
          | .empty => [.ret (some st) .emptyDs]
          | .good => [.ret (some st) .ds]
          | .bad => [.ret (some processingFailure) .none]   -- decode failed: Status := 0x0110

def sendSingle (svc : Svc) (peer : List PeerMsg) : List Ev :=
  prologue ++ [.recv, .setCkpt] ++ singleTail svc peer

/-! ### What an observer sees -/

/-- lock held?  reactor checkpoint set? -/
structure St where
  lock : Bool
  ckpt : Bool
  deriving DecidableEq, Repr, Inhabited

/-- before any call: lock free, reactor running -/
def St.init : St := ⟨false, true⟩

def St.step (s : St) : Ev → St
  | .acquire => { s with lock := true }
  | .release => { s with lock := false }
  | .clearCkpt => { s with ckpt := false }
  | .setCkpt => { s with ckpt := true }
  | _ => s

def finalState (s : St) (es : List Ev) : St := es.foldl St.step s

/-- one item handed to the caller, with the lock / reactor state while the generator is suspended -/
structure Yield where
  status : Option Nat
  ident : IdentRes
  lockHeld : Bool
  paused : Bool
  deriving DecidableEq, Repr, Inhabited

def emit (s : St) : Ev → List Yield
  | .yield st id => [⟨st, id, s.lock, !s.ckpt⟩]
  | _ => []

def observe (s : St) : List Ev → List Yield
  | [] => []
  | e :: es => emit s e ++ observe (s.step e) es

def isAbort : Ev → Bool | .abort => true | _ => false
def isRecv : Ev → Bool | .recv => true | _ => false
def isRaise : Ev → Bool | .raise => true | _ => false

def aborts (es : List Ev) : Nat := es.countP isAbort
def recvs (es : List Ev) : Nat := es.countP isRecv
def raised (es : List Ev) : Bool := es.any isRaise
def storeRsps (es : List Ev) : List Nat :=
  es.filterMap fun | .sendStoreRsp s => some s | _ => none
def returned (es : List Ev) : Option (Option Nat × IdentRes) :=
  es.findSome? fun | .ret s r => some (s, r) | _ => none

end PynetVerif.Scu
