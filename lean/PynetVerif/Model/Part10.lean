import PynetVerif.Model.SExp
/-
`dsutils.split_dataset(path)` (C25, chunked SEND): where the data set starts in a file written in
the DICOM File Format.  The five lines of pynetdicom are

    read_preamble(fp, False)
    file_meta = read_dataset(fp, is_implicit_VR=False, is_little_endian=True,
                             stop_when=<tag.group != 2>)
    return file_meta, fp.tell()

and what they compute is decided by pydicom's element walk (`filereader._is_implicit_vr` and
`data_element_generator`), modelled here for pydicom's default configuration
(`assume_implicit_vr_switch`, reading validation = warn): the position `fp.tell()` ends at.

The two VR tables (`ENCODED_VR`, `EXPLICIT_VR_LENGTH_32`) are parameters; the regenerated ones
are in `Gen/Part10.lean`.  Elements of UNDEFINED length inside group 0002 are outside the model
(`Res.undefinedLength`: pydicom then parses a sequence or searches a delimiter).
-/
namespace PynetVerif.Part10

abbrev VR := UInt8 × UInt8

structure Tables where
  /-- two-byte members of `pydicom.filereader.ENCODED_VR` -/
  known : List VR
  /-- `pydicom.valuerep.EXPLICIT_VR_LENGTH_32` -/
  long : List VR
  deriving Repr

inductive Res
  | ok (offset : Nat)
  /-- `InvalidDicomError` of `read_preamble(fp, force=False)` -/
  | invalidDicom
  /-- `struct.error`: fewer than four bytes where a 32-bit length is announced -/
  | structError
  | undefinedLength
  deriving DecidableEq, Repr

def le16 (a b : UInt8) : Nat := a.toNat + 256 * b.toNat
def le32 (a b c d : UInt8) : Nat := a.toNat + 256 * (b.toNat + 256 * (c.toNat + 256 * d.toNat))

def magic : Bytes := [0x44, 0x49, 0x43, 0x4D]

/-- `0x40 < b < 0x5B` -/
def isUpper (b : UInt8) : Bool := 0x40 < b.toNat && b.toNat < 0x5B

/-- Python's `b"AA" <= vr <= b"ZZ"` on two bytes (lexicographic) -/
def betweenAAZZ (v : VR) : Bool :=
  (0x41 < v.1.toNat || (v.1.toNat == 0x41 && 0x41 ≤ v.2.toNat)) &&
  (v.1.toNat < 0x5A || (v.1.toNat == 0x5A && v.2.toNat ≤ 0x5A))

/-- `_is_implicit_vr(fp, False, True, stop_when, is_sequence=False)` under validation = warn:
with at least six bytes, implicit exactly when bytes 4-5 are not two upper-case letters -/
def decideImplicit : Bytes → Bool
  | _ :: _ :: _ :: _ :: v0 :: v1 :: _ => !(isUpper v0 && isUpper v1)
  | _ => false

/-- the element header as the generator reads it after tag bytes `g0 g1 e0 e1`: bytes 4-7 are
`v0 v1 l0 l1`, `tl` is what follows.  Result: (has a 32-bit explicit length, value length, header
length), or `none` for the `struct.error` of a missing 32-bit length. -/
def header (t : Tables) (implicit : Bool) (v0 v1 l0 l1 : UInt8) (tl : Bytes) : Option (Bool × Nat × Nat) :=
  if implicit then some (false, le32 v0 v1 l0 l1, 8)
  else if (v0, v1) ∈ t.known then
    if (v0, v1) ∈ t.long then
      match tl with
      | a :: b :: c :: d :: _ => some (true, le32 a b c d, 12)
      | _ => none
    else some (false, le16 l0 l1, 8)
  else if !betweenAAZZ (v0, v1) then some (false, le32 v0 v1 l0 l1, 8)   -- assumed switch to implicit VR
  else some (false, le16 l0 l1, 8)                                        -- unknown VR, 16-bit length

/-- `data_element_generator` with `stop_when = (group != 2)`: how many bytes of `rest` lie before
the position the file object is left at.  `acc` = bytes already passed. -/
def walk (t : Tables) (implicit : Bool) : Nat → Nat → Bytes → Res
  | 0, acc, _ => .ok acc
  | fuel + 1, acc, rest =>
    match rest with
    | g0 :: g1 :: e0 :: e1 :: v0 :: v1 :: l0 :: l1 :: tl =>
      match header t implicit v0 v1 l0 l1 tl with
      | none => .structError
      | some (_, len, hlen) =>
        if le16 g0 g1 = 0xFFFE ∧ le16 e0 e1 = 0xE00D then .ok (acc + hlen)  -- item delimiter: plain return
        else if le16 g0 g1 ≠ 2 then .ok acc                      -- stop_when: rewound to the element
        else if len = 0xFFFFFFFF then .undefinedLength
        else
          let n := min (hlen + len) rest.length                   -- a short read is not an error
          walk t implicit fuel (acc + n) (rest.drop n)
    | _ => .ok (acc + rest.length)                                -- fewer than 8 bytes: read to EOF

/-- `split_dataset`: the offset it returns -/
def split (t : Tables) (file : Bytes) : Res :=
  if (file.drop 128).take 4 ≠ magic then .invalidDicom
  else
    let rest := file.drop 132
    walk t (decideImplicit rest) (rest.length + 1) 132 rest

/-- the bytes `encode_msg` reads from the file for the data-set part: from the offset to the end -/
def sendBytes (t : Tables) (file : Bytes) : Option Bytes :=
  match split t file with
  | .ok off => some (file.drop off)
  | _ => none

/-! ### the File Meta Information group as a value -/

/-- one Explicit-VR-LE element of group 0002 -/
structure Elem where
  el : UInt8 × UInt8
  vr : VR
  value : Bytes
  deriving Repr, DecidableEq

def b0 (n : Nat) : UInt8 := UInt8.ofNat (n % 256)
def b1 (n : Nat) : UInt8 := UInt8.ofNat (n / 256 % 256)
def b2 (n : Nat) : UInt8 := UInt8.ofNat (n / 65536 % 256)
def b3 (n : Nat) : UInt8 := UInt8.ofNat (n / 16777216 % 256)

def encElem (t : Tables) (e : Elem) : Bytes :=
  let n := e.value.length
  if e.vr ∈ t.long then
    0x02 :: 0x00 :: e.el.1 :: e.el.2 :: e.vr.1 :: e.vr.2 :: 0 :: 0 :: b0 n :: b1 n :: b2 n :: b3 n :: e.value
  else
    0x02 :: 0x00 :: e.el.1 :: e.el.2 :: e.vr.1 :: e.vr.2 :: b0 n :: b1 n :: e.value

def encMeta (t : Tables) (es : List Elem) : Bytes := (es.map (encElem t)).flatten

/-- an element pydicom's writer can produce: a known VR, a length that fits its length field and
is not the undefined-length marker -/
def Elem.wf (t : Tables) (e : Elem) : Prop :=
  e.vr ∈ t.known ∧ (if e.vr ∈ t.long then e.value.length < 0xFFFFFFFF else e.value.length < 65536)

/-- what may follow the meta group: nothing, or a data set of at least one element header whose
first tag is neither in group 0002 nor the item delimiter, and which — if its bytes 4-5 spell a
VR with a 32-bit length — has the four length bytes too -/
def dsStartOk (t : Tables) : Bytes → Prop
  | [] => True
  | g0 :: g1 :: e0 :: e1 :: v0 :: v1 :: _ :: _ :: tl =>
    le16 g0 g1 ≠ 2 ∧ ¬(le16 g0 g1 = 0xFFFE ∧ le16 e0 e1 = 0xE00D) ∧
    ((v0, v1) ∈ t.known → (v0, v1) ∈ t.long → 4 ≤ tl.length)
  | _ => False

end PynetVerif.Part10
