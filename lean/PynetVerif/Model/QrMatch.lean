/-
Model of pynetdicom/apps/qrscp/db.py: `search` → `_search_qr` →
`_check_identifier` / `build_query` → `_search_*`, and of the SQL the built
query means on SQLite.  The model mirrors the code's control flow, including
the parts that look wrong.

What pydicom hands to `build_query` for an element (`elem.VR`, `elem.value`)
is an input of the model (`Val`): `None`, one string, or a `MultiValue`.

SQLite is modelled, not verified:
  * `LIKE`: '%' any sequence, '_' any single character, no escape character,
    other characters compare equal ignoring ASCII case (SQLite documentation,
    "The LIKE, GLOB, REGEXP … operators"; default `case_sensitive_like=OFF`);
  * `=`, `<=`, `>=` on TEXT: BINARY collation, i.e. code-point-wise
    lexicographic order; any comparison with NULL is not true;
  * binding a `MultiValue` parameter raises (sqlite3.ProgrammingError).
-/
namespace PynetVerif.QrMatch

abbrev Str := List Char

/-- `elem.value` as `build_query` sees it -/
inductive Val
  | none
  | str (s : Str)
  | multi (vs : List Str)
  deriving Repr, DecidableEq

/-- `c in val` (substring test for a str, element test for a MultiValue) -/
def Val.has (c : Char) : Val → Bool
  | .none => false
  | .str s => s.contains c
  | .multi vs => vs.contains [c]

def textVR : List String := ["AE", "CS", "LO", "LT", "PN", "SH", "ST", "UC", "UR", "UT"]

/-- which `_search_*` function `build_query` calls for one element -/
inductive CodeKind | single | universal | uidList | wildcard | range | skipped
  deriving DecidableEq, Repr

/-- build_query, one loop iteration:
      if vr != "SQ" and val is not None:
          if vr in _text_vr and ("*" in val or "?" in val): pass
          elif vr in ["DA", "TM", "DT"] and "-" in val: pass
          else: single value; continue
      if val is None: universal; continue
      if vr == "UI": uid list; continue
      if vr in _text_vr and ("*" in val or "?" in val): wildcard; continue
      if vr in ["DT", "TM", "DA"] and "-" in val: range; continue        -/
def buildKind (vr : String) (val : Val) : CodeKind :=
  let wildc := textVR.contains vr && (val.has '*' || val.has '?')
  let rng := ["DA", "TM", "DT"].contains vr && val.has '-'
  if vr != "SQ" && val != .none && !wildc && !rng then .single
  else if val == .none then .universal
  else if vr == "UI" then .uidList
  else if wildc then .wildcard
  else if rng then .range
  else .skipped

/-- the SQL condition one `_search_*` call adds -/
inductive Filter
  | all                       -- no condition
  | eq (s : Str)              -- attr == value
  | inList (vs : List Str)    -- attr.in_(values)
  | like (p : Str)            -- attr.like(pattern)
  | ge (a : Str) | le (b : Str) | between (a b : Str)
  | error                     -- the call (or executing the query) raises
  deriving Repr, DecidableEq

/-- `value.replace("*", "%").replace("?", "_")` -/
def toLike (p : Str) : Str := p.map (fun c => if c = '*' then '%' else if c = '?' then '_' else c)

/-- `s.split("-")` -/
def splitDashes : Str → List Str
  | [] => [[]]
  | c :: cs =>
    if c = '-' then [] :: splitDashes cs
    else match splitDashes cs with
      | h :: t => (c :: h) :: t
      | [] => [[c]]

def buildFilter (vr : String) (val : Val) : Filter :=
  match buildKind vr val with
  | .single =>
    match val with
    | .str s => .eq s
    | .multi _ => .error          -- sqlite3: type 'MultiValue' is not supported
    | .none => .all               -- unreachable
  | .universal => .all
  | .uidList =>                   -- _search_uid_list (not reachable from build_query for a non-None value)
    match val with
    | .none => .all
    | .str s => if s.isEmpty then .all else .eq s
    | .multi vs => if vs.isEmpty then .all else if vs.length == 1 then .error else .inList vs
  | .wildcard =>
    match val with
    | .str s => .like (toLike s)  -- (`value == ""` → "*" cannot happen: the value contains * or ?)
    | _ => .error                 -- MultiValue has no .replace
  | .range =>
    match val with
    | .str s =>
      match splitDashes s with    -- start, end = value.split("-")
      | [a, b] =>
        if !a.isEmpty && !b.isEmpty then .between a b
        else if !a.isEmpty then .ge a
        else if !b.isEmpty then .le b
        else .error               -- ValueError("Invalid attribute value for range matching")
      | _ => .error               -- unpacking fails
    | _ => .error
  | .skipped => .all

/-! ### SQLite -/

def lowerAscii (c : Char) : Char :=
  if 65 ≤ c.toNat ∧ c.toNat ≤ 90 then Char.ofNat (c.toNat + 32) else c

def anySuffix (f : Str → Bool) : Str → Bool
  | [] => f []
  | d :: s => f (d :: s) || anySuffix f s

/-- SQLite `value LIKE pattern` (no ESCAPE): '%' leaves any suffix, '_' takes one character,
anything else must be equal up to ASCII case -/
def like : Str → Str → Bool
  | [], s => s.isEmpty
  | c :: p, s =>
    if c = '%' then anySuffix (like p) s
    else match s with
      | [] => false
      | d :: s' => (c == '_' || lowerAscii c == lowerAscii d) && like p s'

/-- BINARY collation `a <= b` -/
def lexLe : Str → Str → Bool
  | [], _ => true
  | _ :: _, [] => false
  | a :: as, b :: bs => Nat.blt a.toNat b.toNat || (a == b && lexLe as bs)

def evalFilter (f : Filter) (v : Option Str) : Bool :=
  match f, v with
  | .all, _ => true
  | .error, _ => false
  | _, none => false                          -- comparison with NULL
  | .eq s, some x => s == x
  | .inList vs, some x => vs.contains x
  | .like p, some x => like p x
  | .ge a, some x => lexLe a x
  | .le b, some x => lexLe x b
  | .between a b, some x => lexLe a x && lexLe x b

/-! ### tables of db.py (compared with the regenerated `Gen.Qr` in Props/C29) -/

/-- `_TRANSLATION` column order = the column index used everywhere -/
def keywords : List String :=
  ["PatientID", "PatientName", "StudyInstanceUID", "StudyDate", "StudyTime", "AccessionNumber", "StudyID",
   "SeriesInstanceUID", "Modality", "SeriesNumber", "SOPInstanceUID", "InstanceNumber"]

/-- the VR pydicom gives the element of each keyword (its dictionary VR) -/
def vrs : List String := ["LO", "PN", "UI", "DA", "TM", "SH", "SH", "UI", "CS", "IS", "UI", "IS"]

/-- `_ATTRIBUTES[kw][1] == "R"` -/
def isR : List Bool := [false, true, false, true, true, true, true, false, true, true, false, true]

inductive Root | patientRoot | studyRoot
  deriving DecidableEq, Repr

/-- `_PATIENT_ROOT_ATTRIBUTES` / `_STUDY_ROOT_ATTRIBUTES` (OrderedDict: level → columns in order) -/
def levelsOf : Root → List (String × List Nat)
  | .patientRoot => [("PATIENT", [0, 1]), ("STUDY", [2, 3, 4, 5, 6]), ("SERIES", [7, 8, 9]), ("IMAGE", [10, 11])]
  | .studyRoot => [("STUDY", [2, 3, 4, 5, 6, 0, 1]), ("SERIES", [7, 8, 9]), ("IMAGE", [10, 11])]

structure Ident where
  level : Option String          -- QueryRetrieveLevel value, `none` if the element is absent
  keys : List (Nat × Val)        -- the supported keys present (column, value as seen)
  deriving Repr

def Ident.has (id : Ident) (col : Nat) : Bool := id.keys.any (fun k => k.1 == col)

/-- the `for ii, level in enumerate(levels)` loop of `_check_identifier` -/
def checkLevels (q : String) (has : Nat → Bool) : List (String × List Nat) → Bool
  | [] => true
  | (l, ks) :: rest =>
    if l == q then rest.all (fun lk => !lk.2.any has)
    else (match ks with | u :: _ => has u | [] => false) && checkLevels q has rest

/-- `_check_identifier` (true = no InvalidIdentifier raised) -/
def checkIdentifier (root : Root) (id : Ident) : Bool :=
  match id.level with
  | none => false                                          -- no Query Retrieve Level element
  | some q =>
    ((levelsOf root).map (·.1)).contains q                 -- level value invalid
    && !id.keys.isEmpty                                    -- len(identifier) == 1: no keys
    && checkLevels q id.has (levelsOf root)

/-- the columns `_search_qr` hands to `build_query`, in order, up to and including the level -/
def columnsUpTo (q : String) : List (String × List Nat) → List Nat
  | [] => []
  | (l, ks) :: rest => if l == q then ks else ks ++ columnsUpTo q rest

inductive Result
  | invalid                  -- InvalidIdentifier
  | error                    -- another exception (handlers answer 0xC320 / 0xC420 / 0xC520)
  | rows (is : List Nat)     -- the Instance rows returned, by index
  deriving Repr, DecidableEq

abbrev Row := List (Option Str)

def Row.col (r : Row) (i : Nat) : Option Str := (r[i]?).getD none

/-- `search(model, identifier, session)`; `retrieve`: the model is a C-GET/C-MOVE one, for
which `search` deletes every 'R' attribute first. -/
def search (root : Root) (retrieve : Bool) (id : Ident) (rows : List Row) : Result :=
  let keys := if retrieve then id.keys.filter (fun k => !(isR[k.1]?).getD false) else id.keys
  let id' : Ident := { id with keys := keys }
  if !checkIdentifier root id' then .invalid
  else
    match id'.level with
    | none => .invalid
    | some q =>
      let cols := (columnsUpTo q (levelsOf root)).filter id'.has
      let filters := cols.filterMap (fun c =>
        (keys.find? (fun k => k.1 == c)).map (fun k => (c, buildFilter ((vrs[c]?).getD "UN") k.2)))
      if filters.any (fun f => f.2 == .error) then .error
      else .rows (((List.range rows.length).zip rows).filterMap (fun (i, r) =>
        if filters.all (fun f => evalFilter f.2 (r.col f.1)) then some i else none))

end PynetVerif.QrMatch
