/-!
Who wakes the reader?  `AssociationSocket.ready` (transport.py) decides whether the provider's reactor
reads a PDU in this iteration.  `select()` sees only what is still in the kernel's socket buffer; a TLS
socket may hold further, already decrypted bytes (`SSLSocket.pending()`) that `select()` does not see.

State: byte counts only (contents do not matter for waking up).
* `vis`   bytes in the kernel buffer (what `select()` sees),
* `pend`  bytes decrypted by the TLS layer and not yet read (always 0 on a plain socket),
* `pdus`  sizes of the complete PDUs the peer has written and the reader has not yet consumed.
The peer is silent from here on (the situation after its last PDU, e.g. an A-RELEASE-RQ).

`socket.recv` on a TLS socket decrypts one whole record (of a size the peer chose: the oracle `recs`) into
the pending buffer and returns bytes from there; on a plain socket it reads from the kernel buffer.
-/
namespace PynetVerif.Wake

structure Cfg where
  tls : Bool
  consultsPending : Bool     -- `ready` also asks `SSLSocket.pending()` (regenerated fact: for every SSLSocket)
  deriving DecidableEq, Repr

structure St where
  vis : Nat
  pend : Nat
  pdus : List Nat
  deriving DecidableEq, Repr

def ready (c : Cfg) (s : St) : Bool := decide (0 < s.vis) || (c.tls && c.consultsPending && decide (0 < s.pend))

/-- the size of the next TLS record: what the peer chose, at least one byte, at most what has arrived -/
def recSize (recs : List Nat) (vis : Nat) : Nat :=
  match recs with
  | [] => vis
  | r :: _ => max 1 (min r vis)

/-- read `n` bytes (all present: the peer wrote complete PDUs): on TLS, records are decrypted into the pending buffer
as needed - `recs` gives the record sizes the peer chose, each clipped to what is in the kernel buffer; on a plain
socket the bytes come straight from the kernel buffer -/
def take (c : Cfg) : (fuel : Nat) → St → List Nat → Nat → St × List Nat
  | 0, s, recs, _ => (s, recs)
  | fuel + 1, s, recs, n =>
    if n = 0 then (s, recs)
    else if !c.tls then ({ s with vis := s.vis - min n s.vis }, recs)
    else if 0 < s.pend then
      let k := min n s.pend
      take c fuel { s with pend := s.pend - k } recs (n - k)
    else if s.vis = 0 then (s, recs)
    else
      take c fuel { s with vis := s.vis - recSize recs s.vis, pend := s.pend + recSize recs s.vis } recs.tail n

/-- one iteration of the provider's reactor on the transport side: read one PDU if `ready` says so -/
def iter (c : Cfg) (s : St) (recs : List Nat) : St × List Nat :=
  if ready c s then
    match s.pdus with
    | [] => (s, recs)
    | p :: rest =>
      let (s', recs') := take c (2 * (p + s.vis + s.pend) + 2) s recs p
      ({ s' with pdus := rest }, recs')
  else (s, recs)

def iters (c : Cfg) : Nat → St → List Nat → St
  | 0, s, _ => s
  | n + 1, s, recs => let (s', recs') := iter c s recs; iters c n s' recs'

def total (s : St) : Nat := s.vis + s.pend
def WF (c : Cfg) (s : St) : Prop := total s = s.pdus.sum ∧ (∀ p ∈ s.pdus, 0 < p) ∧ (c.tls = false → s.pend = 0)

end PynetVerif.Wake
