/-
M-Ctx — presentation-context selection and context checks of
`pynetdicom/association.py` (C18, C19).

* `getValidContext`   mirrors `Association._get_valid_context`
* `sendCtx`           which query every `send_*` method makes and on which context
                      id its request is handed to `dimse.send_msg`
* `serveRequest`      mirrors `Association._serve_request` (acceptor path, and the
                      N-EVENT-REPORT thread started by `dimse.receive_primitive`)
* `cStoreScp`         mirrors `Association._c_store_scp` (C-STORE sub-operation
                      received by a C-GET SCU inside `_wrap_get_move_responses`)

UIDs are abstracted to naturals (equality is all the code uses); a transfer
syntax carries the three pydicom facts the code reads: `is_transfer_syntax`
(`known`; for an unknown UID `UID.is_compressed`/`is_little_endian` raise
`ValueError`, which is also the exception `_get_valid_context` uses for "no
context"), `is_compressed`, `is_little_endian`.

The accepted set is `Association._accepted_cx : dict[int, PresentationContext]`
as the list of its values in insertion order; `lookup` is `dict.__getitem__`
and `sortById` is the `accepted_contexts` property (`sorted(values, key=id)`).
-/
namespace PynetVerif.Ctx

structure Ts where
  uid : Nat
  known : Bool
  compressed : Bool
  little : Bool
  deriving DecidableEq, Repr, Inhabited

structure Cx where
  id : Nat
  ab : Nat
  ts : Ts            -- `cx.transfer_syntax[0]`
  asScu : Bool       -- `cx.as_scu is True`
  asScp : Bool       -- `cx.as_scp is True`
  deriving DecidableEq, Repr, Inhabited

inductive Role | scu | scp
  deriving DecidableEq, Repr, Inhabited

/-! Distinguished abstract syntaxes: the five UPS SOP classes and Verification. -/
def upsPush : Nat := 1
def upsWatch : Nat := 2
def upsPull : Nat := 3
def upsEvent : Nat := 4
def upsQuery : Nat := 5
def verification : Nat := 6

/-- `cx.abstract_syntax in [UPSPull, UPSWatch, UPSEvent, UPSQuery]` -/
def isUpsOther (a : Nat) : Bool :=
  a == upsPull || a == upsWatch || a == upsEvent || a == upsQuery

/-- `self._accepted_cx[k]` (`none` = `KeyError`) -/
def lookup : List Cx → Nat → Option Cx
  | [], _ => none
  | c :: cs, k => if c.id = k then some c else lookup cs k

def ids (acc : List Cx) : List Nat := acc.map (·.id)

def insertById (x : Cx) : List Cx → List Cx
  | [] => [x]
  | y :: ys => if x.id ≤ y.id then x :: y :: ys else y :: insertById x ys

/-- `sorted(self._accepted_cx.values(), key=lambda x: x.context_id)` (stable) -/
def sortById : List Cx → List Cx
  | [] => []
  | x :: xs => insertById x (sortById xs)

/-- `try: [self._accepted_cx[context_id]] except KeyError: self.accepted_contexts`;
`context_id=None` (the default, used by every `send_*`) is a `KeyError`. -/
def base (acc : List Cx) (ctxId : Option Nat) : List Cx :=
  match ctxId with
  | none => sortById acc
  | some k =>
    match lookup acc k with
    | some c => [c]
    | none => sortById acc

def roleOk : Option Role → Cx → Bool
  | none, _ => true
  | some .scu, c => c.asScu
  | some .scp, c => c.asScp

/-- the candidate list after the abstract-syntax filter, the UPS Push fallback
(note: it extends with `self._accepted_cx.values()`, unsorted and regardless of
`context_id`, and only when *no* candidate had the abstract syntax — checked
before the role filter) and the role filter -/
def candidates (acc : List Cx) (ab : Nat) (role : Option Role) (ctxId : Option Nat) : List Cx :=
  let p1 := (base acc ctxId).filter (fun c => c.ab == ab)
  let p2 := if ab == upsPush && p1.isEmpty then p1 ++ acc.filter (fun c => isUpsOther c.ab) else p1
  p2.filter (roleOk role)

inductive Verdict | ret | raise | skip | keep
  deriving DecidableEq, Repr

/-- one iteration of `for cx in possible_contexts:`; `ts = none` is the falsy
`UID('')` every caller except `send_c_store` passes -/
def verdict (ts : Option Ts) (c : Cx) : Verdict :=
  match ts with
  | none => .keep
  | some t =>
    if t.uid = c.ts.uid then .ret                 -- `tr_syntax == cx_syntax`: return cx
    else if !t.known then .raise                  -- `tr_syntax.is_compressed` raises ValueError
    else if t.compressed then .skip
    else if !c.ts.known then .raise               -- `cx_syntax.is_compressed` raises ValueError
    else if c.ts.compressed then .skip
    else if t.little != c.ts.little then .skip
    else .keep                                    -- `matches.append(cx)`

inductive ScanRes
  | found (c : Cx)
  | raised
  | done (ms : List Cx)
  deriving DecidableEq, Repr

def scan (ts : Option Ts) : List Cx → ScanRes
  | [] => .done []
  | c :: rest =>
    match verdict ts c with
    | .ret => .found c
    | .raise => .raised
    | .skip => scan ts rest
    | .keep =>
      match scan ts rest with
      | .done ms => .done (c :: ms)
      | r => r

/-- `Association._get_valid_context`; `none` = `ValueError` -/
def getValidContext (acc : List Cx) (ab : Nat) (ts : Option Ts) (role : Option Role)
    (ctxId : Option Nat) (allowConv : Bool) : Option Cx :=
  match scan ts (candidates acc ab role ctxId) with
  | .found c => some c
  | .raised => none
  | .done ms => if allowConv then ms.head? else none

/-! ### The `send_*` methods -/

inductive SendOp
  | cEcho
  | cFind (queryModel : Nat)
  | cGet (queryModel : Nat)
  | cMove (queryModel : Nat)
  | cStore (sopClass : Nat) (ts : Ts) (chunked : Bool)   -- chunked file path: `allow_conversion = False`
  | cCancelModel (queryModel : Nat)
  | cCancelId (ctxId : Nat)
  | nEventReport (cls : Nat)     -- `meta_uid or class_uid`
  | nGet (cls : Nat)
  | nSet (cls : Nat)
  | nAction (cls : Nat)
  | nCreate (cls : Nat)
  | nDelete (cls : Nat)
  deriving DecidableEq, Repr

/-- the `_get_valid_context` call of each method: (abstract syntax, transfer
syntax, role, allow_conversion); `cCancelId` makes none -/
def SendOp.query : SendOp → Option (Nat × Option Ts × Option Role × Bool)
  | .cEcho => some (verification, none, some .scu, true)
  | .cFind q | .cGet q | .cMove q | .cCancelModel q => some (q, none, some .scu, true)
  | .cStore s t chunked => some (s, some t, some .scu, !chunked)
  | .cCancelId _ => none
  | .nEventReport c => some (c, none, none, true)
  | .nGet c | .nSet c | .nAction c | .nCreate c | .nDelete c => some (c, none, some .scu, true)

/-- `send_c_store` with a `Dataset` reads `tsyntax.is_implicit_VR` for its consistency
check before the context query: `ValueError` for a UID pydicom does not know as a
transfer syntax (the chunked file path does not make that check) -/
def SendOp.raisesBefore : SendOp → Bool
  | .cStore _ t chunked => !chunked && !t.known
  | _ => false

/-- the context the method selects (`none`: `ValueError`, or no selection is made) -/
def sendSelect (acc : List Cx) (op : SendOp) : Option Cx :=
  if op.raisesBefore then none
  else
    match op.query with
    | some (ab, ts, role, conv) => getValidContext acc ab ts role none conv
    | none => none

/-- the context id handed to `dimse.send_msg` (`none`: `ValueError`, nothing is sent) -/
def sendCtx (acc : List Cx) (op : SendOp) : Option Nat :=
  match op with
  | .cCancelId k => some k                        -- `elif isinstance(context_id, int): pass`
  | _ => (sendSelect acc op).map (·.id)

/-- `send_c_store` with a `Dataset`: which transfer syntax is used for the context
query.  `tsEnc` = (`is_implicit_VR`, `is_little_endian`) of the file meta's Transfer
Syntax UID; `dsEnc` = the data set's own encoding (`original_encoding`, else its
`is_implicit_VR`/`is_little_endian` attributes; `none` = not known).
`if None not in ds_encoding and ts_encoding != ds_encoding: …` -/
inductive EffTs | fileMeta | implicitLE | explicitBE | attributeError
  deriving DecidableEq, Repr

def storeEffTs (tsEnc : Bool × Bool) (dsEnc : Option Bool × Option Bool) : EffTs :=
  match dsEnc with
  | (some i, some l) =>
    if (i, l) = tsEnc then .fileMeta
    else if (i, l) = (true, true) then .implicitLE      -- "using 'Implicit VR Little Endian' instead"
    else if (i, l) = (false, false) then .explicitBE    -- "using 'Explicit VR Big Endian' instead"
    else .attributeError
  | _ => .fileMeta

/-- (implicit, little) of the syntax the query is made with -/
def EffTs.enc (tsEnc : Bool × Bool) : EffTs → Option (Bool × Bool)
  | .fileMeta => some tsEnc
  | .implicitLE => some (true, true)
  | .explicitBE => some (false, false)
  | .attributeError => none

/-! ### `_serve_request` -/

/-- the 11 request kinds; also used as the name of the intervention event
(`EVT_C_ECHO`, …) whose handler a service class triggers -/
inductive Kind
  | cEcho | cStore | cFind | cGet | cMove | nEventReport | nGet | nSet | nAction | nCreate | nDelete
  deriving DecidableEq, Repr, Inhabited

/-- the `SCP` methods of `service_class.py` / `service_class_n.py`
(subclasses that inherit `SCP` are mapped to their parent) -/
inductive Svc
  | verification | storage | qr | worklist | substance | relevantPatient
  | appEvent | display | instanceAvail | mediaCreation | print | procedureStep
  | rtMachine | storageCommit | storageMgmt | ups | base
  deriving DecidableEq, Repr, Inhabited

/-- `service_class.SCP(msg, context)`: the `_x_scp`/handler the request is routed
to, `none` = the method raises (`ValueError`/`NotImplementedError`, answered by
`self.abort()` in `_serve_request`).  `supported` is
`context.abstract_syntax in self._SUPPORTED_UIDS[<message type>]`.
Verification, Storage and Relevant Patient do not look at the message type (a
request of another kind whose SOP class maps to them reaches their one handler). -/
def scpDispatch (svc : Svc) (k : Kind) (supported : Bool) : Option Kind :=
  match svc with
  | .verification => some .cEcho
  | .storage => match k with               -- reads `req.AffectedSOPInstanceUID` first: AttributeError
    | .cEcho | .cFind | .cGet | .cMove => none   -- for the primitives that have no such attribute
    | _ => some .cStore
  | .relevantPatient => some .cFind
  | .qr => match k with
    | .cFind | .cGet | .cMove => if supported then some k else none
    | _ => none
  | .worklist | .substance => match k with
    | .cFind => if supported then some k else none
    | _ => none
  | .appEvent => match k with | .nAction => some k | _ => none
  | .display => match k with | .nGet => some k | _ => none
  | .instanceAvail => match k with | .nCreate => some k | _ => none
  | .mediaCreation => match k with | .nCreate | .nGet | .nAction => some k | _ => none
  | .print | .rtMachine => match k with
    | .nCreate | .nEventReport | .nGet | .nSet | .nAction | .nDelete => some k | _ => none
  | .procedureStep => match k with | .nCreate | .nEventReport | .nGet | .nSet => some k | _ => none
  | .storageCommit | .storageMgmt => match k with | .nEventReport | .nAction => some k | _ => none
  | .ups => match k with
    | .nCreate | .nEventReport | .nGet | .nSet | .nAction | .cFind => some k | _ => none
  | .base => none

inductive Outcome
  | ignored                      -- logged and dropped (release in progress / not a valid request)
  | aborted                      -- `self.abort()`
  | dispatched (h : Kind) (c : Cx)
  deriving DecidableEq, Repr

/-- `Association._serve_request(msg, context_id)` -/
def serveRequest (sentRelease validReq : Bool) (acc : List Cx) (ctxId : Nat)
    (svc : Svc) (k : Kind) (supported : Bool) : Outcome :=
  if sentRelease then .ignored
  else if !validReq then .ignored
  else
    match lookup acc ctxId with
    | none => .aborted
    | some c =>
      match scpDispatch svc k supported with
      | some h => .dispatched h c
      | none => .aborted

/-- handler invocations: (event, context id in `event.context`) -/
def Outcome.handlerCalls : Outcome → List (Kind × Nat)
  | .dispatched h c => [(h, c.id)]
  | _ => []

/-- context ids on which a response is sent (the service class answers on the
context it was given; what it answers is C20/C21) -/
def Outcome.responses : Outcome → List Nat
  | .dispatched _ c => [c.id]
  | _ => []

def Outcome.isAborted : Outcome → Bool
  | .aborted => true
  | _ => false

/-! ### `_c_store_scp` (C-STORE sub-operation received by a C-GET SCU) -/

structure SubStore where
  handler : Option Cx    -- context the `EVT_C_STORE` handler sees (`none`: handler not called)
  rspCtx : Option Nat    -- context id of the C-STORE response (`none`: no response is sent)
  refused : Bool         -- response status 0x0122 (SOP class not supported)
  aborted : Bool         -- the association is aborted instead of answering
  deriving DecidableEq, Repr

/-- `_c_store_scp(req)`.  `guard` (regenerated from association.py, `Gen.Glue.subStoreRejectsUnaccepted`): the
request's context id is first tested against the accepted contexts - `if req._context_id not in
self._accepted_cx: self.abort(); return` - as `_serve_request` does for every other request.  Then
`_get_valid_context(req.AffectedSOPClassUID, '', 'scp', context_id=req._context_id)`;
`except ValueError: rsp.Status = 0x0122; self.dimse.send_msg(rsp, 1)` -/
def cStoreScp (guard : Bool) (acc : List Cx) (reqCtx : Nat) (ab : Nat) : SubStore :=
  if guard && !(ids acc).contains reqCtx then
    { handler := none, rspCtx := none, refused := false, aborted := true }
  else
    match getValidContext acc ab none (some .scp) (some reqCtx) true with
    | none => { handler := none, rspCtx := some 1, refused := true, aborted := false }
    | some c => { handler := some c, rspCtx := some c.id, refused := false, aborted := false }

end PynetVerif.Ctx
