/-
S-expressions: the wire format of the line protocol between the Python
harness and the Lean driver.  Three atom kinds: decimal naturals, byte strings
written `x<hex>`, bare symbols.  (DESIGN.md §7a)
-/
namespace PynetVerif

abbrev Bytes := List UInt8

inductive SExp where
  | nat (n : Nat)
  | bytes (b : Bytes)
  | sym (s : String)
  | list (xs : List SExp)
  deriving Repr, Inhabited, BEq

namespace SExp

def hexDigit (n : Nat) : Char :=
  if n < 10 then Char.ofNat (48 + n) else Char.ofNat (87 + n)

def hexOfBytes (b : Bytes) : String :=
  String.ofList (b.foldr (fun x acc => hexDigit (x.toNat / 16) :: hexDigit (x.toNat % 16) :: acc) [])

def hexVal (c : Char) : Option Nat :=
  if '0' ≤ c ∧ c ≤ '9' then some (c.toNat - 48)
  else if 'a' ≤ c ∧ c ≤ 'f' then some (c.toNat - 87)
  else if 'A' ≤ c ∧ c ≤ 'F' then some (c.toNat - 55)
  else none

def bytesOfHex : List Char → Option Bytes
  | [] => some []
  | a :: b :: rest => do
      let x ← hexVal a
      let y ← hexVal b
      let r ← bytesOfHex rest
      pure (UInt8.ofNat (x * 16 + y) :: r)
  | _ => none

partial def toStr : SExp → String
  | nat n => toString n
  | bytes b => "x" ++ hexOfBytes b
  | sym s => s
  | list xs => "(" ++ " ".intercalate (xs.map toStr) ++ ")"

def atomOf (cs : List Char) : SExp :=
  let s := String.ofList cs
  match cs with
  | 'x' :: rest =>
    match bytesOfHex rest with
    | some b => bytes b
    | none => sym s
  | _ =>
    match s.toNat? with
    | some n => nat n
    | none => sym s

/-- tokenise: parens are tokens, whitespace separates. -/
def tokens (s : String) : List String :=
  let flush (cur : List Char) (acc : List String) : List String :=
    if cur.isEmpty then acc else String.ofList cur.reverse :: acc
  let rec go (cs : List Char) (cur : List Char) (acc : List String) : List String :=
    match cs with
    | [] => (flush cur acc).reverse
    | c :: rest =>
      if c = '(' || c = ')' then go rest [] (String.singleton c :: flush cur acc)
      else if c = ' ' || c = '\n' || c = '\t' || c = '\r' then go rest [] (flush cur acc)
      else go rest (c :: cur) acc
  go s.toList [] []

/-- parse a token list with an explicit stack (total, no partial). -/
def parseTokens (ts : List String) : Option SExp :=
  let rec go (ts : List String) (stack : List (List SExp)) : Option SExp :=
    match ts with
    | [] =>
      match stack with
      | [[x]] => some x
      | _ => none
    | t :: rest =>
      if t = "(" then go rest ([] :: stack)
      else if t = ")" then
        match stack with
        | top :: next :: more => go rest ((list top.reverse :: next) :: more)
        | _ => none
      else
        match stack with
        | top :: more => go rest ((atomOf t.toList :: top) :: more)
        | [] => none
  go ts [[]]

def parse (s : String) : Option SExp := parseTokens (tokens s)

def ofBool (b : Bool) : SExp := sym (if b then "T" else "F")
def ofOptNat : Option Nat → SExp
  | none => sym "none"
  | some n => nat n

end SExp
end PynetVerif
