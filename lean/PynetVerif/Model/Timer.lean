/-
Model of `pynetdicom.timer.Timer` (the ARTIM timer and the DUL's network idle
timer), mirroring the code statement by statement:

    __init__(timeout):  _start_time = None; _end_time = None; _timeout = timeout
    start():            _start_time = clock(); _end_time = None
    restart():          self.start()
    stop():             _end_time = clock()          # also when never started
    timeout = v:        _timeout = v
    remaining:          if timeout is None: 1
                        elif _start_time is None: timeout
                        elif _end_time is None: timeout - (clock() - _start_time)
                        else: timeout - (_end_time - _start_time)
    expired:            if timeout is None: False
                        elif _start_time is None: False
                        else: remaining < 0

`clock()` is whichever function of the `time` module the code calls; the model
takes the reading as an argument of every operation (`t`), so that the same
model can be run on a monotonic reading or on a wall-clock reading.  Readings
and timeouts are integers (ticks): the harness feeds integer-valued readings,
for which Python's float arithmetic is exact.

No operation can raise: `stop()` before `start()` leaves `_start_time = None`,
and both observers test `_start_time is None` before they touch `_end_time`
(checked against the source; the harness still maps any exception to `ERR`).
-/
namespace PynetVerif.Timer

/-- the three attributes of a `Timer` object -/
structure T where
  start : Option Int      -- `_start_time`
  stop : Option Int       -- `_end_time`
  timeout : Option Int    -- `_timeout`
  deriving DecidableEq, Repr, Inhabited

/-- `Timer(timeout)` -/
def init (timeout : Option Int) : T := ⟨none, none, timeout⟩

inductive Op
  | start | stop | restart
  | setTimeout (v : Option Int)
  | expired | remaining
  deriving DecidableEq, Repr, Inhabited

/-- what a query returns: `expired` a bool, `remaining` a number -/
inductive Obs
  | bool (b : Bool)
  | val (r : Int)
  deriving DecidableEq, Repr, Inhabited

/-- `Timer.remaining` evaluated when the clock reads `t` -/
def remaining (s : T) (t : Int) : Int :=
  match s.timeout with
  | none => 1
  | some to =>
    match s.start with
    | none => to
    | some st =>
      match s.stop with
      | none => to - (t - st)
      | some en => to - (en - st)

/-- `Timer.expired` evaluated when the clock reads `t` -/
def expired (s : T) (t : Int) : Bool :=
  match s.timeout with
  | none => false
  | some _ =>
    match s.start with
    | none => false
    | some _ => decide (remaining s t < 0)

/-- one operation executed when the clock the implementation uses reads `t` -/
def step (s : T) (op : Op) (t : Int) : T × Option Obs :=
  match op with
  | .start => ({ s with start := some t, stop := none }, none)
  | .restart => ({ s with start := some t, stop := none }, none)
  | .stop => ({ s with stop := some t }, none)
  | .setTimeout v => ({ s with timeout := v }, none)
  | .expired => (s, some (.bool (expired s t)))
  | .remaining => (s, some (.val (remaining s t)))

/-- final state after a sequence of (operation, reading) pairs -/
def exec (s : T) : List (Op × Int) → T
  | [] => s
  | (op, t) :: rest => exec (step s op t).1 rest

/-- the observations made along a sequence of (operation, reading) pairs -/
def run (s : T) : List (Op × Int) → List Obs
  | [] => []
  | (op, t) :: rest =>
    match (step s op t).2 with
    | some o => o :: run (step s op t).1 rest
    | none => run (step s op t).1 rest

/-! ### two clocks -/

/-- which clock the implementation reads -/
inductive Clock | monotonic | wall | unknown
  deriving DecidableEq, Repr, Inhabited

/-- an operation stamped with the monotonic reading `m` at the moment it is
executed and the offset `off` of the wall clock at that moment
(wall reading = `m + off`; `off` changes when the system clock is set) -/
structure Stamped where
  op : Op
  m : Int
  off : Int
  deriving DecidableEq, Repr, Inhabited

/-- the reading the implementation sees (an unidentified clock is treated as
the wall clock: the worst case) -/
def reading : Clock → Stamped → Int
  | .monotonic, o => o.m
  | .wall, o => o.m + o.off
  | .unknown, o => o.m + o.off

/-- observations of a fresh `Timer(timeout)` driven by `ops` when it reads `clock` -/
def runTimer (clock : Clock) (timeout : Option Int) (ops : List Stamped) : List Obs :=
  run (init timeout) (ops.map (fun o => (o.op, reading clock o)))

/-- the monotonic readings never decrease along the sequence -/
def monoOK : List Stamped → Bool
  | [] => true
  | [_] => true
  | a :: b :: rest => decide (a.m ≤ b.m) && monoOK (b :: rest)

/-- Classification of what the translator reads in `timer.py`: for each of
`start`, `stop`, `remaining` (and any other method of the class) the list of
`time.<fn>` functions it calls.  All three must read one and the same clock. -/
def classify (calls : List (String × List String)) : Clock :=
  let get (n : String) : List String := (calls.find? (fun c => c.1 == n)).map (·.2) |>.getD []
  let all : List String := calls.foldr (fun c acc => c.2 ++ acc) []
  match get "start", get "stop", get "remaining" with
  | [a], [b], [c] =>
    if a == b && b == c && all.all (· == a) then
      if a == "monotonic" || a == "perf_counter" then .monotonic
      else if a == "time" then .wall
      else .unknown
    else .unknown
  | _, _, _ => .unknown

end PynetVerif.Timer
