import PynetVerif.Model.PduPrim
/-!
Decidable predicates on PDU values (all `Bool`-valued so the driver can
evaluate them on what the real code produces):

* `wf`       — well-formed per PS3.8 / PS3.7 (the domain of C01),
* `canon`    — what decoding normalises (AE-title padding),
* `bounded`  — what ANY output of `decode` satisfies,
* `normal`   — excludes exactly the decoder outputs that do not survive
               re-encoding (UID ending in NUL, PC-AC with several sub-items,
               a Transfer Syntax sub-item with an empty name, re-encoded
               lengths that no longer fit their field),
* `encOk`    — the weakest condition under which `decode (encode p) = ok (canon p)`
               is proved (both `wf` and `bounded ∧ normal` imply it),
* `lengthsExact` — an independent structural walker over encoded bytes.
-/
namespace PynetVerif.Pdu
open PynetVerif.Framing (be32)

/-! ## field predicates -/

def headOk (b : Bytes) : Bool := match b with | [] => true | c :: _ => !isWs c
def lastOk : Bytes → Bool
  | [] => true
  | [c] => !isWs c
  | _ :: cs => lastOk cs
/-- no leading / trailing whitespace (`str.strip()` is the identity) -/
def trimmed (b : Bytes) : Bool := headOk b && lastOk b

/-- what `decUid validate` can return -/
def uidB (validate : Bool) (u : Bytes) : Bool :=
  isAscii u && trimmed u && (!validate || Nat.ble u.length 64)
/-- a UID value that decodes to itself -/
def uidOk (validate : Bool) (u : Bytes) : Bool := uidB validate u && !endsNul u
/-- PS3.5 UI as far as pynetdicom checks it by default: 1–64 ASCII bytes, no surrounding whitespace, no
trailing NUL -/
def uidWf (u : Bytes) : Bool := uidOk true u && !u.isEmpty

/-- AE title the RQ decoder accepts: ASCII, ≤ 16, stripped value non-empty and of legal characters -/
def aeRqOk (a : Bytes) : Bool :=
  isAscii a && Nat.ble a.length 16 && !(pyStrip a).isEmpty && (pyStrip a).all aeCharOk
/-- PS3.5 AE: 1–16 characters of the default repertoire without control characters and backslash, not
all spaces -/
def aeWf (a : Bytes) : Bool := Nat.ble a.length 16 && a.all aeCharOk && a.any (fun c => c != 32)
def aeAcOk (a : Bytes) : Bool := isAscii a && Nat.ble a.length 16
def implVerOk (n : Bytes) : Bool := isAscii n && Nat.ble n.length 16 && n.all aeCharOk

def lt8 (n : Nat) : Bool := Nat.blt n 256
def lt16 (n : Nat) : Bool := Nat.blt n 65536
def lt32 (n : Nat) : Bool := Nat.blt n 4294967296

/-! ## encOk: decodable to (canon of) itself -/

def synOk (skip : Bool) : SynItem → Bool
  | .abstract u => uidOk true u && lt16 u.length
  | .transfer u => uidOk (!skip) u && lt16 u.length

def relOk (u : Bytes) : Bool := uidOk true u && !u.isEmpty

def userOk : UserSub → Bool
  | .maxLen n => lt32 n
  | .implUid u => uidOk true u
  | .asyncOps i p => lt16 i && lt16 p
  | .role u scu scp => uidOk true u && Nat.ble scu 1 && Nat.ble scp 1
  | .implVer n => implVerOk n
  | .sopExt u _ => uidOk true u
  | .commonExt v sop svc rel => v == 0 && uidOk true sop && uidOk true svc && rel.all relOk &&
      lt16 (encRelated rel).length
  | .userIdRq t r p s => lt8 t && lt8 r && lt16 p.length && lt16 s.length
  | .userIdAc r => lt16 r.length

/-- body length of the encoded sub-item fits the u16 item length -/
def userFits (s : UserSub) : Bool := Nat.blt (encUser s).length 65540

def varOk : VarItem → Bool
  | .appCtx u => uidOk true u && lt16 u.length
  | .pcRq id subs => lt8 id && subs.all (synOk false) && Nat.blt (subs.flatMap encSyn).length 65532
  | .pcAc id res subs => lt8 id && lt8 res && subs.all (synOk (res != 0)) && Nat.ble subs.length 1 &&
      Nat.blt (subs.flatMap encSyn).length 65532
  | .userInfo subs => subs.all (fun s => userOk s && userFits s) && lt16 (subs.flatMap encUser).length

def pdvOk (p : PDV) : Bool := lt8 p.id && Nat.blt p.data.length 4294967295

def encOk : PDU → Bool
  | .rq ver called calling items => lt16 ver && aeRqOk called && aeRqOk calling && items.all varOk &&
      Nat.blt ((items.flatMap encVar).length) 4294967228
  | .ac ver called calling items => lt16 ver && aeAcOk called && aeAcOk calling && items.all varOk &&
      Nat.blt ((items.flatMap encVar).length) 4294967228
  | .rj r s d => lt8 r && lt8 s && lt8 d
  | .pdata pdvs => pdvs.all pdvOk && lt32 (pdvs.flatMap encPdv).length
  | .relRq => true
  | .relRp => true
  | .abort s r => lt8 s && lt8 r

/-- decoding strips the AE-title padding (PS3.8: leading and trailing spaces are not significant) -/
def canon : PDU → PDU
  | .rq ver called calling items => .rq ver (pyStrip called) (pyStrip calling) items
  | .ac ver called calling items => .ac ver (pyStrip called) (pyStrip calling) items
  | p => p

/-! ## wf: PS3.8 / PS3.7 well-formedness (domain of C01) -/

def synWf : SynItem → Bool
  | .abstract u => uidWf u
  | .transfer u => uidWf u

def userWf : UserSub → Bool
  | .maxLen n => lt32 n
  | .implUid u => uidWf u
  | .asyncOps i p => lt16 i && lt16 p
  | .role u scu scp => uidWf u && Nat.ble scu 1 && Nat.ble scp 1
  | .implVer n => implVerOk n && !n.isEmpty
  | .sopExt u _ => uidWf u
  | .commonExt v sop svc rel => v == 0 && uidWf sop && uidWf svc && rel.all uidWf &&
      lt16 (encRelated rel).length
  | .userIdRq t r p s => Nat.ble 1 t && Nat.ble t 5 && Nat.ble r 1 && lt16 p.length && lt16 s.length
  | .userIdAc r => lt16 r.length

def isTransfer : SynItem → Bool | .transfer _ => true | _ => false
def isAbstract : SynItem → Bool | .abstract _ => true | _ => false

def varWf : VarItem → Bool
  | .appCtx u => uidWf u
  -- Table 9-13: one abstract syntax sub-item followed by one or more transfer syntax sub-items
  | .pcRq id subs => ctxIdOk id && subs.all synWf && Nat.blt (subs.flatMap encSyn).length 65532 &&
      (match subs with | a :: t :: ts => isAbstract a && (t :: ts).all isTransfer | _ => false)
  -- Table 9-18: exactly one transfer syntax sub-item
  | .pcAc id res subs => ctxIdOk id && Nat.ble res 4 && subs.all synWf &&
      (match subs with | [t] => isTransfer t | _ => false)
  | .userInfo subs => subs.all (fun s => userWf s && userFits s) && lt16 (subs.flatMap encUser).length

def pdvWf (p : PDV) : Bool := ctxIdOk p.id && Nat.blt p.data.length 4294967295

/-- PS3.8 Table 9-21 -/
def rjWf (r s d : Nat) : Bool :=
  (r == 1 || r == 2) &&
  ((s == 1 && (d == 1 || d == 2 || d == 3 || d == 7)) || (s == 2 && (d == 1 || d == 2)) ||
   (s == 3 && (d == 1 || d == 2)))
/-- PS3.8 Table 9-26 -/
def abortWf (s r : Nat) : Bool :=
  (s == 0 && lt8 r) || (s == 2 && (r == 0 || r == 1 || r == 2 || r == 4 || r == 5 || r == 6))

def wf : PDU → Bool
  | .rq ver called calling items => lt16 ver && aeWf called && aeWf calling && items.all varWf &&
      Nat.blt ((items.flatMap encVar).length) 4294967228
  | .ac ver called calling items => lt16 ver && aeAcOk called && aeAcOk calling && items.all varWf &&
      Nat.blt ((items.flatMap encVar).length) 4294967228
  | .rj r s d => rjWf r s d
  | .pdata pdvs => pdvs.all pdvWf && lt32 (pdvs.flatMap encPdv).length
  | .relRq => true
  | .relRp => true
  | .abort s r => abortWf s r

/-! ## well-formed primitives (domain of the primitive round trip) -/

def nodupB : List Bytes → Bool
  | [] => true
  | x :: xs => !xs.contains x && nodupB xs

/-- a requested presentation context: abstract syntax, ≥ 1 distinct transfer syntaxes, no result -/
def ctxRqShape (c : PCtx) : Bool := c.abstract.isSome && c.result.isNone && nodupB c.transfer
/-- a presentation context result: no abstract syntax, exactly one transfer syntax, a result -/
def ctxAcShape (c : PCtx) : Bool := c.abstract.isNone && c.result.isSome && c.transfer.length == 1

/-- the PDU built from the primitive is well-formed, and the primitive has the shape `from_primitive`
expects (application context present, contexts as requested / as answered; A-ABORT source is not
"provider": that is what A-P-ABORT is for) -/
def primWf : Prim → Bool
  | .assocRq calling called app cs ui =>
      wf (fromPrim (.assocRq calling called app cs ui)) && app.isSome && cs.all ctxRqShape
  | .assocAc calling called app cs ui =>
      wf (fromPrim (.assocAc calling called app cs ui)) && app.isSome && cs.all ctxAcShape
  | .abort s => wf (fromPrim (.abort s)) && s != 2
  | a => wf (fromPrim a)

/-- AE-title padding is not significant -/
def canonPrim : Prim → Prim
  | .assocRq calling called app cs ui => .assocRq (pyStrip calling) (pyStrip called) app cs ui
  | .assocAc calling called app cs ui => .assocAc (pyStrip calling) (pyStrip called) app cs ui
  | a => a

/-! ## bounded: what any decoder output satisfies -/

def synB (skip : Bool) : SynItem → Bool
  | .abstract u => uidB true u
  | .transfer u => uidB (!skip) u

def relB (u : Bytes) : Bool := uidB true u && !u.isEmpty

def userB : UserSub → Bool
  | .maxLen n => lt32 n
  | .implUid u => uidB true u
  | .asyncOps i p => lt16 i && lt16 p
  | .role u scu scp => uidB true u && Nat.ble scu 1 && Nat.ble scp 1
  | .implVer n => implVerOk n
  | .sopExt u _ => uidB true u
  | .commonExt v sop svc rel => v == 0 && uidB true sop && uidB true svc && rel.all relB
  | .userIdRq t r _ _ => lt8 t && lt8 r
  | .userIdAc _ => true

def varB : VarItem → Bool
  | .appCtx u => uidB true u
  | .pcRq id subs => lt8 id && subs.all (synB false)
  | .pcAc id res subs => lt8 id && lt8 res && subs.all (synB (res != 0))
  | .userInfo subs => subs.all userB

def bounded : PDU → Bool
  | .rq ver called calling items => lt16 ver && (aeRqOk called && trimmed called) &&
      (aeRqOk calling && trimmed calling) && items.all varB
  | .ac ver called calling items => lt16 ver && (aeAcOk called && trimmed called) &&
      (aeAcOk calling && trimmed calling) && items.all varB
  | .rj r s d => lt8 r && lt8 s && lt8 d
  | .pdata pdvs => pdvs.all (fun p => lt8 p.id)
  | .relRq => true
  | .relRp => true
  | .abort s r => lt8 s && lt8 r

/-! ## normal: the decoder outputs that survive re-encoding -/

def synN : SynItem → Bool
  | .abstract u => !endsNul u && lt16 u.length
  -- an empty Transfer Syntax name is `None` in the code and `None.encode` raises
  | .transfer u => !endsNul u && lt16 u.length && !u.isEmpty

def userN : UserSub → Bool
  | .implUid u => !endsNul u
  | .role u _ _ => !endsNul u
  | .sopExt u _ => !endsNul u
  | .commonExt _ sop svc rel => !endsNul sop && !endsNul svc && rel.all (fun u => !endsNul u) &&
      lt16 (encRelated rel).length
  | .userIdRq _ _ p s => lt16 p.length && lt16 s.length
  | .userIdAc r => lt16 r.length
  | _ => true

def varN : VarItem → Bool
  | .appCtx u => !endsNul u && lt16 u.length
  | .pcRq _ subs => subs.all synN && Nat.blt (subs.flatMap encSyn).length 65532
  | .pcAc _ _ subs => subs.all synN && Nat.ble subs.length 1 && Nat.blt (subs.flatMap encSyn).length 65532
  | .userInfo subs => subs.all (fun s => userN s && userFits s) && lt16 (subs.flatMap encUser).length

def normal : PDU → Bool
  | .rq _ _ _ items => items.all varN && Nat.blt ((items.flatMap encVar).length) 4294967228
  | .ac _ _ _ items => items.all varN && Nat.blt ((items.flatMap encVar).length) 4294967228
  | .pdata pdvs => pdvs.all (fun p => Nat.blt p.data.length 4294967295) && lt32 (pdvs.flatMap encPdv).length
  | _ => true

/-- the code's `encode()` raises on the value (the only decoder output where it does: `None.encode`) -/
def synEncodable : SynItem → Bool
  | .transfer u => !u.isEmpty
  | _ => true
def varEncodable : VarItem → Bool
  | .pcRq _ subs => subs.all synEncodable
  | .pcAc _ _ subs => subs.all synEncodable
  | _ => true
def encodable : PDU → Bool
  | .rq _ _ _ items => items.all varEncodable
  | .ac _ _ _ items => items.all varEncodable
  | _ => true

/-! ## lengthsExact: independent walker over the encoded bytes

`walk check fuel b`: `b` is a sequence of items (type, reserved, u16 length, body) that tile `b`
exactly, and `check type body` holds for each. -/

def walk (check : UInt8 → Bytes → Bool) : Nat → Bytes → Bool
  | _, [] => true
  | 0, _ :: _ => false
  | fuel + 1, t :: _ :: h :: l :: rest =>
    let n := h.toNat * 256 + l.toNat
    Nat.ble n rest.length && check t (rest.take n) && walk check fuel (rest.drop n)
  | _ + 1, _ => false

/-- (u16 length, that many bytes)* tiling `b` exactly -/
def walkRel : Nat → Bytes → Bool
  | _, [] => true
  | 0, _ :: _ => false
  | fuel + 1, h :: l :: rest =>
    let n := h.toNat * 256 + l.toNat
    Nat.ble n rest.length && walkRel fuel (rest.drop n)
  | _ + 1, _ => false

/-- embedded length fields of the user information sub-items (PS3.7 D.3.3) -/
def checkUser (t : UInt8) (body : Bytes) : Bool :=
  if t = 0x51 then body.length == 4
  else if t = 0x53 then body.length == 4
  else if t = 0x54 then
    match body with
    | h :: l :: rest => rest.length == h.toNat * 256 + l.toNat + 2
    | _ => false
  else if t = 0x56 then
    match body with
    | h :: l :: rest => Nat.ble (h.toNat * 256 + l.toNat) rest.length
    | _ => false
  else if t = 0x57 then
    match body with
    | h :: l :: rest =>
      let n := h.toNat * 256 + l.toNat
      Nat.ble n rest.length &&
      (match rest.drop n with
       | h2 :: l2 :: rest2 =>
         let m := h2.toNat * 256 + l2.toNat
         Nat.ble m rest2.length &&
         (match rest2.drop m with
          | h3 :: l3 :: rest3 => rest3.length == h3.toNat * 256 + l3.toNat && walkRel rest3.length rest3
          | _ => false)
       | _ => false)
    | _ => false
  else if t = 0x58 then
    match body with
    | _ :: _ :: h :: l :: rest =>
      let n := h.toNat * 256 + l.toNat
      Nat.ble n rest.length &&
      (match rest.drop n with
       | h2 :: l2 :: rest2 => rest2.length == h2.toNat * 256 + l2.toNat
       | _ => false)
    | _ => false
  else if t = 0x59 then
    match body with
    | h :: l :: rest => rest.length == h.toNat * 256 + l.toNat
    | _ => false
  else true

def checkVar (t : UInt8) (body : Bytes) : Bool :=
  if t = 0x20 || t = 0x21 then
    Nat.ble 4 body.length && walk (fun _ _ => true) body.length (body.drop 4)
  else if t = 0x50 then walk checkUser body.length body
  else true

/-- (u32 length, that many bytes)* tiling `b` exactly, each length ≥ 1 (context id) -/
def walkPdv : Nat → Bytes → Bool
  | _, [] => true
  | 0, _ :: _ => false
  | fuel + 1, a :: b :: c :: d :: rest =>
    let n := be32 a b c d
    Nat.ble 1 n && Nat.ble n rest.length && walkPdv fuel (rest.drop n)
  | _ + 1, _ => false

/-- every PDU length, item length and embedded sub-length equals the number of bytes it governs -/
def lengthsExact (b : Bytes) : Bool :=
  match b with
  | t :: _ :: a :: b2 :: c :: d :: body =>
    body.length == be32 a b2 c d &&
    (if t = 1 || t = 2 then Nat.ble 68 body.length && walk checkVar body.length (body.drop 68)
     else if t = 4 then walkPdv body.length body
     else body.length == 4)
  | _ => false

end PynetVerif.Pdu
