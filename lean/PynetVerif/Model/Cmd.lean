import PynetVerif.Model.SExp
/-!
M-Cmd — DIMSE command sets and the primitive ⇄ message conversion (C17).

What is mirrored (all of `pynetdicom/dimse_messages.py`, `dimse_primitives.py`,
`dsutils.py` that takes part in the conversion, plus the part of pydicom's
Implicit-VR-Little-Endian reader/writer that group 0000 exercises):

* `encodeVal`/`decodeVal`   pydicom `write_numbers`/`write_ATvalue`/`write_text`/`write_UI`
                            and `convert_numbers`/`convert_ATvalue`/`convert_text`/
                            `convert_AE_string`/`convert_UI` (padding and the strip rules)
* `encodeElems`/`decodeElems`  `write_dataset` / `read_dataset` (tag, 32-bit length, value)
* `Cmd.set`/`del`/`ofList`   a pydicom `Dataset` is a dict iterated in tag order
* `store`                    the setters of the primitive classes (`set_uid`, `set_ae`, range checks …)
* `primToCmd`                `DIMSEMessage.primitive_to_message` + `_set_command_group_length`
* `cmdToPrim`                `DIMSEMessage.message_to_primitive`
* `encodeMsg`/`decodeMsg`    `encode_msg` / `decode_msg` at the level "command bytes, data-set bytes"
                             (fragmentation is C15/C16)
* `kindOf`                   `DIMSEServiceProvider.send_msg`: request iff MessageIDBeingRespondedTo is None

Strings are byte strings.  Python's `str.strip()` (used by `UID()` and
`convert_AE_string`) is modelled as stripping the space character only: the
model is exact for values without other white space/control characters, which
is the domain the harness generates (AE validation rejects control characters
anyway).  File-backed data sets (`_dataset_path`) are not modelled.
-/
namespace PynetVerif.Cmd

/-! ### little-endian numbers -/

def le16 (n : Nat) : Bytes := [UInt8.ofNat (n % 256), UInt8.ofNat (n / 256 % 256)]
def le32 (n : Nat) : Bytes := le16 (n % 65536) ++ le16 (n / 65536 % 65536)
/-- a tag is written group first, element second (each 16-bit LE) -/
def leTag (t : Nat) : Bytes := le16 (t / 65536 % 65536) ++ le16 (t % 65536)

def rd16 : Bytes → Option (Nat × Bytes)
  | a :: b :: r => some (a.toNat + 256 * b.toNat, r)
  | _ => none

def rd32 : Bytes → Option (Nat × Bytes)
  | a :: b :: c :: d :: r => some (a.toNat + 256 * b.toNat + 65536 * (c.toNat + 256 * d.toNat), r)
  | _ => none

def rdTag : Bytes → Option (Nat × Bytes)
  | a :: b :: c :: d :: r => some (65536 * (a.toNat + 256 * b.toNat) + (c.toNat + 256 * d.toNat), r)
  | _ => none

/-! ### value representations and element values -/

inductive VR | UL | US | UI | AE | LO | AT
  deriving DecidableEq, Repr, Inhabited

def VR.name : VR → String
  | .UL => "UL" | .US => "US" | .UI => "UI" | .AE => "AE" | .LO => "LO" | .AT => "AT"

/-- The value of a data element as pydicom holds it: a list of numbers
(UL, US, AT) or of strings (UI, AE, LO).  The empty list is the empty value
(`None`, `''`, `[]`); one entry is a scalar; more is a `MultiValue`. -/
inductive EVal
  | nums (xs : List Nat)
  | strs (xs : List Bytes)
  deriving DecidableEq, Repr, Inhabited

def emptyOf : VR → EVal
  | .UL | .US | .AT => .nums []
  | .UI | .AE | .LO => .strs []

/-! ### strings: backslash join/split, padding, stripping -/

def BS : UInt8 := 0x5C
def SP : UInt8 := 0x20
def NUL : UInt8 := 0x00

/-- `"\\".join(values)` -/
def joinBs : List Bytes → Bytes
  | [] => []
  | [s] => s
  | s :: rest => s ++ BS :: joinBs rest

/-- `value.split("\\")` (always at least one component) -/
def splitBs : Bytes → List Bytes
  | [] => [[]]
  | c :: cs =>
    if c = BS then [] :: splitBs cs
    else match splitBs cs with
      | h :: t => (c :: h) :: t
      | [] => [[c]]

/-- `value.rstrip(chars)` for the character class `p` -/
def rstripBy (p : UInt8 → Bool) : Bytes → Bytes
  | [] => []
  | c :: cs =>
    match rstripBy p cs with
    | [] => if p c then [] else [c]
    | r => c :: r

def isPad (c : UInt8) : Bool := c == NUL || c == SP
def isSp (c : UInt8) : Bool := c == SP

/-- `value.rstrip("\0 ")` -/
def rstripPad : Bytes → Bytes := rstripBy isPad
/-- `value.strip()` restricted to the space character -/
def stripSp (b : Bytes) : Bytes := rstripBy isSp (b.dropWhile isSp)

/-- pydicom pads odd-length values with one byte -/
def padEven (pad : UInt8) (b : Bytes) : Bytes := if b.length % 2 = 1 then b ++ [pad] else b

/-- a single decoded `''` is the empty value -/
def pyStrs : List Bytes → List Bytes
  | [[]] => []
  | l => l

/-! ### value codec -/

def wUS (n : Nat) : Option Bytes := if n < 65536 then some (le16 n) else none
def wUL (n : Nat) : Option Bytes := if n < 4294967296 then some (le32 n) else none
def wAT (n : Nat) : Option Bytes := if n < 4294967296 then some (leTag n) else none

/-- `struct.pack` of every value; `none` = `struct.error`/`OverflowError` -/
def encNums (w : Nat → Option Bytes) : List Nat → Option Bytes
  | [] => some []
  | x :: xs =>
    match w x, encNums w xs with
    | some a, some r => some (a ++ r)
    | _, _ => none

/-- pydicom's writer for one value (`none` = the writer raises, `dsutils.encode` returns `None`) -/
def encodeVal : VR → EVal → Option Bytes
  | .US, .nums xs => encNums wUS xs
  | .UL, .nums xs => encNums wUL xs
  | .AT, .nums xs => encNums wAT xs
  | .UI, .strs xs => some (padEven NUL (joinBs xs))
  | .AE, .strs xs => some (padEven SP (joinBs xs))
  | .LO, .strs xs => some (padEven SP (joinBs xs))
  | _, _ => none

/-- `unpack("<nH")`: the length must be a multiple of 2 (`BytesLengthException` otherwise) -/
def dec16s : Bytes → Option (List Nat)
  | [] => some []
  | a :: b :: r => (dec16s r).map (fun xs => (a.toNat + 256 * b.toNat) :: xs)
  | _ => none

def dec32s : Bytes → Option (List Nat)
  | [] => some []
  | a :: b :: c :: d :: r =>
    (dec32s r).map (fun xs => (a.toNat + 256 * b.toNat + 65536 * (c.toNat + 256 * d.toNat)) :: xs)
  | _ => none

/-- `convert_ATvalue`: whole 4-byte groups, a trailing remainder is dropped with a warning -/
def decATs : Bytes → List Nat
  | a :: b :: c :: d :: r => (65536 * (a.toNat + 256 * b.toNat) + (c.toNat + 256 * d.toNat)) :: decATs r
  | _ => []

/-- pydicom's reader for one value (`none` = conversion raises when the element is accessed) -/
def decodeVal (vr : VR) (b : Bytes) : Option EVal :=
  if b.isEmpty then some (emptyOf vr)
  else match vr with
    | .US => (dec16s b).map .nums
    | .UL => (dec32s b).map .nums
    | .AT => some (.nums (decATs b))
    | .UI => some (.strs (pyStrs ((splitBs (rstripPad b)).map stripSp)))
    | .AE => some (.strs (pyStrs ((splitBs b).map stripSp)))
    | .LO => some (.strs (pyStrs ((splitBs b).map rstripPad)))

/-! ### the dictionary: VR of the group-0000 elements in use (PS3.7 E.1; pydicom's dictionary) -/

def vrTable : List (Nat × VR) := [
  (0x0000, .UL), (0x0002, .UI), (0x0003, .UI), (0x0100, .US), (0x0110, .US), (0x0120, .US),
  (0x0600, .AE), (0x0700, .US), (0x0800, .US), (0x0900, .US), (0x0901, .AT), (0x0902, .LO),
  (0x0903, .US), (0x1000, .UI), (0x1001, .UI), (0x1002, .US), (0x1005, .AT), (0x1008, .US),
  (0x1020, .US), (0x1021, .US), (0x1022, .US), (0x1023, .US), (0x1030, .AE), (0x1031, .US)]

def vrOf (t : Nat) : Option VR := vrTable.lookup t

/-! ### elements and data sets -/

abbrev Elem := Nat × EVal
/-- a data set: elements in strictly increasing tag order -/
abbrev Cmd := List Elem

def encodeElem (e : Elem) : Option Bytes :=
  match vrOf e.1 with
  | none => none
  | some vr =>
    match encodeVal vr e.2 with
    | none => none
    | some body =>
      if body.length < 4294967295 then some (leTag e.1 ++ le32 body.length ++ body) else none

def encodeElems : List Elem → Option Bytes
  | [] => some []
  | e :: r =>
    match encodeElem e, encodeElems r with
    | some a, some b => some (a ++ b)
    | _, _ => none

/-- `read_dataset` (implicit VR little endian); fuel = an upper bound on the number of elements -/
def decodeElems : Nat → Bytes → Option (List Elem)
  | _, [] => some []
  | 0, _ :: _ => none
  | n + 1, b =>
    match rdTag b with
    | none => none
    | some (tag, b1) =>
      match rd32 b1 with
      | none => none
      | some (len, b2) =>
        if len = 4294967295 then none            -- undefined length: sequences do not occur here
        else if b2.length < len then none        -- truncated value
        else
          match vrOf tag with
          | none => none                          -- not a command element of the dictionary above
          | some vr =>
            match decodeVal vr (b2.take len), decodeElems n (b2.drop len) with
            | some v, some rest => some ((tag, v) :: rest)
            | _, _ => none

namespace Cmd

/-- `ds[tag] = value` keeping tag order -/
def set : Cmd → Nat → EVal → Cmd
  | [], t, v => [(t, v)]
  | (t', v') :: r, t, v =>
    if t < t' then (t, v) :: (t', v') :: r
    else if t = t' then (t, v) :: r
    else (t', v') :: set r t v

/-- `del ds[tag]` -/
def del (c : Cmd) (t : Nat) : Cmd := c.filter (fun e => e.1 != t)

def get (c : Cmd) (t : Nat) : Option EVal := c.lookup t

/-- a dict built from elements in reading order (later duplicates win), iterated sorted -/
def ofList (l : List Elem) : Cmd := l.foldl (fun c e => c.set e.1 e.2) []

end Cmd

/-- `dsutils.encode(ds, True, True)`: `write_dataset` writes in tag order -/
def encodeCmd (c : Cmd) : Option Bytes := encodeElems c

/-- `dsutils.decode(stream, True, True)` -/
def decodeCmd (b : Bytes) : Option Cmd := (decodeElems b.length b).map Cmd.ofList

/-! ### primitives -/

/-- a parameter value as a primitive stores it: an `int` (also a bare `BaseTag`),
a `str`, or a list of tags -/
inductive Val
  | int (n : Nat)
  | str (s : Bytes)
  | list (ts : List Nat)
  deriving DecidableEq, Repr, Inhabited

/-- the kinds of parameter setters in `dimse_primitives.py` -/
inductive Setter
  | plain      -- instance attribute without a setter (ErrorComment, ErrorID, OffendingElement, N_SET.AttributeIdentifierList)
  | us16       -- int in 0..65535 or None (MessageID, MessageIDBeingRespondedTo, MoveOriginatorMessageID)
  | natAny     -- any int (Status, EventTypeID, ActionTypeID) / any int ≥ 0 (sub-operation counters) or None
  | priority   -- 0, 1 or 2; never None
  | uid        -- `set_uid(...) or None`
  | aeOpt      -- MoveOriginatorApplicationEntityTitle: invalid ⇒ None (logged)
  | aeReq      -- MoveDestination: `set_ae(…, allow_empty=False)`
  | ail        -- N_GET.AttributeIdentifierList
  deriving DecidableEq, Repr, Inhabited

def Setter.code : Setter → Nat
  | .plain => 0 | .us16 => 1 | .natAny => 2 | .priority => 3 | .uid => 4 | .aeOpt => 5 | .aeReq => 6 | .ail => 7

/-- printable ASCII other than the backslash -/
def okChar (c : UInt8) : Bool := 0x20 ≤ c.toNat && c.toNat ≤ 0x7E && c != BS

/-- `_validators.validate_ae` on an ASCII string -/
def validAE (s : Bytes) : Bool := decide (s.length ≤ 16) && s.all okChar

def tagOk (t : Nat) : Bool := decide (t < 4294967296)

/-- What a setter stores for a value; outer `none` = the setter raises. -/
def store : Setter → Option Val → Option (Option Val)
  | .plain, v => some v
  | .us16, none => some none
  | .us16, some (.int n) => if n < 65536 then some (some (.int n)) else none
  | .us16, some _ => none
  | .natAny, none => some none
  | .natAny, some (.int n) => some (some (.int n))
  | .natAny, some _ => none
  | .priority, some (.int n) => if n ≤ 2 then some (some (.int n)) else none
  | .priority, _ => none
  | .uid, none => some none
  | .uid, some (.str s) =>
    let s' := stripSp s
    if s'.isEmpty then some none
    else if s'.length ≤ 64 then some (some (.str s')) else none
  | .uid, some _ => none
  | .aeOpt, none => some none
  | .aeOpt, some (.str s) =>
    if s.isEmpty then some (some (.str []))
    else if validAE s then some (some (.str s)) else some none
  | .aeOpt, some _ => none
  | .aeReq, none => some none
  | .aeReq, some (.str s) =>
    if (stripSp s).isEmpty then none
    else if validAE s then some (some (.str s)) else none
  | .aeReq, some _ => none
  | .ail, none => some none
  | .ail, some (.int t) => if tagOk t then some (some (.int t)) else none
  | .ail, some (.list [t]) => if tagOk t then some (some (.int t)) else none
  | .ail, some (.list ts) => if ts.all tagOk then some (some (.list ts)) else none
  | .ail, some (.str _) => none

structure Prim where
  /-- command-set parameters by tag (`none` = the attribute is `None` or does not exist) -/
  par : Nat → Option Val
  /-- the data-set parameter (`DataSet`, `Identifier`, `AttributeList`, …) -/
  data : Option Bytes

def Prim.setPar (p : Prim) (t : Nat) (v : Option Val) : Prim :=
  { p with par := fun t' => if t' = t then v else p.par t' }

structure PrimClass where
  name : String
  /-- the attributes that are command-set keywords, with their setter -/
  attrs : List (Nat × Setter)
  deriving DecidableEq, Repr

def PrimClass.setter? (c : PrimClass) (t : Nat) : Option Setter := c.attrs.lookup t

/-- a freshly constructed primitive: everything `None` except `Priority = 2` -/
def emptyPrim (c : PrimClass) : Prim :=
  { par := fun t => if t = 0x0700 && (c.setter? 0x0700).isSome then some (.int 2) else none
    data := none }

/-- one of the 23 DIMSE message types -/
structure Row where
  name : String
  field : Nat              -- `_MESSAGE_TYPES`
  cls : PrimClass          -- `_MSG_TO_PRIMITIVE`
  keywords : List Nat      -- `_COMMAND_SET_KEYWORDS` as tags
  dataset : Bool           -- `_DATASET_KEYWORDS`
  deriving DecidableEq, Repr

/-- `_MULTIVALUE_TAGS` -/
def multivalueTags : List Nat := [0x0901, 0x1005]

/-- `elem.value = attr`: the Python value as pydicom's writer will see it -/
def toEVal : VR → Val → Option EVal
  | .US, .int n | .UL, .int n | .AT, .int n => some (.nums [n])
  | .US, .list xs | .UL, .list xs | .AT, .list xs => some (.nums xs)
  | .UI, .str s | .AE, .str s | .LO, .str s => some (.strs (if s.isEmpty then [] else [s]))
  | _, _ => none

/-- `elem.value` as `message_to_primitive` passes it to the setter, including
"VM > 1 and not a multi-value tag ⇒ first value" -/
def pyVal (t : Nat) : EVal → Option Val
  | .nums [] => none
  | .nums [x] => some (.int x)
  | .nums (x :: y :: r) => if multivalueTags.contains t then some (.list (x :: y :: r)) else some (.int x)
  | .strs [] => some (.str [])
  | .strs (s :: _) => some (.str s)

def emptyVal (t : Nat) : EVal :=
  match vrOf t with
  | some vr => emptyOf vr
  | none => .nums []

/-- `DIMSEMessage.__init__`: every keyword of the message set to `None` -/
def initCmd (r : Row) : Cmd := r.keywords.foldl (fun c t => c.set t (emptyVal t)) []

/-- the `for elem in self.command_set` loop of `primitive_to_message` -/
def fillElems (cls : PrimClass) (p : Prim) : Cmd → Option Cmd
  | [] => some []
  | (t, ev) :: rest =>
    match fillElems cls p rest with
    | none => none
    | some rest' =>
      match cls.setter? t with
      | none => some ((t, ev) :: rest')              -- `hasattr` is false: left as it is
      | some _ =>
        match p.par t with
        | none => some rest'                          -- `del self.command_set[elem.tag]`
        | some v =>
          match vrOf t with
          | none => none
          | some vr =>
            match toEVal vr v with
            | none => none
            | some ev' => some ((t, ev') :: rest')

def hasData (r : Row) (p : Prim) : Bool :=
  r.dataset && (match p.data with | some (_ :: _) => true | _ => false)

/-- `primitive_to_message` followed by `_set_command_group_length` -/
def primToCmd (r : Row) (p : Prim) : Option Cmd :=
  match fillElems r.cls p (initCmd r) with
  | none => none
  | some c1 =>
    let c2 := c1.set 0x0100 (.nums [r.field])
    let c3 := c2.set 0x0800 (.nums [if hasData r p then 0x0001 else 0x0101])
    let c4 := c3.del 0x0000
    match encodeCmd c4 with
    | none => none                                    -- `len(None)` raises
    | some rest => some (c4.set 0x0000 (.nums [rest.length]))

/-- the loop of `message_to_primitive` (`setattr` through the setters) -/
def applyElems (cls : PrimClass) : Cmd → Prim → Option Prim
  | [], q => some q
  | (t, ev) :: rest, q =>
    match cls.setter? t with
    | none => applyElems cls rest q
    | some s =>
      match store s (pyVal t ev) with
      | none => none
      | some v => applyElems cls rest (q.setPar t v)

def cmdToPrim (r : Row) (c : Cmd) (data : Bytes) : Option Prim :=
  match applyElems r.cls c (emptyPrim r.cls) with
  | none => none
  | some q => some (if r.dataset then { q with data := some data } else q)

/-- the bytes `encode_msg` puts on the wire: command set, data set -/
def encodeMsg (r : Row) (p : Prim) : Option (Bytes × Bytes) :=
  match primToCmd r p with
  | none => none
  | some c =>
    match encodeCmd c with
    | none => none
    | some b => some (b, if r.dataset then p.data.getD [] else [])

/-- `decode_msg` (which picks the message class from CommandField) + `message_to_primitive` -/
def decodeMsg (rows : List Row) (b d : Bytes) : Option (Row × Prim) :=
  match decodeCmd b with
  | none => none
  | some c =>
    match c.get 0x0100 with
    | some (.nums [f]) =>
      match rows.find? (fun r => r.field == f) with
      | none => none                                  -- KeyError
      | some r =>
        match c.get 0x0800 with
        | none => none                                -- AttributeError
        | some cdst =>
          let data := if cdst = .nums [0x0101] then [] else d
          (cmdToPrim r c data).map (fun q => (r, q))
    | _ => none

/-! ### canonical form of a primitive under a message type -/

/-- what one stored parameter value looks like after the trip -/
def canonVal : VR → Val → Option Val
  | _, .int n => some (.int n)
  | .AE, .str s => some (.str (stripSp s))
  | .LO, .str s => some (.str (rstripPad s))
  | _, .str s => some (.str s)
  | _, .list [] => none
  | _, .list [t] => some (.int t)
  | _, .list ts => some (.list ts)

/-- The primitive a message of type `r` carries: only the parameters of `r`,
each in canonical form; the data set with `None` ≡ empty. -/
def canon (r : Row) (p : Prim) : Prim :=
  { par := fun t =>
      if r.keywords.contains t && (r.cls.setter? t).isSome then
        match p.par t, vrOf t with
        | some v, some vr => canonVal vr v
        | _, _ => none
      else (emptyPrim r.cls).par t
    data := if r.dataset then some (p.data.getD []) else none }

/-! ### the 12 primitive classes and the 23 message types (as read from the code;
`Props/C17.lean` proves them equal to the tables regenerated from the source) -/

def base : List (Nat × Setter) :=
  [(0x0002, .uid), (0x0110, .us16), (0x0120, .us16), (0x0900, .natAny)]
def counters : List (Nat × Setter) :=
  [(0x1020, .natAny), (0x1021, .natAny), (0x1022, .natAny), (0x1023, .natAny)]
def requested : List (Nat × Setter) := [(0x0003, .uid), (0x1001, .uid)]

def C_ECHO : PrimClass := ⟨"C_ECHO", base ++ [(0x0902, .plain)]⟩
def C_STORE : PrimClass := ⟨"C_STORE", base ++ [(0x0700, .priority), (0x0901, .plain), (0x0902, .plain),
  (0x1000, .uid), (0x1030, .aeOpt), (0x1031, .us16)]⟩
def C_FIND : PrimClass := ⟨"C_FIND", base ++ [(0x0700, .priority), (0x0901, .plain), (0x0902, .plain)]⟩
def C_GET : PrimClass := ⟨"C_GET", base ++ [(0x0700, .priority), (0x0901, .plain), (0x0902, .plain)] ++ counters⟩
def C_MOVE : PrimClass := ⟨"C_MOVE", base ++ [(0x0600, .aeReq), (0x0700, .priority), (0x0901, .plain),
  (0x0902, .plain)] ++ counters⟩
def C_CANCEL : PrimClass := ⟨"C_CANCEL", [(0x0120, .us16)]⟩
def N_EVENT_REPORT : PrimClass := ⟨"N_EVENT_REPORT", base ++ [(0x0902, .plain), (0x0903, .plain),
  (0x1000, .uid), (0x1002, .natAny)]⟩
def N_GET : PrimClass := ⟨"N_GET", base ++ [(0x0902, .plain), (0x0903, .plain), (0x1000, .uid),
  (0x1005, .ail)] ++ requested⟩
def N_SET : PrimClass := ⟨"N_SET", base ++ [(0x0902, .plain), (0x0903, .plain), (0x1000, .uid),
  (0x1005, .plain)] ++ requested⟩
def N_ACTION : PrimClass := ⟨"N_ACTION", base ++ [(0x0902, .plain), (0x0903, .plain), (0x1000, .uid),
  (0x1008, .natAny)] ++ requested⟩
def N_CREATE : PrimClass := ⟨"N_CREATE", base ++ [(0x0902, .plain), (0x0903, .plain), (0x1000, .uid)]⟩
def N_DELETE : PrimClass := ⟨"N_DELETE", base ++ [(0x0902, .plain), (0x0903, .plain), (0x1000, .uid)] ++ requested⟩

def classes : List PrimClass :=
  [C_ECHO, C_STORE, C_FIND, C_GET, C_MOVE, C_CANCEL, N_EVENT_REPORT, N_GET, N_SET, N_ACTION, N_CREATE, N_DELETE]

def rows : List Row := [
  ⟨"C-STORE-RQ", 0x0001, C_STORE, [0x0000, 0x0002, 0x0100, 0x0110, 0x0700, 0x0800, 0x1000, 0x1030, 0x1031], true⟩,
  ⟨"C-GET-RQ", 0x0010, C_GET, [0x0000, 0x0002, 0x0100, 0x0110, 0x0700, 0x0800], true⟩,
  ⟨"C-FIND-RQ", 0x0020, C_FIND, [0x0000, 0x0002, 0x0100, 0x0110, 0x0700, 0x0800], true⟩,
  ⟨"C-MOVE-RQ", 0x0021, C_MOVE, [0x0000, 0x0002, 0x0100, 0x0110, 0x0600, 0x0700, 0x0800], true⟩,
  ⟨"C-ECHO-RQ", 0x0030, C_ECHO, [0x0000, 0x0002, 0x0100, 0x0110, 0x0800], false⟩,
  ⟨"N-EVENT-REPORT-RQ", 0x0100, N_EVENT_REPORT, [0x0000, 0x0002, 0x0100, 0x0110, 0x0800, 0x1000, 0x1002], true⟩,
  ⟨"N-GET-RQ", 0x0110, N_GET, [0x0000, 0x0003, 0x0100, 0x0110, 0x0800, 0x1001, 0x1005], false⟩,
  ⟨"N-SET-RQ", 0x0120, N_SET, [0x0000, 0x0003, 0x0100, 0x0110, 0x0800, 0x1001], true⟩,
  ⟨"N-ACTION-RQ", 0x0130, N_ACTION, [0x0000, 0x0003, 0x0100, 0x0110, 0x0800, 0x1001, 0x1008], true⟩,
  ⟨"N-CREATE-RQ", 0x0140, N_CREATE, [0x0000, 0x0002, 0x0100, 0x0110, 0x0800, 0x1000], true⟩,
  ⟨"N-DELETE-RQ", 0x0150, N_DELETE, [0x0000, 0x0003, 0x0100, 0x0110, 0x0800, 0x1001], false⟩,
  ⟨"C-CANCEL-RQ", 0x0FFF, C_CANCEL, [0x0000, 0x0100, 0x0120, 0x0800], false⟩,
  ⟨"C-STORE-RSP", 0x8001, C_STORE, [0x0000, 0x0002, 0x0100, 0x0120, 0x0800, 0x0900, 0x0901, 0x0902, 0x1000], false⟩,
  ⟨"C-GET-RSP", 0x8010, C_GET, [0x0000, 0x0002, 0x0100, 0x0120, 0x0800, 0x0900, 0x0901, 0x0902,
      0x1020, 0x1021, 0x1022, 0x1023], true⟩,
  ⟨"C-FIND-RSP", 0x8020, C_FIND, [0x0000, 0x0002, 0x0100, 0x0120, 0x0800, 0x0900, 0x0901, 0x0902], true⟩,
  ⟨"C-MOVE-RSP", 0x8021, C_MOVE, [0x0000, 0x0002, 0x0100, 0x0120, 0x0800, 0x0900, 0x0901, 0x0902,
      0x1020, 0x1021, 0x1022, 0x1023], true⟩,
  ⟨"C-ECHO-RSP", 0x8030, C_ECHO, [0x0000, 0x0002, 0x0100, 0x0120, 0x0800, 0x0900, 0x0902], false⟩,
  ⟨"N-EVENT-REPORT-RSP", 0x8100, N_EVENT_REPORT, [0x0000, 0x0002, 0x0100, 0x0120, 0x0800, 0x0900, 0x0902, 0x0903,
      0x1000, 0x1002], true⟩,
  ⟨"N-GET-RSP", 0x8110, N_GET, [0x0000, 0x0002, 0x0100, 0x0120, 0x0800, 0x0900, 0x0902, 0x0903, 0x1000, 0x1005], true⟩,
  ⟨"N-SET-RSP", 0x8120, N_SET, [0x0000, 0x0002, 0x0100, 0x0120, 0x0800, 0x0900, 0x0902, 0x0903, 0x1000, 0x1005], true⟩,
  ⟨"N-ACTION-RSP", 0x8130, N_ACTION, [0x0000, 0x0002, 0x0100, 0x0120, 0x0800, 0x0900, 0x0902, 0x0903,
      0x1000, 0x1008], true⟩,
  ⟨"N-CREATE-RSP", 0x8140, N_CREATE, [0x0000, 0x0002, 0x0100, 0x0120, 0x0800, 0x0900, 0x0902, 0x0903, 0x1000], true⟩,
  ⟨"N-DELETE-RSP", 0x8150, N_DELETE, [0x0000, 0x0002, 0x0100, 0x0120, 0x0800, 0x0900, 0x0902, 0x0903, 0x1000], false⟩]

def rowByName (n : String) : Option Row := rows.find? (fun r => r.name == n)

/-- `DIMSEServiceProvider.send_msg`: `_RQ_TO_MESSAGE` when MessageIDBeingRespondedTo is None,
else `_RSP_TO_MESSAGE` (a C_CANCEL with an id is the C-CANCEL-RQ). -/
def kindOf (cls : PrimClass) (p : Prim) : Option Row :=
  let isRq := (p.par 0x0120).isNone
  rows.find? (fun r => r.cls.name == cls.name &&
    (if cls.name == "C_CANCEL" then !isRq else (decide (r.field < 0x8000)) == isRq))

end PynetVerif.Cmd
