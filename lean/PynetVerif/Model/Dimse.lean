import PynetVerif.Model.SExp
/-!
M-DIMSE: executable model of the fragmentation / reassembly half of
`pynetdicom/dimse_messages.py` as it is in /repo now.

* `fragments`      — `DIMSEMessage._generate_pdv_fragments`
* `encodePart`, `encodeMsg`, `encodeFileData`, `encodeMsgFull` — `DIMSEMessage.encode_msg`
* `decodePDVs`, `decodeMsg` — `DIMSEMessage.decode_msg` over one / several P-DATA primitives
* `primToMsg`      — the data-set half of `DIMSEMessage.primitive_to_message`
* `scanUS`, `cmdInfo` — the little of the Implicit-VR-LE command-set reader that
  `decode_msg` needs (CommandField ∈ _MESSAGE_TYPES, CommandDataSetType); the
  theorems never use it (they take the decision as a parameter `noDS`), only the
  driver does.  The command-set codec proper is C17's.

Deliberate mirroring of quirks:
* `nr_fragments = ceil(len / (max-6))` is computed by `encode_msg` independently
  of the generator that produces the fragments; the emit loop takes `nr-1`
  "more" fragments and then one "last" fragment with `next()`.  An exhausted
  generator (empty command set with max ≠ 0) is a `RuntimeError` (PEP 479);
  `0 < max < 6` makes the generator raise `ValueError` on its first `next`,
  `max = 6` divides by zero before that.  All of these happen before the first
  yield of the part concerned.
* Python's `ceil(a / b)` is float division; modelled by exact ceiling division
  (equal for `a < 2^53`, recorded as an assumption by the harness).
* file-backed data sets: `length = end - f.seek(offset)` is negative when the
  offset is past the end of the file.  For max ≠ 0, `ceil(negative / n) ≤ 0` and
  `range(nr-1)` is then empty exactly as for `length = 0`, and `f.read(n)` past
  EOF returns `b""`, so truncated subtraction gives the same output.  For
  max = 0 the code calls `f.read(length)`: `read(-1)` returns `b""`, a smaller
  argument raises `ValueError` (after the command fragments were yielded).
* a file-backed data set of length 0 still yields one (empty) last fragment,
  an in-memory data set of length 0 yields none.
* `decode_msg` returns `True` at the first "last" fragment of a data set even if
  no command set was decoded, and drops whatever follows in the same P-DATA
  primitive.
Not modelled: `_config.STORE_RECV_CHUNKED_DATASET` (data set written to a
temporary file instead of the BytesIO; C25), the command-set codec (C17).
-/
namespace PynetVerif.Dimse

/-- One presentation data value: context id, message control header, fragment.
In pynetdicom this is the tuple `(context_id, bytes([ctl]) + payload)`. -/
structure PDV where
  ctx : Nat
  ctl : Nat
  payload : Bytes
  deriving Repr, BEq, DecidableEq, Inhabited

inductive EncErr | valueError | zeroDivision | stopIteration
  deriving Repr, BEq, DecidableEq, Inhabited

/-- exact `⌈a / b⌉` for `b ≥ 1` -/
def ceilDiv (a b : Nat) : Nat := (a + b - 1) / b

/-- the loop of `_generate_pdv_fragments`:
`for ii in range(k): yield b[off : off + n]; off += n` -/
def sliceLoop (b : Bytes) (n : Nat) : Nat → Nat → List Bytes
  | _, 0 => []
  | off, k + 1 => (b.drop off).take n :: sliceLoop b n (off + n) k

/-- `_generate_pdv_fragments(bytestream, fragment_length)`: everything the
generator yields, or `none` when it raises `ValueError` (0 < length < 7). -/
def fragments (b : Bytes) (max : Nat) : Option (List Bytes) :=
  if max = 0 then some [b]
  else if max < 7 then none
  else some (sliceLoop b (max - 6) 0 (ceilDiv b.length (max - 6)))

/-- `nr_fragments` of `encode_msg`; `none` = ZeroDivisionError (max = 6).  For
`0 < max < 6` the Python value is `ceil(len / negative) ≤ 0`; it is only used as
`range(int(nr - 1))`, which is empty as for 0. -/
def nrFragments (len max : Nat) : Option Nat :=
  if max = 0 then some 1
  else if max = 6 then none
  else if max < 6 then some 0
  else some (ceilDiv len (max - 6))

/-- `for ii in range(k): yield (ctx, more + next(gen))` then
`yield (ctx, last + next(gen))`; the generator is the list of what it still has
to yield.  Returns what was yielded and the exception, if any. -/
def emitPart (ctx more last : Nat) : Nat → List Bytes → List PDV × Option EncErr
  | _, [] => ([], some .stopIteration)
  | 0, f :: _ => ([⟨ctx, last, f⟩], none)
  | k + 1, f :: fs =>
    let r := emitPart ctx more last k fs
    (⟨ctx, more, f⟩ :: r.1, r.2)

/-- one part (command set or in-memory data set) of `encode_msg` -/
def encodePart (ctx more last : Nat) (b : Bytes) (max : Nat) : List PDV × Option EncErr :=
  match nrFragments b.length max with
  | none => ([], some .zeroDivision)
  | some nr =>
    match fragments b max with
    | none => ([], some .valueError)
    | some frs => emitPart ctx more last (nr - 1) frs

/-- the reads of the file-backed branch: `c` times `(0x00, f.read(k))`, then
`(0x02, f.read(k))`; `pos` is the file position, advanced by what was read. -/
def fileLoop (file : Bytes) (ctx k : Nat) : Nat → Nat → List PDV
  | pos, 0 => [⟨ctx, 2, (file.drop pos).take k⟩]
  | pos, c + 1 =>
    ⟨ctx, 0, (file.drop pos).take k⟩ :: fileLoop file ctx k (pos + ((file.drop pos).take k).length) c

/-- the `elif self._data_set_path is not None` branch of `encode_msg` -/
def encodeFileData (ctx : Nat) (file : Bytes) (offset max : Nat) : List PDV × Option EncErr :=
  let length := file.length - offset
  if max = 0 then
    -- nr_fragments = 1; max_pdu_length = length + 6; f.read(max_pdu_length - 6)
    -- `length` is negative when the offset is past the end: f.read(-1) reads to EOF (nothing),
    -- f.read(k) for k < -1 raises ValueError (after the command fragments were yielded)
    if file.length + 1 < offset then ([], some .valueError)
    else (fileLoop file ctx (length + 6 - 6) offset (1 - 1), none)
  else
    match nrFragments length max with
    | none => ([], some .zeroDivision)
    | some nr => (fileLoop file ctx (max - 6) offset (nr - 1), none)

/-- `encode_msg(context_id, max_pdu_length)` for an in-memory data set
(`ds = none` : `self.data_set is None` and no path). -/
def encodeMsg (ctx : Nat) (cmd : Bytes) (ds : Option Bytes) (max : Nat) : List PDV × Option EncErr :=
  let c := encodePart ctx 1 3 cmd max
  match c.2 with
  | some e => (c.1, some e)
  | none =>
    match ds with
    | none => (c.1, none)
    | some d =>
      if d = [] then (c.1, none)
      else
        let r := encodePart ctx 0 2 d max
        (c.1 ++ r.1, r.2)

/-- A DIMSE message as far as its data set is concerned (after
`primitive_to_message`): `hasDS` ⇔ CommandDataSetType = 0x0001 (else 0x0101),
`dataSet` = `self.data_set` (`none` = None, `some b` = BytesIO(b)),
`path` = `self._data_set_path` as (file content, offset). -/
structure Msg where
  hasDS : Bool
  dataSet : Option Bytes
  path : Option (Bytes × Nat)
  deriving Repr, BEq, DecidableEq

/-- the offset of a file-backed data set is a position in the file (what
`split_dataset` returns in `send_c_store`) -/
def Msg.pathOk (m : Msg) : Prop := ∀ file off, m.path = some (file, off) → off ≤ file.length

/-- full `encode_msg`: in-memory data set if `data_set is not None`, else the
file if `_data_set_path is not None`, else command only. -/
def encodeMsgFull (ctx : Nat) (cmd : Bytes) (m : Msg) (max : Nat) : List PDV × Option EncErr :=
  match m.dataSet with
  | some d => encodeMsg ctx cmd (some d) max
  | none =>
    match m.path with
    | none => encodeMsg ctx cmd none max
    | some (file, off) =>
      let c := encodePart ctx 1 3 cmd max
      match c.2 with
      | some e => (c.1, some e)
      | none =>
        let r := encodeFileData ctx file off max
        (c.1 ++ r.1, r.2)

/-! ### the sending provider (`DIMSEServiceProvider.send_msg`) -/

/-- `DIMSEServiceProvider.maximum_pdu_size`: the maximum length the *peer* advertised — the
acceptor's when we are the requestor, the requestor's when we are the acceptor.  Our own maximum
(what we are willing to receive) plays no part. -/
def peerMax (isRequestor : Bool) (reqMax accMax : Nat) : Nat := if isRequestor then accMax else reqMax

/-- `send_msg`: fragment to the peer's maximum and hand every P-DATA primitive to the provider -/
def sendMsg (isRequestor : Bool) (reqMax accMax ctx : Nat) (cmd : Bytes) (m : Msg) : List PDV × Option EncErr :=
  encodeMsgFull ctx cmd m (peerMax isRequestor reqMax accMax)

/-! ### primitive → message (data-set half) -/

/-- What `primitive_to_message` looks at: `kw` ⇔ the message class is a key of
`_DATASET_KEYWORDS`; `ds` = value of that parameter (`none` = None, `some b` =
BytesIO(b)); `path` = `primitive._dataset_path`. -/
structure Prim where
  kw : Bool
  ds : Option Bytes
  path : Option (Bytes × Nat)
  deriving Repr, BEq, DecidableEq

def primToMsg (p : Prim) : Msg :=
  -- self.data_set = BytesIO(); CommandDataSetType = 0x0101
  let ds0 : Option Bytes := some []
  -- try: self.data_set = getattr(primitive, kw)
  --      if self.data_set and self.data_set.getvalue(): 0x0001      except KeyError: pass
  let ds1 := if p.kw then p.ds else ds0
  let flag1 := if p.kw then (match p.ds with | some b => !b.isEmpty | none => false) else false
  -- self._data_set_path = primitive._dataset_path; if self._data_set_path: 0x0001
  let flag2 := if p.path.isSome then true else flag1
  ⟨flag2, ds1, p.path⟩

def primToMsgFlag (p : Prim) : Bool := (primToMsg p).hasDS

/-- The shapes of the data-set parameter the public API and the service classes
produce: classes without a data-set parameter, parameter left `None`, a
`BytesIO` (possibly empty), or `None` with `_dataset_path = (path, offset)`
(`send_c_store` of a file with `STORE_SEND_CHUNKED_DATASET`). -/
inductive DsShape
  | noParam
  | absent
  | stream (b : Bytes)
  | file (content : Bytes) (offset : Nat)
  deriving Repr, BEq, DecidableEq

def DsShape.toPrim : DsShape → Prim
  | .noParam => ⟨false, none, none⟩
  | .absent => ⟨true, none, none⟩
  | .stream b => ⟨true, some b, none⟩
  | .file c o => ⟨true, none, some (c, o)⟩

/-- a file shape's offset is a position in the file -/
def DsShape.ok : DsShape → Prop
  | .file c o => o ≤ c.length
  | _ => True

/-- the data-set bytes a shape denotes -/
def DsShape.bytes : DsShape → Bytes
  | .noParam => [] | .absent => [] | .stream b => b | .file c o => c.drop o

/-! ### decoding -/

/-- The receiving `DIMSEMessage`: `encoded_command_set`, `data_set`,
`context_id`, and the bytes that were handed to the command-set decoder. -/
structure DecState where
  cmdBuf : Bytes := []
  ds : Bytes := []
  ctx : Option Nat := none
  cmd : Option Bytes := none
  deriving Repr, BEq, DecidableEq, Inhabited

inductive Outcome | complete | more | error
  deriving Repr, BEq, DecidableEq, Inhabited

/-- `decode_msg` on the PDV list of one P-DATA primitive.  `noDS cmd` is the
command-set decision: `none` = decoding / `_MESSAGE_TYPES[...]` /
`.CommandDataSetType` raised, `some true` = CommandDataSetType == 0x0101.
Returns the new state, `complete` (returned True), `more` (returned False) or
`error` (raised), and the PDVs of this primitive that were not looked at. -/
def decodePDVs (noDS : Bytes → Option Bool) : DecState → List PDV → DecState × Outcome × List PDV
  | st, [] => (st, .more, [])
  | st, p :: rest =>
    if p.ctl % 2 = 1 then
      let st1 := { st with cmdBuf := st.cmdBuf ++ p.payload }
      if p.ctl / 2 % 2 = 1 then
        let st2 := { st1 with ctx := some p.ctx, cmd := some st1.cmdBuf }
        match noDS st1.cmdBuf with
        | none => (st2, .error, rest)
        | some true => (st2, .complete, rest)
        | some false => decodePDVs noDS st2 rest
      else decodePDVs noDS st1 rest
    else
      let st1 := { st with ds := st.ds ++ p.payload }
      if p.ctl / 2 % 2 = 1 then (st1, .complete, rest) else decodePDVs noDS st1 rest

/-- feeding P-DATA primitives to one message until `decode_msg` returns True
(what `DIMSEServiceProvider.receive_primitive` does for one message); returns
the primitives not consumed. -/
def decodeMsg (noDS : Bytes → Option Bool) : DecState → List (List PDV) → DecState × Outcome × List (List PDV)
  | st, [] => (st, .more, [])
  | st, g :: gs =>
    match decodePDVs noDS st g with
    | (st', .more, _) => decodeMsg noDS st' gs
    | (st', o, _) => (st', o, gs)

/-! ### observers used by the property statements -/

/-- command fragment ⇔ bit 0 of the message control header -/
def isCmd (p : PDV) : Bool := p.ctl % 2 == 1
def cmdFrags (l : List PDV) : List PDV := l.filter isCmd
def dataFrags (l : List PDV) : List PDV := l.filter (fun p => !isCmd p)
/-- concatenation of the fragments carried by a PDV list -/
def payloads (l : List PDV) : Bytes := (l.map (·.payload)).flatten

/-! ### the two command-set elements `decode_msg` reads (driver only) -/

def le16 (a b : UInt8) : Nat := a.toNat + 256 * b.toNat
def le32 (a b c d : UInt8) : Nat := a.toNat + 256 * (b.toNat + 256 * (c.toNat + 256 * d.toNat))

/-- value of the (last) US element (0000,elem) in an Implicit VR Little Endian
stream of defined-length elements -/
def scanUS (elem : Nat) : Nat → Bytes → Option Nat → Option Nat
  | 0, _, acc => acc
  | fuel + 1, g0 :: g1 :: e0 :: e1 :: l0 :: l1 :: l2 :: l3 :: rest, acc =>
    let len := le32 l0 l1 l2 l3
    let acc' :=
      if le16 g0 g1 = 0 ∧ le16 e0 e1 = elem then
        match rest with
        | a :: b :: _ => if 2 ≤ len then some (le16 a b) else acc
        | _ => acc
      else acc
    scanUS elem fuel (rest.drop len) acc'
  | _ + 1, _, acc => acc

/-- `noDS` as the real code computes it, for command sets made of
defined-length elements: CommandField must be a key of `_MESSAGE_TYPES`. -/
def cmdInfo (fields : List Nat) (cmd : Bytes) : Option Bool :=
  match scanUS 0x0100 cmd.length cmd none with
  | none => none
  | some cf =>
    if fields.contains cf then
      match scanUS 0x0800 cmd.length cmd none with
      | none => none
      | some t => some (t == 0x0101)
    else none

end PynetVerif.Dimse
