import PynetVerif.Model.Status
import PynetVerif.Gen.Status
import PynetVerif.Gen.ScpAttrs
/-!
M-Scp — executable model of the service-class SCPs of `pynetdicom/service_class.py`
(and of the dispatchers in `service_class_n.py`): `attempt`, `validate_status`,
`_wrap_handler`, `_c_find_scp`, `RelevantPatientInformationQueryServiceClass.SCP`,
`_get_scp`, `_move_scp`, `VerificationServiceClass.SCP`, `StorageServiceClass.SCP`,
`_n_{action,create,delete,event_report,get,set}_scp`.

The model mirrors the control flow of the code, branch by branch, including its
quirks (one mutable `rsp` primitive re-used for every response, stale counters,
Warning treated as non-final by `_c_find_scp`, no branch for Warning in the
Relevant Patient SCP, `validate_status` copying every attribute-named element…).
It is tied to the code by the differential run of `harness/scp_driver.py`
(the real SCP methods driven through a stub association) — see C20/C21/C22.

Input  : a *handler behaviour* (what the bound user handler does) — see `Handler`.
Output : the list of responses handed to `dimse.send_msg`, the C-STORE
         sub-operations performed, and whether an exception escaped `SCP()`
         (`Association._serve_request` then logs it and aborts the association).

Python objects are abstracted to the shapes the code distinguishes:
* `StatusVal`: an `int` (any sign/size) | a `Dataset` (list of (keyword, value)) | anything else;
* `DsVal`    : `None` | a `Dataset` (with/without SOPInstanceUID, FailedSOPInstanceUIDList,
               AffectedSOPInstanceUID, other content; encodable or not) | a truthy / falsy non-Dataset;
* `YieldVal` : a `(status, dataset)` pair | a bare status object (an `int` doubles as the announced
               number of sub-operations) | a C-MOVE destination 3-tuple | `None`.
Domain restrictions (the harness never generates these; the model's answer for them is unspecified):
handlers of the single-response services returning generator objects; `bool`/`float` statuses.
-/
namespace PynetVerif.Scp
open PynetVerif.Status (Category)

/-! ## Shapes of the values a handler supplies -/

/-- Keyword of an element of a status `Dataset`.  `other` is a keyword no DIMSE primitive has
as attribute (PatientName). -/
inductive Kw
  | status | msgIdResp | nRem | nFail | nWarn | nComp
  | errorComment | offendingElement | errorID | affClass | affInst | other
  deriving DecidableEq, Repr, Inhabited

def Kw.toNat : Kw → Nat
  | .status => 0 | .msgIdResp => 1 | .nRem => 2 | .nFail => 3 | .nWarn => 4 | .nComp => 5
  | .errorComment => 6 | .offendingElement => 7 | .errorID => 8 | .affClass => 9 | .affInst => 10
  | .other => 11

def Kw.all : List Kw :=
  [.status, .msgIdResp, .nRem, .nFail, .nWarn, .nComp, .errorComment, .offendingElement,
   .errorID, .affClass, .affInst, .other]

/-- The response primitive classes. -/
inductive Prim
  | echo | store | find | get | move | nAction | nCreate | nDelete | nEventReport | nGet | nSet
  deriving DecidableEq, Repr, Inhabited

def Prim.toNat : Prim → Nat
  | .echo => 0 | .store => 1 | .find => 2 | .get => 3 | .move => 4 | .nAction => 5 | .nCreate => 6
  | .nDelete => 7 | .nEventReport => 8 | .nGet => 9 | .nSet => 10

def Prim.all : List Prim :=
  [.echo, .store, .find, .get, .move, .nAction, .nCreate, .nDelete, .nEventReport, .nGet, .nSet]

def assocList (l : List (Nat × List Nat)) (i : Nat) : List Nat :=
  match l.find? (fun r => r.1 == i) with
  | some r => r.2
  | none => []

/-- `hasattr(rsp, elem.keyword)` — regenerated from the primitive classes (Gen.ScpAttrs). -/
def hasAttr (p : Prim) (k : Kw) : Bool := (assocList Gen.ScpAttrs.hasAttr p.toNat).contains k.toNat

/-- `keyword in Prim.STATUS_OPTIONAL_KEYWORDS` (regenerated). -/
def statusOptional (p : Prim) (k : Kw) : Bool :=
  (assocList Gen.ScpAttrs.statusOptional p.toNat).contains k.toNat

/-- The "status" object supplied by a handler. -/
inductive StatusVal
  | int (c : Int)                    -- a Python int
  | ds (elems : List (Kw × Nat))     -- a pydicom Dataset; it has a Status iff some element is `Kw.status`
  | bad                              -- any other type
  deriving DecidableEq, Repr, Inhabited

/-- The "dataset" object supplied by a handler. -/
inductive DsVal
  | none
  /-- a `Dataset`: optional SOPInstanceUID, contains FailedSOPInstanceUIDList?, optional
  AffectedSOPInstanceUID, other content?, encodable? (`enc = false`: contains an element that
  makes `dsutils.encode` fail).  All-absent with `enc = true` is the empty `Dataset()`. -/
  | ds (uid : Option Nat) (fl : Bool) (aff : Option Nat) (other : Bool) (enc : Bool)
  | junkTruthy       -- a truthy object that is not a Dataset ('abc')
  | junkFalsy        -- a falsy object that is not a Dataset (0)
  deriving DecidableEq, Repr, Inhabited

/-- Python truthiness (`if dataset:` / `and ds`). -/
def DsVal.truthy : DsVal → Bool
  | .none => false
  | .ds uid fl aff other enc => uid.isSome || fl || aff.isSome || other || !enc
  | .junkTruthy => true
  | .junkFalsy => false

def DsVal.isDataset : DsVal → Bool
  | .ds .. => true
  | _ => false

/-- `encode(ds, …)` returns non-empty bytes. -/
def DsVal.encodes : DsVal → Bool
  | .ds uid fl aff other enc => enc && (uid.isSome || fl || aff.isSome || other)
  | _ => false

/-- `isinstance(dataset, Dataset) and 'FailedSOPInstanceUIDList' in dataset` -/
def DsVal.hasFailedList : DsVal → Bool
  | .ds _ fl _ _ _ => fl
  | _ => false

/-- Outcome of one C-STORE sub-operation as `_get_scp/_move_scp` classify it:
the category `STORAGE_SERVICE_CLASS_STATUS[status][0]`, or `exception` when
`send_c_store` raises, the reply has no Status, or the Status is not in the table.
`cancel` is the one further category the storage table contains (0xFE00). -/
inductive Outcome
  | success | warning | failure | exception | cancel
  deriving DecidableEq, Repr, Inhabited

/-- Association events that happen while the handler runs (before it hands over its next value). -/
structure Ev where
  hAbort : Bool := false   -- the handler aborted/released the association: `assoc.is_established` False
  peer : Bool := false     -- an A-ABORT or A-RELEASE-RQ from the peer is waiting (`acse.is_aborted()` /
                           -- `acse.is_release_requested(consume=False)`)
  deriving DecidableEq, Repr, Inhabited

/-- C-MOVE destination as the code distinguishes it. -/
inductive Dest
  | ok          -- (addr, port[, kwargs]); `ae.associate` gives an established association
  | unknown     -- `None in destination[:2]`
  | refused     -- `ae.associate` returns a non-established association
  | raises      -- `ae.associate(...)` raises
  deriving DecidableEq, Repr, Inhabited

inductive YieldVal
  | pair (s : StatusVal) (d : DsVal) (o : Outcome)  -- `(status, dataset)`; `o`: outcome of the C-STORE
                                                     -- sub-operation if one is performed for `d`
  | status (s : StatusVal)                           -- a bare status object
  | dest (k : Dest)                                  -- a 3-tuple (addr, port, kwargs)
  | junk                                             -- None
  deriving DecidableEq, Repr, Inhabited

/-- One step of a generator handler. -/
inductive Item
  | yield (v : YieldVal) (e : Ev)
  | raise (typeErr : Bool) (e : Ev)   -- raises (a TypeError if `typeErr`); the generator is finished
  | ret (e : Ev)                      -- returns; the generator is finished
  deriving DecidableEq, Repr, Inhabited

/-- What the bound handler is.  A `gen` whose list ends is a generator that returns. -/
inductive Handler
  | gen (items : List Item)             -- generator function (nothing runs before the first `next`)
  | fnRaise (typeErr : Bool) (e : Ev)   -- plain function that raises
  | fnNone (e : Ev)                     -- plain function returning None
  | fnJunk (e : Ev)                     -- plain function returning a non-iterable, non-None object (5)
  | fnVal (v : YieldVal) (e : Ev)       -- plain function returning `v`
  deriving Repr, Inhabited

/-! ## The response primitive and what is recorded of it -/

inductive Ident
  | none                               -- no data set
  | data                               -- the handler's data set (Identifier / AttributeList / …)
  | handler                            -- C-GET/C-MOVE: the handler's own dataset with its FailedSOPInstanceUIDList
  | failed (uids : List (Option Nat))  -- Dataset(FailedSOPInstanceUIDList = uids); `none` is the empty UID ''
  deriving DecidableEq, Repr, Inhabited

/-- The mutable response primitive (`rsp`), one per request, re-used for every response. -/
structure Rsp where
  status : Int := 0
  msgIdResp : Nat
  rem : Option Nat := none
  fail : Option Nat := none
  warn : Option Nat := none
  comp : Option Nat := none
  ident : Ident := .none
  errorComment : Option Nat := none
  offendingElement : Option Nat := none
  errorID : Option Nat := none
  affClass : Option Nat := none    -- `some v`: overwritten by a status dataset
  affInst : Option Nat := none
  deriving DecidableEq, Repr, Inhabited

/-- What `dimse.send_msg(rsp, cx_id)` is called with. -/
structure Snap where
  cx : Nat
  r : Rsp
  deriving DecidableEq, Repr, Inhabited

/-- A C-STORE sub-operation performed (`send_c_store` called), or an invalid object counted
as a failed sub-operation. -/
inductive SubOp
  | store (uid : Option Nat) (o : Outcome)
  | invalid
  deriving DecidableEq, Repr, Inhabited

structure Out where
  rsps : List Snap := []
  subops : List SubOp := []
  crashed : Bool := false     -- an exception escaped `SCP()`
  deriving DecidableEq, Repr, Inhabited

def Out.nil : Out := {}
def Out.crash : Out := { crashed := true }
def Out.one (s : Snap) : Out := { rsps := [s] }
/-- `a` happened, then `b`. -/
def Out.append (a b : Out) : Out :=
  { rsps := a.rsps ++ b.rsps, subops := a.subops ++ b.subops, crashed := a.crashed || b.crashed }
instance : Append Out := ⟨Out.append⟩

/-! ## Status tables, `validate_status` -/

abbrev Table := List (Nat × Nat × Nat)

/-- `self.statuses[rsp.Status][0]` when `rsp.Status in self.statuses`. -/
def tableCat (t : Table) (c : Int) : Option Category :=
  match c with
  | .ofNat n => (Status.lookup t n).map Category.ofCode
  | .negSucc _ => none

def tableNamed (name : String) : Table :=
  match Gen.Status.tables.find? (fun t => t.1 == name) with
  | some t => t.2
  | none => []

def Rsp.setAttr (r : Rsp) (k : Kw) (v : Nat) : Rsp :=
  match k with
  | .status => { r with status := v }
  | .msgIdResp => { r with msgIdResp := v }
  | .nRem => { r with rem := some v }
  | .nFail => { r with fail := some v }
  | .nWarn => { r with warn := some v }
  | .nComp => { r with comp := some v }
  | .errorComment => { r with errorComment := some v }
  | .offendingElement => { r with offendingElement := some v }
  | .errorID => { r with errorID := some v }
  | .affClass => { r with affClass := some v }
  | .affInst => { r with affInst := some v }
  | .other => r

/-- the `for elem in status: if hasattr(rsp, elem.keyword): setattr(...)` loop -/
def copyElems (p : Prim) (elems : List (Kw × Nat)) (r : Rsp) : Rsp :=
  elems.foldl (fun r e => if hasAttr p e.1 then r.setAttr e.1 e.2 else r) r

def hasStatus (elems : List (Kw × Nat)) : Bool := elems.any (fun e => e.1 == Kw.status)

/-- `ServiceClass.validate_status` -/
def validateStatus (p : Prim) (s : StatusVal) (r : Rsp) : Rsp :=
  match s with
  | .ds elems => if hasStatus elems then copyElems p elems r else { r with status := 0xC001 }
  | .int c => { r with status := c }
  | .bad => { r with status := 0xC002 }

/-! ## Association flags and unpacking -/

structure St where
  est : Bool := true      -- assoc.is_established
  peer : Bool := false    -- acse.is_aborted() or acse.is_release_requested(consume=False)
  deriving DecidableEq, Repr, Inhabited

def St.apply (s : St) (e : Ev) : St := { est := s.est && !e.hAbort, peer := s.peer || e.peer }

/-- `rsp_status, dataset = result` — `none`: the unpacking raises. A `Dataset` unpacks into its
elements when it has exactly two (two `DataElement`s: not a valid status, truthy non-Dataset). -/
def asPair : YieldVal → Option (StatusVal × DsVal × Outcome)
  | .pair s d o => some (s, d, o)
  | .status (.ds elems) => if elems.length == 2 then some (.bad, .junkTruthy, .success) else none
  | .status _ => none
  | .dest _ => none
  | .junk => none

/-- `int(next(generator))` — `none`: raises. -/
def asCount : YieldVal → Option Int
  | .status (.int c) => some c
  | _ => none

/-- The first check on a C-MOVE destination, `None in destination[:2]`. -/
inductive DestCheck | raises | unknown | pass (k : Dest)
  deriving DecidableEq, Repr

def asDest : YieldVal → DestCheck
  | .dest .unknown => .unknown
  | .dest k => .pass k
  | .pair _ .none _ => .unknown        -- a (status, None) tuple contains None
  | .pair _ _ _ => .pass .raises       -- some other 2-tuple: `ae.associate` will raise
  | .status (.ds _) => .pass .raises   -- `Dataset[:2]` is a Dataset, `None in` it is False; `destination[0]` raises later
  | .status _ => .raises               -- int / str: slicing or `None in` raises
  | .junk => .raises

def send (cx : Nat) (r : Rsp) : Out := Out.one ⟨cx, r⟩

/-- result of one loop body -/
inductive Step (σ : Type)
  | stop (o : Out)             -- `return` (or an exception escaped) after emitting `o`
  | cont (o : Out) (s : σ)     -- `continue` / end of body
  | brk (s : σ)                -- `break`

/-! ## `_c_find_scp` -/

/-- `rsp_status, dataset = result` of the loops; `v = none` is the `(None, exc_info)` tuple
(status = the service's "handler exception" code, dataset None) -/
def unpack (excCode : Int) : Option YieldVal → Option (StatusVal × DsVal × Outcome)
  | none => some (StatusVal.int excCode, DsVal.none, Outcome.success)
  | some v => asPair v

/-- `rsp.Identifier = None`, the first statement of the loop bodies -/
def Rsp.clearIdent (r : Rsp) : Rsp := { r with ident := Ident.none }

/-- `_c_find_scp`: the branches on `status[0]` for a status the table knows; `r` = rsp after
`validate_status` -/
def findKnown (cx : Nat) (cat : Category) (r : Rsp) (d : DsVal) : Step Rsp :=
  match cat with
  | .cancel | .failure | .success => .stop (send cx r)
  | .warning => .cont (send cx r) r                       -- `continue`: a Warning is not final here
  | .pending =>
    if d.encodes then .cont (send cx { r with ident := Ident.data }) { r with ident := Ident.data }
    else .stop (send cx { r with status := 0xC312 })      -- 'Failed encoding the response Identifier'
  | .unknown => .cont Out.nil r

/-- body of the `for` loop of `_c_find_scp` -/
def findStep (t : Table) (cx : Nat) (est : Bool) (v : Option YieldVal) (r : Rsp) : Step Rsp :=
  match unpack 0xC311 v with
  | none => .stop Out.crash
  | some (s, d, _) =>
    if !est then .stop Out.nil else
    match tableCat t (validateStatus .find s r.clearIdent).status with
    | none => .stop (send cx (validateStatus .find s r.clearIdent))
    | some cat => findKnown cx cat (validateStatus .find s r.clearIdent) d

/-- after the loop -/
def findTail (cx : Nat) (st : St) (r : Rsp) : Out :=
  if !st.est then Out.nil else send cx { r with ident := Ident.none, status := 0 }

/-- `for … in enumerate(self._wrap_handler(generator))` of `_c_find_scp` -/
def findLoop (t : Table) (cx : Nat) : List Item → St → Rsp → Out
  | [], st, r => findTail cx st r
  | .ret e :: _, st, r => findTail cx (st.apply e) r
  | .raise _ e :: _, st, r =>
    let st := st.apply e
    match findStep t cx st.est none r with
    | .stop o => o
    | .cont o r' => o ++ findTail cx st r'
    | .brk r' => findTail cx st r'
  | .yield v e :: rest, st, r =>
    let st := st.apply e
    if st.peer then findTail cx st r else
    match findStep t cx st.est (some v) r with
    | .stop o => o
    | .cont o r' => o ++ findLoop t cx rest st r'
    | .brk r' => findTail cx st r'

def findScp (t : Table) (cx msgId : Nat) (h : Handler) : Out :=
  let r : Rsp := { msgIdResp := msgId }
  let st : St := {}
  match h with
  | .fnRaise _ _ => send cx { r with status := 0xC311 }           -- `attempt.__exit__`
  | .fnNone e =>                                                  -- `generator = iter([(0, None)])`
    let st := st.apply e
    if !st.est then Out.nil else
    findLoop t cx [.yield (.pair (.int 0) .none .success) {}] st r
  | .fnJunk e =>                                                  -- iterating it raises inside `_wrap_handler`
    let st := st.apply e
    if !st.est then Out.nil else findLoop t cx [.raise true {}] st r
  | .fnVal _ e =>                                                 -- not generated (see header); treated as fnJunk
    let st := st.apply e
    if !st.est then Out.nil else findLoop t cx [.raise true {}] st r
  | .gen items => findLoop t cx items st r

/-! ## `RelevantPatientInformationQueryServiceClass.SCP` -/

def rpSuccess (cx : Nat) (st : St) (r : Rsp) : Out :=
  if !st.est then Out.nil else send cx { r with status := 0 }

/-- after `rsp_status, rsp_identifier = next(responses)` succeeded -/
def rpBody (t : Table) (cx : Nat) (st : St) (r : Rsp) (s : StatusVal) (d : DsVal) : Out :=
  if !st.est then Out.nil else
  match tableCat t (validateStatus .find s r).status with
  | none => send cx (validateStatus .find s r)
  | some .cancel => send cx (validateStatus .find s r)
  | some .failure => send cx (validateStatus .find s r)
  | some .success => send cx (validateStatus .find s r)
  | some .pending =>
    if d.encodes then
      -- the Pending response, then Success — with `rsp.Identifier` still set
      send cx { validateStatus .find s r with ident := Ident.data } ++
      send cx { validateStatus .find s r with ident := Ident.data, status := 0 }
    else send cx { validateStatus .find s r with status := 0xC312 }
  | some .warning => Out.nil           -- no branch handles Warning: nothing is sent
  | some .unknown => Out.nil

def rpScp (t : Table) (cx msgId : Nat) (h : Handler) : Out :=
  let r : Rsp := { msgIdResp := msgId }
  let st : St := {}
  let exc : Out := send cx { r with status := 0xC311 }
  match h with
  | .fnRaise te e => if te then rpSuccess cx (st.apply e) r else exc
  | .fnNone e => rpSuccess cx (st.apply e) r          -- next(None): TypeError
  | .fnJunk e => rpSuccess cx (st.apply e) r
  | .fnVal _ e => rpSuccess cx (st.apply e) r         -- next(tuple/…): TypeError
  | .gen [] => rpSuccess cx st r                      -- StopIteration
  | .gen (.ret e :: _) => rpSuccess cx (st.apply e) r
  | .gen (.raise te e :: _) => if te then rpSuccess cx (st.apply e) r else exc
  | .gen (.yield v e :: _) =>
    match v with
    | .pair s d _ => rpBody t cx (st.apply e) r s d
    | .status (.int _) => rpSuccess cx (st.apply e) r  -- cannot unpack non-iterable int: TypeError
    | .status (.ds elems) => if elems.length == 2 then rpBody t cx (st.apply e) r .bad .junkTruthy else exc
    | .status .bad => exc                             -- ValueError: too many values to unpack
    | .dest _ => exc
    | .junk => rpSuccess cx (st.apply e) r

/-! ## `_get_scp` / `_move_scp` -/

structure Ctr where
  rem : Nat
  fail : Nat := 0
  warn : Nat := 0
  comp : Nat := 0
  deriving DecidableEq, Repr, Inhabited

/-- loop state: `store_results`, `failed_instances`, `rsp` -/
structure GmSt where
  ctr : Ctr
  failed : List (Option Nat) := []
  rsp : Rsp
  deriving DecidableEq, Repr, Inhabited

def Rsp.setCounters (r : Rsp) (c : Ctr) : Rsp :=
  { r with rem := some c.rem, fail := some c.fail, warn := some c.warn, comp := some c.comp }

/-- the Identifier of a Cancel / Failure / Warning response -/
def finalIdent (d : DsVal) (failed : List (Option Nat)) : Ident :=
  if d.hasFailedList then .handler else .failed failed

/-- `store_results` / `failed_instances` update after one sub-operation on a Dataset -/
def Ctr.afterStore (c : Ctr) (o : Outcome) : Ctr :=
  match o with
  | .failure | .exception => { c with fail := c.fail + 1, rem := c.rem - 1 }
  | .warning => { c with warn := c.warn + 1, rem := c.rem - 1 }
  | .success => { c with comp := c.comp + 1, rem := c.rem - 1 }
  | .cancel => { c with rem := c.rem - 1 }

def Outcome.isFail : Outcome → Bool
  | .failure | .exception => true
  | _ => false

/-- `_add_failed_instance(dataset)`: only datasets with a SOPInstanceUID are listed -/
def failedAfterStore (failed : List (Option Nat)) (uid : Option Nat) (o : Outcome) : List (Option Nat) :=
  if o.isFail then
    match uid with
    | some u => failed ++ [some u]
    | none => failed
  else failed

def DsVal.uid : DsVal → Option Nat
  | .ds uid _ _ _ _ => uid
  | _ => Option.none

/-- the `elif status[0] == STATUS_PENDING and dataset:` branch (and its silent `else`) -/
def gmPending (cx : Nat) (r : Rsp) (d : DsVal) (o : Outcome) (g : GmSt) : Step GmSt :=
  let c := g.ctr
  if d.truthy then
    if !d.isDataset then
      -- 'Received invalid dataset from callback'
      let c' : Ctr := { c with rem := c.rem - 1, fail := c.fail + 1 }
      let r := ({ r with ident := Ident.none }).setCounters c'
      .cont { rsps := [⟨cx, r⟩], subops := [.invalid] }
        { ctr := c', failed := g.failed ++ [none], rsp := r }
    else
      -- C-STORE sub-operation
      let c' := c.afterStore o
      let r := ({ r with ident := Ident.none }).setCounters c'
      .cont { rsps := [⟨cx, r⟩], subops := [.store d.uid o] }
        { ctr := c', failed := failedAfterStore g.failed d.uid o, rsp := r }
  else .cont Out.nil { g with rsp := r }

/-- the Success branch: rewritten to Warning 0xB000 when something failed or warned -/
def gmSuccess (r : Rsp) (g : GmSt) : Rsp :=
  let c := g.ctr
  let r := if c.fail != 0 || c.warn != 0 then { r with status := 0xB000, ident := Ident.failed g.failed }
           else { r with ident := Ident.none }
  { r with fail := some c.fail, warn := some c.warn, comp := some c.comp }

/-- the branches on `status[0]` for a status the table knows; `r` = rsp after `validate_status` -/
def gmKnown (cx : Nat) (cat : Category) (r : Rsp) (d : DsVal) (o : Outcome) (g : GmSt) : Step GmSt :=
  match cat with
  | .cancel => .stop (send cx { r.setCounters g.ctr with ident := finalIdent d g.failed })
  | .failure | .warning =>
    .stop (send cx { r with fail := some (g.ctr.fail + g.ctr.rem), warn := some g.ctr.warn,
                            comp := some g.ctr.comp, ident := finalIdent d g.failed })
  | .success => .stop (send cx (gmSuccess r g))
  | .pending => gmPending cx r d o g
  | .unknown => .cont Out.nil { g with rsp := r }

/-- from `validate_status` on; `g.rsp` already has `Identifier = None` -/
def gmDispatch (p : Prim) (t : Table) (cx : Nat) (s : StatusVal) (d : DsVal) (o : Outcome) (g : GmSt) :
    Step GmSt :=
  match tableCat t (validateStatus p s g.rsp).status with
  | none => .stop (send cx (validateStatus p s g.rsp))       -- (store_results[1] += 1: dead store)
  | some cat => gmKnown cx cat (validateStatus p s g.rsp) d o g

/-- `rsp.Identifier = None`, the first statement of the loop body -/
def GmSt.clearIdent (g : GmSt) : GmSt := { g with rsp := { g.rsp with ident := Ident.none } }

/-- body of the `for` loop shared by `_get_scp` and `_move_scp`; `excCode` = 0xC411 / 0xC511 -/
def gmStep (p : Prim) (t : Table) (cx : Nat) (excCode : Int) (est : Bool) (v : Option YieldVal)
    (g : GmSt) : Step GmSt :=
  match unpack excCode v with
  | none => .stop Out.crash
  | some (s, d, o) =>
    if !est then .stop Out.nil else
    if g.ctr.rem == 0 then .brk g.clearIdent else
    gmDispatch p t cx s d o g.clearIdent

/-- the final response computed after the loop -/
def gmFinal (n : Nat) (g : GmSt) : Rsp :=
  let c := g.ctr
  let r := g.rsp
  let r :=
    if c.fail == 0 && c.warn == 0 then { r with status := 0, ident := Ident.none }
    else { r with status := if n == c.fail then 0xA702 else 0xB000, ident := Ident.failed g.failed }
  { r with fail := some c.fail, warn := some c.warn, comp := some c.comp }

def gmTail (cx n : Nat) (st : St) (g : GmSt) : Out :=
  if !st.est then Out.nil else send cx (gmFinal n g)

def gmLoop (p : Prim) (t : Table) (cx n : Nat) (excCode : Int) : List Item → St → GmSt → Out
  | [], st, g => gmTail cx n st g
  | .ret e :: _, st, g => gmTail cx n (st.apply e) g
  | .raise _ e :: _, st, g =>
    let st := st.apply e
    match gmStep p t cx excCode st.est none g with
    | .stop o => o
    | .cont o g' => o ++ gmTail cx n st g'
    | .brk g' => gmTail cx n st g'
  | .yield v e :: rest, st, g =>
    let st := st.apply e
    if st.peer then gmTail cx n st g else
    match gmStep p t cx excCode st.est (some v) g with
    | .stop o => o
    | .cont o g' => o ++ gmLoop p t cx n excCode rest st g'
    | .brk g' => gmTail cx n st g'

/-- `_get_scp` after the number of sub-operations was read -/
def getCounted (t : Table) (cx : Nat) (c : Int) (rest : List Item) (st : St) (r : Rsp) : Out :=
  if c < 1 then send cx { r with status := 0, fail := some 0, warn := some 0, comp := some 0 }
  else if c > 65535 then send cx { r with status := 0xC416 }
  else gmLoop .get t cx c.toNat 0xC411 rest st { ctr := { rem := c.toNat }, rsp := r }

def getScp (t : Table) (cx msgId : Nat) (h : Handler) : Out :=
  let r : Rsp := { msgIdResp := msgId }
  let st : St := {}
  let bad : Out := send cx { r with status := 0xC413 }
  let noGen (e : Ev) : Out := if !(st.apply e).est then Out.nil else bad   -- next(non-iterator) raises
  match h with
  | .fnRaise _ _ => send cx { r with status := 0xC411 }
  | .fnNone e => noGen e
  | .fnJunk e => noGen e
  | .fnVal _ e => noGen e
  | .gen [] => bad
  | .gen (.ret _ :: _) => bad
  | .gen (.raise _ _ :: _) => bad
  | .gen (.yield v e :: rest) =>
    match asCount v with
    | none => bad
    | some c => getCounted t cx c rest (st.apply e) r

/-- what `_move_scp` does once it holds a destination that passed the `None` test -/
def moveAfterDest (t : Table) (cx : Nat) (k : Dest) (items : List Item) (st : St) (r : Rsp) : Out :=
  let bad : Out := send cx { r with status := 0xC513 }
  match items with
  | [] => bad
  | .ret _ :: _ => bad
  | .raise _ _ :: _ => bad
  | .yield v e :: rest =>
    match asCount v with
    | none => bad
    | some c =>
      let st := st.apply e
      if !st.est then Out.nil else
      if c < 1 then send cx { r with status := 0, fail := some 0, warn := some 0, comp := some 0 }
      else if c > 65535 then send cx { r with status := 0xC516 }
      else
        match k with
        | .raises => send cx { r with status := 0xC515 }
        | .refused => send cx { r with status := 0xA801 }
        | .unknown => send cx { r with status := 0xA801 }   -- (unreachable: filtered by `asDest`)
        | .ok => gmLoop .move t cx c.toNat 0xC511 rest st { ctr := { rem := c.toNat }, rsp := r }

def moveScp (t : Table) (cx msgId : Nat) (h : Handler) : Out :=
  let r : Rsp := { msgIdResp := msgId }
  let st : St := {}
  let bad : Out := send cx { r with status := 0xC514 }
  let noGen (e : Ev) : Out := if !(st.apply e).est then Out.nil else bad
  match h with
  | .fnRaise _ _ => send cx { r with status := 0xC511 }
  | .fnNone e => noGen e
  | .fnJunk e => noGen e
  | .fnVal _ e => noGen e
  | .gen [] => bad
  | .gen (.ret _ :: _) => bad
  | .gen (.raise _ _ :: _) => bad
  | .gen (.yield v e :: rest) =>
    let st := st.apply e
    if !st.est then Out.nil else
    match asDest v with
    | .raises => send cx { r with status := 0xC515 }
    | .unknown => send cx { r with status := 0xA801 }
    | .pass k => moveAfterDest t cx k rest st r

/-! ## Single-response services -/

/-- the value a plain-function handler hands back, or that it raised -/
inductive FnResult
  | raised
  | value (v : YieldVal)     -- `junk` = None
  | junk5                    -- the int 5
  | genObj                   -- a generator object (outside the modelled domain)
  deriving Repr

def Handler.call : Handler → FnResult × Ev
  | .fnRaise _ e => (.raised, e)
  | .fnNone e => (.value .junk, e)
  | .fnJunk e => (.junk5, e)
  | .fnVal v e => (.value v, e)
  | .gen _ => (.genObj, {})

/-- a returned object used directly as a status -/
def asStatus : FnResult → StatusVal
  | .value (.status s) => s
  | .junk5 => .int 5
  | _ => .bad

/-- `VerificationServiceClass.SCP` -/
def echoScp (cx msgId : Nat) (h : Handler) : Out :=
  let r : Rsp := { msgIdResp := msgId }
  let (res, e) := h.call
  let st := ({} : St).apply e
  match res with
  | .raised => send cx { r with status := 0 }
  | res =>
    if !st.est then Out.nil else
    match asStatus res with
    | .ds elems => if hasStatus elems then send cx (copyElems .echo elems r) else send cx { r with status := 0 }
    | .int c => send cx { r with status := c }
    | .bad => send cx { r with status := 0 }

/-- `StorageServiceClass.SCP` (`prim = store`, exception code 0xC211) and `_n_delete_scp`
(`prim = nDelete`, 0x0110) -/
def statusOnlyScp (p : Prim) (excCode : Int) (cx msgId : Nat) (h : Handler) : Out :=
  let r : Rsp := { msgIdResp := msgId }
  let (res, e) := h.call
  let st := ({} : St).apply e
  match res with
  | .raised => send cx { r with status := excCode }
  | res => if !st.est then Out.nil else send cx (validateStatus p (asStatus res) r)

def fnPair : FnResult → Option (StatusVal × DsVal × Outcome)
  | .value v => asPair v
  | _ => none

/-- `_n_create_scp`: `status[0] == STATUS_SUCCESS and req.AffectedSOPInstanceUID is None` — take the
instance UID from the returned dataset (and delete it there); `none`: 0x0110, the handler's
dataset has no Affected SOP Instance UID -/
def nCreateStep (p : Prim) (cat : Category) (reqHasInst : Bool) (r : Rsp) (d : DsVal) : Option (Rsp × DsVal) :=
  if p == .nCreate && cat == .success && !reqHasInst then
    match d with
    | .ds uid fl (some a) other enc => some ({ r with affInst := some a }, .ds uid fl none other enc)
    | _ => none
  else some (r, d)

/-- `if status[0] in (STATUS_SUCCESS, STATUS_WARNING) and ds:` … `send_msg` -/
def nFinish (cx : Nat) (cat : Category) (r : Rsp) (d : DsVal) : Out :=
  if (cat == .success || cat == .warning) && d.truthy then
    if d.encodes then send cx { r with ident := Ident.data }
    else send cx { r with status := 0x0110 }              -- `encode` returned None
  else send cx r

/-- for a status the table knows; `r` = rsp after `validate_status` -/
def nKnown (p : Prim) (cx : Nat) (cat : Category) (reqHasInst : Bool) (r : Rsp) (d : DsVal) : Out :=
  match nCreateStep p cat reqHasInst r d with
  | none => send cx { r with status := 0x0110 }
  | some (r, d) => nFinish cx cat r d

/-- after the handler returned (and the association is still established) -/
def nBody (p : Prim) (t : Table) (cx msgId : Nat) (reqHasInst : Bool) (res : FnResult) : Out :=
  match fnPair res with
  | none => Out.crash                               -- `usr_status, ds = user_response` raises
  | some (s, d, _) =>
    match tableCat t (validateStatus p s { msgIdResp := msgId }).status with
    | none => send cx (validateStatus p s { msgIdResp := msgId })
    | some cat => nKnown p cx cat reqHasInst (validateStatus p s { msgIdResp := msgId }) d

/-- `_n_action_scp`, `_n_event_report_scp`, `_n_get_scp`, `_n_set_scp`, `_n_create_scp`
(`reqHasInst`: the N-CREATE request carried an Affected SOP Instance UID) -/
def nScp (p : Prim) (t : Table) (cx msgId : Nat) (reqHasInst : Bool) (h : Handler) : Out :=
  match h.call.1 with
  | .raised => send cx { msgIdResp := msgId, status := 0x0110 }
  | res => if !(({} : St).apply h.call.2).est then Out.nil else nBody p t cx msgId reqHasInst res

end PynetVerif.Scp
