import PynetVerif.Model.Pdu
/-!
Service primitives (pdu_primitives.py) and the PDU ⇄ primitive conversions
(`from_primitive` / `to_primitive` of pdu.py and pdu_items.py), and the receive
path of `DULServiceProvider._read_pdu_data` / `_decode_pdu`:
`accept b = PDU.decode(b)` followed by `pdu.to_primitive()` (where result /
source / reason ranges, context ids, the user identity type … are validated),
`classify` = framing (Model/Framing.lean) + `accept`.
-/
namespace PynetVerif.Pdu
open PynetVerif.Framing (readPdu Frame)

/-- `presentation.PresentationContext` as far as it is transmitted -/
structure PCtx where
  id : Nat
  abstract : Option Bytes      -- `None` when no abstract syntax was given (always in an AC)
  transfer : List Bytes
  result : Option Nat          -- `None` in a request
  deriving DecidableEq, Repr, Inhabited

inductive UserPrim
  | maxLen (n : Nat)
  | implUid (uid : Bytes)
  | implVer (name : Bytes)
  | asyncOps (invoked performed : Nat)
  | role (uid : Bytes) (scu scp : Bool)
  | sopExt (uid info : Bytes)
  | commonExt (sop service : Bytes) (related : List Bytes)
  | userIdRq (type : Nat) (resp : Bool) (primary secondary : Bytes)
  | userIdAc (response : Bytes)
  deriving DecidableEq, Repr, Inhabited

/-- A-ASSOCIATE (request / accept / reject), P-DATA, A-RELEASE (request / response), A-ABORT, A-P-ABORT -/
inductive Prim
  | assocRq (calling called : Bytes) (appCtx : Option Bytes) (ctxs : List PCtx) (ui : List UserPrim)
  | assocAc (calling called : Bytes) (appCtx : Option Bytes) (ctxs : List PCtx) (ui : List UserPrim)
  | assocRj (result source diag : Nat)
  | pdata (pdvs : List (Nat × Bytes))
  | releaseRq
  | releaseRp
  | abort (source : Nat)
  | pabort (reason : Nat)
  deriving DecidableEq, Repr, Inhabited

/-! ## to_primitive -/

/-- `PresentationContext.context_id` setter -/
def ctxIdOk (id : Nat) : Bool := Nat.ble 1 id && Nat.ble id 255 && id % 2 == 1

/-- `PresentationContext.add_transfer_syntax` (None is skipped, `validate_uid`, no duplicates) -/
def addTs (acc : List Bytes) (u : Bytes) : Except Err (List Bytes) :=
  if u.isEmpty then .ok acc
  else if Nat.blt 64 u.length then .error .value
  else if acc.contains u then .ok acc else .ok (acc ++ [u])

/-- the loop of `PresentationContextItemRQ.to_primitive` -/
def ctxSubs : List SynItem → Option Bytes → List Bytes → Except Err (Option Bytes × List Bytes)
  | [], a, ts => .ok (a, ts)
  | .transfer u :: tl, a, ts =>
    match addTs ts u with
    | .error e => .error e
    | .ok ts' => ctxSubs tl a ts'
  | .abstract u :: tl, _, ts =>
    if Nat.blt 64 u.length then .error .value else ctxSubs tl (some u) ts

def ctxOfRq (id : Nat) (subs : List SynItem) : Except Err PCtx :=
  if ctxIdOk id then
    match ctxSubs subs none [] with
    | .error e => .error e
    | .ok (a, ts) => .ok ⟨id, a, ts, none⟩
  else .error .value

/-- `PresentationContextItemAC.to_primitive` -/
def ctxOfAc (id res : Nat) (subs : List SynItem) : Except Err PCtx :=
  if ctxIdOk id then
    match subs with
    | [] => .ok ⟨id, none, [], some res⟩
    | .abstract _ :: _ => .error .attr
    | .transfer u :: _ =>
      if u.isEmpty then .ok ⟨id, none, [], some res⟩
      else if Nat.blt 64 u.length then .error .value
      else .ok ⟨id, none, [u], some res⟩
  else .error .value

def userToPrim : UserSub → Except Err UserPrim
  | .maxLen n => .ok (.maxLen n)
  | .implUid u => .ok (.implUid u)
  | .asyncOps i p => .ok (.asyncOps i p)
  | .role u scu scp => .ok (.role u (scu != 0) (scp != 0))
  | .implVer n => .ok (.implVer n)
  | .sopExt u info => .ok (.sopExt u info)
  | .commonExt _ sop svc rel => .ok (.commonExt sop svc rel)
  | .userIdRq t r p s =>
    if Nat.ble 1 t && Nat.ble t 5 then .ok (.userIdRq t (r != 0) p s) else .error .value
  | .userIdAc r => .ok (.userIdAc r)

def firstApp : List VarItem → Option Bytes
  | [] => none
  | .appCtx u :: _ => some u
  | _ :: tl => firstApp tl

def lastApp : List VarItem → Option Bytes → Option Bytes
  | [], a => a
  | .appCtx u :: tl, _ => lastApp tl (some u)
  | _ :: tl, a => lastApp tl a

/-- presentation contexts of an RQ: every PC-RQ item is converted (PC-AC items are ignored) -/
def ctxsRq : List VarItem → Except Err (List PCtx)
  | [] => .ok []
  | .pcRq id subs :: tl =>
    match ctxOfRq id subs with
    | .error e => .error e
    | .ok c =>
      match ctxsRq tl with
      | .error e => .error e
      | .ok cs => .ok (c :: cs)
  | _ :: tl => ctxsRq tl

def ctxsAc : List VarItem → Except Err (List PCtx)
  | [] => .ok []
  | .pcAc id res subs :: tl =>
    match ctxOfAc id res subs with
    | .error e => .error e
    | .ok c =>
      match ctxsAc tl with
      | .error e => .error e
      | .ok cs => .ok (c :: cs)
  | _ :: tl => ctxsAc tl

/-- every User Information item is converted (and validated); the last one wins -/
def lastUi : List VarItem → List UserPrim → Except Err (List UserPrim)
  | [], acc => .ok acc
  | .userInfo subs :: tl, _ =>
    match mapE userToPrim subs with
    | .error e => .error e
    | .ok ui => lastUi tl ui
  | _ :: tl, acc => lastUi tl acc

def toPrim : PDU → Except Err Prim
  | .rq _ called calling items =>
    match ctxsRq items with
    | .error e => .error e
    | .ok cs =>
      match lastUi items [] with
      | .error e => .error e
      | .ok ui => .ok (.assocRq calling called (firstApp items) cs ui)
  | .ac _ called calling items =>
    match ctxsAc items with
    | .error e => .error e
    | .ok cs =>
      match lastUi items [] with
      | .error e => .error e
      | .ok ui => .ok (.assocAc calling called (lastApp items none) cs ui)
  | .rj r s d =>
    if Nat.ble r 2 && (Nat.ble 1 s && Nat.ble s 3) && (d == 1 || d == 2 || d == 3 || d == 7)
    then .ok (.assocRj r s d) else .error .value
  | .pdata pdvs => .ok (.pdata (pdvs.map (fun p => (p.id, p.data))))
  | .relRq => .ok .releaseRq
  | .relRp => .ok .releaseRp
  | .abort s r =>
    if s == 2 then
      (if r == 0 || r == 1 || r == 2 || r == 4 || r == 5 || r == 6 then .ok (.pabort r) else .error .value)
    else if Nat.ble s 2 then .ok (.abort s) else .error .value

/-! ## from_primitive -/

def userFromPrim : UserPrim → UserSub
  | .maxLen n => .maxLen n
  | .implUid u => .implUid u
  | .implVer n => .implVer n
  | .asyncOps i p => .asyncOps i p
  | .role u scu scp => .role u (if scu then 1 else 0) (if scp then 1 else 0)
  | .sopExt u info => .sopExt u info
  | .commonExt sop svc rel => .commonExt 0 sop svc rel
  | .userIdRq t r p s => .userIdRq t (if r then 1 else 0) p s
  | .userIdAc r => .userIdAc r

def pcRqOf (c : PCtx) : VarItem := .pcRq c.id (.abstract (c.abstract.getD []) :: c.transfer.map .transfer)
def pcAcOf (c : PCtx) : VarItem := .pcAc c.id (c.result.getD 0) [.transfer (c.transfer.headD [])]

def fromPrim : Prim → PDU
  | .assocRq calling called app cs ui =>
    .rq 1 called calling (.appCtx (app.getD []) :: (cs.map pcRqOf ++ [.userInfo (ui.map userFromPrim)]))
  | .assocAc calling called app cs ui =>
    .ac 1 called calling (.appCtx (app.getD []) :: (cs.map pcAcOf ++ [.userInfo (ui.map userFromPrim)]))
  | .assocRj r s d => .rj r s d
  | .pdata pdvs => .pdata (pdvs.map (fun p => ⟨p.1, p.2⟩))
  | .releaseRq => .relRq
  | .releaseRp => .relRp
  | .abort s => .abort s 0
  | .pabort r => .abort 2 r

/-! ## receive path -/

/-- `_decode_pdu`: `pdu.decode(b)` then `pdu.to_primitive()`; any exception ⇒ Evt19 -/
def accept (b : Bytes) : Except Err PDU :=
  match decode b with
  | .error e => .error e
  | .ok p =>
    match toPrim p with
    | .error e => .error e
    | .ok _ => .ok p

inductive Recv
  | closed               -- Evt17
  | unrecognised         -- Evt19, PDU type not in 1..7
  | invalid (e : Err)    -- Evt19, exception while decoding / converting
  | ok (p : PDU)         -- Evt3/4/6/10/12/13/16 with the decoded PDU
  | levelViolation       -- outside the modelled domain
  deriving DecidableEq, Repr, Inhabited

/-- one `_read_pdu_data()` on a transport that will deliver `stream` and then close -/
def classify (stream : Bytes) : Recv :=
  match readPdu stream [] with
  | (.closed, _, _) => .closed
  | (.unrecognised _, _, _) => .unrecognised
  | (.pdu b, _, _) =>
    match accept b with
    | .ok p => .ok p
    | .error .level => .levelViolation
    | .error e => .invalid e

end PynetVerif.Pdu
