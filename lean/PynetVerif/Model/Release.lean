/-
Acceptor side of "the peer requests release while a service handler is producing results" (C07):
`ServiceClass._wrap_handler` (service_class.py), the tail of the C-FIND/C-GET/C-MOVE SCPs and the
release branch of `Association._run_reactor` (association.py).

The peer's A-RELEASE-RQ becomes visible to the association thread (an A-RELEASE indication at the
head of the DUL's user queue) just before the handler loop starts iteration `arrival` (0-based);
`arrival ≥ n` means it arrives after the handler finished (idle / between messages).
`peekConsumes` is what `_wrap_handler`'s check does with the indication: the current code only
peeks (`is_release_requested(consume=False)`); the defect that was repaired consumed it.
-/
namespace PynetVerif.Release

structure St where
  queued : Bool := false        -- A-RELEASE indication waiting in `to_user_queue`
  yields : Nat := 0             -- handler results passed on to the SCP (→ Pending responses)
  stopped : Bool := false       -- `_wrap_handler` returned early
  deriving DecidableEq, Repr

/-- one iteration of `_wrap_handler`'s `for result in handler` loop -/
def iter (arrival : Nat) (peekConsumes : Bool) (i : Nat) (s : St) : St :=
  if s.stopped then s else
  let s := if arrival = i then { s with queued := true } else s      -- the indication arrives
  if s.queued then { s with stopped := true, queued := !peekConsumes }
  else { s with yields := s.yields + 1 }

def loop (arrival : Nat) (peekConsumes : Bool) : (n i : Nat) → St → St
  | 0, _, s => s
  | n + 1, i, s => loop arrival peekConsumes n (i + 1) (iter arrival peekConsumes i s)

structure Outcome where
  pending : Nat            -- Pending responses sent
  finalSent : Bool         -- the SCP's final response
  rpSent : Bool            -- A-RELEASE-RP sent
  released : Bool          -- association ends released
  deriving DecidableEq, Repr

/-- serve one request whose handler would yield `n` results, then let the reactor run; the release
request arrives at `arrival` at the latest right after the operation (the peer did send it) -/
def serve (n arrival : Nat) (peekConsumes : Bool) : Outcome :=
  let s := loop arrival peekConsumes n 0 {}
  -- an arrival after the loop (idle, between messages) reaches the queue untouched
  let queued := if arrival ≥ n then true else s.queued
  -- SCP tail: the association is still established, the final response is sent (Sta8 allows P-DATA)
  -- reactor: `if self.is_established and self.acse.is_release_requested(): send_release(is_response=True)`
  { pending := s.yields, finalSent := true, rpSent := queued, released := queued }

end PynetVerif.Release
