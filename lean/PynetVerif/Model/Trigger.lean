/-
Model of `pynetdicom.events.trigger`: how handler outcomes turn into the value returned to the
protocol code.  Notification events: every bound handler is called in order; the first exception
is logged and ends the loop; nothing propagates and the result is None.  Intervention events: the
single handler's value is returned, its exception is re-raised to the caller (which turns it into
the documented failure response).
-/
namespace PynetVerif.Trigger

inductive Kind | notification | intervention
  deriving DecidableEq, Repr

inductive H | ok (value : Nat) | raise
  deriving DecidableEq, Repr

structure Result where
  called : Nat                 -- handlers invoked
  value : Option Nat           -- value handed to the protocol code
  propagates : Bool            -- an exception escapes `trigger`
  deriving DecidableEq, Repr

def runNotification : List H → Nat → Nat
  | [], n => n
  | .ok _ :: rest, n => runNotification rest (n + 1)
  | .raise :: _, n => n + 1

def trigger : Kind → List H → Result
  | _, [] => ⟨0, none, false⟩
  | .notification, hs => ⟨runNotification hs 0, none, false⟩
  | .intervention, .ok v :: _ => ⟨1, some v, false⟩
  | .intervention, .raise :: _ => ⟨1, none, true⟩

/-- documented reaction of the protocol code to an exception from the handler of an intervention
event (service class docstrings / user guide): a response status, a rejection, or "carry on with
the default" -/
inductive Reaction
  | status (code : Nat)            -- the DIMSE response carries this status
  | reject                         -- the association request is rejected
  | default                        -- negotiation continues with the default / empty answer
  deriving DecidableEq, Repr

def documentedReaction : String → Option Reaction
  | "EVT_C_ECHO" => some (.status 0x0000)
  | "EVT_C_STORE" => some (.status 0xC211)
  | "EVT_C_FIND" => some (.status 0xC311)
  | "EVT_C_GET" => some (.status 0xC411)
  | "EVT_C_MOVE" => some (.status 0xC511)
  | "EVT_N_ACTION" | "EVT_N_CREATE" | "EVT_N_DELETE" | "EVT_N_EVENT_REPORT" | "EVT_N_GET" | "EVT_N_SET" =>
    some (.status 0x0110)
  | "EVT_USER_ID" => some .reject
  | "EVT_ASYNC_OPS" | "EVT_SOP_COMMON" | "EVT_SOP_EXTENDED" => some .default
  | _ => none

end PynetVerif.Trigger
