import PynetVerif.Model.Dul
/-
Synchronous admissibility of a schedule (hypothesis of C05_defined_partial): what the local
association code and the clock may do, and when; the peer is unrestricted.
-/
namespace PynetVerif
namespace Dul

/-- events carried by a well-formed PDU -/
def pduEv (e : Nat) : Bool := e == 3 || e == 4 || e == 6 || e == 10 || e == 12 || e == 13 || e == 16

/-- a well-formed PDU carries one of the seven PDU events (the comment on `Wire.pdu`) -/
def wireOk : Wire → Bool
  | .pdu e _ => pduEv e
  | _ => true

/-- the reactor is at the top of an iteration with nothing queued -/
def quiescent (s : St) : Bool := !s.phaseB && s.eventQ.isEmpty && s.provQ.isEmpty

/-- a primitive the association code itself issues (not the T_CONNECT result, which AE-1 queues) -/
def userPrim : Prim → Bool
  | .connectOk | .connectFail => false
  | _ => true

/-- only P-DATA requests are pending on the local side -/
def allPdata (q : List Prim) : Bool := q.all (· == .pdata)

/-- an event queue that is empty or led by a terminating event: Evt16 (A-ABORT PDU) and Evt17 (transport
connection closed) take the provider from Sta6/Sta8 to Sta1 and stop the reactor, so whatever is queued
behind one of them is never dispatched -/
def termLed : List Nat → Bool
  | [] => true
  | t :: _ => t == 16 || t == 17

/-- the PDU at the head of `_recv_pdu` (the one the next PDU action consumes) has a decodable payload:
DT-2 will not queue Evt19 for it -/
def headDecodable : List (Nat × Bool) → Bool
  | (_, true) :: _ => false
  | _ => true

/-- the auxiliary condition of a streamed P-DATA request on what the reactor has ALREADY queued: nothing is
waiting in the event queue that will take the provider out of Sta6/Sta8 into Sta13 ahead of the request.
Precisely: apart from the event of the iteration in progress (present only between phase A and phase B),
the event queue is empty or led by a terminating event (`termLed`); and the event in progress is itself a
terminating event, or the Evt9 of an earlier P-DATA request, or Evt12 (the peer's A-RELEASE-RQ: AR-2,
Sta6 → Sta8, where Evt9 is AR-7), or Evt10 (a P-DATA-TF PDU: DT-2) whose payload is decodable.
What this excludes (with Sta6): a queued Evt19 (invalid PDU), Evt3/4/6/13 (A-ASSOCIATE-AC/RJ/RQ,
A-RELEASE-RP PDU) or Evt10 with an undecodable payload — every one is AA-8 (or DT-2 followed by
Evt19 → AA-8) and leaves the provider in Sta13, where Evt9 has no table entry
(`C05_neg_stream_after_invalid_pdu_read`). -/
def streamQ (s : St) : Bool :=
  termLed s.eventQ ||
  (s.phaseB &&
    match s.eventQ with
    | e :: r => termLed r && (e == 9 || e == 12 || (e == 10 && headDecodable s.recvPdu))
    | [] => false)

/-- a *streamed P-DATA request*: the DIMSE provider calls `dul.send_pdu(P-DATA)` back to back without
waiting for the reactor — at any moment (any phase of an iteration, events queued, PDUs in the inbox) —
while the provider is in Sta6 and everything already pending on the local side is P-DATA too, and the
reactor has not already queued an event that will take it to Sta13 (`streamQ`). -/
def streamOk (s : St) (p : Prim) : Bool :=
  p == .pdata && s.fsm == 6 && allPdata s.provQ && streamQ s

/-- a primitive issued at a quiescent point, for which PS3.8 defines its event in the provider's state -/
def quiescentOk (s : St) (p : Prim) : Bool :=
  quiescent s && userPrim p && (Fsm.lookup Spec.Ps38.table p.event s.fsm).isSome

/-- admissibility of one step in a state: a local primitive is issued either at a quiescent point and
only if PS3.8 defines its event for the provider's current state (`quiescentOk`), or it is a streamed
P-DATA request in Sta6 (`streamOk`); the ARTIM timeout elapses only at a quiescent point; a PDU on the
wire carries one of the seven PDU events (`Wire.pdu`'s documented domain — anything else is
`Wire.invalid`).  Peer behaviour (any PDU, invalid PDUs, EOF, at any time — also while P-DATA requests
are pending), send failures and connect failures are otherwise unrestricted. -/
def stepOk (s : St) : Step → Bool
  | .env (.local p) => quiescentOk s p || streamOk s p
  | .env .artimFire => quiescent s
  | .env (.peer w) => wireOk w
  | _ => true

def runOk : St → List Step → Bool
  | _, [] => true
  | s, st :: rest => stepOk s st && runOk (step s st) rest

/-- *synchronous* admissibility (the hypothesis before streaming was added, still the one of the
two-sided C06 theorems): local primitives only at quiescent points — `stepOk` without the `streamOk`
disjunct -/
def stepOkSync (s : St) : Step → Bool
  | .env (.local p) => quiescent s && userPrim p && (Fsm.lookup Spec.Ps38.table p.event s.fsm).isSome
  | .env .artimFire => quiescent s
  | .env (.peer w) => wireOk w
  | _ => true

def runOkSync : St → List Step → Bool
  | _, [] => true
  | s, st :: rest => stepOkSync s st && runOkSync (step s st) rest

end Dul
end PynetVerif
