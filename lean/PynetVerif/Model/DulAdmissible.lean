import PynetVerif.Model.Dul
/-
Synchronous admissibility of a schedule (hypothesis of C05_defined_partial): what the local
association code and the clock may do, and when; the peer is unrestricted.
-/
namespace PynetVerif
namespace Dul

/-- events carried by a well-formed PDU -/
def pduEv (e : Nat) : Bool := e == 3 || e == 4 || e == 6 || e == 10 || e == 12 || e == 13 || e == 16

/-- a well-formed PDU carries one of the seven PDU events (the comment on `Wire.pdu`) -/
def wireOk : Wire → Bool
  | .pdu e _ => pduEv e
  | _ => true

/-- the reactor is at the top of an iteration with nothing queued -/
def quiescent (s : St) : Bool := !s.phaseB && s.eventQ.isEmpty && s.provQ.isEmpty

/-- a primitive the association code itself issues (not the T_CONNECT result, which AE-1 queues) -/
def userPrim : Prim → Bool
  | .connectOk | .connectFail => false
  | _ => true

/-- admissibility of one step in a state: a local primitive is issued only at a quiescent point and
only if PS3.8 defines its event for the provider's current state; the ARTIM timeout elapses only at
a quiescent point; a PDU on the wire carries one of the seven PDU events (`Wire.pdu`'s documented
domain — anything else is `Wire.invalid`).  Peer behaviour (any PDU, invalid PDUs, EOF), send
failures and connect failures are otherwise unrestricted. -/
def stepOk (s : St) : Step → Bool
  | .env (.local p) => quiescent s && userPrim p && (Fsm.lookup Spec.Ps38.table p.event s.fsm).isSome
  | .env .artimFire => quiescent s
  | .env (.peer w) => wireOk w
  | _ => true

def runOk : St → List Step → Bool
  | _, [] => true
  | s, st :: rest => stepOk s st && runOk (step s st) rest

end Dul
end PynetVerif
