/-!
M-IDLE: the network-idle timer while PDUs arrive in chunks.

The association reactor aborts ("Network timeout reached") when the provider's idle timer has
expired, i.e. when more than `T` has elapsed since the timer was last restarted.  What restarts it
decides whether a PDU that trickles in is "idle time":

* `perPdu`   — restarted once a whole PDU has been read (`run_reactor` after `_is_transport_event`);
* `perChunk` — also restarted for every chunk `AssociationSocket.recv` receives.

A chunk is `(gap, last)`: it arrives `gap` ticks after the previous one and `last` says whether it
completes a PDU.  The reactor may look at the timer at any moment, so the run is aborted as soon as
some waiting time exceeds `T` since the last restart.
-/
namespace PynetVerif.Idle

inductive Policy | perPdu | perChunk
  deriving DecidableEq, Repr

/-- `aborted pol T since chunks`: `since` = ticks since the last restart; true iff at some moment of
the run the elapsed time since the last restart exceeds `T` -/
def aborted (pol : Policy) (T : Nat) : Nat → List (Nat × Bool) → Bool
  | _, [] => false
  | since, (gap, last) :: rest =>
    -- while waiting for this chunk the elapsed time grows up to `since + gap`
    if since + gap > T then true
    else
      let restart := last || pol == .perChunk
      aborted pol T (if restart then 0 else since + gap) rest

end PynetVerif.Idle
