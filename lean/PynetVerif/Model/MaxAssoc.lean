import PynetVerif.Model.Policy
/-
Model of the maximum-associations mechanism (C14).

Every accepted TCP connection gets an `Association` thread (`transport.py::
RequestHandler.handle` → `assoc.start()`).  In `_negotiate_as_acceptor` the thread
reads `ae.active_associations` — the `Association` threads of this AE that
`threading.enumerate()` reports, ITSELF INCLUDED — keeps the acceptors and
rejects with (2, 3, 2) iff `len(active_acceptors) > ae.maximum_associations`
(strict comparison: `max` live acceptor threads pass).  A thread stays in
`threading.enumerate()` from `start()` until `run_reactor` returns, whatever its
association's state (rejected, released, aborted).

Threads are the positions of a list; a schedule is a list of actions, each
naming the thread that moves; an action that is not enabled in the current state
is a no-op, so EVERY list of actions is a schedule.  `threading.enumerate()` is
atomic (it holds `_active_limbo_lock`): the check is one step.
-/
namespace PynetVerif.MaxAssoc

inductive Phase where
  | spawned       -- thread started; waiting for / processing the A-ASSOCIATE-RQ, earlier checks
  | passed        -- the limit check passed; negotiating contexts, sending the A-ASSOCIATE-AC
  | established   -- `is_established = True`
  | rejected      -- the limit check failed: A-ASSOCIATE-RJ (2,3,2) sent, thread winding down
  | ended         -- released / aborted: `is_established = False`, thread winding down
  | dead          -- `run_reactor` returned: no longer in `threading.enumerate()`
  deriving DecidableEq, Repr, Inhabited

inductive Act where
  | spawn               -- a connection is accepted: new thread, `assoc.start()`
  | check (i : Nat)     -- thread i evaluates `len(active_acceptors) > maximum_associations`
  | establish (i : Nat) -- thread i sets `is_established = True`
  | finish (i : Nat)    -- thread i's association is released or aborted
  | die (i : Nat)       -- thread i's `run_reactor` returns (from spawned, rejected or ended)
  deriving DecidableEq, Repr

abbrev State := List Phase

def isLive (ph : Phase) : Bool := ph != .dead
def isEst (ph : Phase) : Bool := ph == .established
/-- admitted: passed the check and not yet over -/
def isAdmitted (ph : Phase) : Bool := ph == .passed || ph == .established

def live (s : State) : Nat := s.countP isLive
def established (s : State) : Nat := s.countP isEst
def admitted (s : State) : Nat := s.countP isAdmitted

/-- the verdict of the check for a thread that sees `n` live acceptor threads -/
def checkPhase (max n : Nat) : Phase :=
  if Policy.overLimit n max then .rejected else .passed

def step (max : Nat) (s : State) : Act → State
  | .spawn => s ++ [.spawned]
  | .check i =>
    match s[i]? with
    | some .spawned => s.set i (checkPhase max (live s))
    | _ => s
  | .establish i =>
    match s[i]? with
    | some .passed => s.set i .established
    | _ => s
  | .finish i =>
    match s[i]? with
    | some .established => s.set i .ended
    | some .passed => s.set i .ended        -- aborted while the A-ASSOCIATE-AC is under way
    | _ => s
  | .die i =>
    match s[i]? with
    | some .spawned => s.set i .dead
    | some .rejected => s.set i .dead
    | some .ended => s.set i .dead
    | _ => s

def run (max : Nat) (s : State) (sched : List Act) : State := sched.foldl (step max) s

/-- the A-ASSOCIATE-RJ a thread in phase `rejected` sent -/
def rejectTriple : Policy.Triple := (2, 3, 2)

/-! Strict replay used for trace validation: every action must be enabled. -/

def enabled (s : State) : Act → Bool
  | .spawn => true
  | .check i => s[i]? == some .spawned
  | .establish i => s[i]? == some .passed
  | .finish i => s[i]? == some .established || s[i]? == some .passed
  | .die i => s[i]? == some .spawned || s[i]? == some .rejected || s[i]? == some .ended

/-- run a schedule, recording after each action (enabled?, #live, #established) -/
def trace (max : Nat) : State → List Act → List (Bool × Nat × Nat)
  | _, [] => []
  | s, a :: rest =>
    let s' := step max s a
    (enabled s a, live s', established s') :: trace max s' rest

end PynetVerif.MaxAssoc
