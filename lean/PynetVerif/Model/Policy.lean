import PynetVerif.Model.SExp
/-
Model of the acceptance policy of an association acceptor (C13, reused by C14).

Mirrors, in the order of the code:
* `pdu.py::A_ASSOCIATE_RQ.called_ae_title/calling_ae_title` setters applied to
  the raw 16-byte fields while decoding (`decode_bytes` with the default
  `CODECS = ("ascii",)`, then `str.strip()` — which strips every ASCII
  *whitespace* character, not only spaces —, the "entirely spaces" error, then
  `utils.set_ae` → `_validators.validate_ae`); a raising setter makes
  `DULServiceProvider._decode_pdu` fail, the PDU becomes Evt19 and is answered
  with A-ABORT: no A-ASSOCIATE primitive ever reaches the association thread;
* `acse.py::_negotiate_as_acceptor`: the four checks each *overwrite*
  `reject_assoc_rsd`, so the LAST failing check determines the triple;
* `acse.py::_check_user_identity`;
* `association.py::run_reactor` (acceptor branch): `_run_reactor` — the only
  caller of `_serve_request`, hence of every DIMSE service handler — runs only
  if `is_established`.
Titles are byte lists (ASCII code units).
-/
namespace PynetVerif.Policy

abbrev Title := Bytes

/-- `str.isspace()` on an ASCII character: TAB, LF, VT, FF, CR, FS, GS, RS, US, space. -/
def isPyWs (c : UInt8) : Bool :=
  c == 0x20 || (0x09 ≤ c && c ≤ 0x0d) || (0x1c ≤ c && c ≤ 0x1f)

/-- what the property (and PS3.5 for VR AE) calls padding: the space character only -/
def isSpace (c : UInt8) : Bool := c == 0x20

def lstrip (p : UInt8 → Bool) (t : Title) : Title := t.dropWhile p
def rstrip (p : UInt8 → Bool) (t : Title) : Title := (t.reverse.dropWhile p).reverse
/-- `str.strip()` for the character class `p` -/
def strip (p : UInt8 → Bool) (t : Title) : Title := rstrip p (lstrip p t)

/-- Python's `str.strip()` -/
abbrev pyStrip := strip isPyWs
/-- strip of spaces only -/
abbrev spStrip := strip isSpace

/-- `unicodedata.category(c)[0] == "C"` for an ASCII character: C0 controls and DEL. -/
def isControl (c : UInt8) : Bool := c < 0x20 || c == 0x7f

/-- `_validators.validate_ae` -/
def validAE (t : Title) : Bool :=
  t.length ≤ 16 && t.all (· < 0x80) && !(t.any isControl) && !(t.contains 0x5c)

/-- The PDU setter on a received raw title field; `none` = the setter raises
(undecodable bytes, nothing but whitespace, or an invalid AE string), so the PDU
is invalid. -/
def decodeTitle (raw : Bytes) : Option Title :=
  if raw.any (· ≥ 0x80) then none            -- decode_bytes: ValueError
  else
    let t := pyStrip raw
    if t.isEmpty then none                    -- "must not consist entirely of spaces"
    else if validAE t then some t else none   -- set_ae / validate_ae

/-- what the bound `EVT_USER_ID` handler does -/
inductive Handler where
  | notBound                              -- default handler: raises NotImplementedError
  | returns (ok : Bool) (response : Bool) -- `(ok, bytes)` if `response` else `(ok, None)`
  | raises                                -- any other exception
  deriving DecidableEq, Repr

structure Identity where
  idType : Nat                -- 1..5
  responseRequested : Bool
  handler : Handler
  deriving DecidableEq, Repr

/-- `_check_user_identity`: (is_valid, a response item is produced) -/
def checkIdentity (i : Identity) : Bool × Bool :=
  match i.handler with
  | .notBound => (true, false)
  | .raises => (false, false)
  | .returns ok response =>
    if !ok then (false, false)
    else if (i.idType == 3 || i.idType == 4 || i.idType == 5) && i.responseRequested && response then (true, true)
    else (true, false)

structure Policy where
  requireCalling : List Title   -- `ae.require_calling_aet` as configured (unstripped)
  requireCalled : Bool          -- `ae.require_called_aet`
  aeTitle : Title               -- the server's AE title as configured (unstripped)
  maxAssoc : Nat                -- `ae.maximum_associations`
  deriving Repr

abbrev Triple := Nat × Nat × Nat

inductive Outcome where
  | invalid                 -- the PDU does not decode: A-ABORT, no primitive
  | accept
  | reject (t : Triple)
  deriving DecidableEq, Repr

/-- the `len(active_acceptors) > maximum_associations` test -/
def overLimit (active max : Nat) : Bool := Nat.blt max active

/-- `self.assoc.ae.require_calling_aet and assoc_rq.calling_ae_title not in authorised_aet` -/
def callingFail (p : Policy) (calling : Title) : Bool :=
  let authorised := p.requireCalling.map pyStrip
  !p.requireCalling.isEmpty && !authorised.contains calling

/-- `self.assoc.ae.require_called_aet and assoc_rq.called_ae_title != self.acceptor.ae_title.strip()` -/
def calledFail (p : Policy) (called : Title) : Bool :=
  p.requireCalled && called != pyStrip p.aeTitle

/-- `if self.requestor.user_identity: is_valid, _ = self._check_user_identity(); if not is_valid` -/
def identityFail (identity : Option Identity) : Bool :=
  match identity with
  | some i => !(checkIdentity i).1
  | none => false

/-- The checks of `_negotiate_as_acceptor` on decoded titles; each failing check
overwrites the pending rejection (`reject_assoc_rsd`). -/
def negotiate (p : Policy) (calling called : Title) (identity : Option Identity) (active : Nat) :
    Option Triple :=
  let r0 : Option Triple := none
  let r1 := if callingFail p calling then some (1, 1, 3) else r0
  let r2 := if calledFail p called then some (1, 1, 7) else r1
  let r3 := if identityFail identity then some (2, 2, 1) else r2
  let r4 := if overLimit active p.maxAssoc then some (2, 3, 2) else r3
  r4

/-- Verdict for a request with the raw title fields `callingRaw`/`calledRaw`
(A_ASSOCIATE_RQ.decode processes the called title first), the identity item (if
any) and `active` live acceptor association threads of the AE, this one included. -/
def decideAssoc (p : Policy) (callingRaw calledRaw : Bytes) (identity : Option Identity)
    (active : Nat) : Outcome :=
  match decodeTitle calledRaw, decodeTitle callingRaw with
  | some called, some calling =>
    match negotiate p calling called identity active with
    | none => .accept
    | some t => .reject t
  | _, _ => .invalid

/-- is a User Identity response sub-item put into the A-ASSOCIATE-AC? -/
def identityResponse (identity : Option Identity) : Bool :=
  match identity with
  | some i => (checkIdentity i).1 && (checkIdentity i).2
  | none => false

/-! ### `Association.run_reactor`, acceptor branch -/

inductive Eff where
  | killed            -- `receive_pdu` timed out: `self.kill()`
  | requested         -- `EVT_REQUESTED` triggered
  | sendReject (t : Triple)
  | rejectedEvt       -- `EVT_REJECTED`
  | sendAccept
  | establishedEvt    -- `is_established = True`, `EVT_ESTABLISHED`
  | serviceLoop       -- `_run_reactor()` entered: DIMSE messages are served from here only
  | shutdownSocket
  deriving DecidableEq, Repr

/-- `is_aborted`/`is_rejected` after the `EVT_REQUESTED` handlers ran (a handler may abort) -/
structure Hook where
  aborted : Bool
  rejected : Bool
  deriving DecidableEq, Repr

def runAcceptor (p : Policy) (callingRaw calledRaw : Bytes) (identity : Option Identity)
    (active : Nat) (h : Hook) : List Eff :=
  match decideAssoc p callingRaw calledRaw identity active with
  | .invalid => [.killed, .shutdownSocket]
  | o =>
    let nego : List Eff × Bool :=
      if !h.aborted && !h.rejected then
        match o with
        | .reject t => ([.sendReject t, .rejectedEvt], false)
        | _ => ([.sendAccept, .establishedEvt], true)
      else ([], false)
    [.requested] ++ nego.1 ++ (if nego.2 then [.serviceLoop] else []) ++ [.shutdownSocket]

end PynetVerif.Policy
