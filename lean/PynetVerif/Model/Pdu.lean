import PynetVerif.Model.SExp
import PynetVerif.Model.Framing
/-!
M-PDU — value types of the seven upper-layer PDUs and their items, the encoder
and the decoder (C01 / C02).

* `encode : PDU → Bytes` is written from PS3.8 Tables 9-11 … 9-26 and PS3.7
  Tables D.3-1 … D.3-14 (field order, widths, reserved bytes, length fields).
  On values the standard does not cover (not `WF`) it follows what pynetdicom's
  `encode()` computes, e.g. `PresentationContextItemAC.item_length` counts only
  the FIRST transfer syntax sub-item (`lenVar`).
* `decode : Bytes → Except Err PDU` mirrors pynetdicom's decoder
  (`PDU.decode`, `PDUItem.decode`, `_generate_items`, the validating setters,
  `decode_bytes`, `set_uid`, `set_ae`, `UID()`): Python slice semantics (short
  slices are legal, `struct.unpack` on a short slice raises), the
  `len(item_data) == 4 + item_length` assertion, `KeyError` for unknown item
  types, embedded length fields that are ignored, trailing bytes that are
  ignored.

pynetdicom resolves item types through ONE global map at every nesting level,
so it accepts e.g. a Transfer Syntax sub-item (0x40) as a variable item of an
A-ASSOCIATE-RQ.  The value types here are levelled; such inputs give the
distinguished `Err.level` ("outside the modelled domain").

Every decoder is a structural recursion on a fuel equal to the input length;
each iteration consumes ≥ 4 (items, PDVs) or ≥ 2 (related UIDs) bytes, so the
fuel never runs out (`Lemmas/Pdu*.lean`) — Lean's termination checker is the
"never hangs" argument for the model.
-/
namespace PynetVerif.Pdu
open PynetVerif.Framing (be32)

/-- why a decode failed; every kind except `level` is an exception class the code raises -/
inductive Err
  | struct   -- struct.error: unpack of a short slice
  | assert   -- AssertionError: item / PDV / related-UID length does not match the data
  | key      -- KeyError: unknown PDU or item type
  | value    -- ValueError (validators, decode_bytes) / UnicodeDecodeError
  | attr     -- AttributeError (PC-AC whose first sub-item is not a transfer syntax, in to_primitive)
  | level    -- a known item type at a level where the typed model has no place for it
  deriving DecidableEq, Repr, Inhabited

deriving instance DecidableEq for Except

/-- abstract (0x30) / transfer (0x40) syntax sub-items -/
inductive SynItem
  | abstract (uid : Bytes)
  | transfer (uid : Bytes)     -- `[]` stands for Python's `None` (empty name)
  deriving DecidableEq, Repr, Inhabited

/-- user information sub-items 0x51 … 0x59 -/
inductive UserSub
  | maxLen (n : Nat)
  | implUid (uid : Bytes)
  | asyncOps (invoked performed : Nat)
  | role (uid : Bytes) (scu scp : Nat)
  | implVer (name : Bytes)
  | sopExt (uid : Bytes) (info : Bytes)
  | commonExt (version : Nat) (sop service : Bytes) (related : List Bytes)
  | userIdRq (type resp : Nat) (primary secondary : Bytes)
  | userIdAc (response : Bytes)
  deriving DecidableEq, Repr, Inhabited

/-- variable items of A-ASSOCIATE-RQ/AC -/
inductive VarItem
  | appCtx (uid : Bytes)
  | pcRq (id : Nat) (subs : List SynItem)
  | pcAc (id result : Nat) (subs : List SynItem)
  | userInfo (subs : List UserSub)
  deriving DecidableEq, Repr, Inhabited

structure PDV where
  id : Nat
  data : Bytes
  deriving DecidableEq, Repr, Inhabited

inductive PDU
  | rq (ver : Nat) (called calling : Bytes) (items : List VarItem)
  | ac (ver : Nat) (called calling : Bytes) (items : List VarItem)
  | rj (result source reason : Nat)
  | pdata (pdvs : List PDV)
  | relRq
  | relRp
  | abort (source reason : Nat)
  deriving DecidableEq, Repr, Inhabited

/-! ## bytes -/

def u8 (n : Nat) : UInt8 := UInt8.ofNat n
def u16 (n : Nat) : Bytes := [u8 (n / 256), u8 (n % 256)]
def u32 (n : Nat) : Bytes := [u8 (n / 16777216), u8 (n / 65536 % 256), u8 (n / 256 % 256), u8 (n % 256)]
def be16 (h l : UInt8) : Nat := h.toNat * 256 + l.toNat
/-- Python `b[off:off+len]` -/
def slice (b : Bytes) (off len : Nat) : Bytes := (b.drop off).take len

/-- 4-byte item header (type, reserved byte, u16 length) followed by the item body -/
def tlv (t r : UInt8) (body : Bytes) : Bytes := t :: r :: (u16 body.length ++ body)

/-! ## encoder (PS3.8 §9.3, PS3.7 Annex D.3.3) -/

/-- PS3.8 Tables 9-14 / 9-15 -/
def encSyn : SynItem → Bytes
  | .abstract u => tlv 0x30 0 u
  | .transfer u => tlv 0x40 0 u

/-- PS3.7 Table D.3-11, field "Related-general-sop-class-identification": (u16 length, UID)* -/
def encRelated (us : List Bytes) : Bytes := us.flatMap (fun u => u16 u.length ++ u)

def encUser : UserSub → Bytes
  | .maxLen n => tlv 0x51 0 (u32 n)                                       -- PS3.8 D.1-1
  | .implUid u => tlv 0x52 0 u                                            -- PS3.7 D.3-1
  | .asyncOps i p => tlv 0x53 0 (u16 i ++ u16 p)                          -- D.3-7
  | .role u scu scp => tlv 0x54 0 (u16 u.length ++ u ++ [u8 scu, u8 scp]) -- D.3-9
  | .implVer n => tlv 0x55 0 n                                            -- D.3-3
  | .sopExt u info => tlv 0x56 0 (u16 u.length ++ u ++ info)              -- D.3-11 (SOP class extended)
  | .commonExt v sop svc rel =>                                           -- D.3-12 (common extended)
      tlv 0x57 (u8 v) (u16 sop.length ++ sop ++ (u16 svc.length ++ svc ++
        (u16 (encRelated rel).length ++ encRelated rel)))
  | .userIdRq t r p s => tlv 0x58 0 (u8 t :: u8 r :: (u16 p.length ++ p ++ (u16 s.length ++ s)))  -- D.3-14
  | .userIdAc resp => tlv 0x59 0 (u16 resp.length ++ resp)                -- D.3-15

/-- `PresentationContextItemAC.item_length`: `4 + len(transfer_syntax_sub_item[0])` -/
def firstLen : List SynItem → Nat
  | [] => 0
  | s :: _ => (encSyn s).length

def encVar : VarItem → Bytes
  | .appCtx u => tlv 0x10 0 u                                                       -- Table 9-12
  | .pcRq id subs => tlv 0x20 0 (u8 id :: 0 :: 0 :: 0 :: subs.flatMap encSyn)        -- Table 9-13
  | .pcAc id res subs =>                                                            -- Table 9-18
      0x21 :: 0 :: (u16 (4 + firstLen subs) ++ (u8 id :: 0 :: u8 res :: 0 :: subs.flatMap encSyn))
  | .userInfo subs => tlv 0x50 0 (subs.flatMap encUser)                             -- Table 9-16

/-- Python `len(item)` = `4 + item.item_length` (differs from the byte count only for a PC-AC item
with more than one sub-item) -/
def lenVar : VarItem → Nat
  | .pcAc _ _ subs => 8 + firstLen subs
  | v => (encVar v).length

/-- `str.ljust(n)` (never truncates) -/
def ljust (n : Nat) (b : Bytes) : Bytes := b ++ List.replicate (n - b.length) 0x20

/-- Tables 9-11 / 9-17: type, reserved, u32 length, u16 protocol version, 2 reserved, called (16),
calling (16), 32 reserved, variable items -/
def encAssoc (t : UInt8) (ver : Nat) (called calling : Bytes) (items : List VarItem) : Bytes :=
  t :: 0 :: (u32 (68 + (items.map lenVar).sum) ++ (u16 ver ++ (0 :: 0 :: (ljust 16 called ++
    (ljust 16 calling ++ (List.replicate 32 0 ++ items.flatMap encVar))))))

/-- Table 9-23: u32 item length, context id, data -/
def encPdv (p : PDV) : Bytes := u32 (1 + p.data.length) ++ (u8 p.id :: p.data)

def encode : PDU → Bytes
  | .rq ver called calling items => encAssoc 1 ver called calling items
  | .ac ver called calling items => encAssoc 2 ver called calling items
  | .rj r s d => [3, 0, 0, 0, 0, 4, 0, u8 r, u8 s, u8 d]                             -- Table 9-21
  | .pdata pdvs => 4 :: 0 :: (u32 ((pdvs.map (fun p => 5 + p.data.length)).sum) ++ pdvs.flatMap encPdv)
  | .relRq => [5, 0, 0, 0, 0, 4, 0, 0, 0, 0]                                         -- Table 9-24
  | .relRp => [6, 0, 0, 0, 0, 4, 0, 0, 0, 0]                                         -- Table 9-25
  | .abort s r => [7, 0, 0, 0, 0, 4, 0, 0, u8 s, u8 r]                               -- Table 9-26

/-! ## strings: `decode_bytes`, `str.strip`, `UID()`, `set_uid`, `set_ae`, `validate_ae` -/

/-- `str.isspace` on ASCII: 0x09–0x0D, 0x1C–0x20 -/
def isWs (c : UInt8) : Bool := (9 ≤ c.toNat && c.toNat ≤ 13) || (28 ≤ c.toNat && c.toNat ≤ 32)
def stripL : Bytes → Bytes
  | [] => []
  | c :: cs => if isWs c then stripL cs else c :: cs
def stripR : Bytes → Bytes
  | [] => []
  | c :: cs =>
    match stripR cs with
    | [] => if isWs c then [] else [c]
    | r => c :: r
/-- `str.strip()` -/
def pyStrip (b : Bytes) : Bytes := stripR (stripL b)

def isAscii (b : Bytes) : Bool := b.all (fun c => c.toNat < 128)
def endsNul : Bytes → Bool
  | [] => false
  | [c] => c == 0
  | _ :: cs => endsNul cs
/-- `_wrap_uid_bytes`: strip ONE trailing NUL -/
def stripNul (b : Bytes) : Bytes := if endsNul b then b.dropLast else b

/-- `set_uid(bytes, name, validate=…)` after `_wrap_uid_bytes`: one trailing NUL removed, ASCII
(`decode_bytes` with `CODECS == ('ascii',)` raises otherwise), `UID()` strips whitespace,
`validate_ui` (ENFORCE_UID_CONFORMANCE False): a non-empty value must not exceed 64 characters. -/
def decUid (validate : Bool) (raw : Bytes) : Except Err Bytes :=
  let b := stripNul raw
  if isAscii b then
    let v := pyStrip b
    if validate && Nat.blt 64 v.length then .error .value else .ok v
  else .error .value

/-- `validate_ae` per character: no control character (category C: 0x00–0x1F, 0x7F), no backslash -/
def aeCharOk (c : UInt8) : Bool := 32 ≤ c.toNat && c.toNat ≤ 126 && c.toNat != 92

/-- A-ASSOCIATE-RQ `called_ae_title`/`calling_ae_title` setter on bytes -/
def decAeRq (raw : Bytes) : Except Err Bytes :=
  if isAscii raw then
    let v := pyStrip raw
    if v.isEmpty then .error .value
    else if Nat.blt 16 v.length then .error .value
    else if v.all aeCharOk then .ok v else .error .value
  else .error .value

/-- A-ASSOCIATE-AC `reserved_aet`/`reserved_aec` setter on bytes: undecodable ⇒ '' ; no validation -/
def decAeAc (raw : Bytes) : Bytes := if isAscii raw then pyStrip raw else []

/-- `ImplementationVersionNameSubItem.implementation_version_name` setter on bytes -/
def decImplVer (raw : Bytes) : Except Err Bytes :=
  if isAscii raw then
    if Nat.blt 16 raw.length then .error .value
    else if raw.all aeCharOk then .ok raw else .error .value
  else .error .value

/-! ## decoder -/

def mapE {α β : Type} (f : α → Except Err β) : List α → Except Err (List β)
  | [] => .ok []
  | x :: xs =>
    match f x with
    | .error e => .error e
    | .ok y =>
      match mapE f xs with
      | .error e => .error e
      | .ok ys => .ok (y :: ys)

/-- `PDUItem._generate_items` / `PDU._generate_items`: (item type, item body) pairs -/
def splitItems : Nat → Bytes → Except Err (List (UInt8 × Bytes))
  | _, [] => .ok []
  | 0, _ :: _ => .error .assert
  | fuel + 1, t :: _ :: h :: l :: rest =>
    let n := be16 h l
    if rest.length < n then .error .assert
    else
      match splitItems fuel (rest.drop n) with
      | .ok tl => .ok ((t, rest.take n) :: tl)
      | .error e => .error e
  | _ + 1, _ => .error .struct

def split (b : Bytes) : Except Err (List (UInt8 × Bytes)) := splitItems b.length b

/-- the keys of `PDU_ITEM_TYPES` -/
def knownType (t : UInt8) : Bool :=
  t == 0x10 || t == 0x20 || t == 0x21 || t == 0x30 || t == 0x40 || (0x50 ≤ t.toNat && t.toNat ≤ 0x59)

def wrongLevel (t : UInt8) : Err := if knownType t then .level else .key

/-- sub-items of a presentation context item; `skip` = `TransferSyntaxSubItem._skip_validation` -/
def liftUid {α : Type} (f : Bytes → α) : Except Err Bytes → Except Err α
  | .ok u => .ok (f u)
  | .error e => .error e

def decSyn (skip : Bool) : UInt8 × Bytes → Except Err SynItem
  | (t, body) =>
    if t = 0x30 then liftUid .abstract (decUid true body)
    else if t = 0x40 then liftUid .transfer (decUid (!skip) body)
    else .error (wrongLevel t)

/-- `SOPClassCommonExtendedNegotiationSubItem._generate_items` + the validating setter -/
def decRelatedN : Nat → Bytes → Except Err (List Bytes)
  | _, [] => .ok []
  | 0, _ :: _ => .error .assert
  | fuel + 1, h :: l :: rest =>
    let n := be16 h l
    let raw := rest.take n
    let raw' := stripNul raw
    let want := if endsNul raw then n - 1 else n
    if isAscii raw' then
      let uid := pyStrip raw'
      if uid.length = want then
        if uid.length = 0 || Nat.blt 64 uid.length then .error .value
        else
          match decRelatedN fuel (rest.drop n) with
          | .ok tl => .ok (uid :: tl)
          | .error e => .error e
      else .error .assert
    else .error .value
  | _ + 1, _ => .error .struct

def decRelated (b : Bytes) : Except Err (List Bytes) := decRelatedN b.length b

/-- 0x51: `unpack('>I', body)` needs exactly 4 bytes -/
def decMaxLen : Bytes → Except Err UserSub
  | [a, b, c, d] => .ok (.maxLen (be32 a b c d))
  | _ => .error .struct

/-- 0x53: two u16 at offsets 4 and 6; trailing bytes are ignored -/
def decAsync : Bytes → Except Err UserSub
  | a :: b :: c :: d :: _ => .ok (.asyncOps (be16 a b) (be16 c d))
  | _ => .error .struct

/-- 0x54: u16 uid length, uid (slice, may be short), one byte each for the SCU and SCP role (0/1);
trailing bytes are ignored -/
def decRole : Bytes → Except Err UserSub
  | h :: l :: rest =>
    let n := be16 h l
    match decUid true (rest.take n) with
    | .error e => .error e
    | .ok u =>
      match rest.drop n with
      | scu :: scp :: _ =>
        if Nat.ble scu.toNat 1 && Nat.ble scp.toNat 1 then .ok (.role u scu.toNat scp.toNat)
        else .error .value
      | _ => .error .struct
  | _ => .error .struct

/-- 0x56: u16 uid length, uid, the rest is the application information -/
def decSopExt : Bytes → Except Err UserSub
  | h :: l :: rest =>
    let n := be16 h l
    match decUid true (rest.take n) with
    | .error e => .error e
    | .ok u => .ok (.sopExt u (rest.drop n))
  | _ => .error .struct

/-- 0x57: u16 + SOP class uid, u16 + service class uid, [2 bytes skipped], related UIDs to the end.
`sub_item_version` (byte 1 of the item) is not decoded: it keeps its default 0. -/
def decCommon : Bytes → Except Err UserSub
  | h :: l :: rest =>
    let n := be16 h l
    match decUid true (rest.take n) with
    | .error e => .error e
    | .ok sop =>
      match rest.drop n with
      | h2 :: l2 :: rest2 =>
        let m := be16 h2 l2
        match decUid true (rest2.take m) with
        | .error e => .error e
        | .ok svc =>
          match decRelated ((rest2.drop m).drop 2) with
          | .error e => .error e
          | .ok rel => .ok (.commonExt 0 sop svc rel)
      | _ => .error .struct
  | _ => .error .struct

/-- 0x58: type, response-requested, u16 primary length, primary (slice), [2 bytes skipped], the rest
is the secondary field -/
def decUserIdRq : Bytes → Except Err UserSub
  | ty :: rr :: h :: l :: rest =>
    let n := be16 h l
    .ok (.userIdRq ty.toNat rr.toNat (rest.take n) ((rest.drop n).drop 2))
  | _ => .error .struct

def decUser : UInt8 × Bytes → Except Err UserSub
  | (t, body) =>
    if t = 0x51 then decMaxLen body
    else if t = 0x52 then liftUid .implUid (decUid true body)
    else if t = 0x53 then decAsync body
    else if t = 0x54 then decRole body
    else if t = 0x55 then liftUid .implVer (decImplVer body)
    else if t = 0x56 then decSopExt body
    else if t = 0x57 then decCommon body
    else if t = 0x58 then decUserIdRq body
    else if t = 0x59 then .ok (.userIdAc (body.drop 2))   -- [2 bytes skipped], the rest
    else .error (wrongLevel t)

def decSubs {α : Type} (dec : UInt8 × Bytes → Except Err α) (b : Bytes) : Except Err (List α) :=
  match split b with
  | .error e => .error e
  | .ok raw => mapE dec raw

/-- 0x20: context id at offset 4, sub-items from offset 8 -/
def decPcRq : Bytes → Except Err VarItem
  | id :: rest =>
    match decSubs (decSyn false) (rest.drop 3) with
    | .error e => .error e
    | .ok subs => .ok (.pcRq id.toNat subs)
  | [] => .error .struct

/-- 0x21: context id at offset 4, result at offset 6, sub-items from offset 8; a transfer syntax
sub-item is not validated when the result is not 0 -/
def decPcAc : Bytes → Except Err VarItem
  | id :: _ :: res :: rest =>
    match decSubs (decSyn (res != 0)) (rest.drop 1) with
    | .error e => .error e
    | .ok subs => .ok (.pcAc id.toNat res.toNat subs)
  | _ => .error .struct

def decUserInfo (body : Bytes) : Except Err VarItem :=
  match decSubs decUser body with
  | .error e => .error e
  | .ok subs => .ok (.userInfo subs)

def decVar : UInt8 × Bytes → Except Err VarItem
  | (t, body) =>
    if t = 0x10 then liftUid .appCtx (decUid true body)
    else if t = 0x20 then decPcRq body
    else if t = 0x21 then decPcAc body
    else if t = 0x50 then decUserInfo body
    else .error (wrongLevel t)

def decVarItems (b : Bytes) : Except Err (List VarItem) := decSubs decVar b

/-- `P_DATA_TF._generate_items`: u32 item length, context id, `item_length - 1` bytes of data -/
def decPdvsN : Nat → Bytes → Except Err (List PDV)
  | _, [] => .ok []
  | 0, _ :: _ => .error .assert
  | fuel + 1, a :: b :: c :: d :: rest =>
    let n := be32 a b c d
    match rest with
    | [] => .error .struct
    | id :: rest' =>
      if n = 0 then .error .assert
      else if rest'.length < n - 1 then .error .assert
      else
        match decPdvsN fuel (rest'.drop (n - 1)) with
        | .ok tl => .ok (⟨id.toNat, rest'.take (n - 1)⟩ :: tl)
        | .error e => .error e
  | _ + 1, _ => .error .struct

def decPdvs (b : Bytes) : Except Err (List PDV) := decPdvsN b.length b

/-- `PDU.decode` on the bytes of one complete PDU (header included) -/
def decode (b : Bytes) : Except Err PDU :=
  match b with
  | [] => .error .key
  | t :: _ =>
    if t = 1 then
      match slice b 6 2 with
      | [h, l] =>
        match decAeRq (slice b 10 16) with
        | .error e => .error e
        | .ok called =>
          match decAeRq (slice b 26 16) with
          | .error e => .error e
          | .ok calling =>
            match decVarItems (b.drop 74) with
            | .error e => .error e
            | .ok items => .ok (.rq (be16 h l) called calling items)
      | _ => .error .struct
    else if t = 2 then
      match slice b 6 2 with
      | [h, l] =>
        match decVarItems (b.drop 74) with
        | .error e => .error e
        | .ok items => .ok (.ac (be16 h l) (decAeAc (slice b 10 16)) (decAeAc (slice b 26 16)) items)
      | _ => .error .struct
    else if t = 3 then
      match b.drop 7 with
      | r :: s :: d :: _ => .ok (.rj r.toNat s.toNat d.toNat)
      | _ => .error .struct
    else if t = 4 then
      match decPdvs (b.drop 6) with
      | .error e => .error e
      | .ok pdvs => .ok (.pdata pdvs)
    else if t = 5 then .ok .relRq
    else if t = 6 then .ok .relRp
    else if t = 7 then
      match b.drop 8 with
      | s :: r :: _ => .ok (.abort s.toNat r.toNat)
      | _ => .error .struct
    else .error .key

end PynetVerif.Pdu
