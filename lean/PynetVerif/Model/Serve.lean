/-
M-SERVE: the reactor thread inside `Association._serve_request`, a handler that calls `send_*()`
methods on the same association (the C-GET / C-MOVE sub-operations do: `send_c_store`), and the
thread `receive_primitive` starts to serve an N-EVENT-REPORT request meanwhile.

Shared variables: `paused` = `_is_paused`, `chk` = `_reactor_checkpoint`.

  reactor thread (serving a request)           side thread (one run per N-EVENT-REPORT request)
    setP  : _is_paused = True                    set : _is_paused = True      -- only if `touches`
    scp k : handler running, k send_* calls left scp : its service class call
            k+1: _reactor_checkpoint.clear()     clr : _is_paused = False     -- only if `touches`
            0  : SCP returns
    spin k: while not _is_paused: sleep
    crit k: messaging; _reactor_checkpoint.set()
    clrP  : _is_paused = False

`send_*()` is called by the handler IN the reactor thread, so while it spins nobody but another
thread can make `_is_paused` true: that is why `_serve_request` sets the flag before the call.
`touches` says whether the side thread's `_serve_request` run writes the flag too (read from the
source: `Gen.Cancel.serveTry` / `pauseGuards` / `sideThread`).  Each line is one atomic step.
-/
namespace PynetVerif.Serve

inductive RPc | setP | scp (k : Nat) | spin (k : Nat) | crit (k : Nat) | clrP | done
  deriving DecidableEq, Repr, Inhabited
inductive SPc | idle | set | scp | clr
  deriving DecidableEq, Repr, Inhabited

structure St where
  r : RPc
  s : SPc := .idle
  /-- N-EVENT-REPORT requests still to arrive -/
  left : Nat
  paused : Bool := false
  chk : Bool := true
  deriving DecidableEq, Repr, Inhabited

inductive Who | reactor | side
  deriving DecidableEq, Repr

/-- the reactor is about to serve a request (its handler will make `calls` send_* calls, a parameter
of `step`); `n` requests of the other kind will arrive -/
def init (n : Nat) : St := { r := .setP, left := n }

def step (touches : Bool) (calls : Nat) (s : St) : Who → St
  | .reactor =>
    match s.r with
    | .setP => { s with paused := true, r := .scp calls }
    | .scp (k + 1) => { s with chk := false, r := .spin k }
    | .scp 0 => { s with r := .clrP }
    | .spin k => if s.paused then { s with r := .crit k } else s          -- keeps spinning
    | .crit k => { s with chk := true, r := .scp k }
    | .clrP => { s with paused := false, r := .done }
    | .done => s
  | .side =>
    match s.s with
    | .idle => if s.left = 0 then s else { s with left := s.left - 1, s := .set }
    | .set => { s with paused := if touches then true else s.paused, s := .scp }
    | .scp => { s with s := .clr }
    | .clr => { s with paused := if touches then false else s.paused, s := .idle }

def run (touches : Bool) (calls : Nat) (s : St) (sched : List Who) : St := sched.foldl (step touches calls) s

/-- the handler's `send_*()` is spinning on a flag that is false -/
def blocked (s : St) : Bool :=
  match s.r with
  | .spin _ => !s.paused
  | _ => false

/-- reactor steps still to go until `_serve_request` has returned -/
def measure (calls : Nat) : RPc → Nat
  | .setP => 3 * calls + 3
  | .scp k => 3 * k + 2
  | .spin k => 3 * k + 4
  | .crit k => 3 * k + 3
  | .clrP => 1
  | .done => 0

def reactorSteps (sched : List Who) : Nat := (sched.filter (· == .reactor)).length

/-- does a `_serve_request` run for class `c` write `_is_paused` (same reading as `Cancel.clearsFor`) -/
def touchesFor (shape guards : List String) (c : String) : Bool :=
  shape.contains "pause" ||
    (shape.contains "pause-if" && guards.any (fun g => g != "not isinstance(msg, " ++ c ++ ")"))

def sideTouches (shape guards side : List String) : Bool := side.any (touchesFor shape guards)

end PynetVerif.Serve
