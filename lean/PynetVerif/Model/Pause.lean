/-!
M-PAUSE: the pause handshake between an association's reactor thread (`Association._run_reactor`)
and a user thread that wants to exchange ACSE / DIMSE messages itself (`release()`, every `send_*`).

Shared variables: `chk` = `_reactor_checkpoint` (a `threading.Event`, initially set) and
`paused` = `_is_paused`.

  reactor, every iteration            user (release / send_*)
    setP    : _is_paused = True         idle : _reactor_checkpoint.clear()
    wait    : _reactor_checkpoint.wait()  spin : while not _is_paused: sleep
    clrP    : _is_paused = False          crit : <messaging>; _reactor_checkpoint.set()
    recheck : if is_set(): break  (else back to setP)        -- only when `recheck`
    body    : get_msg / release / abort checks

Each line is one atomic step (the GIL makes attribute reads/writes and Event operations atomic).
`recheck = false` is the loop without the re-check after `clrP` (the code before the repair).
-/
namespace PynetVerif.Pause

inductive RPc | setP | wait | clrP | recheck | body
  deriving DecidableEq, Repr, Inhabited
inductive UPc | idle | spin | crit
  deriving DecidableEq, Repr, Inhabited

structure St where
  r : RPc := .setP
  u : UPc := .idle
  paused : Bool := false
  chk : Bool := true
  deriving DecidableEq, Repr, Inhabited

inductive Who | reactor | user
  deriving DecidableEq, Repr

def init : St := {}

def step (recheck : Bool) (s : St) : Who → St
  | .reactor =>
    match s.r with
    | .setP => { s with paused := true, r := .wait }
    | .wait => if s.chk then { s with r := .clrP } else s          -- blocked in Event.wait()
    | .clrP => { s with paused := false, r := if recheck then .recheck else .body }
    | .recheck => if s.chk then { s with r := .body } else { s with r := .setP }
    | .body => { s with r := .setP }
  | .user =>
    match s.u with
    | .idle => { s with chk := false, u := .spin }
    | .spin => if s.paused then { s with u := .crit } else s        -- keeps spinning
    | .crit => { s with chk := true, u := .idle }

def run (recheck : Bool) (s : St) (sched : List Who) : St := sched.foldl (step recheck) s

/-- the reactor is executing its iteration body while the user is messaging -/
def overlap (s : St) : Bool := s.r == .body && s.u == .crit

/-- some state on the way overlapped -/
def everOverlap (recheck : Bool) : St → List Who → Bool
  | s, [] => overlap s
  | s, w :: rest => overlap s || everOverlap recheck (step recheck s w) rest

def allStates : List St :=
  [RPc.setP, .wait, .clrP, .recheck, .body].flatMap fun r =>
    [UPc.idle, .spin, .crit].flatMap fun u =>
      [false, true].flatMap fun p => [false, true].map fun c => ⟨r, u, p, c⟩

end PynetVerif.Pause
