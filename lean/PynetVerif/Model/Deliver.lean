import PynetVerif.Model.SExp
/-
How the data-set bytes of a received C-STORE request are stored and presented to the handler
(C25): in memory (`request.DataSet`, a BytesIO) or, with `_config.STORE_RECV_CHUNKED_DATASET`,
appended fragment by fragment to a temporary file in the DICOM File Format
(dimse_messages.py `decode_msg`), and the three accessors of `events.Event`:
`dataset` (decoded — pydicom, not modelled), `encoded_dataset(include_meta)`, `dataset_path`.
-/
namespace PynetVerif.Deliver

def le32 (n : Nat) : Bytes :=
  [UInt8.ofNat (n % 256), UInt8.ofNat (n / 256 % 256), UInt8.ofNat (n / 65536 % 256), UInt8.ofNat (n / 16777216 % 256)]

def rdLe32 : Bytes → Nat
  | [a, b, c, d] => a.toNat + 256 * (b.toNat + 256 * (c.toNat + 256 * d.toNat))
  | _ => 0

/-- 128-byte preamble and the "DICM" prefix -/
def preamble : Bytes := List.replicate 128 0 ++ [0x44, 0x49, 0x43, 0x4D]

/-- File Meta Information: the (0002,0000) group-length element (Explicit VR LE: tag, "UL", length 4,
value) followed by the other group-0002 elements `rest` -/
def fileMeta (rest : Bytes) : Bytes :=
  [0x02, 0x00, 0x00, 0x00, 0x55, 0x4C, 0x04, 0x00] ++ le32 rest.length ++ rest

inductive Mode | memory | chunked
  deriving DecidableEq, Repr

/-- what the receiver keeps: the BytesIO content and, in chunked mode, the temporary file -/
structure Stored where
  stream : Bytes
  file : Option Bytes
  deriving DecidableEq, Repr

/-- `decode_msg`: data-set fragments are appended, in arrival order, to the file (chunked mode,
after preamble/prefix/meta were written when the command set completed) or to the BytesIO -/
def store (mode : Mode) (metaRest : Bytes) (frags : List Bytes) : Stored :=
  match mode with
  | .memory => { stream := frags.flatten, file := none }
  | .chunked => { stream := [], file := some (preamble ++ fileMeta metaRest ++ frags.flatten) }

/-- `Event.encoded_dataset(include_meta)`; `evMeta` is `encode_file_meta(event.file_meta)` -/
def encodedDataset (s : Stored) (evMeta : Bytes) (includeMeta : Bool) : Bytes :=
  match s.file with
  | some f =>
    if s.stream.isEmpty then
      (if includeMeta then f else f.drop (144 + rdLe32 ((f.drop 140).take 4)))
    else if includeMeta then preamble ++ evMeta ++ s.stream else s.stream
  | none => if includeMeta then preamble ++ evMeta ++ s.stream else s.stream

/-- the bytes `Event.dataset` decodes: the file at `dataset_path` (dcmread skips preamble and meta)
or the stream -/
def datasetSource (s : Stored) : Bytes :=
  match s.file with
  | some f => f.drop (144 + rdLe32 ((f.drop 140).take 4))
  | none => s.stream

/-- chunked SEND: `send_c_store` of a file path sends the file's bytes from the offset after the
File Meta Information group -/
def chunkedSendBytes (file : Bytes) : Bytes := file.drop (144 + rdLe32 ((file.drop 140).take 4))

end PynetVerif.Deliver
