import PynetVerif.Model.History
/-!
The association-level lifecycle (C27, second half): who sets `is_established`, `is_released`,
`is_aborted`, `is_rejected`, `_sent_abort`, `_kill` and who emits the REQUESTED / ACCEPTED /
ESTABLISHED / RELEASED / ABORTED / REJECTED notifications, as small atomic steps of

* the **association thread** (`ACSE._negotiate_as_acceptor` / `_negotiate_as_requestor`, then
  `Association.run_reactor` / `_run_reactor`), whose branch at each step is chosen by the
  environment (`Env`: what the peer, the transport and the configuration make happen), and
* a **user thread** calling `Association.abort()` (four steps, as `_abort_blocking` is written:
  the two checks and `_sent_abort`, `send_abort` setting the flags, the ABORTED notification,
  `kill`) or `Association.release()` (begin; outcome of `negotiate_release`), and
* the provider thread's exception path (`dul.py`: flags and `_kill` set, nothing emitted),

interleaved arbitrarily by a schedule (`List Op`).  A notification handler that calls `abort()` is
the special schedule in which the user steps run to completion while the association thread sits
at the step after the notification.

`Cfg.guard` is the one fact about the code the ordering theorem depends on (whether the
establishment re-checks `is_aborted` after the ACCEPTED notification); it is regenerated from
`acse.py` on every run (`Gen/Life.lean`).
-/
namespace PynetVerif.Life
open PynetVerif.History

inductive N
  | requested | accepted | established | released | aborted | rejected
  deriving DecidableEq, Repr, Inhabited

/-- the notification in the alphabet of `History.wf` -/
def N.toNotif : N → Notif
  | .established => .established
  | .released => .released
  | .aborted => .aborted
  | .rejected => .rejected
  | _ => .other

inductive APc
  | start
  | connecting | waitRsp | noCxAbort      -- requestor only
  | afterRequested | negotiate            -- acceptor only
  | guardPt | setEst | emitEst | post | loop | done
  deriving DecidableEq, Repr, Inhabited

inductive UPc
  | idle | abSend | abEmit | abKill | relWait
  deriving DecidableEq, Repr, Inhabited

/-- what the environment decides at a step -/
inductive Env
  | tick          -- nothing in particular / the default branch
  | timeout | reject | accept | acceptNoCx | invalid | peerAbort | peerRelease
  | connectFail | dulDead | idleAbort | idleReleaseOk | idleReleaseFail | noContexts
  deriving DecidableEq, Repr, Inhabited

inductive Op
  | a (e : Env)        -- one step of the association thread
  | uAbort             -- the user thread enters abort()
  | uRelease           -- the user thread enters release()
  | u (e : Env)        -- the user thread's call in progress takes its next step
  | dulCrash           -- the provider thread's exception path
  deriving DecidableEq, Repr, Inhabited

structure Cfg where
  acceptor : Bool
  guard : Bool
  deriving DecidableEq, Repr, Inhabited

structure Core where
  est : Bool := false
  rel : Bool := false
  abt : Bool := false
  rej : Bool := false
  sentAbort : Bool := false
  kill : Bool := false
  a : APc := .start
  u : UPc := .idle
  deriving DecidableEq, Repr, Inhabited

/-- flags and program counters, and the notifications emitted so far (oldest first) -/
structure St where
  core : Core := {}
  hist : List N := []
  deriving DecidableEq, Repr, Inhabited

def init : St := {}

/-- `Association.kill()` as far as the flags go -/
def killed (k : Core) : Core := { k with kill := true, est := false }

/-- `Association.abort()` run without interruption (the association thread's own calls):
the new flags and what is emitted -/
def abortAtomic (k : Core) : Core × List N :=
  if k.sentAbort || k.rel || k.abt then (k, [])
  else (killed { k with sentAbort := true, abt := true, est := false }, [.aborted])

/-- the abort / timeout branches of `negotiate_release` -/
def releaseFailed (k : Core) : Core × List N := (killed { k with abt := true, est := false }, [.aborted])
/-- its A-RELEASE response branch -/
def releaseDone (k : Core) : Core × List N := (killed { k with rel := true, est := false }, [.released])

/-- continue at program point `a` -/
def goto (p : Core × List N) (a : APc) : Core × List N := ({ p.1 with a := a }, p.2)

/-- one step of the association thread: new flags / program counter, and what it emits -/
def stepA (c : Cfg) (k : Core) (e : Env) : Core × List N :=
  match k.a with
  | .start =>
    if c.acceptor then
      if e = .timeout then goto (killed k, []) .done
      else goto (k, [.requested]) .afterRequested
    else
      if e = .noContexts then goto (killed k, []) .done
      else goto (k, [.requested]) .connecting
  | .afterRequested =>
    if !k.abt && !k.rej then goto (k, []) .negotiate else goto (k, []) .post
  | .negotiate =>
    if e = .reject then goto (killed { k with rej := true, est := false }, [.rejected]) .post
    else goto (k, [.accepted]) .guardPt
  | .connecting =>
    if e = .connectFail then goto (abortAtomic k) .post else goto (k, []) .waitRsp
  | .waitRsp =>
    if e = .accept then goto (k, [.accepted]) .guardPt
    else if e = .acceptNoCx then goto (k, [.accepted]) .noCxAbort
    else if e = .reject then goto ({ k with rej := true, est := false }, [.rejected]) .post
    else if e = .invalid then goto (killed { k with abt := true, est := false }, [.aborted]) .post
    else if e = .peerAbort then goto ({ k with abt := true, est := false }, [.aborted]) .post
    else if e = .timeout then goto (abortAtomic k) .post
    else goto ({ k with est := false }, []) .post
  | .noCxAbort => goto (killed { k with abt := true, est := false }, [.aborted]) .post
  | .guardPt =>
    if c.guard && k.abt then goto (k, []) .post else goto (k, []) .setEst
  | .setEst => goto ({ k with est := true }, []) .emitEst
  | .emitEst => goto (k, [.established]) .post
  | .post => if k.est then goto (k, []) .loop else goto (k, []) .done
  | .loop =>
    if k.kill then goto (k, []) .done
    else if e = .peerRelease then (if k.est then goto (releaseDone k) .done else (k, []))
    else if e = .peerAbort then goto (killed { k with abt := true, est := false }, [.aborted]) .done
    else if e = .dulDead then goto (killed k, []) .done
    else if e = .idleAbort then goto (killed (abortAtomic k).1, (abortAtomic k).2) .done
    else if e = .idleReleaseOk then
      (if k.est then goto (releaseDone k) .done else goto (killed k, []) .done)
    else if e = .idleReleaseFail then
      (if k.est then goto (releaseFailed k) .done else goto (killed k, []) .done)
    else (k, [])
  | .done => (k, [])

/-- the next step of the user thread's call in progress -/
def stepU (k : Core) (e : Env) : Core × List N :=
  match k.u with
  | .idle => (k, [])
  | .abSend => ({ k with abt := true, est := false, u := .abEmit }, [])
  | .abEmit => ({ k with u := .abKill }, [.aborted])
  | .abKill => ({ killed k with u := .idle }, [])
  | .relWait =>
    if e = .timeout ∨ e = .peerAbort then ({ (releaseFailed k).1 with u := .idle }, (releaseFailed k).2)
    else ({ (releaseDone k).1 with u := .idle }, (releaseDone k).2)

def stepK (c : Cfg) (k : Core) : Op → Core × List N
  | .a e => stepA c k e
  | .uAbort =>
    if k.u != .idle then (k, [])
    else if k.sentAbort then (k, [])
    else if k.rel || k.abt then (k, [])
    else ({ k with sentAbort := true, u := .abSend }, [])
  | .uRelease =>
    if k.u != .idle then (k, [])
    else if k.est then ({ k with u := .relWait }, []) else (k, [])
  | .u e => stepU k e
  | .dulCrash => ({ k with abt := true, est := false, kill := true }, [])

def step (c : Cfg) (s : St) (op : Op) : St :=
  ⟨(stepK c s.core op).1, s.hist ++ (stepK c s.core op).2⟩

def run (c : Cfg) (s : St) (ops : List Op) : St := ops.foldl (step c) s

def N.isEst : N → Bool
  | .established => true
  | _ => false
def N.isTerm : N → Bool
  | .released | .aborted => true
  | _ => false

def APc.isLoop : APc → Bool
  | .loop => true
  | _ => false
def APc.isSetEst : APc → Bool
  | .setEst => true
  | _ => false
def APc.isEmitEst : APc → Bool
  | .emitEst => true
  | _ => false
def UPc.isIdle : UPc → Bool
  | .idle => true
  | _ => false
def UPc.isRelWait : UPc → Bool
  | .relWait => true
  | _ => false
def UPc.inAbortTail : UPc → Bool
  | .abEmit | .abKill => true
  | _ => false
def Op.isCrash : Op → Bool
  | .dulCrash => true
  | _ => false
/-- the history in the alphabet of `History.wf` -/
def St.notifs (s : St) : List Notif := s.hist.map N.toNotif

/-- The schedules the ordering theorem is about: between the re-check of `is_aborted` and the
ESTABLISHED notification no *other thread* is in, or enters, `abort()` / `release()`.  (Handlers run
on the association thread, so every handler-made call satisfies this.) -/
def opOk (k : Core) : Op → Bool
  | .a _ => (match k.a, k.u with
    | .guardPt, .idle => true
    | .guardPt, _ => false
    | _, _ => true)
  | .uAbort | .uRelease | .u _ => (match k.a with
    | .setEst | .emitEst => false
    | _ => true)
  | .dulCrash => true

def runOk (c : Cfg) : St → List Op → Bool
  | _, [] => true
  | s, op :: rest => opOk s.core op && runOk c (step c s op) rest

/-! ### trace inclusion: is a recorded history one the model can emit? -/

def allEnv : List Env :=
  [.tick, .timeout, .reject, .accept, .acceptNoCx, .invalid, .peerAbort, .peerRelease,
   .connectFail, .dulDead, .idleAbort, .idleReleaseOk, .idleReleaseFail, .noContexts]
def allOps : List Op :=
  allEnv.map .a ++ [.uAbort, .uRelease] ++ allEnv.map .u ++ [.dulCrash]

/-- successors of a core state: (the new core, what the step emitted) -/
def succs (c : Cfg) (k : Core) : List (Core × List N) := allOps.map (stepK c k)

def addNew (acc : List Core) (ks : List Core) : List Core :=
  ks.foldl (fun acc k => if acc.contains k then acc else acc ++ [k]) acc

/-- closure under steps that emit nothing -/
def silentClosure (c : Cfg) : Nat → List Core → List Core
  | 0, ks => ks
  | fuel + 1, ks =>
    let next := addNew ks ((ks.flatMap (succs c)).filterMap (fun p => if p.2 == [] then some p.1 else none))
    if next.length == ks.length then ks else silentClosure c fuel next

def emitting (c : Cfg) (ks : List Core) (n : N) : List Core :=
  addNew [] ((ks.flatMap (succs c)).filterMap (fun p => if p.2 == [n] then some p.1 else none))

/-- can the model emit exactly this history (as a prefix of a run)? -/
def accepts (c : Cfg) (h : List N) : Bool :=
  let final := h.foldl (fun ks n => emitting c (silentClosure c 200 ks) n) [init.core]
  !final.isEmpty

end PynetVerif.Life
