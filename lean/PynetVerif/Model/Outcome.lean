import PynetVerif.Model.History
/-
How an association ended, as each side reports it (C06): the terminal flags of the
`Association` object and the terminal notifications in its history.
-/
namespace PynetVerif.Outcome
open PynetVerif.History

inductive Final | released | aborted | rejected
  deriving DecidableEq, Repr, Inhabited

/-- what one side reports at the end -/
structure Side where
  established : Bool      -- `is_established` still set
  released : Bool
  aborted : Bool
  rejected : Bool
  hist : List Notif
  deriving Repr

def count (n : Notif) (h : List Notif) : Nat := (h.filter (· == n)).length

/-- exactly one terminal flag, no longer established -/
def Side.final (s : Side) : Option Final :=
  match s.established, s.released, s.aborted, s.rejected with
  | false, true, false, false => some .released
  | false, false, true, false => some .aborted
  | false, false, false, true => some .rejected
  | _, _, _, _ => none

/-- the terminal notification that goes with a final outcome fired exactly once, the others never -/
def Side.eventsOnce (s : Side) : Bool :=
  match s.final with
  | some .released => count .released s.hist == 1 && count .aborted s.hist == 0 && count .rejected s.hist == 0
  | some .aborted => count .aborted s.hist == 1 && count .released s.hist == 0 && count .rejected s.hist == 0
  | some .rejected => count .rejected s.hist == 1 && count .released s.hist == 0 && count .aborted s.hist == 0
  | none => false

/-- both released, or both rejected, or at least one aborted and the other aborted as well
(pynetdicom reports a connection closed under it as an abort: A-P-ABORT) -/
def consistent : Final → Final → Bool
  | .released, .released => true
  | .rejected, .rejected => true
  | .aborted, .aborted => true
  | _, _ => false

def verdict (a b : Side) : String :=
  match a.final, b.final with
  | none, _ => "requestor-not-exactly-one-terminal-outcome"
  | _, none => "acceptor-not-exactly-one-terminal-outcome"
  | some x, some y =>
    if !consistent x y then "outcomes-disagree"
    else if !a.eventsOnce then "requestor-terminal-event-not-once"
    else if !b.eventsOnce then "acceptor-terminal-event-not-once"
    else "ok"

end PynetVerif.Outcome
