import PynetVerif.Model.Timeouts
import PynetVerif.Gen.Timeouts
/-!
C08 — no peer behaviour keeps pynetdicom blocked past its configured timeouts.

partial.  Proved: the blocking structure of a PDU read.  With a socket timeout `t`, every
`AssociationSocket.recv(need)` returns or raises, whatever the peer does (silence, stall part-way,
dribble), after at most `(#chunks + 1) · t` ticks; with no timeout a peer that stalls part-way
through the requested bytes blocks the read for ever; and the timeout the code gives its
PDU-reading sockets (regenerated from transport.py on every run) is the network timeout for both
roles.  Observed, not proved: real time, the other waits (ACSE/DIMSE queue waits, ARTIM, idle
timer, `kill()`), and that threads and sockets are released — the check runs real associations
against a peer that stalls at generated cut points of every protocol phase.
Honest limit visible in the bound: a peer that dribbles one byte every `t − ε` keeps a read of
`need` bytes busy for up to `need · t` — bounded, but not by one timeout.
-/
namespace PynetVerif
open Timeouts

/-- with a socket timeout every read returns or raises, for every peer, and within
`(number of chunks + 1) · t` ticks of waiting beyond `elapsed` -/
theorem C08_recv_bounded (t : Nat) (tail : Tail) : ∀ (chunks : List (Nat × Bytes)) (need : Nat) (acc : Bytes) (el : Nat),
    (recvN (some t) tail chunks need acc el).returns = true ∧
    (recvN (some t) tail chunks need acc el).elapsed ≤ el + (chunks.length + 1) * t := by
  intro chunks
  induction chunks with
  | nil =>
    intro need acc el
    unfold recvN
    by_cases h : need = 0
    · simp [h, Res.returns, Res.elapsed]
    · cases tail <;> simp [h, Res.returns, Res.elapsed]
  | cons c rest ih =>
    obtain ⟨d, b⟩ := c
    intro need acc el
    unfold recvN
    by_cases h : need = 0
    · simp [h, Res.returns, Res.elapsed]
    · simp only [h, ↓reduceIte]
      by_cases hd : t < d
      · simp only [hd, ↓reduceIte, Res.returns, Res.elapsed, true_and, List.length_cons]
        have : t ≤ (rest.length + 1 + 1) * t := Nat.le_mul_of_pos_left t (by omega)
        omega
      · simp only [hd, ↓reduceIte]
        obtain ⟨h1, h2⟩ := ih (need - min need b.length) (acc ++ b.take need) (el + d)
        refine ⟨h1, ?_⟩
        have hdt : d ≤ t := by omega
        simp only [List.length_cons]
        have : (rest.length + 1 + 1) * t = (rest.length + 1) * t + t := by
          rw [Nat.add_mul, Nat.one_mul]
        omega

/-- without a socket timeout, a peer that goes silent before delivering the requested bytes (and
keeps the connection open) blocks the read for ever -/
theorem C08_recv_unbounded_neg : ∀ (chunks : List (Nat × Bytes)) (need : Nat) (acc : Bytes) (el : Nat),
    (chunks.map (fun c => c.2.length)).sum < need →
    recvN none .stall chunks need acc el = .blocked := by
  intro chunks
  induction chunks with
  | nil =>
    intro need acc el h
    have : need ≠ 0 := by simp at h; omega
    simp [recvN, this]
  | cons c rest ih =>
    obtain ⟨d, b⟩ := c
    intro need acc el h
    simp only [List.map_cons, List.sum_cons] at h
    have hn : need ≠ 0 := by omega
    unfold recvN
    simp only [hn, ↓reduceIte]
    apply ih
    have : min need b.length = b.length := by omega
    omega

/-- a stall longer than the timeout ends the read with an exception (→ Evt17, connection closed),
never with a truncated result -/
theorem C08_stall_raises (t : Nat) (chunks : List (Nat × Bytes)) (need : Nat) (acc : Bytes) (el : Nat)
    (h : (chunks.map (fun c => c.2.length)).sum < need) (hd : ∀ c ∈ chunks, c.1 ≤ t) :
    ∃ e, recvN (some t) .stall chunks need acc el = .timedOut e := by
  induction chunks generalizing need acc el with
  | nil =>
    have : need ≠ 0 := by simp at h; omega
    exact ⟨el + t, by simp [recvN, this]⟩
  | cons c rest ih =>
    obtain ⟨d, b⟩ := c
    simp only [List.map_cons, List.sum_cons] at h
    have hn : need ≠ 0 := by omega
    have hdt : ¬ t < d := by have := hd (d, b) (by simp); simp at this; omega
    unfold recvN
    simp only [hn, ↓reduceIte, hdt]
    apply ih
    · have : min need b.length = b.length := by omega
      omega
    · intro c hc; exact hd c (by simp [hc])

/-- the sockets pynetdicom reads PDUs from get the network timeout, in both roles, and so does the
accepted socket on which a TLS server performs the handshake (whose reads are blocking reads of the
same socket: `recvN` applies to them as it does to PDU reads) — regenerated from transport.py on
every run -/
theorem C08_config : Gen.Timeouts.requestorReadTimeout = .networkTimeout ∧
    Gen.Timeouts.acceptorReadTimeout = .networkTimeout ∧
    Gen.Timeouts.tlsHandshakeTimeout = .networkTimeout := by decide

-- non-vacuity: a peer that sends 3 of 6 header bytes and stalls
example : recvN (some 5) .stall [(1, [1, 0, 0])] 6 [] 0 = .timedOut 6 ∧
    recvN none .stall [(1, [1, 0, 0])] 6 [] 0 = .blocked ∧
    recvN (some 5) .eof [(1, [1, 0, 0])] 6 [] 0 = .ok [1, 0, 0] 1 := by decide

end PynetVerif
