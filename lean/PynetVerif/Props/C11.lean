import PynetVerif.Lemmas.NegoAssoc
/-!
C11 — requestor and acceptor end up with the same view of the negotiated contexts.

`Nego.associate u sl rq rqRoles ac` is one association negotiation between two
pynetdicom AEs: the acceptor side (`negotiate_as_acceptor`, or
`negotiate_unrestricted` when `u`, i.e. `_config.UNRESTRICTED_STORAGE_SERVICE`)
on the requested contexts and the requestor's role items as decoded from the
A-ASSOCIATE-RQ, then `ACSE._negotiate_as_requestor` (role items applied to the
requested contexts, `negotiate_as_requestor`) on the result contexts and role
items of the A-ASSOCIATE-AC.  The wire is the identity on what the items carry:
(id, result, transfer syntax) per context, (uid, scu, scp) per role item, role
values as 0/1 bytes (`None` becomes `False`) — the byte codec itself is C01's.
`res` is what the acceptor holds, `out` what the requestor holds; "accepted"
is `result = 0` on either side, as `ACSE` fills `_accepted_cx/_rejected_cx`.

Domain: any requested list with distinct context ids (`AE.associate` numbers
them 1, 3, 5, …), any supported list, any role items.
-/
namespace PynetVerif
open Nego

section
variable {u : Bool} {sl : Nat → Bool} {rq ac : List Cx} {rqRoles : Roles} {res : List AccCx} {out : List ReqCx}

/-- Every proposed context id appears exactly once on the requestor side, as accepted or as
rejected (either mode). -/
theorem C11_once (hd : DistinctIds rq) (hok : associate u sl rq rqRoles ac = .ok (res, out)) :
    ((out.filter (·.result == 0) ++ out.filter (·.result != 0)).map (·.id)).Perm (rq.map (·.id)) := by
  obtain ⟨reply, ha, hr⟩ := associate_ok hok
  obtain ⟨hp, _, _⟩ := assoc_pairing hd (side_view hd ha).1 hr
  have h1 : (out.filter (·.result == 0) ++ out.filter (·.result != 0)).Perm out :=
    List.filter_append_perm (·.result == 0) out
  have h2 := hp.map Prod.fst
  simp only [List.map_map, Function.comp_def] at h2
  exact (h1.map _).trans h2

/-- Both sides hold the same accepted context ids with the same abstract and transfer syntax
(either mode). -/
theorem C11_same_accepted (hd : DistinctIds rq) (hok : associate u sl rq rqRoles ac = .ok (res, out)) :
    ∀ i a t, (∃ r ∈ res, r.result = 0 ∧ r.id = i ∧ r.abs = a ∧ r.ts = t) ↔
             (∃ q ∈ out, q.result = 0 ∧ q.id = i ∧ q.abs = a ∧ q.ts = [t]) := by
  obtain ⟨reply, ha, hr⟩ := associate_ok hok
  have hperm := (side_view hd ha).1
  obtain ⟨_, hq, hrq⟩ := assoc_pairing hd hperm hr
  have hnodup : (res.map (·.id)).Nodup := by
    have h2 := hperm.map Prod.fst
    simp only [List.map_map, Function.comp_def] at h2
    exact h2.symm.nodup hd
  intro i a t
  constructor
  · rintro ⟨r, hr', h0, rfl, rfl, rfl⟩
    obtain ⟨q, hq', hid⟩ := hrq r hr'
    obtain ⟨r2, hr2, _, _, _, h2, h3, h4, h5, _⟩ := hq q hq'
    have : r2 = r := eq_of_nodup_map (fun c : AccCx => c.id) hnodup r2 hr2 r hr' (by show r2.id = r.id; rw [h2, hid])
    subst this
    exact ⟨q, hq', by rw [h4, h0], h2.symm, h3.symm, h5⟩
  · rintro ⟨q, hq', h0, rfl, rfl, hts⟩
    obtain ⟨r, hr', _, _, _, h2, h3, h4, h5, _⟩ := hq q hq'
    refine ⟨r, hr', by rw [← h4, h0], h2, h3, ?_⟩
    rw [h5] at hts
    simpa using hts

end

/-! ### complementary roles -/
section normal
variable {sl : Nat → Bool} {rq ac : List Cx} {rqRoles : Roles} {res : List AccCx} {out : List ReqCx}

/-- Default configuration (`UNRESTRICTED_STORAGE_SERVICE = False`): the roles are complementary for every accepted context — the requestor may
act as SCU exactly when the acceptor may act as SCP, and vice versa.  No hypothesis on the role
items (a `None` in an item goes over the wire as `False`), on the acceptor's configuration
(`None/True/False` each) or on duplicate abstract syntaxes. -/
theorem C11_complementary_normal (hd : DistinctIds rq) (hok : associate false sl rq rqRoles ac = .ok (res, out)) :
    ∀ r ∈ res, ∀ q ∈ out, r.id = q.id → q.result = 0 → r.asScp = some q.asScu ∧ r.asScu = some q.asScp := by
  obtain ⟨reply, ha, hr⟩ := associate_ok hok
  have hacc : negotiateAsAcceptor rq ac (rqRolesOnWire rqRoles) = .ok (res, reply) := by
    simpa [acceptorSide] using ha
  obtain ⟨hperm, hres, _, hrep1, hrep2⟩ := acc_view hd hacc
  obtain ⟨_, hq, _⟩ := assoc_pairing hd hperm hr
  have hnodup : (res.map (·.id)).Nodup := by
    have h2 := hperm.map Prod.fst
    simp only [List.map_map, Function.comp_def] at h2
    exact h2.symm.nodup hd
  intro r hr' q hq' hid h0
  obtain ⟨r2, hr2, p, hp, hpid, h2, _, h4, _, hreq⟩ := hq q hq'
  have : r2 = r := eq_of_nodup_map (fun c : AccCx => c.id) hnodup r2 hr2 r hr' (by show r2.id = r.id; rw [h2, hid])
  subst this
  -- the acceptor's loop body for this very proposal
  obtain ⟨p', hp', ro, hs⟩ := hres r2 hr2
  have : p' = p := eq_of_nodup_map (fun c : Cx => c.id) (show (rq.map (·.id)).Nodup from hd) p' hp' p hp
    (by show p'.id = p.id; rw [← hs.id_abs.1, hpid])
  subst this
  have hr0 : r2.result = 0 := by rw [← h4, h0]
  have habs' : (applyOne rqRoles p').abs = p'.abs := (applyOne_fields rqRoles p').2.1
  -- a role item for this abstract syntax can only come from a step of the `accepted` kind
  have hitem : ∀ it' ∈ reply, it'.uid = p'.abs → ∃ p2 ∈ rq, p2.abs = p'.abs ∧ ∃ r3, AccStep ac (rqRolesOnWire rqRoles) p2 r3 (some it') := by
    intro it' hit' huid
    obtain ⟨p2, hp2, r3, _, hs2⟩ := hrep1 it' hit'
    obtain ⟨_, _, _, _, _, _, _, _, _, _, _, _, hit, _⟩ := hs2.some_inv rfl
    refine ⟨p2, hp2, ?_, r3, hs2⟩
    rw [hit] at huid
    simpa [replyItem] using huid
  cases hs with
  | noAc | absRej | tsRej | roleRej => simp at hr0
  | noneRole c t _ hl hf hnone =>
    have hlook : (acRolesOnWire reply).lookup (applyOne rqRoles p').abs = none := by
      rw [habs']
      apply reply_lookup_none
      intro it' hit' huid
      obtain ⟨p2, _, habs2, r3, hs2⟩ := hitem it' hit' huid
      obtain ⟨c2, _, cu, cp, _, hl2, _, hcu, hcp, _⟩ := hs2.some_inv rfl
      rw [habs2, hl] at hl2
      cases hl2
      rcases hnone with h | h
      · rw [h] at hcu; cases hcu
      · rw [h] at hcp; cases hcp
    obtain ⟨h1, h2'⟩ := req_roles_default hreq h0 hlook
    simp [h1, h2']
  | accepted c t cu cp o _ hl hf hcu hcp ht hb =>
    cases hlk : (rqRolesOnWire rqRoles).lookup p'.abs with
    | none =>
      -- no role proposed: no item in the answer, both sides default
      have hlook : (acRolesOnWire reply).lookup (applyOne rqRoles p').abs = none := by
        rw [habs']
        apply reply_lookup_none
        intro it' hit' huid
        obtain ⟨p2, _, habs2, r3, hs2⟩ := hitem it' hit' huid
        obtain ⟨_, _, _, _, _, _, _, _, _, _, _, hsome, _⟩ := hs2.some_inv rfl
        rw [habs2, hlk] at hsome
        cases hsome
      obtain ⟨h1, h2'⟩ := req_roles_default hreq h0 hlook
      unfold rqRolesOf at ht
      rw [hlk] at ht
      have := table_none (some cu, some cp) (by cases cu <;> cases cp <;> decide)
      rw [show (none : Option RolePair).getD (none, none) = (none, none) from rfl, this] at ht
      cases ht
      simp [h1, h2']
    | some v =>
      -- a role was proposed: the answer carries the capped item and the requestor evaluates it
      rw [rqRolesOnWire_lookup] at hlk
      cases hl0 : rqRoles.lookup p'.abs with
      | none => simp [hl0] at hlk
      | some v0 =>
        simp only [hl0, Option.map_some, Option.some.injEq] at hlk
        subst hlk
        have hro : (if ((rqRolesOnWire rqRoles).lookup p'.abs).isSome then
            some (replyItem p'.abs (rqRolesOf (rqRolesOnWire rqRoles) p'.abs) cu cp) else none) =
            some (replyItem p'.abs (some (v0.1.getD false), some (v0.2.getD false)) cu cp) := by
          simp [rqRolesOf, rqRolesOnWire_lookup, hl0]
        have hs' : AccStep ac (rqRolesOnWire rqRoles) p' _ _ := .accepted c t cu cp o ‹_› hl hf hcu hcp ht hb
        rw [hro] at hs'
        have hlook : (acRolesOnWire reply).lookup (applyOne rqRoles p').abs =
            some (some (replyItem p'.abs (some (v0.1.getD false), some (v0.2.getD false)) cu cp).scu,
                  some (replyItem p'.abs (some (v0.1.getD false), some (v0.2.getD false)) cu cp).scp) := by
          rw [habs']
          apply reply_lookup_some
          · obtain ⟨it', hit', huid⟩ := hrep2 p' hp' _ _ hs'
            exact ⟨it', hit', by simpa [replyItem] using huid⟩
          · intro it' hit' huid
            obtain ⟨p2, _, habs2, r3, hs2⟩ := hitem it' hit' huid
            obtain ⟨c2, _, cu2, cp2, _, hl2, _, hcu2, hcp2, _, _, _, hit2, _⟩ := hs2.some_inv rfl
            rw [habs2, hl] at hl2
            cases hl2
            rw [hcu] at hcu2; rw [hcp] at hcp2
            cases hcu2; cases hcp2
            rw [hit2, habs2]
            simp [rqRolesOf, rqRolesOnWire_lookup, hl0]
        obtain ⟨o', ht', h1, h2'⟩ := req_roles_table hreq h0 hlook
        have hscu : (applyOne rqRoles p').scu = some (v0.1.getD false) ∧ (applyOne rqRoles p').scp = some (v0.2.getD false) := by
          simp [applyOne, hl0]
        rw [hscu.1, hscu.2] at ht'
        have ht0 : tableLookup (some (v0.1.getD false), some (v0.2.getD false)) (some cu, some cp) = .ok o := by
          simpa [rqRolesOf, rqRolesOnWire_lookup, hl0] using ht
        obtain ⟨o'', ht'', e1, e2⟩ := table_complementary _ _ cu cp o ht0 hb
        simp only [replyItem] at ht'
        rw [ht''] at ht'
        cases ht'
        simp [h1, h2', e1, e2]

end normal

/-! ### complementary roles in the unrestricted-storage configuration -/
section unrestricted
variable {sl : Nat → Bool} {rq ac : List Cx} {rqRoles : Roles} {res : List AccCx} {out : List ReqCx}

/-- STATED PROPERTY (unrestricted mode): for every accepted id,
  r.asScp = some q.asScu ∧ r.asScu = some q.asScp.
Violated for a storage-like context proposed WITHOUT a role item: `negotiate_unrestricted`
leaves the acceptor with `as_scu = as_scp = True`, sends no role item, and the requestor
defaults to SCU only — the acceptor believes it may act as SCU on a context whose requestor
is no SCP. -/
theorem C11_complementary_unrestricted_neg :
    ∃ (sl : Nat → Bool) (rq ac : List Cx) (rqRoles : Roles) (res : List AccCx) (out : List ReqCx),
      DistinctIds rq ∧ HasTs rq ∧ (∀ p ∈ rq, sl p.abs = true) ∧ associate true sl rq rqRoles ac = .ok (res, out) ∧
      ¬ (∀ r ∈ res, ∀ q ∈ out, r.id = q.id → q.result = 0 → r.asScp = some q.asScu ∧ r.asScu = some q.asScp) := by
  refine ⟨fun _ => true, [{ id := 1, abs := 7, ts := [0] }], [], [],
    [{ id := 1, abs := 7, result := 0, ts := 0, asScu := some true, asScp := some true }],
    [{ id := 1, abs := 7, result := 0, ts := [0], asScu := true, asScp := false }],
    by decide, by decide, by simp, rfl, by decide⟩

/-- Violated, too, for a NON-storage context with a proposed and supported role: the role items
of the inner `negotiate_as_acceptor` call are dropped by `negotiate_unrestricted`, so the
acceptor holds the negotiated roles (here SCU and SCP) while the requestor, seeing no role item,
defaults to SCU only. -/
theorem C11_complementary_unrestricted_nonstorage_neg :
    ∃ (sl : Nat → Bool) (rq ac : List Cx) (rqRoles : Roles) (res : List AccCx) (out : List ReqCx),
      DistinctIds rq ∧ HasTs rq ∧ (∀ p ∈ rq, sl p.abs = false) ∧ associate true sl rq rqRoles ac = .ok (res, out) ∧
      ¬ (∀ r ∈ res, ∀ q ∈ out, r.id = q.id → q.result = 0 → r.asScp = some q.asScu ∧ r.asScu = some q.asScp) := by
  refine ⟨fun _ => false, [{ id := 1, abs := 4, ts := [0] }],
    [{ id := 0, abs := 4, ts := [0], scu := some true, scp := some true }], [(4, (some true, some true))],
    [{ id := 1, abs := 4, result := 0, ts := 0, asScu := some true, asScp := some true }],
    [{ id := 1, abs := 4, result := 0, ts := [0], asScu := true, asScp := false }],
    by decide, by decide, by simp, rfl, by decide⟩

/-- Unrestricted mode is complementary exactly outside those two situations: when every
storage-like proposal comes with a role item, and every non-storage proposal either has no
role item or meets a supported context that does not negotiate roles (a `None` role). -/
theorem C11_complementary_unrestricted_partial (hd : DistinctIds rq)
    (h1 : ∀ p ∈ rq, sl p.abs = true → (rqRoles.lookup p.abs).isSome = true)
    (h2 : ∀ p ∈ rq, sl p.abs = false →
      rqRoles.lookup p.abs = none ∨ ∀ c, acLookup ac p.abs = some c → c.scu = none ∨ c.scp = none)
    (hok : associate true sl rq rqRoles ac = .ok (res, out)) :
    ∀ r ∈ res, ∀ q ∈ out, r.id = q.id → q.result = 0 → r.asScp = some q.asScu ∧ r.asScu = some q.asScp := by
  obtain ⟨reply, ha, hr⟩ := associate_ok hok
  have hacc : negotiateUnrestricted sl rq ac (rqRolesOnWire rqRoles) = .ok (res, reply) := by
    simpa [acceptorSide] using ha
  obtain ⟨hperm, hres, _, hrep1, hrep2⟩ := unr_view hd hacc
  obtain ⟨_, hq, _⟩ := assoc_pairing hd hperm hr
  have hnodup : (res.map (·.id)).Nodup := by
    have h2 := hperm.map Prod.fst
    simp only [List.map_map, Function.comp_def] at h2
    exact h2.symm.nodup hd
  intro r hr' q hq' hid h0
  obtain ⟨r2, hr2, p, hp, hpid, h2', _, h4, _, hreq⟩ := hq q hq'
  have : r2 = r := eq_of_nodup_map (fun c : AccCx => c.id) hnodup r2 hr2 r hr' (by show r2.id = r.id; rw [h2', hid])
  subst this
  obtain ⟨p', hp', hfrom⟩ := hres r2 hr2
  have hidp : r2.id = p'.id := by
    rcases hfrom with ⟨_, _, hs⟩ | ⟨_, _, hs⟩
    · exact hs.id_abs.1
    · exact hs.id_abs.1
  have : p' = p := eq_of_nodup_map (fun c : Cx => c.id) (show (rq.map (·.id)).Nodup from hd) p' hp' p hp
    (by show p'.id = p.id; rw [← hidp, hpid])
  subst this
  have hr0 : r2.result = 0 := by rw [← h4, h0]
  have habs' : (applyOne rqRoles p').abs = p'.abs := (applyOne_fields rqRoles p').2.1
  -- role items of the answer come from storage-like proposals only
  have hitem : ∀ it' ∈ reply, it'.uid = p'.abs → ∃ p2 ∈ rq, p2.abs = p'.abs ∧ sl p2.abs = true ∧
      ∃ r3, UnrStep (rqRolesOnWire rqRoles) p2 r3 (some it') := by
    intro it' hit' huid
    obtain ⟨p2, hp2, hsl2, r3, _, hs2⟩ := hrep1 it' hit'
    obtain ⟨_, _, _, _, _, _, _, hit, _⟩ := hs2.some_inv rfl
    refine ⟨p2, hp2, ?_, hsl2, r3, hs2⟩
    rw [hit] at huid
    simpa using huid
  rcases hfrom with ⟨hsl, ro, hs⟩ | ⟨hsl, ro, hs⟩
  · -- storage-like proposal
    cases hs with
    | noRole t rest hts hl =>
      have := h1 p' hp' hsl
      rw [rqRolesOnWire_lookup] at hl
      cases hl0 : rqRoles.lookup p'.abs with
      | none => simp [hl0] at this
      | some v0 => simp [hl0] at hl
    | withRole t rest v o hts hl ht =>
      have hs' : UnrStep (rqRolesOnWire rqRoles) p' _ _ := .withRole t rest v o hts hl ht
      rw [rqRolesOnWire_lookup] at hl
      cases hl0 : rqRoles.lookup p'.abs with
      | none => simp [hl0] at hl
      | some v0 =>
        simp only [hl0, Option.map_some, Option.some.injEq] at hl
        subst hl
        have hlook : (acRolesOnWire reply).lookup (applyOne rqRoles p').abs =
            some (some (v0.1.getD false), some (v0.2.getD false)) := by
          rw [habs']
          have := reply_lookup_some (reply := reply) (a := p'.abs)
            (it := { uid := p'.abs, scu := v0.1.getD false, scp := v0.2.getD false }) ?_ ?_
          · simpa using this
          · obtain ⟨it', hit', huid⟩ := hrep2 p' hp' hsl _ _ hs'
            exact ⟨it', hit', by simpa using huid⟩
          · intro it' hit' huid
            obtain ⟨p2, _, habs2, _, r3, hs2⟩ := hitem it' hit' huid
            obtain ⟨_, _, v2, _, _, hl2, _, hit2, _⟩ := hs2.some_inv rfl
            rw [habs2, rqRolesOnWire_lookup, hl0] at hl2
            simp only [Option.map_some, Option.some.injEq] at hl2
            subst hl2
            rw [hit2, habs2]
            simp
        obtain ⟨o', ht', e1, e2⟩ := req_roles_table hreq h0 hlook
        have hscu : (applyOne rqRoles p').scu = some (v0.1.getD false) ∧ (applyOne rqRoles p').scp = some (v0.2.getD false) := by
          simp [applyOne, hl0]
        rw [hscu.1, hscu.2] at ht'
        obtain ⟨o'', ht'', f1, f2⟩ := table_unrestricted _ _ o ht
        rw [ht''] at ht'
        cases ht'
        simp [e1, e2, f1, f2]
  · -- non-storage proposal: no role item for it can be in the answer
    have hlook : (acRolesOnWire reply).lookup (applyOne rqRoles p').abs = none := by
      rw [habs']
      apply reply_lookup_none
      intro it' hit' huid
      obtain ⟨p2, _, habs2, hsl2, _⟩ := hitem it' hit' huid
      rw [habs2, hsl] at hsl2
      cases hsl2
    obtain ⟨e1, e2⟩ := req_roles_default hreq h0 hlook
    cases hs with
    | noAc | absRej | tsRej | roleRej => simp at hr0
    | noneRole => simp [e1, e2]
    | accepted c t cu cp o _ hl hf hcu hcp ht hb =>
      rcases h2 p' hp' hsl with hnone | hcfg
      · unfold rqRolesOf at ht
        rw [rqRolesOnWire_lookup, hnone] at ht
        have := table_none (some cu, some cp) (by cases cu <;> cases cp <;> decide)
        simp only [Option.map_none, Option.getD_none] at ht
        rw [this] at ht
        cases ht
        simp [e1, e2]
      · rcases hcfg c hl with h | h
        · rw [h] at hcu; cases hcu
        · rw [h] at hcp; cases hcp

/-- STATED PROPERTY over both configurations: `∀ u, … → complementary`.  It fails for `u = true`
(the two `_neg` theorems above); this is what holds: always in the default configuration, and in
the unrestricted one under the two exclusions. -/
theorem C11_complementary_partial {u : Bool} (hd : DistinctIds rq)
    (hu : u = true →
      (∀ p ∈ rq, sl p.abs = true → (rqRoles.lookup p.abs).isSome = true) ∧
      (∀ p ∈ rq, sl p.abs = false →
        rqRoles.lookup p.abs = none ∨ ∀ c, acLookup ac p.abs = some c → c.scu = none ∨ c.scp = none))
    (hok : associate u sl rq rqRoles ac = .ok (res, out)) :
    ∀ r ∈ res, ∀ q ∈ out, r.id = q.id → q.result = 0 → r.asScp = some q.asScu ∧ r.asScu = some q.asScp := by
  cases u with
  | false => exact C11_complementary_normal hd hok
  | true => exact C11_complementary_unrestricted_partial hd (hu rfl).1 (hu rfl).2 hok

end unrestricted

/-! ### the hypotheses are satisfiable; the composition computes -/

/-- C-GET style: CT proposed with roles (scu, scp) = (False, True) against an acceptor configured
(True, True); Verification without roles.  Acceptor: SCU on CT, SCP on Verification; requestor the
complement. -/
example : associate false (fun _ => false)
    [{ id := 1, abs := 6, ts := [0, 1] }, { id := 3, abs := 2, ts := [0] }, { id := 5, abs := 9, ts := [0] }]
    [(6, (some false, some true))]
    [{ id := 0, abs := 6, ts := [1, 0], scu := some true, scp := some true }, { id := 0, abs := 2, ts := [0] }]
    = .ok ([{ id := 1, abs := 6, result := 0, ts := 1, asScu := some true, asScp := some false },
            { id := 3, abs := 2, result := 0, ts := 0, asScu := some false, asScp := some true },
            { id := 5, abs := 9, result := 3, ts := 0, asScu := some false, asScp := some false }],
           [{ id := 1, abs := 6, result := 0, ts := [1], asScu := false, asScp := true },
            { id := 3, abs := 2, result := 0, ts := [0], asScu := true, asScp := false },
            { id := 5, abs := 9, result := 3, ts := [0], asScu := true, asScp := false }]) := rfl

/-- the hypotheses of the unrestricted partial theorem are satisfiable by a non-trivial input -/
example : ∃ (sl : Nat → Bool) (rq ac : List Cx) (rqRoles : Roles), DistinctIds rq ∧ rq.length = 2 ∧
    (∀ p ∈ rq, sl p.abs = true → (rqRoles.lookup p.abs).isSome = true) ∧
    (∀ p ∈ rq, sl p.abs = false →
      rqRoles.lookup p.abs = none ∨ ∀ c, acLookup ac p.abs = some c → c.scu = none ∨ c.scp = none) ∧
    ∃ out, associate true sl rq rqRoles ac = .ok out := by
  refine ⟨fun a => a == 6, [{ id := 1, abs := 6, ts := [0] }, { id := 3, abs := 2, ts := [0] }],
    [{ id := 0, abs := 2, ts := [0] }], [(6, (some true, some true))], by decide, rfl, ?_, ?_, _, rfl⟩
  · intro p hp; simp at hp; rcases hp with rfl | rfl <;> simp
  · intro p hp; simp at hp; rcases hp with rfl | rfl <;> simp

end PynetVerif
