import PynetVerif.Model.MaxAssoc
import PynetVerif.Spec.Reject
/-!
C14 — concurrent acceptor associations never exceed the configured maximum.

`MaxAssoc.step/run` model the acceptor threads and the limit check exactly as
the code performs it (count of live acceptor threads, the checking thread
included, strict `>`); a schedule is ANY list of actions.  The invariant is
`admitted ≤ max` (admitted = passed the check and not yet ended), proved for all
schedules of any length and any number of threads.  Real thread scheduling is
sampled by `harness/props/c14.py` (trace validation); the atomicity of
`threading.enumerate()` is an assumption of the model.
-/
namespace PynetVerif
open MaxAssoc

/-! ### counting lemmas -/

theorem countP_succ_le_of_witness {α : Type} (p q : α → Bool) (hpq : ∀ x, p x = true → q x = true) :
    ∀ (l : List α) (i : Nat) (a : α), l[i]? = some a → q a = true → p a = false →
      l.countP p + 1 ≤ l.countP q := by
  intro l
  induction l with
  | nil => intro i a h; simp at h
  | cons x xs ih =>
    intro i a h hq hp
    simp only [List.countP_cons]
    cases i with
    | zero =>
      simp only [List.getElem?_cons_zero, Option.some.injEq] at h
      subst h
      have : xs.countP p ≤ xs.countP q := List.countP_mono_left (fun x _ => hpq x)
      simp only [hq, hp, if_true, Bool.false_eq_true, if_false]
      omega
    | succ j =>
      simp only [List.getElem?_cons_succ] at h
      have := ih j a h hq hp
      by_cases hx : p x = true
      · simp only [hx, hpq x hx, if_true]; omega
      · have hx' : p x = false := by simpa using hx
        simp only [hx', Bool.false_eq_true, if_false]
        split <;> omega

theorem countP_pos_of_getElem? {α : Type} (p : α → Bool) (l : List α) (i : Nat) (a : α)
    (h : l[i]? = some a) (hp : p a = true) : 0 < l.countP p := by
  rw [List.countP_pos_iff]
  exact ⟨a, List.mem_of_getElem? h, hp⟩

/-- effect of overwriting position `i` (holding `a`) with `b` on a count -/
theorem countP_set_of_getElem? {α : Type} (p : α → Bool) (l : List α) (i : Nat) (a b : α)
    (h : l[i]? = some a) :
    (l.set i b).countP p + (if p a = true then 1 else 0) = l.countP p + (if p b = true then 1 else 0) := by
  obtain ⟨hi, ha⟩ := List.getElem?_eq_some_iff.mp h
  rw [List.countP_set hi, ha]
  by_cases hp : p a = true
  · have := countP_pos_of_getElem? p l i a h hp
    simp only [hp, if_true]; omega
  · have hp' : p a = false := by simpa using hp
    simp only [hp', Bool.false_eq_true, if_false]; omega

theorem admitted_le_live (s : State) : admitted s ≤ live s := by
  apply List.countP_mono_left
  intro x _ hx
  cases x <;> simp_all [isAdmitted, isLive]

theorem established_le_admitted (s : State) : established s ≤ admitted s := by
  apply List.countP_mono_left
  intro x _ hx
  cases x <;> simp_all [isAdmitted, isEst]

/-- a thread that has not checked yet is live and not admitted: room for one more -/
theorem admitted_succ_le_live (s : State) (i : Nat) (h : s[i]? = some .spawned) :
    admitted s + 1 ≤ live s := by
  apply countP_succ_le_of_witness isAdmitted isLive _ s i .spawned h rfl rfl
  intro x hx
  cases x <;> simp_all [isAdmitted, isLive]

/-- one step never breaks `admitted ≤ max` -/
theorem step_preserves (max : Nat) (s : State) (a : Act) (h : admitted s ≤ max) :
    admitted (step max s a) ≤ max := by
  cases a with
  | spawn =>
    simp only [step, admitted, List.countP_append, List.countP_cons, List.countP_nil]
    simpa [isAdmitted, admitted] using h
  | check i =>
    simp only [step]
    split
    · rename_i hs
      have h1 := admitted_succ_le_live s i hs
      unfold checkPhase
      by_cases ho : Policy.overLimit (live s) max = true
      · have := countP_set_of_getElem? isAdmitted s i .spawned .rejected hs
        simp only [ho, if_true]
        simp [isAdmitted] at this
        unfold admitted at h ⊢; omega
      · have hle : live s ≤ max := by
          unfold Policy.overLimit at ho
          simp only [Nat.blt_eq] at ho
          omega
        have := countP_set_of_getElem? isAdmitted s i .spawned .passed hs
        simp only [ho, Bool.false_eq_true, if_false]
        simp [isAdmitted] at this
        unfold admitted at h h1 ⊢; omega
    · exact h
  | establish i =>
    simp only [step]
    split
    · rename_i hs
      have := countP_set_of_getElem? isAdmitted s i .passed .established hs
      simp [isAdmitted] at this
      unfold admitted at h ⊢; omega
    · exact h
  | finish i =>
    simp only [step]
    split
    · rename_i hs
      have := countP_set_of_getElem? isAdmitted s i .established .ended hs
      simp [isAdmitted] at this
      unfold admitted at h ⊢; omega
    · rename_i hs
      have := countP_set_of_getElem? isAdmitted s i .passed .ended hs
      simp [isAdmitted] at this
      unfold admitted at h ⊢; omega
    · exact h
  | die i =>
    simp only [step]
    split
    · rename_i hs
      have := countP_set_of_getElem? isAdmitted s i .spawned .dead hs
      simp [isAdmitted] at this
      unfold admitted at h ⊢; omega
    · rename_i hs
      have := countP_set_of_getElem? isAdmitted s i .rejected .dead hs
      simp [isAdmitted] at this
      unfold admitted at h ⊢; omega
    · rename_i hs
      have := countP_set_of_getElem? isAdmitted s i .ended .dead hs
      simp [isAdmitted] at this
      unfold admitted at h ⊢; omega
    · exact h

theorem run_preserves (max : Nat) (sched : List Act) :
    ∀ s : State, admitted s ≤ max → admitted (run max s sched) ≤ max := by
  induction sched with
  | nil => intro s h; exact h
  | cons a rest ih =>
    intro s h
    exact ih (step max s a) (step_preserves max s a h)

/-! ### C14 theorems -/

/-- However many connections arrive and however the threads interleave, the
number of simultaneously established acceptor associations never exceeds `max`
(∀ schedules, ∀ prefixes — `sched` is arbitrary, so every intermediate state is
covered).  Holds for every `max`, in particular every value the setter admits (≥ 1). -/
theorem C14_invariant (max : Nat) (sched : List Act) :
    established (run max [] sched) ≤ max := by
  have := run_preserves max sched [] (by simp [admitted])
  exact Nat.le_trans (established_le_admitted _) this

/-- The same from any state that respects the bound, e.g. mid-run after
`maximum_associations` was read: threads already admitted are counted. -/
theorem C14_invariant_from (max : Nat) (s : State) (h : admitted s ≤ max) (sched : List Act) :
    established (run max s sched) ≤ max ∧ admitted (run max s sched) ≤ max :=
  ⟨Nat.le_trans (established_le_admitted _) (run_preserves max sched s h), run_preserves max sched s h⟩

/-- A check that sees more than `max` live acceptor threads rejects … -/
theorem C14_over_limit_rejected (max : Nat) (s : State) (i : Nat) (h : s[i]? = some .spawned)
    (hl : max < live s) : (step max s (.check i))[i]? = some .rejected := by
  have ho : Policy.overLimit (live s) max = true := by
    unfold Policy.overLimit; simp only [Nat.blt_eq]; exact hl
  obtain ⟨hi, _⟩ := List.getElem?_eq_some_iff.mp h
  simp only [step, h, checkPhase, ho, if_true]
  simp [hi]

/-- … and the A-ASSOCIATE-RJ the acceptor then sends is (2, 3, 2) whatever the other
checks said — rejected-transient, service-provider (presentation), local-limit-exceeded
in PS3.8 Table 9-21. -/
theorem C14_over_limit_triple (p : Policy.Policy) (callingRaw calledRaw : Bytes)
    (identity : Option Policy.Identity) (active : Nat) (hl : p.maxAssoc < active)
    (hv : Policy.decideAssoc p callingRaw calledRaw identity active ≠ .invalid) :
    Policy.decideAssoc p callingRaw calledRaw identity active = .reject rejectTriple ∧
      Spec.Reject.meaning rejectTriple = some (Spec.Reject.documented .limit) := by
  refine ⟨?_, by decide⟩
  have ho : Policy.overLimit active p.maxAssoc = true := by
    unfold Policy.overLimit; simp only [Nat.blt_eq]; exact hl
  unfold Policy.decideAssoc at hv ⊢
  split
  · simp only [Policy.negotiate, ho, if_true]; rfl
  · rename_i hne
    split at hv
    · rename_i a b h1 h2
      exact absurd h2 (hne _ _ h1)
    · exact absurd rfl hv

/-- A check that sees at most `max` live acceptor threads admits (the limit check
itself never refuses below the limit). -/
theorem C14_within_limit_admitted (max : Nat) (s : State) (i : Nat) (h : s[i]? = some .spawned)
    (hl : live s ≤ max) : (step max s (.check i))[i]? = some .passed := by
  have ho : Policy.overLimit (live s) max = false := by
    unfold Policy.overLimit
    rw [Bool.eq_false_iff, ne_eq, Nat.blt_eq]
    omega
  obtain ⟨hi, _⟩ := List.getElem?_eq_some_iff.mp h
  simp only [step, h, checkPhase, ho, Bool.false_eq_true, if_false]
  simp [hi]

/-! ### non-vacuity -/

-- max = 2: two associations get established, the third is rejected, and after one ends and its
-- thread is gone a fourth is admitted
example : established (run 2 [] [.spawn, .check 0, .establish 0, .spawn, .check 1, .establish 1]) = 2 := by
  decide
example : run 2 [] [.spawn, .check 0, .establish 0, .spawn, .check 1, .establish 1, .spawn, .check 2] =
    [.established, .established, .rejected] := by decide
example : run 2 [] [.spawn, .check 0, .establish 0, .spawn, .check 1, .establish 1, .spawn, .check 2,
      .finish 0, .die 0, .die 2, .spawn, .check 3, .establish 3] =
    [.dead, .established, .dead, .established] := by decide
-- the check counts threads, not associations: two simultaneous requests with max = 1 are BOTH
-- rejected when both threads are alive before either checks (under-admission; not a C14 violation)
example : run 1 [] [.spawn, .spawn, .check 0, .check 1] = [.rejected, .rejected] := by decide
-- … and a thread that is still winding down keeps a slot occupied
example : run 1 [] [.spawn, .check 0, .establish 0, .finish 0, .spawn, .check 1] = [.ended, .rejected] := by
  decide
example : ∃ (s : State) (i : Nat), s[i]? = some Phase.spawned ∧ 1 < live s :=
  ⟨[.established, .spawned], 1, rfl, by decide⟩

end PynetVerif
