import PynetVerif.Model.Framing
import PynetVerif.Lemmas.Framing
import PynetVerif.Model.Idle
import PynetVerif.Gen.Timeouts
/-!
C03 — PDU framing is independent of how TCP splits the byte stream.

The stream is the bytes the peer sends before closing; the adversary is the
read oracle `ks` (how many bytes each `socket.recv` returns, or a timeout).
Inter-segment gaps below the socket timeout are invisible to a blocking
`recv` and therefore do not appear in the model at all.
-/
namespace PynetVerif
open Framing

/-- (type, reserved byte, body) of a PDU on the wire -/
abbrev PduSpec := UInt8 × UInt8 × Bytes

def WellFramed (p : PduSpec) : Prop := validType p.1 = true ∧ p.2.2.length < 4294967296
def wirePdu (p : PduSpec) : Bytes := mkPdu p.1 p.2.1 p.2.2
def wire : List PduSpec → Bytes
  | [] => []
  | p :: ps => wirePdu p ++ wire ps

/-- what may follow the last complete PDU before the peer closes: nothing, or a strict prefix of a PDU -/
def Truncation (pre : Bytes) : Prop :=
  pre = [] ∨ ∃ p suf, WellFramed p ∧ suf ≠ [] ∧ pre ++ suf = wirePdu p

/-- The receive loop returns exactly the requested bytes (or all that is left), for every sequence of
read sizes the kernel may choose. -/
theorem C03_recv (rest : Bytes) (ks : List RR) (n : Nat) (h : NoTimeout ks) :
    ∃ ks', NoTimeout ks' ∧ recv rest ks n = some (rest.take n, rest.drop n, ks') :=
  recv_take rest ks n h

/-- **Segmentation independence and mid-PDU close.** For every sequence of well-framed PDUs, every
truncated tail and every read oracle without timeouts, the receiver sees exactly those PDUs, in
order, then `closed` — never a truncated PDU. (`pre = []` is the plain chunking statement.) -/
theorem C03_chunking_midclose (ps : List PduSpec) (hp : ∀ p ∈ ps, WellFramed p)
    (pre : Bytes) (hpre : Truncation pre) :
    ∀ (ks : List RR) (fuel : Nat), NoTimeout ks → ps.length + 1 ≤ fuel →
    frames fuel (wire ps ++ pre) ks = ps.map (fun p => Frame.pdu (wirePdu p)) ++ [Frame.closed] := by
  induction ps with
  | nil =>
    intro ks fuel hnt hf
    obtain ⟨f, rfl⟩ : ∃ f, fuel = f + 1 := ⟨fuel - 1, by simp at hf; omega⟩
    have hc : (readPdu pre ks).1 = .closed := by
      rcases hpre with h | ⟨p, suf, hw, hs, he⟩
      · subst h; exact readPdu_nil ks
      · exact readPdu_strict_prefix p.1 p.2.1 p.2.2 pre suf ks hw.1 hw.2 hs he hnt
    simp only [wire, List.nil_append, frames, List.map_nil]
    cases hr : readPdu pre ks with
    | mk f1 r1 =>
      rw [hr] at hc; simp only at hc; subst hc; rfl
  | cons p ps ih =>
    intro ks fuel hnt hf
    obtain ⟨f, rfl⟩ : ∃ f, fuel = f + 1 := ⟨fuel - 1, by simp at hf; omega⟩
    have hw := hp p (by simp)
    obtain ⟨ks', hnt', hr⟩ := readPdu_mk p.1 p.2.1 p.2.2 (wire ps ++ pre) ks hw.1 hw.2 hnt
    have hwire : wire (p :: ps) ++ pre = mkPdu p.1 p.2.1 p.2.2 ++ (wire ps ++ pre) := by
      simp [wire, wirePdu, List.append_assoc]
    rw [hwire]
    simp only [frames, hr, List.map_cons, List.cons_append]
    have := ih (fun q hq => hp q (by simp [hq])) ks' f hnt' (by simp at hf ⊢; omega)
    rw [this]; rfl

/-- **Never a truncated PDU, for ANY oracle (timeouts and errors included).** Every PDU handed to
the decoder is completely framed (its length field equals the length of its body), the frames
account for a prefix of the stream in order, and an unrecognised frame is a 6-byte header whose
type is not 1..7. -/
theorem C03_frames_sound : ∀ (fuel : Nat) (rest : Bytes) (ks : List RR),
    (∃ tail, rest = ((frames fuel rest ks).map Frame.bytes).flatten ++ tail) ∧
    ∀ f ∈ frames fuel rest ks, match f with
      | .pdu b => ∃ t r body, validType t = true ∧ body.length < 4294967296 ∧ b = mkPdu t r body
      | .unrecognised h => ∃ t r a b c d, h = [t, r, a, b, c, d] ∧ validType t = false
      | .closed => True := by
  intro fuel
  induction fuel with
  | zero => intro rest ks; exact ⟨⟨rest, by simp [frames]⟩, by simp [frames]⟩
  | succ fuel ih =>
    intro rest ks
    -- analyse one `readPdu`
    have key : ∀ f rest' ks', readPdu rest ks = (f, rest', ks') →
        (f = .closed ∨ rest = f.bytes ++ rest') ∧ (match f with
          | .pdu b => ∃ t r body, validType t = true ∧ body.length < 4294967296 ∧ b = mkPdu t r body
          | .unrecognised h => ∃ t r a b c d, h = [t, r, a, b, c, d] ∧ validType t = false
          | .closed => True) := by
      intro f rest' ks' h
      unfold readPdu at h
      cases h6 : recv rest ks 6 with
      | none => rw [h6] at h; simp only [Prod.mk.injEq] at h; obtain ⟨rfl, _, _⟩ := h; simp
      | some v =>
        obtain ⟨hdr, rest1, ks1⟩ := v
        obtain ⟨e1, _hl6⟩ := recv_prefix rest ks 6 hdr rest1 ks1 h6
        rw [h6] at h
        dsimp only at h
        split at h
        · rename_i t r a b c d
          by_cases hv : validType t = true
          · simp only [hv, ↓reduceIte] at h
            cases hb : recv rest1 ks1 (be32 a b c d) with
            | none => rw [hb] at h; simp only [Prod.mk.injEq] at h; obtain ⟨rfl, _, _⟩ := h; simp
            | some w =>
              obtain ⟨body, rest2, ks2⟩ := w
              obtain ⟨e2, _hl2⟩ := recv_prefix rest1 ks1 _ body rest2 ks2 hb
              rw [hb] at h
              dsimp only at h
              by_cases hl : body.length = be32 a b c d
              · simp only [hl, ↓reduceIte, Prod.mk.injEq] at h
                obtain ⟨rfl, rfl, _⟩ := h
                obtain ⟨i1, i2, i3, i4, i5⟩ := be32_inv a b c d
                refine ⟨Or.inr ?_, t, r, body, hv, by rw [hl]; exact i5, ?_⟩
                · simp only [Frame.bytes]; rw [e1, e2]; simp
                · simp only [mkPdu, hl, i1, i2, i3, i4]
              · simp only [hl, ↓reduceIte, Prod.mk.injEq] at h
                obtain ⟨rfl, _, _⟩ := h; simp
          · simp only [hv] at h
            simp only [Bool.false_eq_true, ↓reduceIte, Prod.mk.injEq] at h
            obtain ⟨rfl, rfl, _⟩ := h
            refine ⟨Or.inr (by simp [Frame.bytes, e1]), t, r, a, b, c, d, rfl, by simpa using hv⟩
        · simp only [Prod.mk.injEq] at h; obtain ⟨rfl, _, _⟩ := h; simp
    cases hr : readPdu rest ks with
    | mk f p =>
      obtain ⟨rest', ks'⟩ := p
      obtain ⟨k1, k2⟩ := key f rest' ks' hr
      cases f with
      | closed => simp only [frames, hr]; exact ⟨⟨rest, by simp [Frame.bytes]⟩, by simp⟩
      | pdu b =>
        obtain ⟨⟨tail, ht⟩, hall⟩ := ih rest' ks'
        rcases k1 with k1 | k1
        · cases k1
        · simp only [frames, hr]
          refine ⟨⟨tail, ?_⟩, ?_⟩
          · simp only [List.map_cons, List.flatten_cons, List.append_assoc]
            rw [← ht]; exact k1
          · intro g hg
            rcases List.mem_cons.mp hg with rfl | hg
            · exact k2
            · exact hall g hg
      | unrecognised hd =>
        obtain ⟨⟨tail, ht⟩, hall⟩ := ih rest' ks'
        rcases k1 with k1 | k1
        · cases k1
        · simp only [frames, hr]
          refine ⟨⟨tail, ?_⟩, ?_⟩
          · simp only [List.map_cons, List.flatten_cons, List.append_assoc]
            rw [← ht]; exact k1
          · intro g hg
            rcases List.mem_cons.mp hg with rfl | hg
            · exact k2
            · exact hall g hg

/-- A read that raises (timeout / OSError) while a PDU is being read yields `closed`:
whatever was read of that PDU is dropped, nothing is delivered for it. -/
theorem C03_timeout_is_closed (rest : Bytes) (ks : List RR) (fuel : Nat) :
    frames (fuel + 1) rest (.timeout :: ks) = [.closed] := by
  simp [frames, readPdu, recv, recvN, pop, recv1]

-- non-vacuity: two well-framed PDUs, a two-byte truncated third, a byte-at-a-time oracle
example : WellFramed (5, 0, [0, 0, 0, 0]) ∧ WellFramed (4, 0, [1, 2, 3]) ∧
    Truncation [7, 0] ∧ NoTimeout [.got 0, .got 0, .got 2, .got 100] := by
  refine ⟨⟨by decide, by decide⟩, ⟨by decide, by decide⟩, Or.inr ⟨(7, 0, [0, 0, 0, 0]), [0, 0, 0, 4, 0, 0, 0, 0], ⟨by decide, by decide⟩, by decide, by decide⟩, ?_⟩
  intro r hr; simp at hr; rcases hr with rfl | rfl | rfl | rfl <;> simp

example : frames 5 (wire [(5, 0, [0, 0, 0, 0]), (4, 0, [1, 2, 3])] ++ [7, 0]) [.got 0, .got 0, .got 2] =
    [.pdu (wirePdu (5, 0, [0, 0, 0, 0])), .pdu (wirePdu (4, 0, [1, 2, 3])), .closed] := by decide

/-! ### gaps between chunks and the network-idle timer -/

/-- **Every gap below the network timeout is enough**: when the idle timer is restarted for every
chunk received, a PDU sequence cut into chunks in any way, with every inter-chunk gap at most the
network timeout, is never aborted as idle — however long a single PDU takes to arrive in full. -/
theorem C03_gaps_below_timeout (T : Nat) : ∀ (chunks : List (Nat × Bool)), (∀ c ∈ chunks, c.1 ≤ T) →
    Idle.aborted .perChunk T 0 chunks = false := by
  intro chunks
  induction chunks with
  | nil => intro _; rfl
  | cons c rest ih =>
    intro h
    obtain ⟨gap, last⟩ := c
    have hg : gap ≤ T := h (gap, last) (List.mem_cons_self ..)
    have : ¬ (0 + gap > T) := by omega
    simp only [Idle.aborted, this, ↓reduceIte, Bool.or_true, beq_self_eq_true]
    exact ih (fun c hc => h c (List.mem_cons_of_mem _ hc))

/-- the repaired defect, for the record: with a restart per completed PDU only, a PDU arriving in
three chunks 0.7 T apart (every gap below the timeout) is aborted as idle -/
theorem C03_restart_per_pdu_neg :
    Idle.aborted .perPdu 10 0 [(0, false), (7, false), (7, true)] = true ∧
    Idle.aborted .perChunk 10 0 [(0, false), (7, false), (7, true)] = false := by decide

/-- the source restarts the idle timer for every chunk `AssociationSocket.recv` receives
(regenerated from transport.py on every run) -/
theorem C03_code_restarts_per_chunk : Gen.Timeouts.idleRestartPerChunk = true := by decide

end PynetVerif
