import PynetVerif.Model.Serve
import PynetVerif.Gen.Cancel
/-!
C08 — a request served meanwhile never blocks the operation the reactor is serving.

The C-GET / C-MOVE service classes call `send_c_store()` from the reactor thread, and `send_*()`
spins on `_is_paused`, which only `_serve_request` itself has set for them.  For every number of
such calls, every number of N-EVENT-REPORT requests served meanwhile in their own thread and every
interleaving, the spin loop is never met with the flag false, and `_serve_request` returns after a
fixed number of reactor steps — given that the side thread leaves the flag alone, which is read from
the source on every run.  With a side thread that writes the flag (the code before its repair) there
is a schedule after which no thread can ever take a step that changes anything.
-/
namespace PynetVerif
open Serve

namespace Serve

/-- inside the served section the flag is up -/
def Inv (s : St) : Prop :=
  match s.r with
  | .scp _ | .spin _ | .crit _ | .clrP => s.paused = true
  | _ => True

theorem inv_step (calls : Nat) (s : St) (w : Who) (h : Inv s) : Inv (step false calls s w) := by
  cases w with
  | reactor =>
    unfold step
    cases hr : s.r with
    | setP => simp [Inv]
    | scp k => cases k <;> simp_all [Inv]
    | spin k => simp only [Inv, hr] at h; simp [h, Inv]
    | crit k => simp_all [Inv]
    | clrP => simp [Inv]
    | done => simp_all [Inv]
  | side =>
    unfold step
    cases hs : s.s with
    | idle => by_cases hl : s.left = 0 <;> simp_all [Inv]
    | set => simpa [Inv] using h
    | scp => simpa [Inv] using h
    | clr => simpa [Inv] using h

theorem inv_run (calls : Nat) (sched : List Who) : ∀ s, Inv s → Inv (run false calls s sched) := by
  induction sched with
  | nil => intro s h; exact h
  | cons w rest ih => intro s h; exact ih _ (inv_step calls s w h)

theorem not_blocked_of_inv (s : St) (h : Inv s) : blocked s = false := by
  unfold blocked
  cases hr : s.r <;> simp_all [Inv]

theorem side_keeps_r (t : Bool) (calls : Nat) (s : St) : (step t calls s .side).r = s.r := by
  unfold step
  cases hs : s.s with
  | idle => by_cases hl : s.left = 0 <;> simp [hl]
  | set => simp
  | scp => simp
  | clr => simp

theorem reactor_progress (calls : Nat) (s : St) (h : Inv s) (hd : s.r ≠ .done) :
    measure calls (step false calls s .reactor).r + 1 = measure calls s.r := by
  unfold step
  cases hr : s.r with
  | setP => simp [measure]
  | scp k => cases k <;> simp [measure] <;> omega
  | spin k => simp only [Inv, hr] at h; simp [h, measure]
  | crit k => simp [measure]
  | clrP => simp [measure]
  | done => exact absurd hr hd

theorem measure_zero (calls : Nat) (r : RPc) (h : measure calls r = 0) : r = .done := by
  cases r <;> simp [measure] at h ⊢ <;> omega

theorem done_stays (t : Bool) (calls : Nat) (s : St) (w : Who) (h : s.r = .done) : (step t calls s w).r = .done := by
  cases w with
  | reactor => simp [step, h]
  | side => rw [side_keeps_r]; exact h

theorem terminates_gen (calls : Nat) (sched : List Who) : ∀ s, Inv s →
    measure calls s.r ≤ reactorSteps sched → (run false calls s sched).r = .done := by
  induction sched with
  | nil =>
    intro s _ h
    simp only [reactorSteps, List.filter_nil, List.length_nil, Nat.le_zero_eq] at h
    exact measure_zero calls _ h
  | cons w rest ih =>
    intro s hinv h
    show (run false calls (step false calls s w) rest).r = .done
    apply ih _ (inv_step calls s w hinv)
    cases w with
    | reactor =>
      have hrs : reactorSteps (Who.reactor :: rest) = reactorSteps rest + 1 := by simp [reactorSteps]
      by_cases hd : s.r = .done
      · rw [done_stays false calls s .reactor hd]; simp [measure]
      · have := reactor_progress calls s hinv hd
        omega
    | side =>
      have hrs : reactorSteps (Who.side :: rest) = reactorSteps rest := by simp [reactorSteps]
      rw [side_keeps_r]; omega

end Serve

/-- The side thread's `_serve_request` run leaves `_is_paused` alone (both writes stand under
`not isinstance(msg, N_EVENT_REPORT)`, N-EVENT-REPORT being the class served that way); the code
before the repair wrote it unconditionally. -/
theorem C08_serve_code :
    Serve.sideTouches Gen.Cancel.serveTry Gen.Cancel.pauseGuards Gen.Cancel.sideThread = false ∧
    Serve.sideTouches ["clear", "pause", "scp", "pause", "clear"] [] ["N_EVENT_REPORT"] = true := by decide

/-- **Never blocked**: for every number of `send_*()` calls of the handler, every number of requests
served meanwhile and every interleaving, the spin loop of a `send_*()` called from the reactor
thread is never met with the flag false. -/
theorem C08_serve_never_blocked (calls n : Nat) (sched : List Who) :
    blocked (run false calls (Serve.init n) sched) = false :=
  not_blocked_of_inv _ (inv_run calls sched _ (by simp [Serve.Inv, Serve.init]))

/-- **Returns**: whatever the other thread does in between, after `3 * calls + 3` steps of the
reactor thread `_serve_request` has returned. -/
theorem C08_serve_returns (calls n : Nat) (sched : List Who) (h : 3 * calls + 3 ≤ reactorSteps sched) :
    (run false calls (Serve.init n) sched).r = .done :=
  terminates_gen calls sched _ (by simp [Serve.Inv, Serve.init]) (by simpa [Serve.init, Serve.measure] using h)

/-- **The code before its repair**: one handler call, one N-EVENT-REPORT request.  After the
reactor has set the flag, the side thread runs to its end (and resets the flag); the handler's
`send_c_store()` then spins for ever — no step of any thread changes the state again. -/
theorem C08_serve_side_flag_neg :
    let s := run true 1 (Serve.init 1) [.reactor, .side, .side, .side, .side, .reactor]
    blocked s = true ∧ s.r = .spin 0 ∧ ∀ more : List Who, run true 1 s more = s := by
  refine ⟨by decide, by decide, ?_⟩
  intro more
  induction more with
  | nil => rfl
  | cons w rest ih =>
    show run true 1 (step true 1 _ w) rest = _
    have : step true 1 (run true 1 (Serve.init 1) [.reactor, .side, .side, .side, .side, .reactor]) w =
        run true 1 (Serve.init 1) [.reactor, .side, .side, .side, .side, .reactor] := by
      cases w <;> decide
    rw [this]; exact ih

-- the same schedule on the repaired code: not blocked, and three more reactor steps return
example : blocked (run false 1 (Serve.init 1) [.reactor, .side, .side, .side, .side, .reactor]) = false ∧
    (run false 1 (Serve.init 1) [.reactor, .side, .side, .side, .side, .reactor, .reactor, .reactor, .reactor, .reactor]).r = .done := by
  decide

end PynetVerif
