import PynetVerif.Model.Wake
import PynetVerif.Gen.Transport
/-!
C03 (continuation) — framing is independent of how the peer's bytes are grouped into TLS records, too.

`AssociationSocket.ready` decides whether the reactor reads a PDU; `select()` does not see bytes the TLS
layer has already decrypted.  For every sequence of complete PDUs and every grouping of their bytes into
records (`Model/Wake.lean`):

* `C03_no_pdu_stranded` — when `ready` says "nothing to read", nothing is left: no PDU sits unread in a
  buffer while the peer, which has said everything, waits (plain sockets, and TLS sockets whenever
  `ready` consults `pending()`);
* `C03_every_pdu_read` — after as many reactor iterations as there are PDUs, every one has been read;
* `C03_stranded_without_pending_neg` — a `ready` that does not consult `pending()` strands the second of
  two PDUs that share a record, for ever;
* `C03_ready_consults_pending_code` — the source fact: `ready` consults `pending()` for every
  `ssl.SSLSocket`, whichever side wrapped it (regenerated from transport.py), and
  `C03_every_pdu_read_as_coded`.
-/
namespace PynetVerif.Wake


/-- `take` delivers exactly `n` bytes when they are there and the fuel is adequate -/
theorem take_total (c : Cfg) : ∀ (fuel : Nat) (s : St) (recs : List Nat) (n : Nat),
    n ≤ total s → (c.tls = false → s.pend = 0) →
    2 * n ≤ fuel + (if 0 < s.pend then 1 else 0) →
    total (take c fuel s recs n).1 = total s - n ∧ (take c fuel s recs n).1.pdus = s.pdus ∧
      (c.tls = false → (take c fuel s recs n).1.pend = 0) := by
  intro fuel
  induction fuel with
  | zero =>
    intro s recs n hn hpl hf
    have : n = 0 := by split at hf <;> omega
    subst this
    exact ⟨by simp [take], rfl, hpl⟩
  | succ fuel ih =>
    intro s recs n hn hpl hf
    unfold take
    by_cases h0 : n = 0
    · subst h0
      exact ⟨by simp, by simp, by simpa using hpl⟩
    · simp only [h0, ↓reduceIte]
      by_cases htls : c.tls = true
      · -- TLS
        have hnf : ¬ (c.tls = false) := by simp [htls]
        simp only [htls, Bool.not_true, Bool.false_eq_true, ↓reduceIte]
        by_cases hpe : 0 < s.pend
        · simp only [hpe, ↓reduceIte]
          have hk : 1 ≤ min n s.pend := by omega
          have := ih { s with pend := s.pend - min n s.pend } recs (n - min n s.pend)
            (by unfold total at hn ⊢; simp only; omega) (fun h => absurd h hnf)
            (by simp only [hpe, ↓reduceIte] at hf; split <;> omega)
          refine ⟨?_, this.2.1, fun h => absurd h (by decide)⟩
          have h1 := this.1
          unfold total at h1 hn ⊢
          simp only at h1
          omega
        · simp only [hpe, ↓reduceIte]
          have hp0 : s.pend = 0 := by omega
          have hv : 0 < s.vis := by unfold total at hn; omega
          have hv0 : ¬ s.vis = 0 := by omega
          simp only [hv0, ↓reduceIte]
          have hr1 : 1 ≤ recSize recs s.vis ∧ recSize recs s.vis ≤ s.vis := by
            unfold recSize
            cases recs with
            | nil => simp; omega
            | cons x xs => simp; omega
          generalize recSize recs s.vis = r at hr1 ⊢
          have := ih { s with vis := s.vis - r, pend := s.pend + r } recs.tail n
            (by unfold total at hn ⊢; simp only; omega) (fun h => absurd h hnf)
            (by simp only [hpe, ↓reduceIte] at hf
                have : 0 < s.pend + r := by omega
                simp only [this, ↓reduceIte]; omega)
          refine ⟨?_, this.2.1, fun h => absurd h (by decide)⟩
          have h1 := this.1
          unfold total at h1 hn ⊢
          simp only at h1
          omega
      · -- plain socket
        have htf : c.tls = false := by simpa using htls
        have hp := hpl htf
        simp only [htf, Bool.not_false, ↓reduceIte]
        refine ⟨?_, by first | rfl | trivial, fun _ => by first | exact hp | simpa using hp⟩
        unfold total at hn ⊢
        simp only [hp, Nat.add_zero] at hn ⊢
        omega

theorem ready_of_pdus (c : Cfg) (s : St) (hw : WF c s) (hc : c.tls = false ∨ c.consultsPending = true)
    (p : Nat) (rest : List Nat) (hl : s.pdus = p :: rest) : ready c s = true := by
  cases hr : ready c s with
  | true => rfl
  | false =>
    have := no_stranding' c s hw hc hr
    rw [hl] at this
    cases this
where
  no_stranding' (c : Cfg) (s : St) (hw : WF c s) (hc : c.tls = false ∨ c.consultsPending = true)
      (hr : ready c s = false) : s.pdus = [] := by
    obtain ⟨ht, hp, hpl⟩ := hw
    have hv : s.vis = 0 := by
      unfold ready at hr
      simp only [Bool.or_eq_false_iff, decide_eq_false_iff_not, Nat.not_lt, Nat.le_zero_eq] at hr
      exact hr.1
    have hpe : s.pend = 0 := by
      cases htls : c.tls with
      | false => exact hpl htls
      | true =>
        have hcp : c.consultsPending = true := by
          rcases hc with h | h
          · rw [htls] at h; cases h
          · exact h
        unfold ready at hr
        simp only [htls, hcp, Bool.and_self, Bool.true_and, Bool.or_eq_false_iff, decide_eq_false_iff_not,
          Nat.not_lt, Nat.le_zero_eq] at hr
        exact hr.2
    cases hl : s.pdus with
    | nil => rfl
    | cons p rest =>
      have hpos := hp p (by simp [hl])
      unfold total at ht
      rw [hv, hpe, hl] at ht
      simp at ht
      omega

/-- one iteration consumes exactly the next PDU and keeps the state well formed -/
theorem iter_progress (c : Cfg) (s : St) (recs : List Nat) (hw : WF c s)
    (hc : c.tls = false ∨ c.consultsPending = true) (p : Nat) (rest : List Nat) (hl : s.pdus = p :: rest) :
    WF c (iter c s recs).1 ∧ (iter c s recs).1.pdus = rest := by
  have hr := ready_of_pdus c s hw hc p rest hl
  obtain ⟨ht, hp, hpl⟩ := hw
  unfold iter
  simp only [hr, ↓reduceIte, hl]
  have hsum : p ≤ total s := by rw [ht, hl]; simp
  have ht' := take_total c (2 * (p + s.vis + s.pend) + 2) s recs p hsum hpl (by split <;> omega)
  refine ⟨⟨?_, ?_, ?_⟩, by first | rfl | trivial⟩
  · show total { (take c _ s recs p).1 with pdus := rest } = rest.sum
    have : total { (take c (2 * (p + s.vis + s.pend) + 2) s recs p).1 with pdus := rest } =
        total (take c (2 * (p + s.vis + s.pend) + 2) s recs p).1 := rfl
    rw [this, ht'.1, ht, hl]
    simp
  · intro q hq
    exact hp q (by rw [hl]; simp [hq])
  · exact ht'.2.2

/-- **every PDU the peer wrote is read**, whatever the grouping into TLS records: after as many iterations as there
are PDUs none is left -/
theorem all_delivered (c : Cfg) (hc : c.tls = false ∨ c.consultsPending = true) :
    ∀ (n : Nat) (s : St) (recs : List Nat), WF c s → s.pdus.length = n → (iters c n s recs).pdus = [] := by
  intro n
  induction n with
  | zero => intro s recs _ hl; simpa [iters] using hl
  | succ n ih =>
    intro s recs hw hl
    cases hp : s.pdus with
    | nil => rw [hp] at hl; cases hl
    | cons p rest =>
      have := iter_progress c s recs hw hc p rest hp
      have hstep : iters c (n + 1) s recs = iters c n (iter c s recs).1 (iter c s recs).2 := rfl
      rw [hstep]
      exact ih _ _ this.1 (by rw [this.2]; rw [hp] at hl; simpa using hl)

/-- two PDUs in one TLS record, `ready` not consulting `pending()`: the second is never read -/
theorem stranded_neg :
    ∀ n, (iters ⟨true, false⟩ (n + 1) ⟨16, 0, [6, 10]⟩ [16]).pdus = [10] := by
  have stuck : ∀ n recs, (iters ⟨true, false⟩ n ⟨0, 10, [10]⟩ recs).pdus = [10] := by
    intro n
    induction n with
    | zero => intro recs; rfl
    | succ n ih => intro recs; simpa [iters, iter, ready] using ih recs
  intro n
  have h1 : iter ⟨true, false⟩ ⟨16, 0, [6, 10]⟩ [16] = (⟨0, 10, [10]⟩, []) := by decide
  simp only [iters, h1]
  exact stuck n []


end PynetVerif.Wake

namespace PynetVerif
open Wake

/-- when `ready` is false nothing is left to read (plain socket, or TLS with `pending()` consulted) -/
theorem C03_no_pdu_stranded (c : Cfg) (s : St) (hw : WF c s) (hc : c.tls = false ∨ c.consultsPending = true)
    (hr : ready c s = false) : s.pdus = [] :=
  ready_of_pdus.no_stranding' c s hw hc hr

/-- every PDU the peer wrote is read, whatever the grouping into records -/
theorem C03_every_pdu_read (c : Cfg) (hc : c.tls = false ∨ c.consultsPending = true) (s : St) (recs : List Nat)
    (hw : WF c s) : (iters c s.pdus.length s recs).pdus = [] :=
  all_delivered c hc s.pdus.length s recs hw rfl

/-- without `pending()`: two PDUs in one TLS record, the second is never read -/
theorem C03_stranded_without_pending_neg :
    WF ⟨true, false⟩ ⟨16, 0, [6, 10]⟩ ∧ ∀ n, (iters ⟨true, false⟩ (n + 1) ⟨16, 0, [6, 10]⟩ [16]).pdus = [10] :=
  ⟨by refine ⟨by decide, by decide, by decide⟩, stranded_neg⟩

/-- the source fact (regenerated from transport.py): the `pending()` clause of `ready` is guarded by
"the socket is an `ssl.SSLSocket`" and nothing narrower -/
theorem C03_ready_consults_pending_code :
    Gen.Transport.pendingGuard = "_HAS_SSL and isinstance(self.socket, ssl.SSLSocket)" ∧
    Gen.Transport.pendingReturn = "bool(ready) or bool(self.socket.pending())" := by
  decide

/-- the configuration the code realises on a TLS / plain socket -/
def codeCfgWake (tls : Bool) : Cfg :=
  ⟨tls, Gen.Transport.pendingGuard == "_HAS_SSL and isinstance(self.socket, ssl.SSLSocket)"⟩

theorem C03_every_pdu_read_as_coded (tls : Bool) (s : St) (recs : List Nat) (hw : WF (codeCfgWake tls) s) :
    (iters (codeCfgWake tls) s.pdus.length s recs).pdus = [] := by
  refine C03_every_pdu_read (codeCfgWake tls) (Or.inr ?_) s recs hw
  simp [codeCfgWake, C03_ready_consults_pending_code.1]

-- non-vacuity: three PDUs in two records on a TLS socket
example : WF ⟨true, true⟩ ⟨26, 0, [6, 10, 10]⟩ ∧ (iters ⟨true, true⟩ 3 ⟨26, 0, [6, 10, 10]⟩ [16, 10]).pdus = [] := by
  refine ⟨⟨by decide, by decide, by decide⟩, by decide⟩

end PynetVerif
