import PynetVerif.Model.Dul
import PynetVerif.Gen.Fsm
/-!
C05 — no schedule drives the provider into an undefined event; it returns to idle.

`Dul.run` is the reactor of dul.py at micro-step granularity (Model/Dul.lean); the check
interprets generated schedules in lockstep on the real reactor thread and on this model and compares
the state after every step.  What an action does comes from `Spec.Ps38.effects`, which C04 proves
equal to the executed code; the bookkeeping the model adds is proved equal to the executed code
here.

The full statement ("every dispatched pair is defined, for every interleaving") is FALSE of the
current code: the `_neg` theorems give concrete schedules — replayed on the real reactor by the
check — on which the thread dies.  They are races between the provider and the local association
thread (a primitive issued from a stale view of the provider's state) and the ARTIM
stop-after-expiry window; they are recorded as known findings.  What is proved for every state:
a transport-originated event can only be undefined in Sta1/Sta4, every action that leads to Sta1
sets the kill flag and notifies connection-close exactly once, and a dispatch can only kill the
thread in the three ways the model names.
-/
namespace PynetVerif
open Fsm Dul

/-- The model's queue bookkeeping is what the executed actions do (C04's exhaustive runs):
an action pops the provider queue / the received-PDU queue exactly when the model says so. -/
theorem C05_bookkeeping_is_code :
    Gen.Fsm.runs.all (fun r => match r.2 with
      | .ok effs _ =>
        (match lookup Spec.Ps38.table r.1.1 r.1.2.1 with
         | some a =>
           (effs.contains .popPrim == (popsPrim a || (a == .AA_1 && r.1.1 == 15))) &&
           (effs.contains .popPdu == popsPdu a)
         | none => false)
      | _ => true) = true := by decide +kernel

/-- PDU / invalid-PDU events are defined in every state except Sta1 (idle) and Sta4 (awaiting the
transport connection), and connection-closed in every state except Sta1. -/
theorem C05_transport_events_defined (e st : Nat) (hs : 1 ≤ st ∧ st ≤ 13) :
    (transportPdu e = true → st ≠ 1 → st ≠ 4 → (lookup Spec.Ps38.table e st).isSome = true) ∧
    (e = 17 → st ≠ 1 → (lookup Spec.Ps38.table e st).isSome = true) := by
  obtain ⟨h1, h2⟩ := hs
  have hT : ∀ e ∈ [3, 4, 6, 10, 12, 13, 16, 19], ∀ st ∈ [2, 3, 5, 6, 7, 8, 9, 10, 11, 12, 13],
      (lookup Spec.Ps38.table e st).isSome = true := by decide +kernel
  have h17 : ∀ st ∈ [2, 3, 4, 5, 6, 7, 8, 9, 10, 11, 12, 13],
      (lookup Spec.Ps38.table 17 st).isSome = true := by decide +kernel
  constructor
  · intro he n1 n4
    have hem : e ∈ [3, 4, 6, 10, 12, 13, 16, 19] := by
      simp only [transportPdu, Bool.or_eq_true, beq_iff_eq] at he
      simp only [List.mem_cons, List.not_mem_nil, or_false]; omega
    have hsm : st ∈ [2, 3, 5, 6, 7, 8, 9, 10, 11, 12, 13] := by
      simp only [List.mem_cons, List.not_mem_nil, or_false]; omega
    exact hT e hem st hsm
  · intro he n1
    subst he
    have hsm : st ∈ [2, 3, 4, 5, 6, 7, 8, 9, 10, 11, 12, 13] := by
      simp only [List.mem_cons, List.not_mem_nil, or_false]; omega
    exact h17 st hsm

theorem applyEff_dead (s : St) (f : Eff) : (applyEff s f).dead = s.dead := by
  unfold applyEff closeSock
  repeat' split
  all_goals rfl

theorem foldl_applyEff_dead (effs : List Eff) : ∀ s : St, (effs.foldl applyEff s).dead = s.dead := by
  induction effs with
  | nil => intro s; rfl
  | cons f fs ih => intro s; simp only [List.foldl_cons]; rw [ih, applyEff_dead]

theorem popInputs_dead (s : St) (a : Action) : (popInputs s a).dead = s.dead := by
  have h1 : ∀ t : St, (popPrimQ t a).dead = t.dead := by intro t; unfold popPrimQ; split <;> rfl
  have h2 : ∀ t : St, (popAbortQ t a).dead = t.dead := by
    intro t; unfold popAbortQ; split
    · split <;> rfl
    · rfl
  have h3 : ∀ t : St, (popPduQ t a).dead = t.dead := by intro t; unfold popPduQ; split <;> rfl
  unfold popInputs; rw [h3, h2, h1]

theorem popInputs_closes (s : St) (a : Action) : (popInputs s a).closes = s.closes := by
  have h1 : ∀ t : St, (popPrimQ t a).closes = t.closes := by intro t; unfold popPrimQ; split <;> rfl
  have h2 : ∀ t : St, (popAbortQ t a).closes = t.closes := by
    intro t; unfold popAbortQ; split
    · split <;> rfl
    · rfl
  have h3 : ∀ t : St, (popPduQ t a).closes = t.closes := by intro t; unfold popPduQ; split <;> rfl
  unfold popInputs; rw [h3, h2, h1]

/-- the normal path of an action never kills the thread -/
theorem act_dead (s : St) (a : Action) (e : Nat) : (act s a e).dead = s.dead := by
  unfold act
  simp only
  split <;> simp only [foldl_applyEff_dead, popInputs_dead]

/-- **The only ways a dispatch kills the reactor thread**: no table entry for (event, state)
(InvalidEventError), an action whose input queue is empty, or AA-1 meeting a non-abort primitive. -/
theorem C05_death_causes (s : St) (e : Nat) (hd : s.dead = false) (h : (dispatch s e).dead = true) :
    lookup Spec.Ps38.table e s.fsm = none ∨
    ∃ a, lookup Spec.Ps38.table e s.fsm = some a ∧ fatal s a = true := by
  unfold dispatch at h
  cases hl : lookup Spec.Ps38.table e s.fsm with
  | none => exact Or.inl rfl
  | some a =>
    refine Or.inr ⟨a, rfl, ?_⟩
    rw [hl] at h
    simp only at h
    by_cases hf : fatal s a = true
    · exact hf
    · have hff : fatal s a = false := by simpa using hf
      rw [hff] at h
      simp only [Bool.false_eq_true, ↓reduceIte] at h
      rw [act_dead, hd] at h
      exact absurd h (by simp)

/-- A transport-originated event (PDU, invalid PDU, connection closed) dispatched in any state
other than Sta1/Sta4 whose PDU is in the received-PDU queue never kills the thread, provided the
provider queue does not hold a stale non-abort primitive when AA-1 runs. -/
theorem C05_transport_event_safe (s : St) (e : Nat) (hd : s.dead = false)
    (hs : 1 ≤ s.fsm ∧ s.fsm ≤ 13) (h1 : s.fsm ≠ 1) (h4 : s.fsm ≠ 4)
    (he : transportPdu e = true ∨ e = 17) (hq : s.recvPdu ≠ []) (hp : s.provQ = []) :
    (dispatch s e).dead = false := by
  cases hdd : (dispatch s e).dead with
  | false => rfl
  | true =>
    exfalso
    rcases C05_death_causes s e hd hdd with hnone | ⟨a, ha, hfat⟩
    · have hdef := C05_transport_events_defined e s.fsm hs
      rcases he with he | he
      · have := hdef.1 he h1 h4; rw [hnone] at this; simp at this
      · have := hdef.2 he h1; rw [hnone] at this; simp at this
    · -- a table action reached by a transport event never pops the provider queue
      have hnp : ∀ e ∈ [3, 4, 6, 10, 12, 13, 16, 17, 19], ∀ st ∈ [2, 3, 4, 5, 6, 7, 8, 9, 10, 11, 12, 13],
          ∀ a, lookup Spec.Ps38.table e st = some a → popsPrim a = false := by decide +kernel
      have hem : e ∈ [3, 4, 6, 10, 12, 13, 16, 17, 19] := by
        rcases he with he | he
        · simp only [transportPdu, Bool.or_eq_true, beq_iff_eq] at he
          simp only [List.mem_cons, List.not_mem_nil, or_false]; omega
        · subst he; simp
      have hsm : s.fsm ∈ [2, 3, 4, 5, 6, 7, 8, 9, 10, 11, 12, 13] := by
        obtain ⟨a1, a2⟩ := hs
        simp only [List.mem_cons, List.not_mem_nil, or_false]; omega
      have hpp := hnp e hem s.fsm hsm a ha
      unfold fatal at hfat
      simp only [hpp, hp, Bool.false_and, Bool.false_or, Bool.and_false,
        Bool.or_false, Bool.false_eq_true] at hfat
      simp at hfat
      exact hq hfat.2

/-- Every action that brings the machine (back) to Sta1 sets the kill flag and counts exactly one
connection-close notification; no other action touches them. -/
theorem C05_sta1_closes (s : St) (a : Action) (e : Nat) :
    ((act s a e).fsm = 1 → (act s a e).kill = true) ∧
    (act s a e).closes = s.closes + (if (act s a e).fsm = 1 then 1 else 0) := by
  have hc : ∀ (effs : List Eff) (t : St), (effs.foldl applyEff t).closes = t.closes := by
    intro effs
    induction effs with
    | nil => intro t; rfl
    | cons f fs ih =>
      intro t; simp only [List.foldl_cons]; rw [ih]
      unfold applyEff closeSock
      repeat' split
      all_goals rfl
  have hp : (popInputs s a).closes = s.closes := popInputs_closes s a
  unfold act
  simp only
  constructor
  · intro h; simp_all
  · split <;> simp only [hc, hp] <;> split <;> simp_all

/-! ### The full statement is false of the current code: concrete schedules (replayed on the real
reactor by the check) on which the reactor thread dies. -/

/-- The association sends P-DATA after the provider has already reacted to an invalid PDU (AA-8,
Sta13): Evt9 has no entry in Sta13. -/
theorem C05_neg_pdata_after_invalid_pdu :
    (run initAcceptor [.a, .b, .env (.peer (.pdu 6 false)), .a, .b, .env (.local .accept), .a, .b,
      .env (.peer .invalid), .a, .b, .env (.local .pdata), .a, .b]).dead = true := by decide

/-- The local user requests release while the peer's release request has been processed by the
provider (Sta8) but not yet seen by the association: Evt11 has no entry in Sta8. -/
theorem C05_neg_release_collision_stale :
    (run initRequestor [.env (.local .assocRq), .a, .b, .a, .b, .env (.peer (.pdu 3 false)), .a, .b,
      .env (.peer (.pdu 12 false)), .a, .b, .env (.local .releaseRq), .a, .b]).dead = true := by decide

/-- ARTIM expires between the check at the top of the iteration and AE-6's `stop()`: the timer
stays "expired" after being stopped and Evt18 is then dispatched in Sta3. -/
theorem C05_neg_artim_expiry_after_stop :
    (run initAcceptor [.a, .b, .env (.peer (.pdu 6 false)), .a, .env .artimFire, .b, .a, .b]).dead = true := by
  decide

-- non-vacuity: a complete, clean association (accept, data, release) ends idle with kill set, alive
example : let s := run initAcceptor [.a, .b, .env (.peer (.pdu 6 false)), .a, .b, .env (.local .accept), .a, .b,
      .env (.peer (.pdu 10 false)), .a, .b, .env (.peer (.pdu 12 false)), .a, .b, .env (.local .releaseRp), .a, .b,
      .env (.peer .eof), .a, .b]
    s.fsm = 1 ∧ s.kill = true ∧ s.dead = false ∧ s.closes = 1 := by decide

end PynetVerif
