import PynetVerif.Model.Conform
import PynetVerif.Gen.Glue
import PynetVerif.Lemmas.Strip
/-!
C12 — association requests and responses pynetdicom sends are structurally conformant.

`Conform.buildRQ` is the model of `AE.associate` + `ServiceUser` + `A_ASSOCIATE_RQ.from_primitive`
as an item tree, `Conform.acceptedByApi` the model of the API's own validation,
`Conform.conformantRQ/AC` the property.  The tree ↔ bytes codec is C01's.  The wire tap of
`harness/props/c12.py` compares the real PDUs (parsed by an independent TLV walker) with
`buildRQ`/`buildAC` and evaluates the conformance predicates on them.
-/
namespace PynetVerif
open Conform

/-! ### context ids -/

theorem ids_length (n : Nat) : (ids n).length = n := by simp [ids]

theorem mem_ids {n x : Nat} : x ∈ ids n ↔ ∃ i, i < n ∧ x = 2 * i + 1 := by
  simp only [ids, List.mem_map, List.mem_range]
  constructor
  · rintro ⟨i, hi, rfl⟩; exact ⟨i, hi, rfl⟩
  · rintro ⟨i, hi, rfl⟩; exact ⟨i, hi, rfl⟩

theorem ids_nodup (n : Nat) : (ids n).Nodup := by
  unfold ids
  apply List.Pairwise.imp (R := fun a b => a < b)
  · intro a b h; exact Nat.ne_of_lt h
  · rw [List.pairwise_map]
    exact List.Pairwise.imp (fun h => by omega) List.pairwise_lt_range

/-- The ids `associate()` assigns to `n ≤ 128` requested contexts are 1, 3, …, 2n−1 in order:
distinct, odd and within 1–255 (with n = 128 the last id is exactly 255). -/
theorem C12_ids (n : Nat) (h : n ≤ 128) :
    (ids n).length = n ∧ (∀ i, i < n → (ids n)[i]? = some (2 * i + 1)) ∧ (ids n).Nodup ∧
      ∀ x ∈ ids n, x % 2 = 1 ∧ 1 ≤ x ∧ x ≤ 255 := by
  refine ⟨ids_length n, ?_, ids_nodup n, ?_⟩
  · intro i hi
    simp [ids, hi]
  · intro x hx
    obtain ⟨i, hi, rfl⟩ := mem_ids.mp hx
    omega

/-- … and the bound of 128 contexts is exactly what keeps them within one byte: the 129th id
would be 257. -/
theorem C12_ids_limit : (ids 128).getLast? = some 255 ∧ (ids 129).getLast? = some 257 := by
  decide

/-! ### helper lemmas -/

theorem pcsOf_ids (cs : List Ctx) : (pcsOf cs).map (·.id) = ids cs.length := by
  unfold pcsOf
  rw [List.map_map]
  have : ((fun p : Pc => p.id) ∘ fun (x : Nat × Ctx) => (⟨x.1, 0, [x.2.abstract], x.2.transfer⟩ : Pc)) = Prod.fst := by
    funext x; rfl
  rw [this]
  exact List.map_fst_zip (by simp [ids_length])

theorem pcsOf_length (cs : List Ctx) : (pcsOf cs).length = cs.length := by
  simp [pcsOf, List.length_zip, ids_length]

theorem mem_pcsOf {cs : List Ctx} {p : Pc} (h : p ∈ pcsOf cs) :
    ∃ c ∈ cs, p.abstract = [c.abstract] ∧ p.transfer = c.transfer ∧ p.result = 0 := by
  unfold pcsOf at h
  rw [List.mem_map] at h
  obtain ⟨⟨i, c⟩, hm, rfl⟩ := h
  exact ⟨c, (List.of_mem_zip hm).2, rfl, rfl, rfl⟩

theorem mem_extSubs {es : List Ext} {x : Sub} (h : x ∈ extSubs es) : ∃ e ∈ es, x = e.toSub := by
  unfold extSubs at h
  rw [List.mem_map] at h
  obtain ⟨e, he, rfl⟩ := h
  refine ⟨e, ?_, rfl⟩
  simp only [List.mem_append, List.mem_filter] at he
  rcases he with (((h | h) | h) | h) | h <;> exact h.1

theorem countP_extSubs_maxLength (es : List Ext) : (extSubs es).countP isMaxLength = 0 := by
  rw [List.countP_eq_zero]
  intro x hx
  obtain ⟨e, _, rfl⟩ := mem_extSubs hx
  cases e <;> simp [Ext.toSub, isMaxLength]

theorem countP_extSubs_implUid (es : List Ext) : (extSubs es).countP isImplUid = 0 := by
  rw [List.countP_eq_zero]
  intro x hx
  obtain ⟨e, _, rfl⟩ := mem_extSubs hx
  cases e <;> simp [Ext.toSub, isImplUid]

theorem userOk_userInfo (m : Nat) (u : Str) (v : Option Str) (es : List Ext) :
    userOk [userInfo m u v es] = true := by
  unfold userOk userInfo
  simp only [List.countP_append, countP_extSubs_maxLength, countP_extSubs_implUid]
  cases v <;> simp [List.countP_cons, isMaxLength, isImplUid]

/-- a title the API accepted gives a legal 16-byte field -/
theorem legalTitleField_pad16 (t : Str) (h : titleAccepted t = true) :
    legalTitleField (pad16 t) = true := by
  unfold titleAccepted at h
  simp only [Bool.and_eq_true, Bool.not_eq_true', List.isEmpty_eq_false_iff] at h
  obtain ⟨hne, hv⟩ := h
  unfold Policy.validAE at hv
  simp only [Bool.and_eq_true, Bool.not_eq_true', decide_eq_true_eq, List.all_eq_true,
    List.any_eq_false, List.contains_eq_mem, decide_eq_false_iff_not] at hv
  obtain ⟨⟨⟨hlen, hascii⟩, hctl⟩, hbs⟩ := hv
  have hchar : ∀ x ∈ t, legalAEChar x = true := by
    intro x hx
    have h1 := hascii x hx
    have h2 := hctl x hx
    have h3 : x ≠ 0x5c := fun e => hbs (e ▸ hx)
    unfold Policy.isControl at h2
    unfold legalAEChar
    simp only [Bool.or_eq_true, decide_eq_true_eq, beq_iff_eq, not_or, UInt8.not_lt] at h2
    simp only [Bool.and_eq_true, decide_eq_true_eq, bne_iff_ne, ne_eq]
    refine ⟨⟨h2.1, ?_⟩, h3⟩
    have hlt : x < 0x80 := h1
    rw [UInt8.le_iff_toNat_le]
    rw [UInt8.lt_iff_toNat_lt] at hlt
    have hne7f : x.toNat ≠ 0x7f := fun e => h2.2 (UInt8.toNat_inj.mp (by simpa using e))
    simp at hlt ⊢
    omega
  unfold legalTitleField pad16
  simp only [Bool.and_eq_true, beq_iff_eq, List.length_append, List.length_replicate,
    List.all_append, List.all_replicate, Bool.not_eq_true', List.all_eq_true]
  refine ⟨⟨by omega, ⟨hchar, ?_⟩⟩, ?_⟩
  · simp [legalAEChar]
  · -- not entirely spaces: otherwise str.strip() would have left nothing
    rw [Bool.eq_false_iff]
    intro hall
    simp only [Bool.and_eq_true, List.all_eq_true, beq_iff_eq] at hall
    apply hne
    have : t.all Policy.isPyWs = true := by
      rw [List.all_eq_true]
      intro x hx
      rw [hall.1 x hx]; decide
    show Policy.strip Policy.isPyWs t = []
    unfold Policy.strip Policy.lstrip
    rw [Policy.dropWhile_all t this]
    rfl

/-! ### the request -/

/-- Everything structural holds for every configuration the API accepts: 1–128 contexts with
the ids of `C12_ids`, one abstract and ≥ 1 transfer syntax each, exactly one application
context item, exactly one user-information item with exactly one maximum-length and one
implementation-class-UID sub-item — and both title fields are legal and not blank. -/
theorem C12_rq_structure (c : Cfg) (h : acceptedByApi c = true) :
    structureRQ (buildRQ c) = true ∧ legalTitleField (buildRQ c).called = true ∧
      legalTitleField (buildRQ c).calling = true := by
  unfold acceptedByApi at h
  simp only [Bool.and_eq_true, decide_eq_true_eq] at h
  obtain ⟨⟨⟨⟨⟨⟨⟨⟨hcg, hcd⟩, hn1⟩, hn2⟩, hctx⟩, _hmax⟩, _himpl⟩, _hver⟩, _hext⟩ := h
  refine ⟨?_, legalTitleField_pad16 _ hcd, legalTitleField_pad16 _ hcg⟩
  unfold structureRQ buildRQ
  simp only [Bool.and_eq_true, decide_eq_true_eq, pcsOf_length, pcsOf_ids, List.length_singleton,
    beq_self_eq_true, userOk_userInfo, and_true]
  refine ⟨⟨⟨⟨hn1, hn2⟩, ?_⟩, ids_nodup _⟩, ?_⟩
  · rw [List.all_eq_true]
    intro x hx
    obtain ⟨h1, h2, h3⟩ := (C12_ids c.contexts.length hn2).2.2.2 x hx
    simp [idOk, h1, h2, h3]
  · rw [List.all_eq_true]
    intro p hp
    obtain ⟨cx, hcx, ha, ht, _⟩ := mem_pcsOf hp
    have := List.all_eq_true.mp hctx cx hcx
    unfold ctxAccepted at this
    simp only [Bool.and_eq_true, Bool.not_eq_true', List.isEmpty_eq_false_iff] at this
    rw [ha, ht]
    simp only [List.length_singleton, beq_self_eq_true, Bool.true_and, decide_eq_true_eq]
    have : cx.transfer ≠ [] := this.1.2
    cases hts : cx.transfer with
    | nil => exact absurd hts this
    | cons a as => simp

/-- The full property for requests: if, in addition, the UIDs handed to the API are conformant
(the API itself only checks "1–64 characters" unless `ENFORCE_UID_CONFORMANCE` is set), the
A-ASSOCIATE-RQ put on the wire is conformant. -/
theorem C12_rq_conformant_partial (c : Cfg) (h : acceptedByApi c = true) (hu : uidsLegal c = true) :
    conformantRQ (buildRQ c) = true := by
  obtain ⟨hs, hcd, hcg⟩ := C12_rq_structure c h
  unfold conformantRQ
  rw [hs, Bool.true_and]
  unfold valuesOk
  rw [hcd, hcg]
  unfold acceptedByApi at h
  simp only [Bool.and_eq_true, decide_eq_true_eq] at h
  obtain ⟨⟨⟨_, himpl⟩, _⟩, _⟩ := h
  unfold uidsLegal at hu
  simp only [Bool.and_eq_true] at hu
  obtain ⟨hcx, hext⟩ := hu
  simp only [Bool.true_and, Bool.and_eq_true]
  refine ⟨⟨?_, ?_⟩, ?_⟩
  · simp only [buildRQ, List.all_cons, List.all_nil, Bool.and_true]; decide
  · rw [List.all_eq_true]
    intro p hp
    obtain ⟨cx, hcx', ha, ht, _⟩ := mem_pcsOf hp
    have := List.all_eq_true.mp hcx cx hcx'
    simp only [Bool.and_eq_true] at this
    rw [ha, ht]
    simp [this.1, this.2]
  · simp only [buildRQ, List.all_cons, List.all_nil, Bool.and_true]
    rw [List.all_eq_true]
    intro x hx
    unfold userInfo at hx
    simp only [List.mem_append, List.mem_cons, List.not_mem_nil, or_false] at hx
    rcases hx with ((hx | hx) | hx) | hx
    · subst hx; rfl
    · subst hx; exact himpl
    · cases hv : c.implVersion with
      | none => rw [hv] at hx; simp at hx
      | some v => rw [hv] at hx; simp at hx; subst hx; rfl
    · obtain ⟨e, he, rfl⟩ := mem_extSubs hx
      have := List.all_eq_true.mp hext e he
      cases e <;> simpa [Ext.toSub, subUidsLegal, extUidsLegal] using this

/-- Without that hypothesis the statement is false for the code: `associate()` accepts the
abstract syntax "1.2.03" (leading zero in a component) and puts it on the wire. -/
theorem C12_rq_conformant_neg :
    ∃ c : Cfg, acceptedByApi c = true ∧ conformantRQ (buildRQ c) = false := by
  refine ⟨⟨[0x41], [0x42], [⟨[0x31, 0x2e, 0x32, 0x2e, 0x30, 0x33], [[0x31, 0x2e, 0x32]]⟩], 16382,
    [0x31, 0x2e, 0x32], none, []⟩, ?_, ?_⟩ <;> decide

/-! ### the response -/

theorem foldl_dictInsert_nodup (l : List Pc) :
    ∀ acc : List Pc, ((acc ++ l).map (·.id)).Nodup → l.foldl dictInsert acc = acc ++ l := by
  induction l with
  | nil => intro acc _; simp
  | cons r rest ih =>
    intro acc h
    have hnot : acc.any (fun x => x.id == r.id) = false := by
      rw [List.any_eq_false]
      intro x hx
      simp only [beq_iff_eq]
      intro e
      rw [List.map_append, List.map_cons, List.nodup_append] at h
      exact h.2.2 x.id (List.mem_map_of_mem hx) r.id (List.mem_cons_self ..) e
    simp only [List.foldl_cons, dictInsert, hnot, Bool.false_eq_true, if_false]
    rw [ih (acc ++ [r]) (by simpa [List.append_assoc] using h)]
    simp [List.append_assoc]

theorem dictOf_nodup (l : List Pc) (h : (l.map (·.id)).Nodup) : dictOf l = l := by
  have := foldl_dictInsert_nodup l [] (by simpa using h)
  simpa [dictOf] using this

theorem insertPc_perm (p : Pc) (l : List Pc) : (insertPc p l).Perm (p :: l) := by
  induction l with
  | nil => exact List.Perm.refl _
  | cons q qs ih =>
    unfold insertPc
    split
    · exact List.Perm.refl _
    · exact (List.Perm.cons q ih).trans (List.Perm.swap p q qs)

theorem sortById_perm (l : List Pc) : (sortById l).Perm l := by
  induction l with
  | nil => exact List.Perm.refl _
  | cons a as ih =>
    show (insertPc a (sortById as)).Perm (a :: as)
    exact (insertPc_perm a _).trans (List.Perm.cons a ih)

theorem resultItems_perm (res : List Pc) (h : (res.map (·.id)).Nodup) : (resultItems res).Perm res := by
  unfold resultItems
  have hf : ((res.filter (·.result == 0)).map (·.id)).Nodup := by
    have hsub : List.Sublist ((res.filter (·.result == 0)).map (·.id)) (res.map (·.id)) :=
      List.Sublist.map _ List.filter_sublist
    exact List.Sublist.nodup hsub h
  rw [dictOf_nodup _ hf]
  have h1 := sortById_perm (res.filter (·.result == 0))
  have h2 : (res.filter (·.result == 0) ++ res.filter (·.result != 0)).Perm res := by
    have := List.filter_append_perm (fun p : Pc => p.result == 0) res
    simpa [bne] using this
  exact (List.Perm.append h1 (List.Perm.refl _)).trans h2

/-- The A-ASSOCIATE-AC: given the facts property C10 establishes about the negotiation result
(`h1`: one result per proposed id, in some order; `h2`: an accepted result carries exactly one,
legal, transfer syntax), titles of the request primitive that passed `set_ae` (`ht1`, `ht2`: the
primitive's setters guarantee it) and an acceptor user-information list with one maximum length
and one implementation class UID, the PDU `send_accept` assembles has exactly one result item per
proposed context and a transfer syntax on every accepted item.  Needs the proposed ids to be
distinct (`hn`), which holds for every request pynetdicom itself sends (`C12_rq_structure`). -/
theorem C12_ac_conformant_partial (rq : Assoc) (calledT callingT : Str) (res : List Pc) (user : List Sub)
    (ht1 : titleAccepted calledT = true) (ht2 : titleAccepted callingT = true)
    (hn : (rq.pcs.map (·.id)).Nodup)
    (h1 : (res.map (·.id)).Perm (rq.pcs.map (·.id)))
    (h2 : ∀ r ∈ res, r.result = 0 → r.transfer.length = 1 ∧ r.transfer.all legalUid = true)
    (hu : userOk [user] = true) (hv : user.all subUidsLegal = true) :
    conformantAC rq (buildAC calledT callingT res user) = true := by
  have hnr : (res.map (·.id)).Nodup := (List.Perm.nodup_iff h1).mpr hn
  have hp := resultItems_perm res hnr
  unfold conformantAC buildAC
  simp only [Bool.and_eq_true, decide_eq_true_eq, List.length_singleton, beq_self_eq_true,
    List.all_cons, List.all_nil, Bool.and_true, hu, hv, and_true, legalTitleField_pad16 _ ht1,
    legalTitleField_pad16 _ ht2, true_and]
  refine ⟨⟨(List.Perm.map _ hp).trans h1, ?_⟩, by decide⟩
  rw [List.all_eq_true]
  intro p hpm
  have hpr : p ∈ res := (List.Perm.mem_iff hp).mp hpm
  by_cases hr : p.result = 0
  · obtain ⟨a, b⟩ := h2 p hpr hr
    simp [a, b]
  · simp [hr]

/-- Without `hn` it fails for the code: two proposed contexts with the same id 1, both
acceptable, are answered with ONE result item (`_accepted_cx` is keyed by context id). -/
theorem C12_ac_conformant_neg :
    ∃ (rq : Assoc) (res : List Pc) (user : List Sub),
      (res.map (·.id)).Perm (rq.pcs.map (·.id)) ∧
      (∀ r ∈ res, r.result = 0 → r.transfer.length = 1 ∧ r.transfer.all legalUid = true) ∧
      userOk [user] = true ∧ conformantAC rq (buildAC [0x41] [0x42] res user) = false := by
  let ts : Str := [0x31, 0x2e, 0x32]
  refine ⟨⟨pad16 [0x41], pad16 [0x42], [applicationContextName],
      [⟨1, 0, [[0x31, 0x2e, 0x33]], [ts]⟩, ⟨1, 0, [[0x31, 0x2e, 0x34]], [ts]⟩], []⟩,
    [⟨1, 0, [], [ts]⟩, ⟨1, 0, [], [ts]⟩], [.maxLength 16382, .implUid ts], ?_, ?_, ?_, ?_⟩
  · exact List.Perm.refl _
  · intro r hr _
    simp only [List.mem_cons, List.not_mem_nil, or_false] at hr
    rcases hr with rfl | rfl <;> exact ⟨rfl, by decide⟩
  · decide
  · decide

/-- requests pynetdicom sends always satisfy `hn` -/
theorem C12_rq_ids_distinct (c : Cfg) : ((buildRQ c).pcs.map (·.id)).Nodup := by
  simp only [buildRQ, pcsOf_ids]
  exact ids_nodup _

/-! ### non-vacuity -/

private def ct : Str := [0x31, 0x2e, 0x32, 0x2e, 0x38, 0x34, 0x30]     -- "1.2.840"
private def demo : Cfg :=
  ⟨[0x53, 0x43, 0x55], [0x20, 0x41, 0x20], [⟨ct, [ct, [0x31, 0x2e, 0x32]]⟩, ⟨ct, [ct]⟩], 0, ct, some [0x56],
    [.sopCommon ct ct [ct], .userId 2 true, .role ct true false, .async 3 1, .sopExt ct [1, 2]]⟩

example : acceptedByApi demo = true ∧ uidsLegal demo = true := by decide
example : conformantRQ (buildRQ demo) = true := by decide
example : (buildRQ demo).user = [[.maxLength 0, .implUid ct, .implVersion [0x56], .role ct true false,
    .async 3 1, .userId 2 true, .sopExt ct [1, 2], .sopCommon ct ct [ct]]] := by decide
example : (buildRQ demo).pcs.map (·.id) = [1, 3] := by decide
-- 128 contexts are accepted and conformant, 129 are refused by the API
example : acceptedByApi { demo with contexts := List.replicate 128 ⟨ct, [ct]⟩ } = true := by decide +kernel
example : acceptedByApi { demo with contexts := List.replicate 129 ⟨ct, [ct]⟩ } = false := by decide +kernel
example : conformantRQ (buildRQ { demo with contexts := List.replicate 128 ⟨ct, [ct]⟩ }) = true := by decide +kernel
example : acceptedByApi { demo with contexts := [⟨ct, []⟩] } = false := by decide
example : acceptedByApi { demo with calling := [0x20, 0x20] } = false := by decide
example : legalUid [0x31, 0x2e, 0x30, 0x2e, 0x32] = true ∧ legalUid [0x31, 0x2e, 0x30, 0x32] = false ∧
    legalUid [0x31, 0x2e] = false ∧ legalUid [0x61] = false ∧ legalUid [] = false := by decide
-- an AC with accepted-first ordering is conformant for the request it answers
example : conformantAC (buildRQ demo)
    (buildAC [0x41] demo.calling [⟨1, 3, [], [ct]⟩, ⟨3, 0, [], [ct]⟩] [.maxLength 16382, .implUid ct]) = true := by
  decide
example : (buildAC [0x41] [0x42] [⟨1, 3, [], [ct]⟩, ⟨3, 0, [], [ct]⟩] []).pcs.map (·.id) = [3, 1] := by decide
-- the called title " A " of `demo` comes back as "A" + 15 spaces: not the bytes of the request's field
example : (buildAC [0x41] [0x42] [] []).called ≠ (buildRQ demo).called := by decide

/-- the hypotheses under which `C12_ids` describes `AE.associate`: every requested context is copied on its own,
the list that will be used (keyword or the AE's own) is validated unconditionally, and every copy is numbered
`2 * ii + 1` whatever id it arrived with (syntax facts regenerated from ae.py on every run) -/
theorem C12_associate_glue_is_code :
    Gen.Glue.copiedPerItem = true ∧ Gen.Glue.allValidated = true ∧ Gen.Glue.idsRenumbered = true := by decide

end PynetVerif
