import PynetVerif.Model.Bind
/-!
C13 (continuation) — the acceptance policy that is consulted is the one that was bound last.

The identity check of an association request is whatever handler is bound to `EVT_USER_ID` when the request arrives
(`ACSE._check_user_identity`).  `Model/Bind.lean` models `bind()` / `unbind()`; for every sequence of calls:

* `C13_bound_handler_spec` — the bound intervention handler is the one of the last `bind`, unless that very handler
  was unbound afterwards (then the default); 
* `C13_unbind_other_is_noop` — unbinding a handler that is not the bound one, anywhere in a sequence, changes
  nothing (a server whose policy handler is swapped - bind the replacement, unbind the stale one - keeps the
  replacement);
* `C13_unbind_any_resets_neg` — the variant that resets on any unbind loses the policy on exactly that sequence;
* `C13_notification_membership` — for notification events a handler stays bound until it is itself unbound.
-/
namespace PynetVerif.Bind


theorem specI_bind (h : Nat) (rest : List Op) :
    specI (.bind h :: rest) = if rest.any isBind then specI rest else if rest.contains (.unbind h) then 0 else h := rfl
theorem specI_unbind (h : Nat) (rest : List Op) : specI (.unbind h :: rest) = specI rest := rfl

theorem specI_no_bind : ∀ ops : List Op, ops.any isBind = false → specI ops = 0 := by
  intro ops
  induction ops with
  | nil => intro _; rfl
  | cons o rest ih =>
    intro h
    cases o with
    | bind k => simp [isBind] at h
    | unbind k =>
      rw [specI_unbind]
      exact ih (by simpa [isBind] using h)

theorem foldl_stepI : ∀ (ops : List Op) (cur : Nat),
    ops.foldl stepI cur =
      if ops.any isBind then specI ops else (if ops.contains (.unbind cur) then 0 else cur) := by
  intro ops
  induction ops with
  | nil => intro cur; simp
  | cons o rest ih =>
    intro cur
    cases o with
    | bind h =>
      simp only [List.foldl_cons, stepI, List.any_cons, isBind, Bool.true_or, ↓reduceIte]
      rw [ih h, specI_bind]
    | unbind h =>
      simp only [List.foldl_cons, stepI, List.any_cons, isBind, Bool.false_or]
      rw [ih]
      by_cases hb : rest.any isBind = true
      · simp only [hb, ↓reduceIte]
        rw [specI_unbind]
      · simp only [hb, Bool.false_eq_true, ↓reduceIte]
        by_cases hc : h = cur
        · subst hc
          simp
        · have hne : (Op.unbind cur == Op.unbind h) = false := by
            simp only [beq_eq_false_iff_ne, ne_eq, Op.unbind.injEq]
            exact fun e => hc e.symm
          have hc' : ¬ cur = h := fun e => hc e.symm
          simp [hc, hc']

/-- **which handler is bound** after any sequence of `bind` / `unbind` calls on an intervention event: the one of
the last `bind`, unless that very handler was unbound afterwards; unbinding any other handler never matters -/
theorem runI_eq_spec (ops : List Op) : runI ops = specI ops := by
  unfold runI
  rw [foldl_stepI]
  by_cases hb : ops.any isBind = true
  · simp [hb]
  · have hb' : ops.any isBind = false := by simpa using hb
    simp only [hb', Bool.false_eq_true, ↓reduceIte, specI_no_bind ops hb']
    split <;> rfl

/-- unbinding a handler that is not the bound one, anywhere in a sequence, changes nothing -/
theorem unbind_other_noop (a b : List Op) (h : Nat) (hne : runI a ≠ h) :
    runI (a ++ [.unbind h] ++ b) = runI (a ++ b) := by
  unfold runI at hne ⊢
  simp only [List.foldl_append, List.foldl_cons, List.foldl_nil, stepI]
  have : ¬ h = List.foldl stepI 0 a := fun e => hne e.symm
  simp [this]

/-- the variant that resets on ANY unbind (the slip): bind 1, bind 2, unbind 1 leaves the default, not 2 -/
def stepIslip (_cur : Nat) : Op → Nat
  | .bind h => h
  | .unbind _ => 0

theorem slip_neg : [Op.bind 1, .bind 2, .unbind 1].foldl stepIslip 0 = 0 ∧ specI [Op.bind 1, .bind 2, .unbind 1] = 2 := by
  decide

/-- notification events, one step: after `bind h` the handler is bound, after `unbind h` it is not, and a call that
names another handler does not change whether `h` is bound -/
theorem stepN_mem (l : List Nat) (h : Nat) (o : Op) :
    (h ∈ stepN l o) = (match o with
      | .bind k => if k = h then True else h ∈ l
      | .unbind k => if k = h then False else h ∈ l) := by
  cases o with
  | bind k =>
    by_cases hk : k = h
    · subst hk
      simp only [stepN, ↓reduceIte]
      split <;> simp_all
    · simp only [stepN, hk, ↓reduceIte]
      split
      · rfl
      · simp only [List.mem_append, List.mem_singleton, eq_iff_iff]
        constructor
        · rintro (x | x)
          · exact x
          · exact absurd x.symm hk
        · exact Or.inl
  | unbind k =>
    by_cases hk : k = h
    · subst hk
      simp [stepN]
    · simp only [stepN, hk, ↓reduceIte, List.mem_filter, bne_iff_ne, ne_eq, eq_iff_iff]
      exact ⟨fun x => x.1, fun x => ⟨x, fun e => hk e.symm⟩⟩

end PynetVerif.Bind

namespace PynetVerif
open PynetVerif.Bind

theorem C13_bound_handler_spec (ops : List Op) : runI ops = specI ops := runI_eq_spec ops

theorem C13_unbind_other_is_noop (a b : List Op) (h : Nat) (hne : runI a ≠ h) :
    runI (a ++ [.unbind h] ++ b) = runI (a ++ b) := unbind_other_noop a b h hne

theorem C13_unbind_any_resets_neg :
    [Op.bind 1, .bind 2, .unbind 1].foldl stepIslip 0 = 0 ∧ runI [Op.bind 1, .bind 2, .unbind 1] = 2 := by decide

theorem C13_notification_membership (l : List Nat) (h : Nat) (o : Op) :
    (h ∈ stepN l o) = (match o with
      | .bind k => if k = h then True else h ∈ l
      | .unbind k => if k = h then False else h ∈ l) := stepN_mem l h o

-- non-vacuity
example : runI [.bind 3, .unbind 4, .bind 5, .unbind 3, .unbind 9] = 5 ∧ runI [.bind 3, .unbind 3, .unbind 7] = 0 ∧
    runN [.bind 1, .bind 2, .bind 1, .unbind 1, .bind 3] = [2, 3] := by decide

end PynetVerif
