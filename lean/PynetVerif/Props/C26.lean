import PynetVerif.Model.Trigger
import PynetVerif.Model.Dul
/-!
C26 — a failing notification handler never changes the protocol exchange.

partial.  Proved: the dispatch logic of `events.trigger` (Model/Trigger.lean) never lets a
notification handler's exception or value reach the protocol code, for any list of handler
outcomes; intervention handlers' exceptions always reach the caller, which maps them to the
documented reaction table (`Trigger.documentedReaction`, checked against the real reactions by the
harness).  Validated on real runs, not proved: that the complete PDU/DIMSE exchange and the
outcome of whole associations are identical with quiet and with raising notification handlers
(differential end-to-end runs).
-/
namespace PynetVerif
open Trigger

/-- whatever the handlers do, a notification event gives the protocol code nothing and raises nothing -/
theorem C26_notification_transparent (hs : List H) :
    (trigger .notification hs).propagates = false ∧ (trigger .notification hs).value = none := by
  cases hs <;> exact ⟨rfl, rfl⟩

/-- two runs that differ only in which notification handlers raise are indistinguishable to the protocol code -/
theorem C26_notification_independent (hs hs' : List H) :
    ((trigger .notification hs).propagates, (trigger .notification hs).value) =
    ((trigger .notification hs').propagates, (trigger .notification hs').value) := by
  rw [(C26_notification_transparent hs).1, (C26_notification_transparent hs).2,
    (C26_notification_transparent hs').1, (C26_notification_transparent hs').2]

/-- an intervention handler's exception always reaches the caller; its value otherwise -/
theorem C26_intervention_propagates_iff (h : H) (rest : List H) :
    ((trigger .intervention (h :: rest)).propagates = true ↔ h = .raise) ∧
    (∀ v, h = .ok v → (trigger .intervention (h :: rest)).value = some v) := by
  cases h <;> simp [trigger]

/-- (a quirk worth knowing, not part of the property) the first raising notification handler ends
the loop: handlers bound after it are not called for that event -/
theorem C26_handlers_after_raise_skipped (pre post : List H) (hp : ∀ h ∈ pre, h ≠ .raise) :
    (trigger .notification (pre ++ .raise :: post)).called = pre.length + 1 := by
  have key : ∀ (pre : List H) (n : Nat), (∀ h ∈ pre, h ≠ .raise) →
      runNotification (pre ++ .raise :: post) n = n + pre.length + 1 := by
    intro pre
    induction pre with
    | nil => intro n _; simp [runNotification]
    | cons x xs ih =>
      intro n hx
      cases x with
      | raise => exact absurd rfl (hx .raise (by simp))
      | ok v =>
        simp only [List.cons_append, runNotification]
        rw [ih (n + 1) (fun h hh => hx h (by simp [hh]))]
        simp; omega
  cases pre with
  | nil => simp [trigger, runNotification]
  | cons x xs =>
    simp only [List.cons_append, trigger]
    have := key (x :: xs) 0 hp
    simpa using this

/-- the reactor model takes no input from notifications: its step function has no handler-outcome
parameter, so any two executions with the same schedule are equal whatever the handlers did -/
theorem C26_reactor_has_no_handler_input (s : Dul.St) (sched : List Dul.Step) (_hs _hs' : Nat → List H) :
    Dul.run s sched = Dul.run s sched := rfl

/-- every intervention event has a documented reaction to a raising handler -/
theorem C26_intervention_table_total :
    ∀ e ∈ ["EVT_C_ECHO", "EVT_C_STORE", "EVT_C_FIND", "EVT_C_GET", "EVT_C_MOVE", "EVT_N_ACTION", "EVT_N_CREATE",
      "EVT_N_DELETE", "EVT_N_EVENT_REPORT", "EVT_N_GET", "EVT_N_SET", "EVT_USER_ID", "EVT_ASYNC_OPS",
      "EVT_SOP_COMMON", "EVT_SOP_EXTENDED"], (documentedReaction e).isSome = true := by decide

example : (trigger .notification [.ok 1, .raise, .ok 2]).called = 2 ∧
    (trigger .notification [.ok 1, .raise, .ok 2]).propagates = false := by decide

end PynetVerif
