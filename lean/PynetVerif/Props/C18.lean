import PynetVerif.Model.Ctx
import PynetVerif.Gen.Glue
import PynetVerif.Lemmas.Ctx
/-!
C18 — outgoing messages use an accepted presentation context compatible with
their content.

Model: `Model/Ctx.lean` (`getValidContext`, `sendCtx`, `cStoreScp`), tied to
`Association._get_valid_context`, every `send_*` and `_c_store_scp` by
`harness/props/c18.py` (function-level differential run, in-process
`_c_store_scp`, loopback wire tap).

Statements quantify over every accepted set (any list, duplicates and even ids
included), every abstract/transfer syntax, role, context id and flag.
-/
namespace PynetVerif
open Ctx

/-- the transfer-syntax clause: nothing is asked (`''`, then the caller encodes
in the chosen context's syntax), or the syntax is the context's, or conversion
is allowed and both are known uncompressed syntaxes of the same byte order -/
def Ctx.TsOk (ts : Option Ts) (allowConv : Bool) (c : Cx) : Prop :=
  match ts with
  | none => allowConv = true
  | some t => t.uid = c.ts.uid ∨
      (allowConv = true ∧ t.known = true ∧ c.ts.known = true ∧
        t.compressed = false ∧ c.ts.compressed = false ∧ t.little = c.ts.little)

/-- **Soundness** of `_get_valid_context`: a returned context is one of the
accepted contexts, has the requested abstract syntax (or is the documented UPS
Push substitution), gives the local side the requested role, and its transfer
syntax is the requested one or a permitted conversion target. -/
theorem C18_sound (acc : List Cx) (ab : Nat) (ts : Option Ts) (role : Option Role)
    (ctxId : Option Nat) (conv : Bool) (c : Cx)
    (h : getValidContext acc ab ts role ctxId conv = some c) :
    c ∈ acc ∧ AbOk ab c ∧ roleOk role c = true ∧ TsOk ts conv c := by
  unfold getValidContext at h
  cases hs : scan ts (candidates acc ab role ctxId) with
  | found r =>
    rw [hs] at h
    simp only [Option.some.injEq] at h
    subst h
    obtain ⟨hm, hv⟩ := scan_found hs
    obtain ⟨h1, h2, h3⟩ := mem_candidates hm
    obtain ⟨t, ht, hu⟩ := verdict_ret hv
    refine ⟨h1, ?_, h2, ?_⟩
    · rcases h3 with h3 | h3
      · exact Or.inl h3.2
      · exact Or.inr ⟨h3.1, h3.2.1⟩
    · subst ht; exact Or.inl hu
  | raised => rw [hs] at h; cases h
  | done ms =>
    rw [hs] at h
    cases hc : conv with
    | false => simp [hc] at h
    | true =>
      simp only [hc, ↓reduceIte] at h
      cases ms with
      | nil => simp at h
      | cons m ms' =>
        simp only [List.head?_cons, Option.some.injEq] at h
        subst h
        obtain ⟨hm, hv⟩ := scan_done hs m List.mem_cons_self
        obtain ⟨h1, h2, h3⟩ := mem_candidates hm
        refine ⟨h1, ?_, h2, ?_⟩
        · rcases h3 with h3 | h3
          · exact Or.inl h3.2
          · exact Or.inr ⟨h3.1, h3.2.1⟩
        · rcases verdict_keep hv with h4 | ⟨t, ht, _, k1, k2, k3, k4, k5⟩
          · subst h4; rfl
          · subst ht; exact Or.inr ⟨rfl, k1, k2, k3, k4, k5⟩

/-- a context found through a given, accepted `context_id` is that context, unless
the UPS Push fallback substituted (the fallback searches all accepted contexts
whatever `context_id` says) -/
theorem C18_context_id_respected (acc : List Cx) (ab : Nat) (ts : Option Ts) (role : Option Role)
    (k : Nat) (conv : Bool) (c c' : Cx)
    (h : getValidContext acc ab ts role (some k) conv = some c) (hk : lookup acc k = some c')
    (hab : c.ab = ab ∨ ab ≠ upsPush) : c = c' := by
  have hmem : c ∈ candidates acc ab role (some k) := by
    unfold getValidContext at h
    cases hs : scan ts (candidates acc ab role (some k)) with
    | found r => rw [hs] at h; simp only [Option.some.injEq] at h; subst h; exact (scan_found hs).1
    | raised => rw [hs] at h; cases h
    | done ms =>
      rw [hs] at h
      cases conv with
      | false => simp at h
      | true =>
        cases ms with
        | nil => simp at h
        | cons m ms' =>
          simp only [↓reduceIte, List.head?_cons, Option.some.injEq] at h
          subst h; exact (scan_done hs m List.mem_cons_self).1
  obtain ⟨_, _, h3⟩ := mem_candidates hmem
  have hb : base acc (some k) = [c'] := by simp [base, hk]
  rcases h3 with h3 | h3
  · rw [hb] at h3; simpa using h3.1
  · exfalso
    rcases hab with hab | hab
    · exact h3.2.2 c' (by rw [hb]; simp) (by
        -- c.ab = ab and c is a UPS "other" class while ab = upsPush: impossible
        have : isUpsOther c.ab = true := h3.2.1
        rw [hab, h3.1] at this
        simp [isUpsOther, upsPush, upsPull, upsWatch, upsEvent, upsQuery] at this)
    · exact hab h3.1

/-- no transfer-syntax test raises: the asked syntax is a known transfer syntax and,
unless it is compressed (then only equality is tested), so is every accepted one -/
def Ctx.Known (ts : Option Ts) (acc : List Cx) : Prop :=
  ∀ t, ts = some t → t.known = true ∧ (t.compressed = true ∨ ∀ c ∈ acc, c.ts.known = true)

theorem noRaise_of_known {ts : Option Ts} {acc l : List Cx} (hk : Known ts acc)
    (hl : ∀ c ∈ l, c ∈ acc) : NoRaise ts l := by
  intro c hc hv
  obtain ⟨t, ht, h⟩ := verdict_raise hv
  obtain ⟨h1, h2⟩ := hk t ht
  rcases h with h | ⟨h3, h4⟩
  · rw [h1] at h; cases h
  · rcases h2 with h2 | h2
    · rw [h2] at h3; cases h3
    · rw [h2 c (hl c hc)] at h4; cases h4

/-- **Exact transfer syntax preferred** (full statement is false on the code, see
`C18_exact_preferred_neg`): when no syntax test raises and some candidate carries
exactly the asked transfer syntax, a context with exactly that syntax is returned —
with or without `allow_conversion`, and even if convertible contexts come first. -/
theorem C18_exact_preferred_partial (acc : List Cx) (ab : Nat) (t : Ts) (role : Option Role)
    (ctxId : Option Nat) (conv : Bool) (hk : Known (some t) acc)
    (hex : ∃ c ∈ candidates acc ab role ctxId, c.ts.uid = t.uid) :
    ∃ r, getValidContext acc ab (some t) role ctxId conv = some r ∧ r.ts.uid = t.uid := by
  obtain ⟨c, hc, hu⟩ := hex
  have hn : NoRaise (some t) (candidates acc ab role ctxId) :=
    noRaise_of_known hk (fun c hc => (mem_candidates hc).1)
  obtain ⟨r, hr⟩ := scan_exact hn ⟨c, hc, verdict_of_exact hu.symm⟩
  refine ⟨r, by simp [getValidContext, hr], ?_⟩
  obtain ⟨t', ht', hu'⟩ := verdict_ret (scan_found hr).2
  cases ht'; exact hu'.symm

/-- in `send_*` terms (no context id): an accepted context with the asked abstract
syntax, role and exactly the asked transfer syntax exists ⇒ such a context is chosen -/
theorem C18_exact_preferred_send_partial (acc : List Cx) (ab : Nat) (t : Ts) (role : Option Role)
    (conv : Bool) (hk : Known (some t) acc)
    (hex : ∃ c ∈ acc, c.ab = ab ∧ roleOk role c = true ∧ c.ts.uid = t.uid) :
    ∃ r, getValidContext acc ab (some t) role none conv = some r ∧ r.ts.uid = t.uid ∧ r.ab = ab := by
  obtain ⟨c, hc, hab, hr, hu⟩ := hex
  have hcand := candidates_of_mem hc hab hr
  obtain ⟨r, h1, h2⟩ := C18_exact_preferred_partial acc ab t role none conv hk ⟨c, hcand, hu⟩
  refine ⟨r, h1, h2, ?_⟩
  -- the abstract syntax is exact as well: the UPS fallback is not taken when a candidate matched
  have hm : r ∈ candidates acc ab role none := by
    unfold getValidContext at h1
    cases hs : scan (some t) (candidates acc ab role none) with
    | found r' => rw [hs] at h1; simp only [Option.some.injEq] at h1; subst h1; exact (scan_found hs).1
    | raised => rw [hs] at h1; cases h1
    | done ms =>
      exfalso
      have hn : NoRaise (some t) (candidates acc ab role none) :=
        noRaise_of_known hk (fun c hc => (mem_candidates hc).1)
      obtain ⟨r', hr'⟩ := scan_exact hn ⟨c, hcand, verdict_of_exact hu.symm⟩
      rw [hr'] at hs; cases hs
  rcases (mem_candidates hm).2.2 with h3 | h3
  · exact h3.2
  · exact absurd hab (h3.2.2 c ((mem_sortById c acc).mpr hc))

/-- the code violates the unrestricted statement: an accepted context whose transfer
syntax UID pydicom does not know (a private syntax without registered encoding),
placed before an exact match, makes `_get_valid_context` raise `ValueError` -/
theorem C18_exact_preferred_neg :
    ∃ (acc : List Cx) (ab : Nat) (t : Ts) (c : Cx), c ∈ acc ∧ c.ab = ab ∧ c.asScu = true ∧
      c.ts.uid = t.uid ∧ t.known = true ∧
      getValidContext acc ab (some t) (some .scu) none true = none :=
  ⟨[⟨1, 10, ⟨100, false, false, false⟩, true, false⟩, ⟨3, 10, ⟨20, true, false, true⟩, true, false⟩],
    10, ⟨20, true, false, true⟩, ⟨3, 10, ⟨20, true, false, true⟩, true, false⟩, by decide⟩

/-- **Completeness** (under `Known`; the unrestricted statement fails by the same
witness as above): if an accepted context has the asked abstract syntax and role
and a transfer syntax that is equal or a permitted conversion target, a context is
found (`send_*` path, no context id). -/
theorem C18_complete_partial (acc : List Cx) (ab : Nat) (ts : Option Ts) (role : Option Role)
    (conv : Bool) (hk : Known ts acc)
    (hex : ∃ c ∈ acc, c.ab = ab ∧ roleOk role c = true ∧ TsOk ts conv c) :
    getValidContext acc ab ts role none conv ≠ none := by
  obtain ⟨c, hc, hab, hr, hts⟩ := hex
  have hcand := candidates_of_mem hc hab hr
  have hn : NoRaise ts (candidates acc ab role none) :=
    noRaise_of_known hk (fun c hc => (mem_candidates hc).1)
  -- the verdict on c is `ret` or `keep`
  have hv : verdict ts c = .ret ∨ (verdict ts c = .keep ∧ conv = true) := by
    cases ts with
    | none => exact Or.inr ⟨rfl, hts⟩
    | some t =>
      rcases hts with h | ⟨h0, h1, h2, h3, h4, h5⟩
      · exact Or.inl (verdict_of_exact h)
      · by_cases he : t.uid = c.ts.uid
        · exact Or.inl (verdict_of_exact he)
        · right
          refine ⟨?_, h0⟩
          simp [verdict, he, h1, h2, h3, h4, h5]
  unfold getValidContext
  rcases hv with hv | ⟨hv, hconv⟩
  · obtain ⟨r, hr⟩ := scan_exact hn ⟨c, hcand, hv⟩
    simp [hr]
  · rcases scan_keep hn ⟨c, hcand, hv⟩ with ⟨r, hr⟩ | ⟨m, ms, hr⟩
    · simp [hr]
    · simp [hr, hconv]

/-- completeness of the UPS Push substitution: no accepted context is UPS Push, one
of the other four UPS classes is accepted with the role ⇒ it is found -/
theorem C18_complete_ups_partial (acc : List Cx) (ts : Option Ts) (role : Option Role)
    (conv : Bool) (hk : Known ts acc) (hno : ∀ c ∈ acc, c.ab ≠ upsPush)
    (hex : ∃ c ∈ acc, isUpsOther c.ab = true ∧ roleOk role c = true ∧ TsOk ts conv c) :
    getValidContext acc upsPush ts role none conv ≠ none := by
  obtain ⟨c, hc, hu, hr, hts⟩ := hex
  have hcand : c ∈ candidates acc upsPush role none :=
    candidates_of_ups hc hu hr (fun b hb => hno b (mem_base hb))
  have hn : NoRaise ts (candidates acc upsPush role none) :=
    noRaise_of_known hk (fun c hc => (mem_candidates hc).1)
  have hv : verdict ts c = .ret ∨ (verdict ts c = .keep ∧ conv = true) := by
    cases ts with
    | none => exact Or.inr ⟨rfl, hts⟩
    | some t =>
      rcases hts with h | ⟨h0, h1, h2, h3, h4, h5⟩
      · exact Or.inl (verdict_of_exact h)
      · by_cases he : t.uid = c.ts.uid
        · exact Or.inl (verdict_of_exact he)
        · exact Or.inr ⟨by simp [verdict, he, h1, h2, h3, h4, h5], h0⟩
  unfold getValidContext
  rcases hv with hv | ⟨hv, hconv⟩
  · obtain ⟨r, hr⟩ := scan_exact hn ⟨c, hcand, hv⟩
    simp [hr]
  · rcases scan_keep hn ⟨c, hcand, hv⟩ with ⟨r, hr⟩ | ⟨m, ms, hr⟩
    · simp [hr]
    · simp [hr, hconv]

/-- the UPS substitution is only used when no accepted context has the abstract
syntax itself (`send_*` path) -/
theorem C18_abstract_exact_preferred (acc : List Cx) (ab : Nat) (ts : Option Ts) (role : Option Role)
    (conv : Bool) (r : Cx) (h : getValidContext acc ab ts role none conv = some r)
    (hex : ∃ c ∈ acc, c.ab = ab) : r.ab = ab := by
  have hm : r ∈ candidates acc ab role none := by
    unfold getValidContext at h
    cases hs : scan ts (candidates acc ab role none) with
    | found r' => rw [hs] at h; simp only [Option.some.injEq] at h; subst h; exact (scan_found hs).1
    | raised => rw [hs] at h; cases h
    | done ms =>
      rw [hs] at h
      cases conv with
      | false => simp at h
      | true =>
        cases ms with
        | nil => simp at h
        | cons m ms' =>
          simp only [↓reduceIte, List.head?_cons, Option.some.injEq] at h
          subst h; exact (scan_done hs m List.mem_cons_self).1
  obtain ⟨c, hc, hab⟩ := hex
  rcases (mem_candidates hm).2.2 with h3 | h3
  · exact h3.2
  · exact absurd hab (h3.2.2 c ((mem_sortById c acc).mpr hc))

/-! ### the `send_*` methods -/

/-- every `send_*` request that selects its context through `_get_valid_context`
(all but `send_c_cancel(context_id=…)`) is handed to `dimse.send_msg` with the id
of an accepted context that satisfies the clauses of the method's own query. -/
theorem C18_send_accepted_partial (acc : List Cx) (op : SendOp) (k : Nat)
    (hop : ∀ j, op ≠ .cCancelId j) (h : sendCtx acc op = some k) :
    ∃ c ab ts role conv, op.query = some (ab, ts, role, conv) ∧ c ∈ acc ∧ c.id = k ∧
      AbOk ab c ∧ roleOk role c = true ∧ TsOk ts conv c := by
  have hsel : ∃ c, sendSelect acc op = some c ∧ c.id = k := by
    cases op with
    | cCancelId j => exact absurd rfl (hop j)
    | _ =>
      simp only [sendCtx, Option.map_eq_some_iff] at h
      exact h
  obtain ⟨c, hc, hid⟩ := hsel
  unfold sendSelect at hc
  split at hc
  · cases hc
  cases hq : op.query with
  | none => rw [hq] at hc; cases hc
  | some q =>
    obtain ⟨ab, ts, role, conv⟩ := q
    rw [hq] at hc
    obtain ⟨h1, h2, h3, h4⟩ := C18_sound acc ab ts role none conv c hc
    exact ⟨c, ab, ts, role, conv, rfl, h1, hid, h2, h3, h4⟩

/-- all user-level senders require the SCU role except N-EVENT-REPORT (no role
filter) — the role each method asks for, as a checked table -/
theorem C18_send_roles :
    (∀ (op : SendOp) ab ts role conv, op.query = some (ab, ts, role, conv) →
      (role = some Role.scu ∨ (role = none ∧ ∃ c, op = SendOp.nEventReport c))) ∧
    (∀ (op : SendOp) ab ts role conv, op.query = some (ab, ts, role, conv) →
      (ts = none ∧ conv = true) ∨ ∃ s t ch, op = SendOp.cStore s t ch ∧ ts = some t ∧ conv = !ch) := by
  constructor
  · intro op ab ts role conv h
    cases op <;> simp [SendOp.query] at h <;> simp [h]
  · intro op ab ts role conv h
    cases op with
    | cStore s t ch =>
      simp only [SendOp.query, Option.some.injEq, Prod.mk.injEq] at h
      obtain ⟨_, h2, _, h4⟩ := h
      exact Or.inr ⟨s, t, ch, rfl, h2.symm, h4.symm⟩
    | _ => simp [SendOp.query] at h <;> simp [h]

/-- `send_c_store`'s consistency step: whenever the data set's own encoding is known
and the call does not fail, the transfer syntax the context is selected for has
exactly the data set's (VR, byte order) encoding — the file meta's syntax is only
trusted when it agrees. -/
theorem C18_store_query_matches_dataset (tsEnc : Bool × Bool) (i l : Bool) (e : Bool × Bool)
    (h : (storeEffTs tsEnc (some i, some l)).enc tsEnc = some e) : e = (i, l) := by
  obtain ⟨a, b⟩ := tsEnc
  cases a <;> cases b <;> cases i <;> cases l <;> simp [storeEffTs, EffTs.enc] at h <;> simp [h]

/-- `send_c_cancel(msg_id, context_id=k)` sends on `k` without any check: a DIMSE
message on a context that was not accepted. -/
theorem C18_send_cancel_id_neg :
    ∃ (acc : List Cx) (k : Nat), sendCtx acc (.cCancelId k) = some k ∧ k ∉ ids acc :=
  ⟨[⟨1, 10, ⟨20, true, false, true⟩, true, false⟩], 99, by decide⟩

/-! ### C-STORE sub-operation responses (`_c_store_scp`, C-GET SCU) -/

/-- a response to a C-STORE sub-operation goes on a context that was not accepted exactly when
the request's id is accepted, no valid context was found and context id 1 is not accepted
(`g`: whether the code first rejects unaccepted ids, `Gen.Glue.subStoreRejectsUnaccepted`; with
`g = true` a request on an unaccepted id gets no response at all, C19_substore) -/
theorem C18_substore_rsp_partial (g : Bool) (acc : List Cx) (reqCtx ab k : Nat)
    (hk : (cStoreScp g acc reqCtx ab).rspCtx = some k) :
    k ∈ ids acc ↔ ((cStoreScp g acc reqCtx ab).handler ≠ none ∨ 1 ∈ ids acc) := by
  unfold cStoreScp at hk ⊢
  split at hk
  · simp at hk
  · rename_i hgd
    simp only [hgd, Bool.false_eq_true, ↓reduceIte]
    cases h : getValidContext acc ab none (some .scp) (some reqCtx) true with
    | none =>
      rw [h] at hk
      simp only [Option.some.injEq] at hk
      subst hk
      simp
    | some c =>
      rw [h] at hk
      simp only [Option.some.injEq] at hk
      subst hk
      have := (C18_sound _ _ _ _ _ _ _ h).1
      simp only [ne_eq, reduceCtorEq, not_false_eq_true, true_or, iff_true]
      exact List.mem_map.mpr ⟨c, this, rfl⟩

/-- when the handler path is taken, the response travels on the accepted context
the handler saw, which has the request's SOP class and the SCP role -/
theorem C18_substore_handler_ctx (g : Bool) (acc : List Cx) (reqCtx ab : Nat) (c : Cx)
    (h : (cStoreScp g acc reqCtx ab).handler = some c) :
    c ∈ acc ∧ AbOk ab c ∧ c.asScp = true ∧ (cStoreScp g acc reqCtx ab).rspCtx = some c.id ∧
      (cStoreScp g acc reqCtx ab).refused = false := by
  unfold cStoreScp at h ⊢
  split at h
  · simp at h
  · rename_i hgd
    simp only [hgd, Bool.false_eq_true, ↓reduceIte]
    cases hg : getValidContext acc ab none (some .scp) (some reqCtx) true with
    | none => rw [hg] at h; simp at h
    | some c' =>
      rw [hg] at h
      simp only [Option.some.injEq] at h
      subst h
      obtain ⟨h1, h2, h3, _⟩ := C18_sound _ _ _ _ _ _ _ hg
      exact ⟨h1, h2, h3, rfl, rfl⟩

/-- the code violates the property here (with or without the test on the id): context 3 alone is
accepted (for CT, SCP role), a C-STORE sub-operation for another SOP class arrives on context 3, and
the 0x0122 response is sent on context 1, which was never accepted -/
theorem C18_substore_rsp_neg (g : Bool) :
    ∃ (acc : List Cx) (reqCtx ab : Nat), reqCtx ∈ ids acc ∧
      (cStoreScp g acc reqCtx ab).rspCtx = some 1 ∧ 1 ∉ ids acc :=
  ⟨[⟨3, 10, ⟨20, true, false, true⟩, false, true⟩], 3, 11, by cases g <;> decide⟩

/-- and when context 1 *is* accepted, the refusal still travels on a context whose
abstract syntax is not the message's SOP class (and that may lack the SCP role) -/
theorem C18_substore_rsp_wrong_context_neg (g : Bool) :
    ∃ (acc : List Cx) (reqCtx ab : Nat) (c1 : Cx), lookup acc 1 = some c1 ∧ reqCtx ∈ ids acc ∧
      (cStoreScp g acc reqCtx ab).rspCtx = some 1 ∧ c1.ab ≠ ab ∧ c1.asScp = false :=
  ⟨[⟨1, 6, ⟨20, true, false, true⟩, true, false⟩, ⟨3, 10, ⟨20, true, false, true⟩, false, true⟩],
    3, 11, ⟨1, 6, ⟨20, true, false, true⟩, true, false⟩, by cases g <;> decide⟩

-- non-vacuity: the hypotheses are satisfiable and the functions do real work
example :
    let le : Ts := ⟨20, true, false, true⟩      -- Implicit VR LE
    let ex : Ts := ⟨21, true, false, true⟩      -- Explicit VR LE
    let be : Ts := ⟨22, true, false, false⟩     -- Explicit VR BE
    let jp : Ts := ⟨23, true, true, true⟩       -- JPEG baseline
    let acc : List Cx := [⟨5, 10, jp, true, false⟩, ⟨1, 10, be, true, false⟩, ⟨3, 10, ex, true, true⟩,
      ⟨7, upsWatch, le, true, false⟩, ⟨9, 11, le, false, true⟩]
    -- exact match wins over the earlier convertible context
    (getValidContext acc 10 (some ex) (some .scu) none true).map (·.id) = some 3 ∧
    -- conversion: LE → the first uncompressed LE context; BE is skipped, JPEG is skipped
    (getValidContext acc 10 (some le) (some .scu) none true).map (·.id) = some 3 ∧
    -- no conversion allowed
    getValidContext acc 10 (some le) (some .scu) none false = none ∧
    -- compressed needs an exact match
    (getValidContext acc 10 (some jp) (some .scu) none true).map (·.id) = some 5 ∧
    -- no syntax asked: first by context id
    (getValidContext acc 10 none (some .scu) none true).map (·.id) = some 1 ∧
    -- role filter
    (getValidContext acc 10 none (some .scp) none true).map (·.id) = some 3 ∧
    getValidContext acc 11 none (some .scu) none true = none ∧
    -- UPS Push substitution
    (getValidContext acc upsPush none (some .scu) none true).map (·.id) = some 7 ∧
    Known (some ex) acc ∧
    (cStoreScp true acc 9 11).handler.map (·.id) = some 9 ∧
    -- an unaccepted id: aborted by the code as it is, fallen back to all accepted contexts before the repair
    (cStoreScp true acc 11 11).aborted = true ∧
    (cStoreScp false acc 11 11).handler.map (·.id) = some 9 := by
  refine ⟨by decide, by decide, by decide, by decide, by decide, by decide, by decide, by decide, ?_,
    by decide, by decide, by decide⟩
  intro t ht
  cases ht
  exact ⟨rfl, Or.inr (by decide)⟩

/-- every data set / identifier / attribute list the SCU calls send is encoded with the three flags of the
ACCEPTED CONTEXT's transfer syntax (one variable, last assigned `context.transfer_syntax[0]`) — never with the
data set's own label.  Syntax fact regenerated from association.py on every run. -/
theorem C18_encoded_in_context_syntax :
    Gen.Glue.encodeSites.all (·.2) = true ∧ Gen.Glue.encodeSites.length = 8 ∧
    ("send_c_store", true) ∈ Gen.Glue.encodeSites := by decide

end PynetVerif
