import PynetVerif.Model.Deliver
import PynetVerif.Props.C16
/-!
C25 — datasets arrive exactly as sent, for every transfer syntax and storage mode.

partial: what is proved is the BYTE transport and storage — that the bytes the sender's encoder
produced are the bytes every accessor on the receiving side is built from, for every data set,
every maximum PDU size, every grouping of fragments into PDUs, in-memory and chunked receive,
stream and chunked (file) send.  pydicom's encoder/decoder and zlib are not modelled: that a
dataset decoded from those bytes equals the original is observed by the check (generated
datasets, four transfer syntaxes), not proved.
-/
namespace PynetVerif
open Deliver

theorem rdLe32_le32 (n : Nat) (h : n < 4294967296) : rdLe32 (le32 n) = n := by
  simp only [le32, rdLe32]
  have e : ∀ x : Nat, (UInt8.ofNat x).toNat = x % 256 := by intro x; simp [UInt8.toNat_ofNat']
  simp only [e]
  omega

theorem preamble_length : preamble.length = 132 := by simp [preamble]

/-- the offset computed from the file's own group-length field is where the data set starts -/
theorem drop_header (rest ds : Bytes) (h : rest.length < 4294967296) :
    (preamble ++ fileMeta rest ++ ds).drop (144 + rdLe32 (((preamble ++ fileMeta rest ++ ds).drop 140).take 4)) = ds := by
  have h140 : ((preamble ++ fileMeta rest ++ ds).drop 140).take 4 = le32 rest.length := by
    simp [preamble, fileMeta, le32, List.replicate]
  rw [h140, rdLe32_le32 _ h]
  have hl : (preamble ++ fileMeta rest).length = 144 + rest.length := by
    simp [preamble, fileMeta, le32]; omega
  rw [← hl, List.drop_left]

/-- **Raw bytes, both storage modes**: whatever the fragmentation, `encoded_dataset(False)` is the
concatenation of the data-set fragments in arrival order -/
theorem C25_encoded_dataset (mode : Mode) (metaRest evMeta : Bytes) (frags : List Bytes)
    (h : metaRest.length < 4294967296) :
    encodedDataset (store mode metaRest frags) evMeta false = frags.flatten := by
  cases mode with
  | memory => simp [store, encodedDataset]
  | chunked =>
    simp only [store, encodedDataset, List.isEmpty_nil, ↓reduceIte, Bool.false_eq_true]
    exact drop_header metaRest frags.flatten h

/-- the decoded accessor reads the same bytes -/
theorem C25_dataset_source (mode : Mode) (metaRest : Bytes) (frags : List Bytes)
    (h : metaRest.length < 4294967296) :
    datasetSource (store mode metaRest frags) = frags.flatten := by
  cases mode with
  | memory => simp [store, datasetSource]
  | chunked => simp only [store, datasetSource]; exact drop_header metaRest frags.flatten h

/-- the chunked-receive file is preamble, "DICM", file meta, then exactly the data-set bytes; and
`encoded_dataset(True)` returns that file / the same layout built from the event's file meta -/
theorem C25_file_layout (metaRest evMeta : Bytes) (frags : List Bytes) :
    (store .chunked metaRest frags).file = some (preamble ++ fileMeta metaRest ++ frags.flatten) ∧
    encodedDataset (store .chunked metaRest frags) evMeta true = preamble ++ fileMeta metaRest ++ frags.flatten ∧
    encodedDataset (store .memory metaRest frags) evMeta true = preamble ++ evMeta ++ frags.flatten := by
  simp [store, encodedDataset]

/-- chunked SEND: the bytes put on the wire for a DICOM file are the file's bytes after the meta group -/
theorem C25_chunked_send (rest ds : Bytes) (h : rest.length < 4294967296) :
    chunkedSendBytes (preamble ++ fileMeta rest ++ ds) = ds := drop_header rest ds h

/-- **End to end (bytes)**: for every data-set parameter shape of the sender (stream or file-backed),
every context id, command set and maximum PDU length, and every grouping of the PDVs into P-DATA
PDUs, the receiver reassembles exactly the sender's bytes (C16_receivable) and every accessor is
built from them, in both storage modes. -/
theorem C25_bytes (noDS : Bytes → Option Bool) (s : Dimse.DsShape) (ctx : Nat) (cmd : Bytes) (max : Nat)
    (hm : max = 0 ∨ 7 ≤ max) (hc : cmd ≠ []) (hs : s.ok)
    (hcodec : noDS cmd = some (!(Dimse.primToMsg s.toPrim).hasDS))
    (g : List (List Dimse.PDV)) (hg : g.flatten = (Dimse.encodeMsgFull ctx cmd (Dimse.primToMsg s.toPrim) max).1)
    (hne : ∀ x ∈ g, x ≠ []) (mode : Mode) (metaRest evMeta : Bytes) (hmr : metaRest.length < 4294967296)
    (frags : List Bytes) (hf : frags.flatten = (Dimse.decodeMsg noDS {} g).1.ds) :
    encodedDataset (store mode metaRest frags) evMeta false = s.bytes ∧
    datasetSource (store mode metaRest frags) = s.bytes := by
  have hr := C16_receivable noDS s ctx cmd max hm hc hs hcodec g hg hne
  rw [hr] at hf
  simp only at hf
  rw [C25_encoded_dataset mode metaRest evMeta frags hmr, C25_dataset_source mode metaRest frags hmr, hf]
  exact ⟨rfl, rfl⟩

example : encodedDataset (store .chunked [1, 2, 3] [[9, 8], [7]]) [] false = [9, 8, 7] ∧
    encodedDataset (store .memory [1, 2, 3] [[9, 8], [7]]) [5] true = preamble ++ [5] ++ [9, 8, 7] := by decide

end PynetVerif
