import PynetVerif.Model.Cancel
import PynetVerif.Gen.Cancel
/-!
C23 — a C-CANCEL reaches exactly the operation it names.

`Cancel.*` is the model of `dimse.cancel_req` as maintained by
`DIMSEServiceProvider.receive_primitive`, `ServiceClass.is_cancelled` and the two
clearing statements of `Association._serve_request` (tied to the real methods by
the differential run of `harness/props/c23.py`); `Gen.Cancel.*` is what the
translator reads in the source on every run (the bound of the guard and where
the clearing statements stand).

Event sequences are arbitrary lists — not only well-bracketed ones — so the
theorems also cover a second `_serve_request` running concurrently (the
N-EVENT-REPORT thread of `receive_primitive`, should it clear the store) and queries made outside any
operation.
-/
namespace PynetVerif
open Cancel

/-! ### helper lemmas (not property theorems) -/

/-- `pre` contains a cancel for `id` that was neither cleared nor consumed afterwards -/
def Justified (pre : List Ev) (id : Nat) : Prop :=
  ∃ a b, pre = a ++ Ev.recvCancel id :: b ∧ keeps id b

theorem justified_snoc (pre : List Ev) (id : Nat) (e : Ev) (h : Justified pre id)
    (h1 : e.clears = false) (h2 : e ≠ .query id) : Justified (pre ++ [e]) id := by
  obtain ⟨a, b, rfl, hk⟩ := h
  refine ⟨a, b ++ [e], by simp, ?_⟩
  intro e' he'
  rcases List.mem_append.mp he' with h' | h'
  · exact hk e' h'
  · have : e' = e := by simpa using h'
    subst this; exact ⟨h1, h2⟩

theorem mem_dictSet (keys : List Nat) (j id : Nat) : id ∈ dictSet keys j ↔ id ∈ keys ∨ id = j := by
  unfold dictSet
  by_cases hj : j ∈ keys
  · simp only [hj, ↓reduceIte]
    constructor
    · exact Or.inl
    · rintro (h' | h')
      · exact h'
      · subst h'; exact hj
  · simp [hj]

theorem answer_iff (s : S) (id : Nat) : answer s id = true ↔ id ∈ s.store := by
  unfold answer query
  by_cases h : id ∈ s.store <;> simp [h]

theorem sound_step (s : S) (pre : List Ev) (e : Ev)
    (hs : ∀ id, id ∈ s.store → Justified pre id) :
    ∀ id, id ∈ (step s e).1.store → Justified (pre ++ [e]) id := by
  intro id hid
  cases e with
  | recvCancel j =>
    simp only [step, recv] at hid
    by_cases hold : id ∈ s.store
    · exact justified_snoc pre id _ (hs id hold) rfl (by simp)
    · by_cases hlen : s.store.length < bound
      · simp only [hlen, ↓reduceIte] at hid
        rcases (mem_dictSet _ _ _).mp hid with h | h
        · exact absurd h hold
        · subst h; exact ⟨pre, [], rfl, fun e he => by cases he⟩
      · simp only [hlen, ↓reduceIte] at hid
        exact absurd hid hold
  | beginOp k => simp [step] at hid
  | endOp => simp [step] at hid
  | endOpRaise => exact justified_snoc pre id _ (hs id (by simpa [step] using hid)) rfl (by simp)
  | query j =>
    simp only [step, query] at hid
    by_cases hj : j ∈ s.store
    · simp only [hj, ↓reduceIte] at hid
      have h' : id ∈ s.store ∧ id ≠ j := by simpa using hid
      exact justified_snoc pre id _ (hs id h'.1) rfl (by simp; exact fun h => h'.2 h.symm)
    · simp only [hj, ↓reduceIte] at hid
      have : j ≠ id := fun h => hj (h ▸ hid)
      exact justified_snoc pre id _ (hs id hid) rfl (by simp; exact this)

theorem sound_gen (evs : List Ev) : ∀ (s : S) (pre : List Ev),
    (∀ id, id ∈ s.store → Justified pre id) →
    ∀ id, id ∈ (exec s evs).store → Justified (pre ++ evs) id := by
  induction evs with
  | nil => intro s pre hs id hid; simpa [exec] using hs id hid
  | cons e rest ih =>
    intro s pre hs id hid
    have := ih (step s e).1 (pre ++ [e]) (sound_step s pre e hs) id hid
    simpa [List.append_assoc] using this

theorem exec_append (s : S) (a b : List Ev) : exec s (a ++ b) = exec (exec s a) b := by
  induction a generalizing s with
  | nil => rfl
  | cons e r ih => simp only [List.cons_append, exec]; exact ih _

theorem run_append_c (s : S) (a b : List Ev) : run s (a ++ b) = run s a ++ run (exec s a) b := by
  induction a generalizing s with
  | nil => rfl
  | cons e r ih =>
    simp only [List.cons_append, run, exec]
    cases (step s e).2 <;> simp [ih]

theorem keeps_preserves (id : Nat) (b : List Ev) : ∀ s : S, id ∈ s.store → keeps id b →
    id ∈ (exec s b).store := by
  induction b with
  | nil => intro s h _; exact h
  | cons e rest ih =>
    intro s h hk
    have he := hk e (by simp)
    have hrest : keeps id rest := fun e' he' => hk e' (by simp [he'])
    apply ih _ _ hrest
    cases e with
    | recvCancel j =>
      simp only [step, recv]
      by_cases hlen : s.store.length < bound
      · simp only [hlen, ↓reduceIte]; exact (mem_dictSet _ _ _).mpr (Or.inl h)
      · simp only [hlen, ↓reduceIte]; exact h
    | beginOp k => exact absurd he.1 (by simp [Ev.clears])
    | endOp => exact absurd he.1 (by simp [Ev.clears])
    | endOpRaise => exact h
    | query j =>
      have hne : j ≠ id := fun hj => he.2 (by rw [hj])
      simp only [step, query]
      by_cases hc : j ∈ s.store
      · simp only [hc, ↓reduceIte]
        simpa using ⟨h, fun hh => hne hh.symm⟩
      · simp only [hc, ↓reduceIte]; exact h

theorem length_dictSet_le (keys : List Nat) (j : Nat) : (dictSet keys j).length ≤ keys.length + 1 := by
  unfold dictSet; split <;> simp

theorem store_len_le (w : List Ev) : ∀ s : S,
    (exec s w).store.length ≤ s.store.length + (w.filter Ev.isRecv).length := by
  induction w with
  | nil => intro s; simp [exec]
  | cons e rest ih =>
    intro s
    have := ih (step s e).1
    cases e with
    | recvCancel j =>
      have h1 : (step s (.recvCancel j)).1.store.length ≤ s.store.length + 1 := by
        simp only [step, recv]; split
        · exact length_dictSet_le _ _
        · exact Nat.le_succ _
      simp only [exec, List.filter, Ev.isRecv, List.length_cons] at *
      omega
    | beginOp k => simp only [exec, step, List.filter, Ev.isRecv, List.length_nil] at *; omega
    | endOp => simp only [exec, step, List.filter, Ev.isRecv, List.length_nil] at *; omega
    | endOpRaise => simp only [exec, step, List.filter, Ev.isRecv] at *; omega
    | query j =>
      have h1 : (step s (.query j)).1.store.length ≤ s.store.length := by
        simp only [step, query]; split
        · exact List.length_filter_le _ _
        · exact Nat.le_refl _
      simp only [exec, List.filter, Ev.isRecv] at *
      omega

/-! ### property theorems -/

/-- The answer of an `is_cancelled(id)` call made after the events `pre` is the
observation the model records for a `query id` event at that point. -/
theorem C23_answer_is_observation (pre : List Ev) (id : Nat) :
    run Cancel.init (pre ++ [.query id]) = run Cancel.init pre ++ [answer (exec Cancel.init pre) id] := by
  simp [run_append_c, run, step, answer]

/-- Soundness, for every event sequence: `is_cancelled(id)` answers `True` only
if a C-CANCEL naming exactly `id` was received earlier and, since then, the
store was not emptied (no operation began, none ended normally) and no query
consumed it.  So a cancel is never reported to an operation with another
message ID, a cancel received before the current operation began is never
reported to it, and none survives the end of the operation it was received in. -/
theorem C23_sound (pre : List Ev) (id : Nat) (h : answer (exec Cancel.init pre) id = true) :
    ∃ a b, pre = a ++ Ev.recvCancel id :: b ∧
      ∀ e ∈ b, (∀ k, e ≠ .beginOp k) ∧ e ≠ .endOp ∧ e ≠ .query id := by
  have hj := sound_gen pre Cancel.init [] (by intro id hid; simp [Cancel.init] at hid) id
    ((answer_iff _ _).mp h)
  rw [List.nil_append] at hj
  obtain ⟨a, b, hp, hk⟩ := hj
  refine ⟨a, b, hp, fun e he => ?_⟩
  obtain ⟨h1, h2⟩ := hk e he
  refine ⟨fun k hk' => ?_, fun hk' => ?_, h2⟩ <;> (subst hk'; simp [Ev.clears] at h1)

/-- No carry-over, stated directly: right after an operation begins or ends
normally every `is_cancelled` answers `False`, whatever was received before. -/
theorem C23_clear_forgets (s : S) (k id : Nat) :
    answer (step s (.beginOp k)).1 id = false ∧ answer (step s .endOp).1 id = false := by
  simp [step, answer, query]

/-- Completeness under the exact condition the code imposes: a C-CANCEL for `id`
received when fewer than 10 cancels are pending (or one for `id` already is),
and not followed by the begin/normal end of an operation or a query for `id`,
makes the next `is_cancelled(id)` answer `True` — whatever other cancels and
queries for other IDs happen in between. -/
theorem C23_complete_partial (a b : List Ev) (id : Nat) (hb : keeps id b)
    (hroom : (exec Cancel.init a).store.length < bound ∨ id ∈ (exec Cancel.init a).store) :
    answer (exec Cancel.init (a ++ Ev.recvCancel id :: b)) id = true := by
  rw [answer_iff, exec_append]
  apply keeps_preserves id b _ _ hb
  simp only [step, recv]
  rcases hroom with h | h
  · simp only [h, ↓reduceIte]; exact (mem_dictSet _ _ _).mpr (Or.inr rfl)
  · by_cases hl : (exec Cancel.init a).store.length < bound
    · simp only [hl, ↓reduceIte]; exact (mem_dictSet _ _ _).mpr (Or.inl h)
    · simp only [hl, ↓reduceIte]; exact h

/-- The same in terms of what the peer did: during an operation (after its
`beginOp`), if fewer than 10 C-CANCELs were received before the one for `id`,
that one is reported. -/
theorem C23_complete_count_partial (a w b : List Ev) (k id : Nat) (hb : keeps id b)
    (hcount : (w.filter Ev.isRecv).length < bound) :
    answer (exec Cancel.init (a ++ Ev.beginOp k :: (w ++ Ev.recvCancel id :: b))) id = true := by
  have e : a ++ Ev.beginOp k :: (w ++ Ev.recvCancel id :: b)
      = (a ++ Ev.beginOp k :: w) ++ Ev.recvCancel id :: b := by simp
  rw [e]
  apply C23_complete_partial _ b id hb
  left
  rw [exec_append]
  have := store_len_le w (step (exec Cancel.init a) (.beginOp k)).1
  simp only [exec, step] at *
  simp only [List.length_nil] at this
  omega

/- The full-strength completeness statement is FALSE for the current code:

     theorem C23_complete (a b : List Ev) (id : Nat) (hb : keeps id b) :
         answer (exec Cancel.init (a ++ Ev.recvCancel id :: b)) id = true

   its negation is proved next, with the witness replayed on the implementation. -/

/-- Overflow: while request 1 is being served, ten C-CANCELs naming other
message IDs are pending; the eleventh, naming the operation in progress, is not
recorded — `is_cancelled(1)` answers `False` — and it is put on the ordinary
message queue (`queued = [1]`), where the reactor will take it for a service
request. -/
theorem C23_neg_overflow :
    ∃ (a b : List Ev) (id : Nat), keeps id b ∧
      (∃ w, a = Ev.beginOp id :: w ∧ ∀ e ∈ w, e.isRecv = true) ∧
      answer (exec Cancel.init (a ++ Ev.recvCancel id :: b)) id = false ∧
      (exec Cancel.init (a ++ Ev.recvCancel id :: b)).queued = [id] :=
  ⟨Ev.beginOp 1 :: (List.range 10).map (fun i => Ev.recvCancel (i + 2)), [], 1,
    (fun e he => by cases he),
    ⟨(List.range 10).map (fun i => Ev.recvCancel (i + 2)), rfl, by decide⟩,
    (by decide), (by decide)⟩

theorem C23_complete_neg :
    ¬ ∀ (a b : List Ev) (id : Nat), keeps id b →
      answer (exec Cancel.init (a ++ Ev.recvCancel id :: b)) id = true := by
  intro h
  obtain ⟨a, b, id, hk, _, hf, _⟩ := C23_neg_overflow
  have := h a b id hk
  rw [hf] at this
  cases this

/-- A cancel is consumed by the query that reports it: asked again, with no new
C-CANCEL in between, `is_cancelled(id)` answers `False`. -/
theorem C23_consumed_once (s : S) (id : Nat) : answer (query s id).1 id = false := by
  unfold answer query
  by_cases h : id ∈ s.store <;> simp [h]

/-- A query for another message ID neither reports nor consumes a cancel for `id`. -/
theorem C23_query_other_keeps (s : S) (id j : Nat) (h : j ≠ id) :
    answer (query s j).1 id = answer s id := by
  have e : (id ∈ (query s j).1.store) ↔ id ∈ s.store := by
    unfold query
    by_cases hc : j ∈ s.store
    · simp only [hc, ↓reduceIte]
      simp; exact fun _ hh => h hh.symm
    · simp [hc]
  cases h1 : answer (query s j).1 id <;> cases h2 : answer s id <;> try rfl
  · exact absurd (e.mpr ((answer_iff _ _).mp h2)) (by rw [← answer_iff, h1]; simp)
  · exact absurd (e.mp ((answer_iff _ _).mp h1)) (by rw [← answer_iff, h2]; simp)

/-- Receiving the same cancel twice leaves the store as after the first. -/
theorem C23_recv_idempotent (s : S) (id : Nat) : (recv (recv s id) id).store = (recv s id).store := by
  unfold recv
  by_cases h : s.store.length < bound
  · simp only [h, ↓reduceIte]
    have hm : id ∈ dictSet s.store id := (mem_dictSet s.store id id).mpr (Or.inr rfl)
    split
    · show dictSet (dictSet s.store id) id = dictSet s.store id
      generalize dictSet s.store id = k at hm
      simp [dictSet, hm]
    · rfl
  · simp [h]

/-- What the translator reads in the current source: the guard is
`len(self.cancel_req) < 10`, and in `_serve_request` the store is emptied
immediately before and immediately after the service class call (with only the
two writes of the pause flag in between), nowhere else, and not on the exception paths — both
times under the test `not isinstance(msg, N_EVENT_REPORT)`, N-EVENT-REPORT being
the one class `receive_primitive` serves in a thread of its own. -/
theorem C23_bound_and_clear_sites :
    Gen.Cancel.bound = some Cancel.bound ∧ Gen.Cancel.cmp = "Lt" ∧
    Gen.Cancel.serveTry = ["clear-if", "pause-if", "scp", "pause-if", "clear-if"] ∧
    Gen.Cancel.clearGuards = ["not isinstance(msg, N_EVENT_REPORT)", "not isinstance(msg, N_EVENT_REPORT)"] ∧
    Gen.Cancel.sideThread = ["N_EVENT_REPORT"] ∧
    Gen.Cancel.handlersTouchStore = false ∧ Gen.Cancel.serveTouches = 2 := by decide

/-- A request of another kind served meanwhile (the N-EVENT-REPORT thread) leaves the pending
cancels of the operation in progress alone: with the regenerated source facts its whole
`_serve_request` run contributes no event to the store's history … -/
theorem C23_side_request_keeps_store :
    Cancel.sideClears Gen.Cancel.serveTry Gen.Cancel.clearGuards Gen.Cancel.sideThread = false ∧
    Cancel.sideEvents (Cancel.sideClears Gen.Cancel.serveTry Gen.Cancel.clearGuards Gen.Cancel.sideThread) = [] := by
  decide

/-- … so completeness holds through any number of such requests: a matching C-CANCEL received with
room in the store is reported by the next `is_cancelled(id)`, however many side-thread requests were
served completely in between (`sides` are their positions among the other events `b`). -/
theorem C23_complete_through_side_requests (a : List Ev) (bs : List (List Ev)) (id : Nat)
    (hb : ∀ b ∈ bs, keeps id b)
    (hroom : (exec Cancel.init a).store.length < bound ∨ id ∈ (exec Cancel.init a).store) :
    answer (exec Cancel.init (a ++ Ev.recvCancel id ::
      (bs.map (fun b => b ++ Cancel.sideEvents
        (Cancel.sideClears Gen.Cancel.serveTry Gen.Cancel.clearGuards Gen.Cancel.sideThread))).flatten)) id = true := by
  apply C23_complete_partial a _ id _ hroom
  rw [C23_side_request_keeps_store.2]
  intro e he
  simp only [List.append_nil, List.map_id', List.mem_flatten] at he
  obtain ⟨b, hbm, heb⟩ := he
  exact hb b hbm e heb

/-- The code before its repair cleared unconditionally: the N-EVENT-REPORT thread's run then emptied
the store under the running operation and the matching cancel was never reported (the failing
history of the known-findings entry `fixed: C23 … N-EVENT-REPORT`). -/
theorem C23_side_clear_neg :
    Cancel.sideClears ["clear", "pause", "scp", "pause", "clear"] [] ["N_EVENT_REPORT"] = true ∧
    run Cancel.init ([.beginOp 5, .recvCancel 5] ++ Cancel.sideEvents true ++ [.query 5]) = [false] ∧
    run Cancel.init ([.beginOp 5, .recvCancel 5] ++ Cancel.sideEvents false ++ [.query 5]) = [true] := by decide

-- non-vacuity
example : keeps 7 [.recvCancel 3, .query 3, .query 9, .recvCancel 7, .endOpRaise] := by
  intro e he; simp at he; rcases he with h | h | h | h | h <;> subst h <;> simp [Ev.clears]
example : run Cancel.init [.recvCancel 5, .beginOp 5, .query 5, .recvCancel 6, .recvCancel 5, .query 4, .query 5,
    .query 5, .endOp, .query 6, .beginOp 6, .recvCancel 6, .endOpRaise, .query 6]
    = [false, false, true, false, false, true] := by decide
example : (exec Cancel.init [.beginOp 1, .recvCancel 2, .recvCancel 3]).store.length < bound := by decide
-- a second clearing `_serve_request` interleaved with the operation would empty the store under it: the
-- model covers it as a `beginOp`/`endOp` pair inside the operation (see `C23_side_clear_neg`)
example : run Cancel.init [.beginOp 5, .recvCancel 5, .beginOp 77, .endOp, .query 5] = [false] := by decide
example : (([.recvCancel 2, .query 2, .recvCancel 3] : List Ev).filter Ev.isRecv).length < bound := by decide

end PynetVerif
