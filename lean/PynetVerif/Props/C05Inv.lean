import PynetVerif.Lemmas.Dul
import PynetVerif.Lemmas.DulStream
import PynetVerif.Model.DulAdmissible
/-!
C05 (invariant part) — for every schedule in which the local association code behaves
*synchronously-admissibly*, the reactor thread never dies.

`C05.lean` shows that the unrestricted statement is false (races between the association thread and
the reactor, ARTIM expiry after `stop`).  Here the schedule is restricted (`Dul.runOk`,
Model/DulAdmissible.lean): the association code issues a primitive either at a quiescent point of the
reactor and only if PS3.8 defines its event for the provider's current state, or it *streams* P-DATA
requests in Sta6 (`streamOk`: back-to-back `send_pdu(P-DATA)` calls at any moment of the reactor's
iteration, with P-DATA requests still pending, provided the reactor has not already queued an event that
takes it to Sta13: `streamQ`); and the ARTIM timeout elapses only at a quiescent point.  The peer (any
well-formed PDU, invalid PDUs, EOF, at any time, also in the middle of a stream), send failures and
connect failures are unrestricted.  `C05_defined_partial` then proves, for every such schedule, that no
dispatch ever raises.

Two layers.  `Inv` (shapes `loc`/`tr`/`acc`/`req`/`exp`) is the invariant of *synchronous* admissibility
(`runOkSync`: the quiescent clause only); it is also what the two-sided C06 proofs build on.  `InvS`
adds the streaming shape `Strm` and is the invariant of the full `runOk`.  `Strm` rests on the reactor
serving ONE event source per iteration with local primitives first: while a request is pending phase A
queues exactly one Evt9 and does not read the transport, phase B dispatches exactly one event, so there is
never more than one undispatched Evt9 in front of a terminating event and never a PDU event between a
pending request and its Evt9.  `Props/C05Stream.lean` shows that a reactor serving both sources per
iteration breaks this (`C05_neg_stream_both_sources`) and that `streamQ` cannot be dropped
(`C05_neg_stream_*`).
-/
namespace PynetVerif
open Fsm Dul


namespace C05Inv

/-! ### the invariant -/

/-- the shapes the queues can have while the reactor is live -/
inductive Shape (fsm : Nat) (eventQ : List Nat) (provQ : List Prim) (artim : Artim) (phaseB connected : Bool) : Prop
  /-- exactly one local primitive is pending; its event is defined for the current state and is
  either not yet queued or the only queued event -/
  | loc (p : Prim) (hp : provQ = [p]) (hdef : (lookup Spec.Ps38.table p.event fsm).isSome = true)
      (hne : artim.expired = false)
      (hq : (phaseB = false ∧ eventQ = []) ∨ (phaseB = true ∧ eventQ = [p.event]))
  /-- only transport events are queued, and the state is neither Sta1 nor Sta4 -/
  | tr (hp : provQ = []) (hne : artim.expired = false) (h1 : fsm ≠ 1) (h4 : fsm ≠ 4)
      (hq : ∀ x ∈ eventQ, tev x = true)
  /-- acceptor start: Sta1 with Evt5 at the head of the queue -/
  | acc (hp : provQ = []) (hne : artim.expired = false) (h1 : fsm = 1) (r : List Nat)
      (hq : eventQ = 5 :: r) (hr : ∀ x ∈ r, tev x = true)
  /-- requestor start: Sta1, not connected, nothing queued -/
  | req (hp : provQ = []) (hne : artim.expired = false) (h1 : fsm = 1) (hq : eventQ = [])
      (hc : connected = false) (hb : phaseB = false)
  /-- ARTIM has expired (at a quiescent point): Evt18 is, or will be, the next event dispatched -/
  | exp (hp : provQ = []) (he : artim.expired = true)
      (hq : (phaseB = false ∧ eventQ = []) ∨ (phaseB = true ∧ ∃ r, eventQ = 18 :: r ∧ ∀ x ∈ r, tev x = true))

structure LiveF (fsm : Nat) (eventQ : List Nat) (provQ : List Prim) (recvPdu : List (Nat × Bool))
    (artim : Artim) (phaseB connected : Bool) (inbox : List Wire) : Prop where
  rng : 1 ≤ fsm ∧ fsm ≤ 13
  /-- every queued PDU event has its PDU in `_recv_pdu` -/
  cnt : pduCount eventQ ≤ recvPdu.length
  art : artimOk fsm artim = true
  box : ∀ w ∈ inbox, wireOk w = true
  shape : Shape fsm eventQ provQ artim phaseB connected

abbrev Live (s : St) : Prop :=
  LiveF s.fsm s.eventQ s.provQ s.recvPdu s.artim s.phaseB s.connected s.inbox

/-- the thread is alive, and either the reactor has been told to stop or the queues are in shape -/
abbrev Inv (s : St) : Prop := s.dead = false ∧ (s.kill = true ∨ Live s)

theorem pduEv_prim (p : Prim) : pduEv p.event = false := by cases p <;> rfl

theorem pduCount_eq_zero {l : List Nat} (h : ∀ x ∈ l, pduEv x = false) : pduCount l = 0 := by
  unfold pduCount
  rw [List.countP_eq_zero]
  intro x hx; rw [h x hx]; simp

theorem inv_init (requestor : Bool) : Inv (if requestor then initRequestor else initAcceptor) := by
  cases requestor
  · refine ⟨rfl, Or.inr ⟨by decide, by decide, rfl, (fun _ h => nomatch h), ?_⟩⟩
    exact Shape.acc rfl rfl rfl [] rfl (fun _ h => nomatch h)
  · refine ⟨rfl, Or.inr ⟨by decide, by decide, rfl, (fun _ h => nomatch h), ?_⟩⟩
    exact Shape.req rfl rfl rfl rfl rfl rfl

/-! ### environment steps -/

theorem artimOk_expired {fsm : Nat} {ar : Artim} (h : artimOk fsm ar = true) (he : ar.expired = true) :
    ar = .runningExpired ∧ (fsm = 2 ∨ fsm = 13) := by
  cases ar <;> simp [Artim.expired, artimOk] at he h ⊢
  exact h

theorem env_inv (s : St) (e : Env) (hok : stepOkSync s (.env e) = true) (h : Inv s) : Inv (env e s) := by
  obtain ⟨hd, hk | hL⟩ := h
  · cases e <;> exact ⟨hd, Or.inl hk⟩
  obtain ⟨rng, cnt, art, box, shape⟩ := hL
  cases e with
  | peer w =>
    refine ⟨hd, Or.inr ⟨rng, cnt, art, ?_, shape⟩⟩
    intro w' hw'
    rcases List.mem_append.mp hw' with h | h
    · exact box w' h
    · simp only [List.mem_singleton] at h; subst h; exact hok
  | breakConn => exact ⟨hd, Or.inr ⟨rng, cnt, art, box, shape⟩⟩
  | connectWillFail => exact ⟨hd, Or.inr ⟨rng, cnt, art, box, shape⟩⟩
  | artimFire =>
    simp only [stepOkSync, quiescent, Bool.and_eq_true, Bool.not_eq_true', List.isEmpty_iff] at hok
    obtain ⟨⟨hb, hq⟩, hp⟩ := hok
    cases har : s.artim with
    | running =>
      refine ⟨hd, Or.inr ?_⟩
      show LiveF s.fsm s.eventQ s.provQ s.recvPdu s.artim.fire s.phaseB s.connected s.inbox
      rw [har] at art ⊢
      exact ⟨rng, cnt, art, box, Shape.exp hp rfl (Or.inl ⟨hb, hq⟩)⟩
    | off | runningExpired | stoppedOk | stoppedExpired =>
      refine ⟨hd, Or.inr ?_⟩
      show LiveF s.fsm s.eventQ s.provQ s.recvPdu s.artim.fire s.phaseB s.connected s.inbox
      rw [har] at art shape ⊢
      exact ⟨rng, cnt, art, box, shape⟩
  | «local» p =>
    simp only [stepOkSync, quiescent, Bool.and_eq_true, Bool.not_eq_true', List.isEmpty_iff] at hok
    obtain ⟨⟨⟨⟨hb, hq⟩, hp⟩, hu⟩, hdef⟩ := hok
    refine ⟨hd, Or.inr ?_⟩
    show LiveF s.fsm s.eventQ (s.provQ ++ [p]) s.recvPdu s.artim s.phaseB s.connected s.inbox
    have hne : s.artim.expired = false := by
      cases hexp : s.artim.expired with
      | false => rfl
      | true =>
        exfalso
        obtain ⟨_, h213⟩ := artimOk_expired art hexp
        have hu' : p ≠ .connectOk ∧ p ≠ .connectFail := by cases p <;> simp [userPrim] at hu ⊢
        obtain ⟨u2, u13⟩ := userPrim_undefined_2_13 p (mem_allPrims p) hu'.1 hu'.2
        rcases h213 with h | h <;> rw [h] at hdef
        · rw [u2] at hdef; cases hdef
        · rw [u13] at hdef; cases hdef
    rw [hp]
    exact ⟨rng, cnt, art, box, Shape.loc p rfl hdef hne (Or.inl ⟨hb, hq⟩)⟩

/-! ### phase A -/

theorem pduCount_append (l1 l2 : List Nat) : pduCount (l1 ++ l2) = pduCount l1 + pduCount l2 := by
  unfold pduCount; exact List.countP_append

theorem all_tev_append {l1 l2 : List Nat} (h1 : ∀ x ∈ l1, tev x = true) (h2 : ∀ x ∈ l2, tev x = true) :
    ∀ x ∈ l1 ++ l2, tev x = true := by
  intro x hx
  rcases List.mem_append.mp hx with h | h
  · exact h1 x h
  · exact h2 x h

/-- phase A with an empty provider queue and no expired timer: at most one transport event is appended -/
theorem iterA_src_live (s : St) (hd : s.dead = false) (rng : 1 ≤ s.fsm ∧ s.fsm ≤ 13)
    (cnt : pduCount s.eventQ ≤ s.recvPdu.length) (art : artimOk s.fsm s.artim = true)
    (box : ∀ w ∈ s.inbox, wireOk w = true) (hp : s.provQ = [])
    (hsh : ∀ ex, (∀ x ∈ ex, tev x = true) → (s.connected = false → ex = []) → ∀ c,
      (s.connected = false → c = false) →
      Shape s.fsm (s.eventQ ++ ex) [] s.artim (!(s.eventQ ++ ex).isEmpty) c) :
    Inv { readOrClose s with phaseB := !(readOrClose s).eventQ.isEmpty } := by
  have F := readOrClose_src s box
  obtain ⟨ex, hex, hext, hlen, hconn⟩ := F.ev
  refine ⟨F.dead.trans hd, Or.inr ?_⟩
  show LiveF (readOrClose s).fsm (readOrClose s).eventQ (readOrClose s).provQ (readOrClose s).recvPdu
    (readOrClose s).artim (!(readOrClose s).eventQ.isEmpty) (readOrClose s).connected (readOrClose s).inbox
  rw [F.fsm, F.provQ, F.artim, hex, hp]
  refine ⟨rng, ?_, art, fun w hw => box w (F.inbox w hw), ?_⟩
  · rw [pduCount_append, hlen]; omega
  · exact hsh ex hext hconn _ F.conn

theorem iterA_inv (s : St) (h : Inv s) : Inv (iterA s) := by
  rw [iterA_unfold]
  split
  · exact h
  rename_i hcond
  obtain ⟨hd, hk | hL⟩ := h
  · simp [St.live, hk] at hcond
  have hb : s.phaseB = false := by
    cases hpb : s.phaseB with
    | false => rfl
    | true => simp [hpb] at hcond
  obtain ⟨rng, cnt, art, box, shape⟩ := hL
  cases shape with
  | loc p hp hdef hne hq =>
    rcases hq with ⟨_, hq⟩ | ⟨hb', _⟩
    · have e1 : iterA1 s = s := by simp [iterA1, hne]
      have e2 : iterA2 s = { s with eventQ := s.eventQ ++ [p.event] } := by
        unfold iterA2; rw [hp]
      rw [e1, e2]
      refine ⟨hd, Or.inr ?_⟩
      show LiveF s.fsm (s.eventQ ++ [p.event]) s.provQ s.recvPdu s.artim (!(s.eventQ ++ [p.event]).isEmpty)
        s.connected s.inbox
      rw [hq]
      refine ⟨rng, ?_, art, box, Shape.loc p hp hdef hne (Or.inr ⟨rfl, rfl⟩)⟩
      rw [pduCount_eq_zero]; exact Nat.zero_le _
      intro x hx; simp only [List.nil_append, List.mem_singleton] at hx; subst hx; exact pduEv_prim p
    · rw [hb] at hb'; cases hb'
  | tr hp hne h1 h4 hq =>
    have e1 : iterA1 s = s := by simp [iterA1, hne]
    have e2 : iterA2 s = readOrClose s := by unfold iterA2; rw [hp]
    rw [e1, e2]
    exact iterA_src_live s hd rng cnt art box hp
      (fun ex hext _ _ _ => Shape.tr rfl hne h1 h4 (all_tev_append hq hext))
  | acc hp hne h1 r hq hr =>
    have e1 : iterA1 s = s := by simp [iterA1, hne]
    have e2 : iterA2 s = readOrClose s := by unfold iterA2; rw [hp]
    rw [e1, e2]
    refine iterA_src_live s hd rng cnt art box hp (fun ex hext _ _ _ => ?_)
    rw [hq]
    exact Shape.acc rfl hne h1 (r ++ ex) rfl (all_tev_append hr hext)
  | req hp hne h1 hq hc hb' =>
    have e1 : iterA1 s = s := by simp [iterA1, hne]
    have e2 : iterA2 s = readOrClose s := by unfold iterA2; rw [hp]
    rw [e1, e2]
    refine iterA_src_live s hd rng cnt art box hp (fun ex _ hex c hcc => ?_)
    rw [hex hc, hq, hcc hc]
    exact Shape.req rfl hne h1 rfl rfl rfl
  | exp hp he hq =>
    rcases hq with ⟨_, hq⟩ | ⟨hb', _⟩
    · have e1 : iterA1 s = { s with eventQ := s.eventQ ++ [18] } := by simp [iterA1, he]
      have e2 : iterA2 { s with eventQ := s.eventQ ++ [18] } = readOrClose { s with eventQ := s.eventQ ++ [18] } := by
        unfold iterA2; simp only [hp]
      rw [e1, e2]
      have F := readOrClose_src { s with eventQ := s.eventQ ++ [18] } box
      obtain ⟨ex, hex, hext, hlen, hconn⟩ := F.ev
      refine ⟨F.dead.trans hd, Or.inr ?_⟩
      generalize readOrClose { s with eventQ := s.eventQ ++ [18] } = t at F hex hlen ⊢
      show LiveF t.fsm t.eventQ t.provQ t.recvPdu t.artim (!t.eventQ.isEmpty) t.connected t.inbox
      rw [F.fsm, F.provQ, F.artim, hex]
      show LiveF s.fsm (s.eventQ ++ [18] ++ ex) s.provQ _ s.artim _ _ _
      rw [hq, hp]
      refine ⟨rng, ?_, art, fun w hw => box w (F.inbox w hw), Shape.exp rfl he (Or.inr ⟨rfl, ex, rfl, hext⟩)⟩
      rw [pduCount_append, hlen]
      show pduCount ([] ++ [18]) + pduCount ex ≤ s.recvPdu.length + pduCount ex
      simp [pduCount, pduEv]
    · rw [hb] at hb'; cases hb'

/-! ### phase B -/

theorem dispatch_act (s : St) (e : Nat) (a : Action) (hl : lookup Spec.Ps38.table e s.fsm = some a)
    (hf : fatal s a = false) : dispatch s e = act s a e := by
  unfold dispatch; rw [hl]; simp [hf]

theorem fatal_false (s : St) (a : Action) (h1 : popsPrim a = true → s.provQ ≠ [])
    (h2 : popsPdu a = true → s.recvPdu ≠ [])
    (h3 : a = .AA_1 → s.provQ = [] ∨ ∃ alt r, s.provQ = .abort alt :: r) : fatal s a = false := by
  unfold fatal
  have c1 : (popsPrim a && s.provQ.isEmpty) = false := by
    cases hpp : popsPrim a with
    | false => rfl
    | true => simp only [Bool.true_and, List.isEmpty_eq_false_iff]; exact h1 hpp
  have c2 : (popsPdu a && a != .AA_6 && s.recvPdu.isEmpty) = false := by
    cases hpp : popsPdu a with
    | false => rfl
    | true =>
      have := h2 hpp
      simp only [Bool.true_and, Bool.and_eq_false_iff, List.isEmpty_eq_false_iff]; exact Or.inr this
  rw [c1, c2]
  by_cases ha : a = .AA_1
  · rcases h3 ha with h | ⟨alt, r, h⟩ <;> rw [h] <;> simp
  · simp [ha]

/-- the normal path of a table action keeps the invariant -/
theorem act_inv (s : St) (a : Action) (e : Nat) (hrow : RowOk e s.fsm a)
    (hd : s.dead = false) (hb : s.phaseB = false)
    (box : ∀ w ∈ s.inbox, wireOk w = true)
    (art : artimOk s.fsm s.artim = true) (hne : s.artim.expired = false)
    (hq : ∀ x ∈ s.eventQ, tev x = true)
    (cnt : pduCount s.eventQ + (if popsPdu a = true then 1 else 0) ≤ s.recvPdu.length)
    (hprov : (popInputs s a).provQ = [] ∨ ∀ req alt b, (effB a req alt b).2 = 1)
    (hae1 : a = .AE_1 → s.eventQ = []) : Inv (act s a e) := by
  obtain ⟨alt, b, A⟩ := act_spec s a e
  obtain ⟨_, _, _, _, _, hR⟩ := hrow
  obtain ⟨hr2, hconn, _, hartim, _⟩ := hR s.requestor alt b
  have hdead : (act s a e).dead = false := A.dead.trans hd
  by_cases h1 : (effB a s.requestor alt b).2 = 1
  · exact ⟨hdead, Or.inl (by rw [A.kill, h1]; simp)⟩
  have hpq : (popInputs s a).provQ = [] := by
    rcases hprov with h | h
    · exact h
    · exact absurd (h _ _ _) h1
  rcases hartim s.artim (mem_allArtim _) art hne with h | ⟨hao, hane⟩
  · exact absurd h h1
  obtain ⟨ex, hex, hex'⟩ := A.evq
  have hext : ∀ x ∈ ex, tev x = true := by
    intro x hx; rcases hex' x hx with h | h <;> subst h <;> rfl
  have hexp : pduCount ex = 0 := by
    apply pduCount_eq_zero
    intro x hx; rcases hex' x hx with h | h <;> subst h <;> rfl
  refine ⟨hdead, Or.inr ?_⟩
  unfold Live
  rw [A.fsm, hex, A.recvPdu, A.artim, A.phaseB, A.inbox, hb]
  refine ⟨hr2, ?_, hao, box, ?_⟩
  · rw [pduCount_append, hexp]
    split
    · rw [List.length_tail]; rename_i hp; simp only [hp, ↓reduceIte] at cnt; omega
    · rename_i hp; simp only [hp] at cnt; simpa using cnt
  · by_cases ha : a = .AE_1
    · have hq0 := hae1 ha
      rw [hq0]
      have hdef2 : (lookup Spec.Ps38.table Prim.connectOk.event 4).isSome = true := by decide
      have hdef17 : (lookup Spec.Ps38.table Prim.connectFail.event 4).isSome = true := by decide
      have h4 : (effB a s.requestor alt b).2 = 4 := by subst ha; rfl
      have hex0 : ex = [] := by
        have := A.evq1 ha
        rw [hex, hq0] at this
        simpa using this
      rw [h4, hex0]
      rcases A.provQ1 ha with h | h <;> rw [h, hpq]
      · exact Shape.loc .connectOk rfl hdef2 hane (Or.inl ⟨rfl, rfl⟩)
      · exact Shape.loc .connectFail rfl hdef17 hane (Or.inl ⟨rfl, rfl⟩)
    · obtain ⟨hc, hn4⟩ := hconn ha
      rw [A.provQ hc, hpq]
      exact Shape.tr rfl hane h1 hn4 (all_tev_append hq hext)

theorem pduCount_cons (e : Nat) (q : List Nat) :
    pduCount (e :: q) = pduCount q + (if pduEv e = true then 1 else 0) := by
  unfold pduCount; exact List.countP_cons

/-- dispatch of the event of the single pending local primitive -/
theorem dispatch_loc (s : St) (p : Prim) (hd : s.dead = false) (hb : s.phaseB = false)
    (art : artimOk s.fsm s.artim = true) (box : ∀ w ∈ s.inbox, wireOk w = true)
    (hp : s.provQ = [p]) (hdef : (lookup Spec.Ps38.table p.event s.fsm).isSome = true)
    (hne : s.artim.expired = false) (hq : s.eventQ = []) : Inv (dispatch s p.event) := by
  obtain ⟨a, hl⟩ := Option.isSome_iff_exists.mp hdef
  have hrow := rowOk hl
  obtain ⟨_, hpdu, _, _, hab, hR⟩ := hrow
  have hnpdu : popsPdu a = false := by
    cases h : popsPdu a with
    | false => rfl
    | true => have := hpdu h; rw [pduEv_prim] at this; cases this
  have habort : a = .AA_1 → ∃ alt, p = .abort alt := by
    intro ha
    have := hab p (mem_allPrims p) rfl ha
    cases p <;> simp [Prim.isAbort] at this
    exact ⟨_, rfl⟩
  have hf : fatal s a = false := by
    apply fatal_false
    · intro _; rw [hp]; simp
    · intro h; rw [hnpdu] at h; cases h
    · intro ha; obtain ⟨alt, hpa⟩ := habort ha; exact Or.inr ⟨alt, [], by rw [hp, hpa]⟩
  rw [dispatch_act s _ a hl hf]
  apply act_inv s a p.event (rowOk hl) hd hb box art hne
  · intro x hx; rw [hq] at hx; cases hx
  · rw [hq, hnpdu]; simp [pduCount]
  · cases hpp : popsPrim a with
    | true => exact Or.inl (popInputs_provQ_single s a p hp (Or.inl hpp))
    | false =>
      by_cases ha : a = .AA_1
      · obtain ⟨alt, hpa⟩ := habort ha
        exact Or.inl (popInputs_provQ_single s a p hp (Or.inr ⟨ha, by rw [hpa]; rfl⟩))
      · right
        intro req alt b
        rcases (hR req alt b).2.2.2.2 p (mem_allPrims p) rfl with h | h | h
        · exact h
        · rw [hpp] at h; cases h
        · exact absurd h ha
  · intro _; exact hq

/-- dispatch of a transport event, or of the acceptor's Evt5, with an empty provider queue -/
theorem dispatch_nil (s : St) (e : Nat) (hev : tev e = true ∨ e = 5 ∨ e = 18)
    (hd : s.dead = false) (hb : s.phaseB = false)
    (cnt : pduCount (e :: s.eventQ) ≤ s.recvPdu.length)
    (art : artimOk s.fsm s.artim = true) (box : ∀ w ∈ s.inbox, wireOk w = true)
    (hp : s.provQ = []) (hdef : (lookup Spec.Ps38.table e s.fsm).isSome = true)
    (hne : s.artim.expired = false) (hq : ∀ x ∈ s.eventQ, tev x = true) : Inv (dispatch s e) := by
  obtain ⟨a, hl⟩ := Option.isSome_iff_exists.mp hdef
  have hrow := rowOk hl
  obtain ⟨_, hpdu, hprim, _, _, _⟩ := hrow
  have hnprim := hprim hev
  rw [pduCount_cons] at cnt
  have hf : fatal s a = false := by
    apply fatal_false
    · intro h; rw [hnprim] at h; cases h
    · intro h hnil
      rw [hpdu h, hnil] at cnt
      simp at cnt
    · intro _; exact Or.inl hp
  rw [dispatch_act s _ a hl hf]
  apply act_inv s a e (rowOk hl) hd hb box art hne hq
  · cases hpp : popsPdu a with
    | true => rw [hpdu hpp] at cnt; simpa using cnt
    | false => simp only [Bool.false_eq_true, ↓reduceIte]; omega
  · exact Or.inl (popInputs_provQ_nil s a hp)
  · intro ha; subst ha; cases hnprim

/-- dispatch of Evt18 (only ever queued in Sta2/Sta13): AA-2 stops the reactor -/
theorem dispatch_exp (s : St) (hd : s.dead = false) (hp : s.provQ = [])
    (hdef : (lookup Spec.Ps38.table 18 s.fsm).isSome = true) : Inv (dispatch s 18) := by
  obtain ⟨a, hl⟩ := Option.isSome_iff_exists.mp hdef
  obtain ⟨_, hpdu, hprim, _, _, hR⟩ := rowOk hl
  have hf : fatal s a = false := by
    apply fatal_false
    · intro h; rw [hprim (Or.inr (Or.inr rfl))] at h; cases h
    · intro h; have := hpdu h; cases this
    · intro _; exact Or.inl hp
  rw [dispatch_act s _ a hl hf]
  obtain ⟨alt, b, A⟩ := act_spec s a 18
  refine ⟨A.dead.trans hd, Or.inl ?_⟩
  rw [A.kill, (hR s.requestor alt b).2.2.1 rfl]; simp

theorem iterB_inv (s : St) (h : Inv s) : Inv (iterB s) := by
  unfold iterB
  split
  · exact h
  rename_i hcond
  obtain ⟨hd, hk | hL⟩ := h
  · simp [St.live, hk] at hcond
  have hb : s.phaseB = true := by
    cases hpb : s.phaseB with
    | true => rfl
    | false => simp [hpb] at hcond
  obtain ⟨rng, cnt, art, box, shape⟩ := hL
  split
  · rename_i heq
    refine ⟨hd, Or.inr ⟨rng, cnt, art, box, ?_⟩⟩
    show Shape s.fsm s.eventQ s.provQ s.artim false s.connected
    cases shape with
    | loc p hp hdef hne hq =>
      rcases hq with ⟨hb', _⟩ | ⟨_, hq⟩
      · rw [hb] at hb'; cases hb'
      · rw [heq] at hq; cases hq
    | tr hp hne h1 h4 hq => exact Shape.tr hp hne h1 h4 hq
    | acc hp hne h1 r hq hr => rw [heq] at hq; cases hq
    | req hp hne h1 hq hc hb' => rw [hb] at hb'; cases hb'
    | exp hp he hq =>
      rcases hq with ⟨hb', _⟩ | ⟨_, r, hq, _⟩
      · rw [hb] at hb'; cases hb'
      · rw [heq] at hq; cases hq
  · rename_i e rest heq
    cases shape with
    | loc p hp hdef hne hq =>
      rcases hq with ⟨hb', _⟩ | ⟨_, hq⟩
      · rw [hb] at hb'; cases hb'
      · rw [heq] at hq
        simp only [List.cons.injEq] at hq
        obtain ⟨he, hrest⟩ := hq
        subst he hrest
        exact dispatch_loc { s with eventQ := [], phaseB := false } p hd rfl art box hp hdef hne rfl
    | tr hp hne h1 h4 hq =>
      rw [heq] at hq cnt
      have hte : tev e = true := hq e (List.mem_cons_self ..)
      have hdef : (lookup Spec.Ps38.table e s.fsm).isSome = true := by
        rcases tev_of_transport hte with h | h
        · exact (C05_transport_events_defined e s.fsm rng).1 h h1 h4
        · exact (C05_transport_events_defined e s.fsm rng).2 h h1
      exact dispatch_nil { s with eventQ := rest, phaseB := false } e (Or.inl hte) hd rfl cnt art box hp hdef hne
        (fun x hx => hq x (List.mem_cons_of_mem _ hx))
    | acc hp hne h1 r hq hr =>
      rw [heq] at hq cnt
      simp only [List.cons.injEq] at hq
      obtain ⟨he, hrest⟩ := hq
      subst he hrest
      have hdef : (lookup Spec.Ps38.table 5 s.fsm).isSome = true := by rw [h1]; decide
      exact dispatch_nil { s with eventQ := rest, phaseB := false } 5 (Or.inr (Or.inl rfl)) hd rfl cnt art box hp hdef hne hr
    | req hp hne h1 hq hc hb' => rw [hb] at hb'; cases hb'
    | exp hp he hq =>
      rcases hq with ⟨hb', _⟩ | ⟨_, r, hq, _⟩
      · rw [hb] at hb'; cases hb'
      · rw [heq] at hq
        simp only [List.cons.injEq] at hq
        obtain ⟨he', hrest⟩ := hq
        subst he' hrest
        have hdef : (lookup Spec.Ps38.table 18 s.fsm).isSome = true := by
          rcases (artimOk_expired art he).2 with h | h <;> rw [h] <;> decide
        exact dispatch_exp { s with eventQ := rest, phaseB := false } hd hp hdef

/-! ### every synchronously admissible schedule -/

theorem step_inv (s : St) (st : Step) (hok : stepOkSync s st = true) (h : Inv s) : Inv (step s st) := by
  cases st with
  | env e => exact env_inv s e hok h
  | a => exact iterA_inv s h
  | b => exact iterB_inv s h

theorem run_inv : ∀ (sched : List Step) (s : St), runOkSync s sched = true → Inv s → Inv (run s sched) := by
  intro sched
  induction sched with
  | nil => intro s _ h; exact h
  | cons st rest ih =>
    intro s hok h
    simp only [runOkSync, Bool.and_eq_true] at hok
    exact ih (step s st) hok.2 (step_inv s st hok.1 h)

/-! ### streamed P-DATA requests -/

/-- streamed P-DATA requests in Sta6 (or Sta8, once the peer's A-RELEASE-RQ has been dispatched): only
P-DATA requests are pending (possibly none any more); the event queue is empty or led by a terminating
event (Evt16/Evt17: whatever follows is never dispatched) — except, between phase A and phase B, for the
event of the iteration in progress, which is the Evt9 of a pending request, the peer's A-RELEASE-RQ, or a
P-DATA-TF PDU with a decodable payload: none of them leads to Sta13, and every one leaves the queue
empty-or-terminator-led again -/
structure StrmF (fsm : Nat) (eventQ : List Nat) (provQ : List Prim) (recvPdu : List (Nat × Bool))
    (artim : Artim) (phaseB : Bool) (inbox : List Wire) : Prop where
  h68 : fsm = 6 ∨ fsm = 8
  cnt : pduCount eventQ ≤ recvPdu.length
  art : artimOk fsm artim = true
  box : ∀ w ∈ inbox, wireOk w = true
  hp : ∀ p ∈ provQ, p = .pdata
  hq : termLed eventQ = true ∨
    (phaseB = true ∧ ∃ e r, eventQ = e :: r ∧ termLed r = true ∧
      ((e = 9 ∧ provQ ≠ []) ∨ (fsm = 6 ∧ e = 12) ∨ (fsm = 6 ∧ e = 10 ∧ headDecodable recvPdu = true)))

abbrev Strm (s : St) : Prop := StrmF s.fsm s.eventQ s.provQ s.recvPdu s.artim s.phaseB s.inbox

/-- the invariant of the full `runOk`: the synchronous invariant, or the thread is alive and the queues
are in the streaming shape -/
abbrev InvS (s : St) : Prop := Inv s ∨ (s.dead = false ∧ Strm s)

/-- a streamed request puts the queues into the streaming shape, whatever shape they had -/
theorem strm_of_streamOk (s : St) (p : Prim) (hok : streamOk s p = true)
    (cnt : pduCount s.eventQ ≤ s.recvPdu.length) (art : artimOk s.fsm s.artim = true)
    (box : ∀ w ∈ s.inbox, wireOk w = true) : Strm (env (.local p) s) := by
  simp only [streamOk, Bool.and_eq_true, beq_iff_eq] at hok
  obtain ⟨⟨⟨hpd, h6⟩, hall⟩, hsq⟩ := hok
  subst hpd
  show StrmF s.fsm s.eventQ (s.provQ ++ [.pdata]) s.recvPdu s.artim s.phaseB s.inbox
  have hall' : ∀ p ∈ s.provQ ++ [Prim.pdata], p = .pdata := by
    intro p hp
    rcases List.mem_append.mp hp with h | h
    · exact allPdata_iff.mp hall p h
    · simpa using h
  refine ⟨Or.inl h6, cnt, art, box, hall', ?_⟩
  rcases streamQ_spec hsq with h | ⟨hb, e, r, heq, htl, hcase⟩
  · exact Or.inl h
  · refine Or.inr ⟨hb, e, r, heq, htl, ?_⟩
    rcases hcase with h9 | h12 | ⟨h10, hdec⟩
    · exact Or.inl ⟨h9, by simp⟩
    · exact Or.inr (Or.inl ⟨h6, h12⟩)
    · exact Or.inr (Or.inr ⟨h6, h10, hdec⟩)

theorem env_invS (s : St) (e : Env) (hok : stepOk s (.env e) = true) (h : InvS s) : InvS (env e s) := by
  rcases h with h | ⟨hd, hS⟩
  · -- from the synchronous invariant
    cases e with
    | «local» p =>
      simp only [stepOk, Bool.or_eq_true] at hok
      rcases hok with hok | hok
      · exact Or.inl (env_inv s (.local p) hok h)
      · obtain ⟨hd, hk | hL⟩ := h
        · exact Or.inl ⟨hd, Or.inl hk⟩
        · exact Or.inr ⟨hd, strm_of_streamOk s p hok hL.cnt hL.art hL.box⟩
    | peer w => exact Or.inl (env_inv s _ hok h)
    | breakConn => exact Or.inl (env_inv s _ hok h)
    | artimFire => exact Or.inl (env_inv s _ hok h)
    | connectWillFail => exact Or.inl (env_inv s _ hok h)
  · -- from the streaming shape
    obtain ⟨h68, cnt, art, box, hp, hq⟩ := hS
    cases e with
    | peer w =>
      refine Or.inr ⟨hd, h68, cnt, art, ?_, hp, hq⟩
      intro w' hw'
      rcases List.mem_append.mp hw' with h | h
      · exact box w' h
      · simp only [List.mem_singleton] at h; subst h; exact hok
    | breakConn => exact Or.inr ⟨hd, h68, cnt, art, box, hp, hq⟩
    | connectWillFail => exact Or.inr ⟨hd, h68, cnt, art, box, hp, hq⟩
    | artimFire =>
      -- ARTIM does not run in Sta6/Sta8: nothing to expire
      refine Or.inr ⟨hd, ?_⟩
      show StrmF s.fsm s.eventQ s.provQ s.recvPdu s.artim.fire s.phaseB s.inbox
      rw [(artimOk_68 h68 art 0).2.2]
      exact ⟨h68, cnt, art, box, hp, hq⟩
    | «local» p =>
      simp only [stepOk, Bool.or_eq_true] at hok
      rcases hok with hok | hok
      · -- the stream has drained and the reactor is quiescent again: back to the `loc` shape
        simp only [quiescentOk, quiescent, Bool.and_eq_true, Bool.not_eq_true', List.isEmpty_iff] at hok
        obtain ⟨⟨⟨⟨hb, hq0⟩, hp0⟩, _⟩, hdef⟩ := hok
        refine Or.inl ⟨hd, Or.inr ?_⟩
        show LiveF s.fsm s.eventQ (s.provQ ++ [p]) s.recvPdu s.artim s.phaseB s.connected s.inbox
        rw [hp0]
        exact ⟨by omega, cnt, art, box, Shape.loc p rfl hdef (artimOk_68 h68 art 0).2.1 (Or.inl ⟨hb, hq0⟩)⟩
      · exact Or.inr ⟨hd, strm_of_streamOk s p hok cnt art box⟩

theorem iterA_invS (s : St) (h : InvS s) : InvS (iterA s) := by
  rcases h with h | ⟨hd, hS⟩
  · exact Or.inl (iterA_inv s h)
  rw [iterA_unfold]
  split
  · exact Or.inr ⟨hd, hS⟩
  rename_i hcond
  have hb : s.phaseB = false := by
    cases hpb : s.phaseB with
    | false => rfl
    | true => simp [hpb] at hcond
  obtain ⟨h68, cnt, art, box, hp, hq⟩ := hS
  have hne : s.artim.expired = false := (artimOk_68 h68 art 0).2.1
  have e1 : iterA1 s = s := by simp [iterA1, hne]
  have htl : termLed s.eventQ = true := by
    rcases hq with h | ⟨hb', _⟩
    · exact h
    · rw [hb] at hb'; cases hb'
  rw [e1]
  cases hpq : s.provQ with
  | cons p rest =>
    -- a pending P-DATA request is peeked: Evt9 is queued, the transport is NOT read
    have hpd : p = .pdata := hp p (by rw [hpq]; exact List.mem_cons_self ..)
    have e2 : iterA2 s = { s with eventQ := s.eventQ ++ [9] } := by
      unfold iterA2; rw [hpq, hpd]; rfl
    rw [e2]
    refine Or.inr ⟨hd, ?_⟩
    show StrmF s.fsm (s.eventQ ++ [9]) s.provQ s.recvPdu s.artim (!(s.eventQ ++ [9]).isEmpty) s.inbox
    have hbt : (!(s.eventQ ++ [9]).isEmpty) = true := by simp
    rw [hbt]
    refine ⟨h68, ?_, art, box, hp, ?_⟩
    · rw [pduCount_append]
      have : pduCount [9] = 0 := by decide
      omega
    · by_cases heq : s.eventQ = []
      · rw [heq]
        exact Or.inr ⟨rfl, 9, [], rfl, rfl, Or.inl ⟨rfl, by rw [hpq]; simp⟩⟩
      · exact Or.inl (termLed_append _ htl heq)
  | nil =>
    have e2 : iterA2 s = readOrClose s := by unfold iterA2; rw [hpq]
    rw [e2]
    by_cases heq : s.eventQ = []
    · -- nothing pending, nothing queued: the stream is over, this is the `tr` shape
      have h1 : s.fsm ≠ 1 := by rcases h68 with h | h <;> omega
      have h4 : s.fsm ≠ 4 := by rcases h68 with h | h <;> omega
      exact Or.inl (iterA_src_live s hd (by omega) cnt art box hpq
        (fun ex hext _ _ _ => Shape.tr rfl hne h1 h4
          (all_tev_append (fun x hx => by rw [heq] at hx; cases hx) hext)))
    · -- a terminating event leads the queue: whatever is read is queued behind it
      have F := readOrClose_src s box
      obtain ⟨ex, hex, _, hlen, _⟩ := F.ev
      refine Or.inr ⟨F.dead.trans hd, ?_⟩
      show StrmF (readOrClose s).fsm (readOrClose s).eventQ (readOrClose s).provQ (readOrClose s).recvPdu
        (readOrClose s).artim (!(readOrClose s).eventQ.isEmpty) (readOrClose s).inbox
      rw [F.fsm, F.provQ, F.artim, hex, hpq]
      refine ⟨h68, ?_, art, fun w hw => box w (F.inbox w hw), (fun _ h => nomatch h),
        Or.inl (termLed_append ex htl heq)⟩
      rw [pduCount_append, hlen]; omega

/-- the normal path of an action that keeps the provider in Sta6/Sta8, touches neither ARTIM nor the
transport connection and does not queue Evt19, in the streaming shape -/
theorem act_strm (s : St) (a : Action) (e n : Nat) (hb : s.phaseB = false)
    (box : ∀ w ∈ s.inbox, wireOk w = true) (art : artimOk s.fsm s.artim = true)
    (h68 : s.fsm = 6 ∨ s.fsm = 8) (hn : n = 6 ∨ n = 8)
    (heff : ∀ req alt b, (effB a req alt b).2 = n ∧
      (usedEffs a (effB a req alt b).1).contains .connect = false ∧
      artimAfter (usedEffs a (effB a req alt b).1) s.artim = s.artim)
    (hno19 : ((a = .DT_2 || a = .AR_6) && altOf s a e) = false)
    (htl : termLed s.eventQ = true)
    (cnt : pduCount s.eventQ + (if popsPdu a = true then 1 else 0) ≤ s.recvPdu.length)
    (hpq : ∀ p ∈ (popInputs s a).provQ, p = .pdata) :
    (act s a e).dead = s.dead ∧ Strm (act s a e) := by
  obtain ⟨alt, b, A⟩ := act_spec s a e
  obtain ⟨hn', hc, har⟩ := heff s.requestor alt b
  obtain ⟨ex, hex, hex17⟩ := act_evq17 s a e hno19
  have hexp : pduCount ex = 0 := by
    apply pduCount_eq_zero
    intro x hx; rw [hex17 x hx]; rfl
  refine ⟨A.dead, ?_⟩
  unfold Strm
  rw [A.fsm, hex, A.recvPdu, A.artim, A.phaseB, A.inbox, hb, A.provQ hc, hn', har]
  refine ⟨hn, ?_, (artimOk_68 h68 art n).1, box, hpq, Or.inl (termLed_append17 htl hex17)⟩
  rw [pduCount_append, hexp]
  split
  · rw [List.length_tail]; rename_i hp; simp only [hp, ↓reduceIte] at cnt; omega
  · rename_i hp; simp only [hp] at cnt; simpa using cnt

/-- dispatch of an event whose action leads to Sta1: the reactor stops -/
theorem dispatch_to_idle (s : St) (e : Nat) (a : Action) (hd : s.dead = false)
    (hl : lookup Spec.Ps38.table e s.fsm = some a) (hf : fatal s a = false)
    (h1 : ∀ req alt b, (effB a req alt b).2 = 1) : Inv (dispatch s e) := by
  rw [dispatch_act s _ a hl hf]
  obtain ⟨alt, b, A⟩ := act_spec s a e
  refine ⟨A.dead.trans hd, Or.inl ?_⟩
  rw [A.kill, h1]; simp

/-- dispatch in the streaming shape: a terminating event (AA-3/AA-4: the reactor stops), the Evt9 of a
pending P-DATA request (DT-1 in Sta6, AR-7 in Sta8), the peer's A-RELEASE-RQ (AR-2: Sta6 → Sta8) or a
decodable P-DATA-TF PDU (DT-2) -/
theorem dispatch_strm (s : St) (e : Nat) (hd : s.dead = false) (hb : s.phaseB = false)
    (cnt : pduCount (e :: s.eventQ) ≤ s.recvPdu.length)
    (art : artimOk s.fsm s.artim = true) (box : ∀ w ∈ s.inbox, wireOk w = true)
    (h68 : s.fsm = 6 ∨ s.fsm = 8) (hp : ∀ p ∈ s.provQ, p = .pdata)
    (hq : termLed (e :: s.eventQ) = true ∨ (termLed s.eventQ = true ∧
      ((e = 9 ∧ s.provQ ≠ []) ∨ (s.fsm = 6 ∧ e = 12) ∨
       (s.fsm = 6 ∧ e = 10 ∧ headDecodable s.recvPdu = true)))) : InvS (dispatch s e) := by
  rw [pduCount_cons] at cnt
  have hrecv : pduEv e = true → s.recvPdu ≠ [] := by
    intro h hnil; rw [h, hnil] at cnt; simp at cnt
  have fin : ∀ a, (act s a e).dead = s.dead ∧ Strm (act s a e) → InvS (act s a e) :=
    fun a h => Or.inr ⟨h.1.trans hd, h.2⟩
  rcases hq with hterm | ⟨htl, hcase⟩
  · -- Evt16 / Evt17 in Sta6 / Sta8
    left
    rcases termLed_cons hterm with rfl | rfl
    · have hl : lookup Spec.Ps38.table 16 s.fsm = some .AA_3 := by
        rcases h68 with h | h <;> rw [h] <;> decide
      refine dispatch_to_idle s 16 .AA_3 hd hl ?_ (fun _ _ _ => rfl)
      exact fatal_false s .AA_3 (fun h => by simp [popsPrim] at h) (fun _ => hrecv rfl)
        (fun h => by cases h)
    · have hl : lookup Spec.Ps38.table 17 s.fsm = some .AA_4 := by
        rcases h68 with h | h <;> rw [h] <;> decide
      refine dispatch_to_idle s 17 .AA_4 hd hl ?_ (fun _ _ _ => rfl)
      exact fatal_false s .AA_4 (fun h => by simp [popsPrim] at h) (fun h => by simp [popsPdu] at h)
        (fun h => by cases h)
  · have htail : ∀ p ∈ s.provQ.tail, p = .pdata := fun p h => hp p (List.mem_of_mem_tail h)
    rcases hcase with ⟨rfl, hne⟩ | ⟨h6, rfl⟩ | ⟨h6, rfl, hdec⟩
    · -- Evt9: DT-1 (Sta6) / AR-7 (Sta8) pops one pending request
      rcases h68 with h6 | h8
      · have hl : lookup Spec.Ps38.table 9 s.fsm = some .DT_1 := by rw [h6]; decide
        have hf : fatal s .DT_1 = false :=
          fatal_false s .DT_1 (fun _ => hne) (fun h => by simp [popsPdu] at h) (fun h => by cases h)
        rw [dispatch_act s _ _ hl hf]
        refine fin _ (act_strm s .DT_1 9 6 hb box art (Or.inl h6) (Or.inl rfl) (fun _ _ _ => ⟨rfl, rfl, rfl⟩)
          rfl htl (by simpa [popsPdu, pduEv] using cnt) ?_)
        rw [popInputs_provQ_tail s .DT_1 rfl (by decide)]; exact htail
      · have hl : lookup Spec.Ps38.table 9 s.fsm = some .AR_7 := by rw [h8]; decide
        have hf : fatal s .AR_7 = false :=
          fatal_false s .AR_7 (fun _ => hne) (fun h => by simp [popsPdu] at h) (fun h => by cases h)
        rw [dispatch_act s _ _ hl hf]
        refine fin _ (act_strm s .AR_7 9 8 hb box art (Or.inr h8) (Or.inr rfl) (fun _ _ _ => ⟨rfl, rfl, rfl⟩)
          rfl htl (by simpa [popsPdu, pduEv] using cnt) ?_)
        rw [popInputs_provQ_tail s .AR_7 rfl (by decide)]; exact htail
    · -- Evt12 in Sta6: AR-2, the provider moves to Sta8 (where Evt9 is AR-7)
      have hl : lookup Spec.Ps38.table 12 s.fsm = some .AR_2 := by rw [h6]; decide
      have hf : fatal s .AR_2 = false :=
        fatal_false s .AR_2 (fun h => by simp [popsPrim] at h) (fun _ => hrecv rfl) (fun h => by cases h)
      rw [dispatch_act s _ _ hl hf]
      refine fin _ (act_strm s .AR_2 12 8 hb box art (Or.inl h6) (Or.inr rfl) (fun _ _ _ => ⟨rfl, rfl, rfl⟩)
        rfl htl (by simpa [popsPdu, pduEv] using cnt) ?_)
      rw [popInputs_provQ_same s .AR_2 rfl (by decide)]; exact hp
    · -- Evt10 in Sta6 with a decodable payload: DT-2 queues nothing
      have hl : lookup Spec.Ps38.table 10 s.fsm = some .DT_2 := by rw [h6]; decide
      have hf : fatal s .DT_2 = false :=
        fatal_false s .DT_2 (fun h => by simp [popsPrim] at h) (fun _ => hrecv rfl) (fun h => by cases h)
      rw [dispatch_act s _ _ hl hf]
      refine fin _ (act_strm s .DT_2 10 6 hb box art (Or.inl h6) (Or.inl rfl) (fun _ _ _ => ⟨rfl, rfl, rfl⟩)
        (by rw [altOf_false_of_headDecodable s _ _ hdec]; simp) htl (by simpa [popsPdu, pduEv] using cnt) ?_)
      rw [popInputs_provQ_same s .DT_2 rfl (by decide)]; exact hp

theorem iterB_invS (s : St) (h : InvS s) : InvS (iterB s) := by
  rcases h with h | ⟨hd, hS⟩
  · exact Or.inl (iterB_inv s h)
  unfold iterB
  split
  · exact Or.inr ⟨hd, hS⟩
  obtain ⟨h68, cnt, art, box, hp, hq⟩ := hS
  split
  · rename_i heq
    refine Or.inr ⟨hd, ?_⟩
    show StrmF s.fsm s.eventQ s.provQ s.recvPdu s.artim false s.inbox
    exact ⟨h68, cnt, art, box, hp, Or.inl (by rw [heq]; rfl)⟩
  · rename_i e rest heq
    rw [heq] at cnt hq
    apply dispatch_strm { s with eventQ := rest, phaseB := false } e hd rfl cnt art box h68 hp
    rcases hq with h | ⟨_, e', r, hcons, htl, hcase⟩
    · exact Or.inl h
    · simp only [List.cons.injEq] at hcons
      obtain ⟨rfl, rfl⟩ := hcons
      exact Or.inr ⟨htl, hcase⟩

/-! ### every admissible schedule -/

theorem step_invS (s : St) (st : Step) (hok : stepOk s st = true) (h : InvS s) : InvS (step s st) := by
  cases st with
  | env e => exact env_invS s e hok h
  | a => exact iterA_invS s h
  | b => exact iterB_invS s h

theorem run_invS : ∀ (sched : List Step) (s : St), runOk s sched = true → InvS s → InvS (run s sched) := by
  intro sched
  induction sched with
  | nil => intro s _ h; exact h
  | cons st rest ih =>
    intro s hok h
    simp only [runOk, Bool.and_eq_true] at hok
    exact ih (step s st) hok.2 (step_invS s st hok.1 h)

theorem invS_dead {s : St} (h : InvS s) : s.dead = false := by
  rcases h with h | h
  · exact h.1
  · exact h.1

end C05Inv

/-- **Under admissible local behaviour the reactor thread never dies**: for every schedule of reactor
micro-steps and environment steps in which the association code issues a primitive either at a
quiescent point and only if PS3.8 defines its event for the provider's current state, or as a streamed
P-DATA request in Sta6 (`streamOk`: only P-DATA requests pending, at any moment of the iteration, no
event already queued that leads to Sta13), and ARTIM expires only at a quiescent point — the peer
sending any well-formed or invalid PDU or closing at any time, sends failing, the connect failing —
every dispatched (event, state) pair has a table entry and every action finds its input: the thread
does not die. -/
theorem C05_defined_partial (requestor : Bool) (sched : List Step)
    (h : runOk (if requestor then initRequestor else initAcceptor) sched = true) :
    (run (if requestor then initRequestor else initAcceptor) sched).dead = false :=
  C05Inv.invS_dead (C05Inv.run_invS sched _ h (Or.inl (C05Inv.inv_init requestor)))

/-- the synchronous special case (the statement before streaming was added; `runOkSync` implies `runOk`) -/
theorem C05_defined_partial_sync (requestor : Bool) (sched : List Step)
    (h : runOkSync (if requestor then initRequestor else initAcceptor) sched = true) :
    (run (if requestor then initRequestor else initAcceptor) sched).dead = false :=
  C05_defined_partial requestor sched (runOk_of_sync sched _ h)

/-! ### why `stepOk` also asks for well-formed wire PDUs, and non-vacuity -/

/-- `Wire.pdu e alt` is only meant for `e ∈ {3,4,6,10,12,13,16}` (its docstring), but the type admits
any `e`; a "PDU" carrying the number of a local event would be queued as that event.  Without the
`wireOk` clause of `stepOk` the statement is false of the model: -/
theorem C05_neg_wire_pdu_outside_domain :
    (run initAcceptor [.a, .b, .env (.peer (.pdu 1 false)), .a, .b]).dead = true := by decide

/-- the three schedules of `C05.lean` on which the thread dies are exactly not admissible -/
example :
    runOk initAcceptor [.a, .b, .env (.peer (.pdu 6 false)), .a, .b, .env (.local .accept), .a, .b,
      .env (.peer .invalid), .a, .b, .env (.local .pdata), .a, .b] = false ∧
    runOk initRequestor [.env (.local .assocRq), .a, .b, .a, .b, .env (.peer (.pdu 3 false)), .a, .b,
      .env (.peer (.pdu 12 false)), .a, .b, .env (.local .releaseRq), .a, .b] = false ∧
    runOk initAcceptor [.a, .b, .env (.peer (.pdu 6 false)), .a, .env .artimFire, .b, .a, .b] = false := by
  decide

-- non-vacuity (acceptor): request/accept, data both ways (peer PDUs arriving while the reactor is
-- busy), release requested by the peer, data and the release response sent locally, peer close
example : let sched : List Step :=
      [.a, .b, .env (.peer (.pdu 6 false)), .a, .b, .env (.local .accept), .a, .b,
       .env (.peer (.pdu 10 false)), .env (.peer (.pdu 10 false)), .a, .b, .a, .b,
       .env (.local .pdata), .env (.peer (.pdu 10 false)), .a, .b, .a, .b,
       .env (.peer (.pdu 12 false)), .a, .b, .env (.local .pdata), .a, .b, .env (.local .releaseRp), .a, .b,
       .env (.peer .eof), .a, .b]
    runOk initAcceptor sched = true ∧ (run initAcceptor sched).fsm = 1 ∧ (run initAcceptor sched).kill = true ∧
    (run initAcceptor sched).dead = false ∧ ((run initAcceptor sched).log.map (·.evt)).reverse =
      [5, 6, 7, 10, 10, 9, 10, 12, 9, 14, 17] := by decide

-- non-vacuity (requestor): connect, request/accept, data both ways, release requested locally, data
-- still arriving in Sta7, release response
example : let sched : List Step :=
      [.env (.local .assocRq), .a, .b, .a, .b, .env (.peer (.pdu 3 false)), .a, .b,
       .env (.local .pdata), .a, .b, .env (.peer (.pdu 10 false)), .a, .b,
       .env (.local .releaseRq), .env (.peer (.pdu 10 false)), .a, .b, .a, .b,
       .env (.peer (.pdu 13 false)), .a, .b]
    runOk initRequestor sched = true ∧ (run initRequestor sched).fsm = 1 ∧ (run initRequestor sched).kill = true ∧
    (run initRequestor sched).dead = false ∧ ((run initRequestor sched).log.map (·.evt)).reverse =
      [1, 2, 3, 9, 10, 11, 10, 13] := by decide

-- non-vacuity (abort paths): an invalid PDU during data transfer (AA-8), ARTIM expiring in Sta13
-- at a quiescent point (AA-2); and a local abort on a broken connection (AA-1, failed send, AR-5)
example :
    (let sched : List Step :=
      [.a, .b, .env (.peer (.pdu 6 false)), .a, .b, .env (.local .accept), .a, .b,
       .env (.peer .invalid), .a, .b, .env .artimFire, .env (.peer (.pdu 10 true)), .a, .b]
     runOk initAcceptor sched = true ∧ (run initAcceptor sched).dead = false ∧
     ((run initAcceptor sched).log.map (·.evt)).reverse = [5, 6, 7, 19, 18]) ∧
    (let sched : List Step :=
      [.a, .b, .env (.peer (.pdu 6 false)), .a, .b, .env (.local .accept), .a, .b, .env .breakConn,
       .env (.local (.abort false)), .a, .b, .a, .b]
     runOk initAcceptor sched = true ∧ (run initAcceptor sched).dead = false ∧
     ((run initAcceptor sched).log.map (·.evt)).reverse = [5, 6, 7, 15, 17]) := by decide

end PynetVerif
