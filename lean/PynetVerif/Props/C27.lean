import PynetVerif.Model.History
import PynetVerif.Props.C05
/-!
C27 — event notifications form a well-formed history.

`History.wf` is the executable statement of well-formedness; every history recorded from real
associations by the end-to-end harness is fed to it through the driver.  The theorems below are
about the histories the reactor model (`Dul.run`, validated in lockstep against the real reactor
under C05) emits, for every schedule of reactor steps and environment steps.
-/
namespace PynetVerif
open Dul History

theorem chainFrom_append_fsm : ∀ (L : List Notif) (st c e n : Nat),
    chainFrom st (L ++ [.fsm c e n]) = (chainFrom st L && (endFrom st L == c)) := by
  intro L
  induction L with
  | nil => intro st c e n; simp [chainFrom, endFrom]; exact BEq.comm
  | cons x xs ih =>
    intro st c e n
    cases x <;> simp [chainFrom, endFrom, ih, Bool.and_assoc]

theorem endFrom_append_fsm : ∀ (L : List Notif) (st c e n : Nat),
    endFrom st (L ++ [.fsm c e n]) = n := by
  intro L
  induction L with
  | nil => intro st c e n; simp [endFrom]
  | cons x xs ih => intro st c e n; cases x <;> simp [endFrom, ih]

/-- invariant: the emitted transitions chain from Sta1 and end in the current state -/
def ChainInv (s : St) : Prop :=
  chainFrom 1 (ofLog s.log) = true ∧ endFrom 1 (ofLog s.log) = s.fsm

theorem applyEff_log_fsm (s : St) (f : Fsm.Eff) : (applyEff s f).log = s.log ∧ (applyEff s f).fsm = s.fsm := by
  unfold applyEff closeSock
  repeat' split
  all_goals exact ⟨rfl, rfl⟩

theorem foldl_applyEff_log_fsm (effs : List Fsm.Eff) : ∀ s : St,
    (effs.foldl applyEff s).log = s.log ∧ (effs.foldl applyEff s).fsm = s.fsm := by
  induction effs with
  | nil => intro s; exact ⟨rfl, rfl⟩
  | cons f fs ih =>
    intro s; simp only [List.foldl_cons]
    obtain ⟨a, b⟩ := ih (applyEff s f); obtain ⟨c, d⟩ := applyEff_log_fsm s f
    exact ⟨a.trans c, b.trans d⟩

theorem popInputs_log_fsm (s : St) (a : Fsm.Action) : (popInputs s a).log = s.log ∧ (popInputs s a).fsm = s.fsm := by
  have h1 : ∀ t : St, (popPrimQ t a).log = t.log ∧ (popPrimQ t a).fsm = t.fsm := by
    intro t; unfold popPrimQ; split <;> exact ⟨rfl, rfl⟩
  have h2 : ∀ t : St, (popAbortQ t a).log = t.log ∧ (popAbortQ t a).fsm = t.fsm := by
    intro t; unfold popAbortQ; split
    · split <;> exact ⟨rfl, rfl⟩
    · exact ⟨rfl, rfl⟩
  have h3 : ∀ t : St, (popPduQ t a).log = t.log ∧ (popPduQ t a).fsm = t.fsm := by
    intro t; unfold popPduQ; split <;> exact ⟨rfl, rfl⟩
  unfold popInputs
  exact ⟨(h3 _).1.trans ((h2 _).1.trans (h1 _).1), (h3 _).2.trans ((h2 _).2.trans (h1 _).2)⟩

theorem ofLog_cons_ok (d : Dispatch) (log : List Dispatch) (h : d.ok = true) :
    ofLog (d :: log) = ofLog log ++ [.fsm d.state d.evt d.next] := by
  simp [ofLog, List.filter_append, h]

theorem ofLog_cons_notok (d : Dispatch) (log : List Dispatch) (h : d.ok = false) :
    ofLog (d :: log) = ofLog log := by
  simp [ofLog, List.filter_append, h]

theorem act_chain (s : St) (a : Fsm.Action) (e : Nat) (h : ChainInv s) : ChainInv (act s a e) := by
  obtain ⟨h1, h2⟩ := h
  have key : (act s a e).log = ⟨e, s.fsm, some a, (effectsOf s a e).2, true⟩ :: s.log ∧
      (act s a e).fsm = (effectsOf s a e).2 := by
    unfold act
    simp only
    split <;> simp only [(foldl_applyEff_log_fsm _ _).1, (popInputs_log_fsm _ _).1, and_self]
  unfold ChainInv
  rw [key.1, key.2, ofLog_cons_ok _ _ rfl]
  simp only [chainFrom_append_fsm, endFrom_append_fsm, h1, h2, beq_self_eq_true, Bool.and_self, and_self]

theorem dispatch_chain (s : St) (e : Nat) (h : ChainInv s) : ChainInv (dispatch s e) := by
  unfold dispatch
  split
  · show chainFrom 1 (ofLog (_ :: s.log)) = true ∧ endFrom 1 (ofLog (_ :: s.log)) = s.fsm
    rw [ofLog_cons_notok _ s.log rfl]; exact h
  · split
    · show chainFrom 1 (ofLog (_ :: s.log)) = true ∧ endFrom 1 (ofLog (_ :: s.log)) = s.fsm
      rw [ofLog_cons_notok _ s.log rfl]; exact h
    · exact act_chain s _ e h

theorem readTransport_log_fsm (s : St) : (readTransport s).log = s.log ∧ (readTransport s).fsm = s.fsm := by
  unfold readTransport
  split <;> exact ⟨rfl, rfl⟩

theorem closeSock_log_fsm (s : St) : (closeSock s).log = s.log ∧ (closeSock s).fsm = s.fsm := by
  unfold closeSock
  split <;> exact ⟨rfl, rfl⟩

theorem iterA_log_fsm (s : St) : (iterA s).log = s.log ∧ (iterA s).fsm = s.fsm := by
  unfold iterA
  split
  · exact ⟨rfl, rfl⟩
  · simp only
    split <;> split
    all_goals (try split)
    all_goals (try split)
    all_goals first
      | exact ⟨rfl, rfl⟩
      | exact readTransport_log_fsm _
      | exact closeSock_log_fsm _

theorem step_chain (s : St) (st : Step) (h : ChainInv s) : ChainInv (step s st) := by
  cases st with
  | env ev => cases ev <;> exact h
  | a =>
    obtain ⟨h1, h2⟩ := h
    obtain ⟨e1, e2⟩ := iterA_log_fsm s
    show chainFrom 1 (ofLog (iterA s).log) = true ∧ endFrom 1 (ofLog (iterA s).log) = (iterA s).fsm
    rw [e1, e2]; exact ⟨h1, h2⟩
  | b =>
    simp only [step, iterB]
    split
    · exact h
    · split
      · exact h
      · rename_i e rest _
        have : ChainInv { s with eventQ := rest, phaseB := false } := h
        exact dispatch_chain _ _ this

/-- **State-machine notifications chain**: for every schedule of reactor and environment steps,
each transition the reactor emits starts in the state the previous one ended in (the first in
Sta1), and the last one ends in the reactor's current state. -/
theorem C27_fsm_chain (requestor : Bool) (sched : List Step) :
    let s := run (if requestor then initRequestor else initAcceptor) sched
    chainFrom 1 (ofLog s.log) = true ∧ endFrom 1 (ofLog s.log) = s.fsm := by
  have h0 : ChainInv (if requestor then initRequestor else initAcceptor) := by
    cases requestor <;> exact ⟨rfl, rfl⟩
  have : ∀ (sched : List Step) (s : St), ChainInv s → ChainInv (run s sched) := by
    intro sched
    induction sched with
    | nil => intro s h; exact h
    | cons st rest ih => intro s h; exact ih _ (step_chain s st h)
  exact this sched _ h0

/-- invariant: at most one connection-close notification, and only together with the kill flag -/
def CloseInv (s : St) : Prop := s.closes = 0 ∨ (s.closes = 1 ∧ s.kill = true)

theorem iterA_closes_kill (s : St) : (iterA s).closes = s.closes ∧ (iterA s).kill = s.kill := by
  have hr : ∀ t : St, (readTransport t).closes = t.closes ∧ (readTransport t).kill = t.kill := by
    intro t; unfold readTransport; split <;> exact ⟨rfl, rfl⟩
  have hc : ∀ t : St, (closeSock t).closes = t.closes ∧ (closeSock t).kill = t.kill := by
    intro t; unfold closeSock; split <;> exact ⟨rfl, rfl⟩
  unfold iterA
  split
  · exact ⟨rfl, rfl⟩
  · simp only
    split <;> split
    all_goals (try split)
    all_goals (try split)
    all_goals first
      | exact ⟨rfl, rfl⟩
      | exact hr _
      | exact hc _

theorem step_close (s : St) (st : Step) (h : CloseInv s) : CloseInv (step s st) := by
  cases st with
  | env ev => cases ev <;> exact h
  | a =>
    obtain ⟨e1, e2⟩ := iterA_closes_kill s
    show (iterA s).closes = 0 ∨ ((iterA s).closes = 1 ∧ (iterA s).kill = true)
    rw [e1, e2]; exact h
  | b =>
    simp only [step, iterB]
    split
    · exact h
    · rename_i hl
      have hk : s.kill = false := by
        simp only [St.live, Bool.or_eq_true, Bool.not_eq_true', Bool.and_eq_false_iff, not_or] at hl
        cases hkk : s.kill <;> simp_all
      have h0 : s.closes = 0 := by
        rcases h with h | ⟨_, h⟩
        · exact h
        · rw [hk] at h; cases h
      split
      · exact Or.inl h0
      · rename_i e rest _
        unfold dispatch
        split
        · exact Or.inl h0
        · split
          · exact Or.inl h0
          · rename_i a _ _
            obtain ⟨c1, c2⟩ := C05_sta1_closes { s with eventQ := rest, phaseB := false } a e
            show (act _ a e).closes = 0 ∨ ((act _ a e).closes = 1 ∧ (act _ a e).kill = true)
            by_cases hf : (act { s with eventQ := rest, phaseB := false } a e).fsm = 1
            · right; rw [c2]; simp only [hf, ↓reduceIte]; exact ⟨by simp [h0], c1 hf⟩
            · left; rw [c2]; simp only [hf, ↓reduceIte]; simp [h0]

/-- **Connection-close happens at most once, and nothing is dispatched after it**: for every
schedule the reactor notifies connection-close at most once, only together with the kill flag
(after which the reactor performs no further step). -/
theorem C27_conn_close_at_most_once (requestor : Bool) (sched : List Step) :
    let s := run (if requestor then initRequestor else initAcceptor) sched
    s.closes ≤ 1 ∧ (s.closes = 1 → s.kill = true) := by
  have h0 : CloseInv (if requestor then initRequestor else initAcceptor) := by
    cases requestor <;> exact Or.inl rfl
  have : ∀ (sched : List Step) (s : St), CloseInv s → CloseInv (run s sched) := by
    intro sched
    induction sched with
    | nil => intro s h; exact h
    | cons st rest ih => intro s h; exact ih _ (step_close s st h)
  rcases this sched _ h0 with h | ⟨h1, h2⟩
  · exact ⟨by omega, by omega⟩
  · exact ⟨by omega, fun _ => h2⟩

/-- once the kill flag is set the reactor emits nothing more -/
theorem C27_nothing_after_kill (s : St) (st : Step) (h : s.kill = true) :
    (step s st).log = s.log ∧ (step s st).closes = s.closes := by
  cases st with
  | env ev => cases ev <;> exact ⟨rfl, rfl⟩
  | a => simp [step, iterA, St.live, h]
  | b => simp [step, iterB, St.live, h]

-- non-vacuity: the executable checker accepts a typical acceptor history and rejects a broken one
example : wf true [.connOpen, .dataRecv 1, .pduRecv 1, .fsm 1 5 2, .fsm 2 6 3, .dataSent 2, .pduSent 2, .fsm 3 7 6,
    .established, .dataRecv 5, .pduRecv 5, .fsm 6 12 8, .released, .dataSent 6, .pduSent 6, .fsm 8 14 13,
    .connClose, .fsm 13 17 1] = true ∧
    verdict true [.connOpen, .fsm 1 5 2, .fsm 3 7 6] = "fsm-chain-broken" ∧
    verdict true [.connOpen, .connClose, .pduSent 7] = "conn-close-repeated-or-not-last" := by decide

end PynetVerif
