import PynetVerif.Model.Timer
import PynetVerif.Spec.Timer
import PynetVerif.Gen.Timer
/-!
C09 — protocol timers measure elapsed time, unaffected by wall-clock changes.

`Timer.*` is the model of `pynetdicom.timer.Timer` (tied to the class by the
differential run of `harness/props/c09.py`), `Spec.Timer.*` the docstring
semantics as a function of the operation history, `Gen.Timer.*` what the
translator reads in `timer.py` / `dul.py` on every run (which `time.*` function
each method calls; which class the DUL's ARTIM and idle timers are).
-/
namespace PynetVerif
open Timer

/-! ### helper lemmas (not property theorems) -/

/-- the model state is the one the history describes -/
def TimerAbs (init : Option Int) (h : Spec.Timer.Hist) (s : T) : Prop :=
  s.timeout = Spec.Timer.curTimeout init h ∧ s.start = Spec.Timer.lastStart h ∧
    s.stop = Spec.Timer.stopSince h

theorem timerAbs_init (init : Option Int) : TimerAbs init [] (Timer.init init) := ⟨rfl, rfl, rfl⟩

theorem timerAbs_step (init : Option Int) (h : Spec.Timer.Hist) (s : T) (op : Op) (t : Int)
    (ha : TimerAbs init h s) : TimerAbs init ((op, t) :: h) (step s op t).1 := by
  obtain ⟨h1, h2, h3⟩ := ha
  cases op <;> simp [TimerAbs, step, Spec.Timer.curTimeout, Spec.Timer.lastStart,
    Spec.Timer.stopSince, h1, h2, h3]

theorem timer_expired_eq (init : Option Int) (h : Spec.Timer.Hist) (s : T) (t : Int)
    (ha : TimerAbs init h s) : Timer.expired s t = Spec.Timer.expired init h t := by
  obtain ⟨h1, h2, h3⟩ := ha
  unfold Timer.expired Timer.remaining Spec.Timer.expired Spec.Timer.elapsed
  rw [h1, h2, h3]
  cases Spec.Timer.curTimeout init h <;> cases Spec.Timer.lastStart h <;>
    cases Spec.Timer.stopSince h <;> simp <;> omega

theorem timer_remaining_eq (init : Option Int) (h : Spec.Timer.Hist) (s : T) (t : Int)
    (ha : TimerAbs init h s) : Timer.remaining s t = Spec.Timer.remaining init h t := by
  obtain ⟨h1, h2, h3⟩ := ha
  unfold Timer.remaining Spec.Timer.remaining Spec.Timer.elapsed
  rw [h1, h2, h3]
  cases Spec.Timer.curTimeout init h <;> cases Spec.Timer.lastStart h <;>
    cases Spec.Timer.stopSince h <;> simp

theorem timer_refines (init : Option Int) (ops : List (Op × Int)) :
    ∀ (h : Spec.Timer.Hist) (s : T), TimerAbs init h s →
      run s ops = Spec.Timer.observationsFrom init h ops := by
  induction ops with
  | nil => intro h s _; rfl
  | cons o rest ih =>
    intro h s ha
    obtain ⟨op, t⟩ := o
    have hn := ih ((op, t) :: h) (step s op t).1 (timerAbs_step init h s op t ha)
    cases op <;> simp only [run, Spec.Timer.observationsFrom] at * <;>
      simp only [step] at * <;> first
        | exact hn
        | (rw [hn, timer_expired_eq init h s t ha])
        | (rw [hn, timer_remaining_eq init h s t ha])

theorem timerAbs_exec (init : Option Int) (ops : List (Op × Int)) :
    ∀ (h : Spec.Timer.Hist) (s : T), TimerAbs init h s → TimerAbs init (ops.reverse ++ h) (exec s ops) := by
  induction ops with
  | nil => intro h s ha; simpa [exec] using ha
  | cons o rest ih =>
    intro h s ha
    obtain ⟨op, t⟩ := o
    have := ih ((op, t) :: h) (step s op t).1 (timerAbs_step init h s op t ha)
    simpa [exec, List.reverse_cons, List.append_assoc] using this

theorem run_append (s : T) (a b : List (Op × Int)) : run s (a ++ b) = run s a ++ run (exec s a) b := by
  induction a generalizing s with
  | nil => rfl
  | cons o rest ih =>
    obtain ⟨op, t⟩ := o
    simp only [List.cons_append, run, exec]
    cases (step s op t).2 <;> simp [ih]

/-- queries do not change the state -/
theorem exec_queries (s : T) (qs : List (Op × Int))
    (hq : ∀ o ∈ qs, o.1 = .expired ∨ o.1 = .remaining) : exec s qs = s := by
  induction qs generalizing s with
  | nil => rfl
  | cons o rest ih =>
    obtain ⟨op, t⟩ := o
    have h1 : op = .expired ∨ op = .remaining := hq (op, t) (by simp)
    have h2 : ∀ o ∈ rest, o.1 = .expired ∨ o.1 = .remaining := fun o ho => hq o (by simp [ho])
    rcases h1 with h1 | h1 <;> subst h1 <;> simp only [exec, step] <;> exact ih s h2

/-! ### property theorems -/

/-- Refinement: for every constructor argument and every sequence of operations
and clock readings, the observations (`expired` / `remaining` values) of the
model of `Timer` are exactly the ones the docstring semantics prescribes. -/
theorem C09_spec (init : Option Int) (ops : List (Op × Int)) :
    run (Timer.init init) ops = Spec.Timer.observations init ops :=
  timer_refines init ops [] (Timer.init init) (timerAbs_init init)

/-- Exactness, in terms of the history: after any operations `pre`, an
`expired` query at reading `t` answers `true` iff the timer has been started, a
timeout `to` is in force, and the time elapsed since the last start — measured
up to `t` while running, up to the stop once stopped — is greater than `to`. -/
theorem C09_exact (init : Option Int) (pre : List (Op × Int)) (t : Int) :
    (run (Timer.init init) (pre ++ [(.expired, t)]) =
        run (Timer.init init) pre ++ [.bool (Timer.expired (exec (Timer.init init) pre) t)]) ∧
    (Timer.expired (exec (Timer.init init) pre) t = true ↔
      ∃ s to, Spec.Timer.lastStart pre.reverse = some s ∧
        Spec.Timer.curTimeout init pre.reverse = some to ∧
        (Spec.Timer.stopSince pre.reverse).getD t - s > to) := by
  refine ⟨by simp [run_append, run, step], ?_⟩
  have ha := timerAbs_exec init pre [] (Timer.init init) (timerAbs_init init)
  rw [List.append_nil] at ha
  rw [timer_expired_eq init pre.reverse _ t ha]
  unfold Spec.Timer.expired Spec.Timer.elapsed
  cases Spec.Timer.curTimeout init pre.reverse <;> cases Spec.Timer.lastStart pre.reverse <;> simp

/-- Exactness without reference to the spec's vocabulary, running timer: from
*any* state with timeout `to` in force, after `start` at reading `st` and any
number of queries, `expired` at reading `t` is exactly `t - st > to` and
`remaining` is `to - (t - st)`. -/
theorem C09_exact_running (s0 : T) (to st t : Int) (qs : List (Op × Int))
    (hto : s0.timeout = some to) (hq : ∀ o ∈ qs, o.1 = .expired ∨ o.1 = .remaining) :
    Timer.expired (exec s0 ((.start, st) :: qs)) t = decide (t - st > to) ∧
    Timer.remaining (exec s0 ((.start, st) :: qs)) t = to - (t - st) := by
  simp only [exec, step]
  rw [exec_queries _ qs hq]
  simp [Timer.expired, Timer.remaining, hto]
  omega

/-- … and stopped timer: after `start` at `st`, queries, `stop` at `en` and
further queries, the answers are frozen at `en - st` whatever the clock reads
("once stopped, report the state they had when stopped"). -/
theorem C09_exact_stopped (s0 : T) (to st en t : Int) (qs qs' : List (Op × Int))
    (hto : s0.timeout = some to) (hq : ∀ o ∈ qs, o.1 = .expired ∨ o.1 = .remaining)
    (hq' : ∀ o ∈ qs', o.1 = .expired ∨ o.1 = .remaining) :
    Timer.expired (exec s0 ((.start, st) :: qs ++ (.stop, en) :: qs')) t = decide (en - st > to) ∧
    Timer.remaining (exec s0 ((.start, st) :: qs ++ (.stop, en) :: qs')) t = to - (en - st) := by
  have e : exec s0 ((.start, st) :: qs ++ (.stop, en) :: qs')
      = { start := some st, stop := some en, timeout := s0.timeout } := by
    have happ : ∀ (s : T) (a b : List (Op × Int)), exec s (a ++ b) = exec (exec s a) b := by
      intro s a; induction a generalizing s with
      | nil => intro b; rfl
      | cons o r ih => intro b; obtain ⟨op, t⟩ := o; simp only [List.cons_append, exec]; exact ih _ b
    rw [List.cons_append, exec, happ, exec_queries _ qs hq, exec, exec_queries _ qs' hq']
    simp [step]
  rw [e]
  simp [Timer.expired, Timer.remaining, hto]
  omega

/-- Never-expiring and not-started cases, from any state. -/
theorem C09_none_and_unstarted (s : T) (t : Int) :
    (s.timeout = none → Timer.expired s t = false ∧ Timer.remaining s t = 1) ∧
    (s.start = none → Timer.expired s t = false ∧
      (∀ to, s.timeout = some to → Timer.remaining s t = to)) := by
  refine ⟨fun h => by simp [Timer.expired, Timer.remaining, h], fun h => ⟨?_, fun to hto => ?_⟩⟩
  · cases hto : s.timeout <;> simp [Timer.expired, h, hto]
  · simp [Timer.remaining, h, hto]

/-- With readings that do not decrease (a monotonic clock), a timer that has
expired stays expired until it is operated on again, and `remaining` never grows. -/
theorem C09_expired_stable (s : T) (t t' : Int) (h : t ≤ t') :
    (Timer.expired s t = true → Timer.expired s t' = true) ∧
    Timer.remaining s t' ≤ Timer.remaining s t := by
  unfold Timer.expired Timer.remaining
  cases s.timeout <;> cases s.start <;> cases s.stop <;> simp <;> omega

/-- The clock the real `Timer` reads, as found by the translator in the
current source: `start`, `stop` and `remaining` all call the same monotonic
function of `time`, and no method calls any other clock. -/
theorem C09_clock : Gen.Timer.clock = .monotonic := by decide

/-- two stamped sequences that differ at most in their wall-clock offsets -/
def sameMono (a b : List Stamped) : Prop :=
  a.map (fun o => (o.op, o.m)) = b.map (fun o => (o.op, o.m))

/-- Wall-clock independence: reading the clock the source reads, the
observations of a timer do not depend on the wall-clock offsets at all — any
two runs with the same operations and monotonic readings give the same
answers, whatever steps of either sign the system clock makes in between — and
they are the docstring semantics evaluated on the monotonic readings. -/
theorem C09_wall_independent (timeout : Option Int) (a b : List Stamped) (h : sameMono a b) :
    runTimer Gen.Timer.clock timeout a = runTimer Gen.Timer.clock timeout b ∧
    runTimer Gen.Timer.clock timeout a =
      Spec.Timer.observations timeout (a.map (fun o => (o.op, o.m))) := by
  rw [C09_clock]
  have e : ∀ l : List Stamped, l.map (fun o => (o.op, reading .monotonic o)) = l.map (fun o => (o.op, o.m)) :=
    fun l => rfl
  unfold runTimer
  rw [e a, e b, h]
  exact ⟨rfl, C09_spec timeout _⟩

/-- Why the clock identity matters: a timer reading the wall clock is made to
expire early by a forward step (1 tick elapsed, timeout 10, clock set +100)
and is delayed by a backward step (100 ticks elapsed, clock set −100), with
monotonic readings that are perfectly ordinary. -/
theorem C09_wall_neg :
    (∃ ops : List Stamped, monoOK ops = true ∧
      runTimer .wall (some 10) ops = [.bool true] ∧ runTimer .monotonic (some 10) ops = [.bool false]) ∧
    (∃ ops : List Stamped, monoOK ops = true ∧
      runTimer .wall (some 10) ops = [.bool false] ∧ runTimer .monotonic (some 10) ops = [.bool true]) :=
  ⟨⟨[⟨.start, 0, 0⟩, ⟨.expired, 1, 100⟩], by decide⟩,
   ⟨[⟨.start, 0, 0⟩, ⟨.expired, 100, -100⟩], by decide⟩⟩

/-- The DUL's ARTIM and network-idle timers are instances of this class and the
DUL's expiry decisions read `.expired` of those objects; `dul.py` itself calls
no clock function (only `time.sleep`). -/
theorem C09_dul_uses_timer :
    Gen.Timer.dulTimerFrom = "pynetdicom.timer.Timer" ∧
    Gen.Timer.dulTimers = [("_idle_timer", ["Timer"]), ("artim_timer", ["Timer"])] ∧
    Gen.Timer.dulReads = [("idle_timer_expired", "self._idle_timer.expired"),
                          ("reactor", "self.artim_timer.expired")] ∧
    Gen.Timer.dulTimeCalls.all (· == "sleep") = true := by decide

-- non-vacuity: a run that starts, changes the timeout while running, stops after expiry
-- and is queried under a wall step; hypotheses of the exactness theorems are satisfiable
example : runTimer .monotonic (some 5)
    [⟨.remaining, 0, 0⟩, ⟨.stop, 1, 0⟩, ⟨.expired, 1, 0⟩, ⟨.start, 2, 0⟩, ⟨.expired, 7, 50⟩, ⟨.expired, 8, 50⟩,
     ⟨.setTimeout (some 20), 8, 50⟩, ⟨.expired, 9, -50⟩, ⟨.setTimeout (some 3), 9, 0⟩, ⟨.stop, 10, 0⟩,
     ⟨.remaining, 99, 0⟩, ⟨.setTimeout none, 99, 0⟩, ⟨.remaining, 99, 0⟩, ⟨.expired, 99, 0⟩]
    = [.val 5, .bool false, .bool false, .bool true, .bool false, .val (-5), .val 1, .bool false] := by decide
example : ∃ (s0 : T) (qs : List (Op × Int)), s0.timeout = some 30 ∧ qs ≠ [] ∧
    ∀ o ∈ qs, o.1 = .expired ∨ o.1 = .remaining :=
  ⟨⟨some 1, some 2, some 30⟩, [(.expired, 4), (.remaining, 5)], rfl, by simp, by simp⟩
example : sameMono [⟨.start, 0, 0⟩, ⟨.expired, 31, 0⟩] [⟨.start, 0, 7⟩, ⟨.expired, 31, -3600⟩] := rfl

end PynetVerif
