import PynetVerif.Model.Status
import PynetVerif.Gen.Status
import PynetVerif.Lemmas.Range
/-!
C28 — every status code has one category and all status tables agree with it.

`Gen.Status.categoryRuns` is the extension of the real `code_to_category` on
all 65536 codes (run-length encoded), `Gen.Status.tables` every `*_STATUS`
dict of `status.py` after its module-level loops ran; both are regenerated
from /repo on every run.  `Status.runs`/`Status.category` is the hand-written
model used by the other properties (C20, C22, C24) and by the driver.
-/
namespace PynetVerif
open Status

theorem lookup_eq_runLookup : ∀ rs c, Status.lookup rs c = runLookup rs c := by
  intro rs; induction rs with
  | nil => intro c; rfl
  | cons x xs ih => obtain ⟨lo, hi, v⟩ := x; intro c; simp [Status.lookup, runLookup, ih]

/-- The model table *is* the real function: its extension on all 65536 codes,
as regenerated from the source, equals the model's table. -/
theorem C28_model_is_code : Gen.Status.categoryRuns = Status.runs := by decide

/-- The real function's extension is a partition of 0..65535: each 16-bit code
lies in exactly one run and that run carries one of the six categories. -/
theorem C28_exactly_one_category (c : Nat) (h : c < 65536) :
    ∃ r, r ∈ Gen.Status.categoryRuns ∧ r.1 ≤ c ∧ c ≤ r.2.1 ∧ r.2.2 ≤ 5 ∧
      categoryNat c = some r.2.2 ∧
      ∀ r' ∈ Gen.Status.categoryRuns, r'.1 ≤ c → c ≤ r'.2.1 → r' = r := by
  have hc : contiguous Gen.Status.categoryRuns 0 65536 = true := by decide +kernel
  have hk : Gen.Status.categoryRuns.all (fun r => r.2.2 ≤ 5) = true := by decide +kernel
  obtain ⟨r, hr, h1, h2, hu⟩ := contiguous_unique _ 0 65536 hc c (Nat.zero_le _) h
  refine ⟨r, hr, h1, h2, of_decide_eq_true (List.all_eq_true.mp hk r hr), ?_, hu⟩
  unfold categoryNat
  rw [lookup_eq_runLookup, ← C28_model_is_code]
  exact runLookup_of_mem _ 0 65536 hc r hr c h1 h2 (Nat.zero_le _) h

/-- Every service-specific table assigns each of its codes (all 16-bit) the
category the general function assigns. -/
theorem C28_tables_agree (t : String × List (Nat × Nat × Nat)) (ht : t ∈ Gen.Status.tables)
    (r : Nat × Nat × Nat) (hr : r ∈ t.2) (c : Nat) (h1 : r.1 ≤ c) (h2 : c ≤ r.2.1) :
    categoryNat c = some r.2.2 ∧ c < 65536 := by
  have hc : contiguous Status.runs 0 65536 = true := by decide +kernel
  have h : Gen.Status.tables.all
      (fun t => t.2.all (fun q => covered Status.runs q && Nat.blt q.2.1 65536)) = true := by
    decide +kernel
  have hq := List.all_eq_true.mp (List.all_eq_true.mp h t ht) r hr
  simp only [Bool.and_eq_true, Nat.blt_eq] at hq
  have hlt : c < 65536 := by omega
  refine ⟨?_, hlt⟩
  unfold categoryNat
  rw [lookup_eq_runLookup]
  exact covered_spec _ 0 65536 hc r hq.1 c h1 h2 (Nat.zero_le _) hlt

/-- SCU finality follows the category: a response is final iff it is not
Pending, except the documented Repository-Query 0xB001 warning. -/
theorem C28_scu_final_follows_category (rq : Bool) (c : Nat) :
    scuFinal rq c = true ↔ (category c ≠ .pending ∧ ¬ (rq = true ∧ c = 0xB001)) := by
  unfold scuFinal
  by_cases h : rq = true ∧ c = 0xB001
  · obtain ⟨h1, h2⟩ := h; subst h1 h2; simp
  · have : (rq && c == 0xB001) = false := by
      cases rq <;> simp_all
    simp [this, h]

-- non-vacuity: the generated tables are non-empty and include the Q/R find table
example : (Gen.Status.tables.map (·.1)).contains "QR_FIND_SERVICE_CLASS_STATUS" = true ∧
    Gen.Status.categoryRuns.length = 22 ∧ category 0xFF00 = .pending ∧ category 0xB001 = .warning := by
  decide

end PynetVerif
