import PynetVerif.Model.Policy
import PynetVerif.Spec.Reject
import PynetVerif.Lemmas.Strip
/-!
C13 — associations are established only when the acceptance policy allows them.

`Policy.decideAssoc` is the model of the code (`pdu.py` title setters +
`ACSE._negotiate_as_acceptor` + `_check_user_identity`), `Policy.runAcceptor` the
model of `Association.run_reactor`; `Spec.Reject` is the transcription of PS3.8
Table 9-21 and of the documented rejection reasons.  The correspondence with the
real acceptor is checked end-to-end by `harness/props/c13.py`.
-/
namespace PynetVerif
open Policy Spec.Reject

namespace C13

/-! The property's own predicates: padding = the space character only. -/

/-- the calling title, ignoring leading/trailing spaces, is in the required list (if any) -/
def CallingOk (p : Policy) (callingRaw : Bytes) : Prop :=
  p.requireCalling = [] ∨ spStrip callingRaw ∈ p.requireCalling.map spStrip

def CalledOk (p : Policy) (calledRaw : Bytes) : Prop :=
  p.requireCalled = false ∨ spStrip calledRaw = spStrip p.aeTitle

/-- a bound handler returned a positive verdict without raising -/
def IdentityOk (identity : Option Identity) : Prop :=
  ∀ i, identity = some i → i.handler = .notBound ∨ ∃ r, i.handler = .returns true r

def UnderLimit (p : Policy) (active : Nat) : Prop := active ≤ p.maxAssoc

/-- the same two title predicates with the strip the code applies (`str.strip()`) -/
def CallingOkPy (p : Policy) (callingRaw : Bytes) : Prop :=
  p.requireCalling = [] ∨ pyStrip callingRaw ∈ p.requireCalling.map pyStrip

def CalledOkPy (p : Policy) (calledRaw : Bytes) : Prop :=
  p.requireCalled = false ∨ pyStrip calledRaw = pyStrip p.aeTitle

/-- a check of the policy fails (code-level reading) -/
def Failed (p : Policy) (callingRaw calledRaw : Bytes) (identity : Option Identity) (active : Nat) :
    Check → Prop
  | .calling => ¬ CallingOkPy p callingRaw
  | .called => ¬ CalledOkPy p calledRaw
  | .identity => ¬ IdentityOk identity
  | .limit => ¬ UnderLimit p active

/-- `str.strip()` and a spaces-only strip agree on the field: no TAB/LF/VT/FF/CR/FS/GS/RS/US
next to the padding -/
def EdgeClean (raw : Bytes) : Prop := pyStrip raw = spStrip raw

/-- what the API setters (`set_ae`) guarantee for the configured titles -/
def ConfigValid (p : Policy) : Prop :=
  (∀ t ∈ p.requireCalling, validAE t = true) ∧ validAE p.aeTitle = true

def spaces (n : Nat) : Bytes := List.replicate n 0x20

end C13
open C13

/-! ### helper facts about the model -/

theorem decodeTitle_eq_pyStrip {raw : Bytes} {t : Title} (h : decodeTitle raw = some t) :
    t = pyStrip raw := by
  unfold decodeTitle at h
  split at h
  · cases h
  · simp only at h
    split at h
    · cases h
    · split at h
      · exact (Option.some.inj h).symm
      · cases h

/-- the four checks as a priority choice: the last failing check wins -/
def C13.pick (b1 b2 b3 b4 : Bool) : Option Policy.Triple :=
  if b4 then some (2, 3, 2) else if b3 then some (2, 2, 1) else if b2 then some (1, 1, 7)
  else if b1 then some (1, 1, 3) else none

theorem negotiate_eq_pick (p : Policy) (calling called : Title) (identity : Option Identity)
    (active : Nat) :
    negotiate p calling called identity active =
      pick (callingFail p calling) (calledFail p called) (identityFail identity)
        (overLimit active p.maxAssoc) := by
  unfold negotiate pick
  cases callingFail p calling <;> cases calledFail p called <;> cases identityFail identity <;>
    cases overLimit active p.maxAssoc <;> rfl

theorem callingFail_false_iff (p : Policy) (c : Title) :
    callingFail p c = false ↔ (p.requireCalling = [] ∨ c ∈ p.requireCalling.map pyStrip) := by
  unfold callingFail
  cases hq : p.requireCalling with
  | nil => simp
  | cons a as =>
    simp only [List.isEmpty_cons, Bool.not_false, Bool.true_and, Bool.not_eq_eq_eq_not, Bool.not_false,
      List.contains_iff_mem, reduceCtorEq, false_or]

theorem calledFail_false_iff (p : Policy) (c : Title) :
    calledFail p c = false ↔ (p.requireCalled = false ∨ c = pyStrip p.aeTitle) := by
  unfold calledFail
  cases p.requireCalled <;> simp

theorem identityFail_false_iff (identity : Option Identity) :
    identityFail identity = false ↔ IdentityOk identity := by
  unfold IdentityOk identityFail
  cases identity with
  | none => simp
  | some i =>
    obtain ⟨ty, rr, h⟩ := i
    cases h with
    | notBound => simp [checkIdentity]
    | raises => simp [checkIdentity]
    | returns ok r =>
      cases ok
      · simp [checkIdentity]
      · have : (checkIdentity ⟨ty, rr, .returns true r⟩).1 = true := by
          simp only [checkIdentity]
          split
          · rename_i h; simp at h
          · split <;> rfl
        simp [this]

theorem overLimit_false_iff (active max : Nat) : overLimit active max = false ↔ active ≤ max := by
  unfold overLimit
  rw [Bool.eq_false_iff, ne_eq, Nat.blt_eq]
  omega

/-- the checks of `_negotiate_as_acceptor` pass exactly when no check fails -/
theorem negotiate_none_iff (p : Policy) (calling called : Title) (identity : Option Identity)
    (active : Nat) :
    negotiate p calling called identity active = none ↔
      ((p.requireCalling = [] ∨ calling ∈ p.requireCalling.map pyStrip) ∧
       (p.requireCalled = false ∨ called = pyStrip p.aeTitle) ∧
       IdentityOk identity ∧ active ≤ p.maxAssoc) := by
  rw [negotiate_eq_pick, ← callingFail_false_iff, ← calledFail_false_iff, ← identityFail_false_iff,
    ← overLimit_false_iff]
  unfold pick
  cases callingFail p calling <;> cases calledFail p called <;> cases identityFail identity <;>
    cases overLimit active p.maxAssoc <;> simp

/-! ### C13 theorems -/

/-- Establishment implies every check of the policy passed — with the strip the
code applies (Python `str.strip()`: any ASCII whitespace).  No hypotheses. -/
theorem C13_only_if_codestrip (p : Policy) (callingRaw calledRaw : Bytes)
    (identity : Option Identity) (active : Nat)
    (h : decideAssoc p callingRaw calledRaw identity active = .accept) :
    CallingOkPy p callingRaw ∧ CalledOkPy p calledRaw ∧ IdentityOk identity ∧ UnderLimit p active := by
  unfold decideAssoc at h
  split at h
  · rename_i called calling hcd hcg
    split at h
    · rename_i hn
      have := (negotiate_none_iff p calling called identity active).mp hn
      rw [decodeTitle_eq_pyStrip hcd, decodeTitle_eq_pyStrip hcg] at this
      exact this
    · cases h
  · cases h

/-- The property as stated (padding = spaces): holds whenever the received title
fields have no control-whitespace at their edges and the configured titles are
ones the API accepts. -/
theorem C13_only_if_partial (p : Policy) (callingRaw calledRaw : Bytes)
    (identity : Option Identity) (active : Nat) (hcfg : ConfigValid p)
    (h1 : EdgeClean callingRaw) (h2 : EdgeClean calledRaw)
    (h : decideAssoc p callingRaw calledRaw identity active = .accept) :
    CallingOk p callingRaw ∧ CalledOk p calledRaw ∧ IdentityOk identity ∧ UnderLimit p active := by
  obtain ⟨a, b, c, d⟩ := C13_only_if_codestrip p callingRaw calledRaw identity active h
  refine ⟨?_, ?_, c, d⟩
  · rcases a with a | a
    · exact Or.inl a
    · right
      unfold EdgeClean at h1
      rw [← h1]
      have : p.requireCalling.map spStrip = p.requireCalling.map pyStrip := by
        apply List.map_congr_left
        intro t ht
        exact (pyStrip_eq_spStrip_of_valid t (hcfg.1 t ht)).symm
      rw [this]; exact a
  · rcases b with b | b
    · exact Or.inl b
    · right
      unfold EdgeClean at h2
      rw [← h2, ← pyStrip_eq_spStrip_of_valid _ hcfg.2]; exact b

/-- The full-strength statement (without `EdgeClean`) is false for the code: a
calling title field "\tABC" followed by spaces is accepted for the required title "ABC". -/
theorem C13_only_if_neg :
    ∃ (p : Policy) (callingRaw calledRaw : Bytes) (identity : Option Identity) (active : Nat),
      ConfigValid p ∧ decideAssoc p callingRaw calledRaw identity active = .accept ∧
      ¬ CallingOk p callingRaw := by
  refine ⟨⟨[[0x41, 0x42, 0x43]], false, [0x53], 1⟩,
    [0x09, 0x41, 0x42, 0x43] ++ List.replicate 12 0x20, [0x53] ++ List.replicate 15 0x20, none, 1,
    ?_, ?_, ?_⟩
  · constructor
    · intro t ht
      simp only [List.mem_singleton] at ht
      subst ht; decide
    · decide
  · decide
  · unfold CallingOk
    decide

/-- Conversely the policy never refuses a request it should admit: for decodable
title fields, no failed check ⇒ accepted. -/
theorem C13_accept_if (p : Policy) (callingRaw calledRaw : Bytes) (identity : Option Identity)
    (active : Nat) (hv : decideAssoc p callingRaw calledRaw identity active ≠ .invalid)
    (h : CallingOkPy p callingRaw ∧ CalledOkPy p calledRaw ∧ IdentityOk identity ∧ UnderLimit p active) :
    decideAssoc p callingRaw calledRaw identity active = .accept := by
  unfold decideAssoc at hv ⊢
  split
  · rename_i called calling hcd hcg
    have hn : negotiate p calling called identity active = none := by
      apply (negotiate_none_iff p calling called identity active).mpr
      rw [decodeTitle_eq_pyStrip hcd, decodeTitle_eq_pyStrip hcg]
      exact h
    simp [hn]
  · rename_i hne
    split at hv
    · rename_i called calling hcd hcg
      exact absurd hcg (hne _ _ hcd)
    · exact absurd rfl hv

/-- Every rejection carries the documented triple of a check that failed — namely
of the LAST failing check in the code's order (calling, called, identity, limit): the
triple decodes by PS3.8 Table 9-21 to exactly the documented result/source/reason. -/
theorem C13_reject_codes (p : Policy) (callingRaw calledRaw : Bytes) (identity : Option Identity)
    (active : Nat) (t : Policy.Triple)
    (h : decideAssoc p callingRaw calledRaw identity active = .reject t) :
    ∃ c : Check, Failed p callingRaw calledRaw identity active c ∧
      meaning t = some (documented c) ∧
      ∀ c' : Check, c.rank < c'.rank → ¬ Failed p callingRaw calledRaw identity active c' := by
  unfold decideAssoc at h
  split at h
  · rename_i called calling hcd hcg
    split at h
    · cases h
    · rename_i t' hn
      have ht : t' = t := by injection h
      subst ht
      have hcd' := decodeTitle_eq_pyStrip hcd
      have hcg' := decodeTitle_eq_pyStrip hcg
      subst hcd' hcg'
      rw [negotiate_eq_pick] at hn
      have f1 : Failed p callingRaw calledRaw identity active .calling ↔
          callingFail p (pyStrip callingRaw) = true := by
        simp only [Failed, CallingOkPy, ← callingFail_false_iff, Bool.not_eq_false]
      have f2 : Failed p callingRaw calledRaw identity active .called ↔
          calledFail p (pyStrip calledRaw) = true := by
        simp only [Failed, CalledOkPy, ← calledFail_false_iff, Bool.not_eq_false]
      have f3 : Failed p callingRaw calledRaw identity active .identity ↔
          identityFail identity = true := by
        simp only [Failed, ← identityFail_false_iff, Bool.not_eq_false]
      have f4 : Failed p callingRaw calledRaw identity active .limit ↔
          overLimit active p.maxAssoc = true := by
        simp only [Failed, UnderLimit, ← overLimit_false_iff, Bool.not_eq_false]
      have key : ∀ (b1 b2 b3 b4 : Bool), pick b1 b2 b3 b4 = some t' →
          ∃ c : Check, (Check.rec b1 b2 b3 b4 c : Bool) = true ∧ meaning t' = some (documented c) ∧
            ∀ c' : Check, c.rank < c'.rank → (Check.rec b1 b2 b3 b4 c' : Bool) = false := by
        intro b1 b2 b3 b4 hp
        unfold pick at hp
        cases b4
        · cases b3
          · cases b2
            · cases b1
              · cases hp
              · refine ⟨.calling, rfl, ?_, ?_⟩
                · injection hp with e; subst e; rfl
                · intro c' hr; cases c' <;> first | rfl | (simp [Check.rank] at hr)
            · refine ⟨.called, rfl, ?_, ?_⟩
              · injection hp with e; subst e; rfl
              · intro c' hr; cases c' <;> first | rfl | (simp [Check.rank] at hr)
          · refine ⟨.identity, rfl, ?_, ?_⟩
            · injection hp with e; subst e; rfl
            · intro c' hr; cases c' <;> first | rfl | (simp [Check.rank] at hr)
        · refine ⟨.limit, rfl, ?_, ?_⟩
          · injection hp with e; subst e; rfl
          · intro c' hr; cases c' <;> first | rfl | (simp [Check.rank] at hr)
      obtain ⟨c, hc1, hc2, hc3⟩ := key _ _ _ _ hn
      have tr : ∀ c : Check, Failed p callingRaw calledRaw identity active c ↔
          (Check.rec (callingFail p (pyStrip callingRaw)) (calledFail p (pyStrip calledRaw))
            (identityFail identity) (overLimit active p.maxAssoc) c : Bool) = true := by
        intro c; cases c
        · exact f1
        · exact f2
        · exact f3
        · exact f4
      refine ⟨c, (tr c).mpr hc1, hc2, ?_⟩
      intro c' hr hf
      have := (tr c').mp hf
      rw [hc3 c' hr] at this
      cases this
  · cases h

/-- Leading/trailing spaces on the received calling and called title fields never
change the verdict (∀ amounts of padding on each side of each field). -/
theorem C13_strip (p : Policy) (calling called : Bytes) (identity : Option Identity) (active : Nat)
    (l1 r1 l2 r2 : Nat) :
    decideAssoc p (spaces l1 ++ calling ++ spaces r1) (spaces l2 ++ called ++ spaces r2) identity active
      = decideAssoc p calling called identity active := by
  unfold decideAssoc spaces
  rw [decodeTitle_pad _ _ _ (replicate_space_all l1) (replicate_space_all r1),
    decodeTitle_pad _ _ _ (replicate_space_all l2) (replicate_space_all r2)]

/-- The same for ANY whitespace the code strips (this is the over-permissive side
of `C13_only_if_neg`). -/
theorem C13_strip_whitespace (p : Policy) (calling called : Bytes) (identity : Option Identity)
    (active : Nat) (a b c d : Bytes) (ha : a.all isPyWs = true) (hb : b.all isPyWs = true)
    (hc : c.all isPyWs = true) (hd : d.all isPyWs = true) :
    decideAssoc p (a ++ calling ++ b) (c ++ called ++ d) identity active
      = decideAssoc p calling called identity active := by
  unfold decideAssoc
  rw [decodeTitle_pad _ _ _ ha hb, decodeTitle_pad _ _ _ hc hd]

/-- Space padding of the CONFIGURED titles (`require_calling_aet` entries, the AE
title) never changes the verdict either. -/
theorem C13_strip_config (p : Policy) (f : Title → Title)
    (hf : ∀ t, ∃ l r, f t = spaces l ++ t ++ spaces r)
    (calling called : Bytes) (identity : Option Identity) (active : Nat) :
    decideAssoc { p with requireCalling := p.requireCalling.map f, aeTitle := f p.aeTitle }
        calling called identity active
      = decideAssoc p calling called identity active := by
  have hs : ∀ t, pyStrip (f t) = pyStrip t := by
    intro t
    obtain ⟨l, r, e⟩ := hf t
    rw [e]
    exact strip_pad _ _ _ (replicate_space_all l) (replicate_space_all r)
  have : (pyStrip ∘ f) = pyStrip := funext hs
  unfold decideAssoc negotiate callingFail calledFail
  simp only [List.map_map, List.isEmpty_map, hs, this]

/-- A rejected (or undecodable) request never reaches a DIMSE service handler: the
service loop of `Association.run_reactor` is entered only after an accept (and only
if no `EVT_REQUESTED` handler aborted the association first). -/
theorem C13_no_handlers (p : Policy) (callingRaw calledRaw : Bytes) (identity : Option Identity)
    (active : Nat) (h : Hook)
    (hs : Eff.serviceLoop ∈ runAcceptor p callingRaw calledRaw identity active h) :
    decideAssoc p callingRaw calledRaw identity active = .accept ∧ h.aborted = false ∧
      h.rejected = false := by
  unfold runAcceptor at hs
  generalize decideAssoc p callingRaw calledRaw identity active = o at hs ⊢
  cases o with
  | invalid => simp at hs
  | accept =>
    obtain ⟨a, r⟩ := h
    cases a <;> cases r <;> simp at hs ⊢
  | reject t =>
    obtain ⟨a, r⟩ := h
    cases a <;> cases r <;> simp at hs

/-- … and what a rejected request gets is exactly one A-ASSOCIATE-RJ with the model's triple. -/
theorem C13_rejected_trace (p : Policy) (callingRaw calledRaw : Bytes) (identity : Option Identity)
    (active : Nat) (t : Policy.Triple)
    (h : decideAssoc p callingRaw calledRaw identity active = .reject t) :
    runAcceptor p callingRaw calledRaw identity active ⟨false, false⟩ =
      [.requested, .sendReject t, .rejectedEvt, .shutdownSocket] := by
  unfold runAcceptor
  rw [h]
  rfl

/-! ### non-vacuity -/

private def demo : Policy :=
  ⟨[[0x20, 0x41, 0x42, 0x43, 0x20], [0x58]], true, [0x20, 0x53, 0x43, 0x50], 2⟩
private def abc : Bytes := [0x41, 0x42, 0x43]
private def scp : Bytes := [0x53, 0x43, 0x50]

-- every outcome and every documented triple is produced by some input
example : decideAssoc demo (abc ++ spaces 13) (scp ++ spaces 13) none 2 = .accept := by decide
example : decideAssoc demo (spaces 2 ++ abc ++ spaces 11) (spaces 13 ++ scp) none 1 = .accept := by decide
example : decideAssoc demo ([0x61, 0x62, 0x63] ++ spaces 13) (scp ++ spaces 13) none 1 = .reject (1, 1, 3) := by decide
example : decideAssoc demo ([0x61, 0x62, 0x63] ++ spaces 13) ([0x73] ++ spaces 15) none 1 = .reject (1, 1, 7) := by decide
example : decideAssoc demo (abc ++ spaces 13) (scp ++ spaces 13) (some ⟨1, false, .raises⟩) 1 = .reject (2, 2, 1) := by decide
example : decideAssoc demo (abc ++ spaces 13) (scp ++ spaces 13) (some ⟨2, false, .returns false false⟩) 1 = .reject (2, 2, 1) := by decide
example : decideAssoc demo (abc ++ spaces 13) (scp ++ spaces 13) (some ⟨2, false, .notBound⟩) 1 = .accept := by decide
example : decideAssoc demo (abc ++ spaces 13) (scp ++ spaces 13) none 3 = .reject (2, 3, 2) := by decide
example : decideAssoc demo (abc ++ List.replicate 13 0) (scp ++ spaces 13) none 1 = .invalid := by decide
example : decideAssoc demo (spaces 16) (scp ++ spaces 13) none 1 = .invalid := by decide
example : ConfigValid demo := by
  constructor
  · intro t ht
    simp only [demo, List.mem_cons, List.not_mem_nil, or_false] at ht
    rcases ht with ht | ht <;> subst ht <;> decide
  · decide
example : EdgeClean (spaces 2 ++ abc ++ spaces 11) := by unfold EdgeClean; decide
example : Eff.serviceLoop ∈ runAcceptor demo (abc ++ spaces 13) (scp ++ spaces 13) none 1 ⟨false, false⟩ := by
  decide
-- the four documented triples are legal per Table 9-21 and mean what the documentation says
example : meaning (1, 1, 3) = some (documented .calling) ∧ meaning (1, 1, 7) = some (documented .called) ∧
    meaning (2, 2, 1) = some (documented .identity) ∧ meaning (2, 3, 2) = some (documented .limit) ∧
    meaning (1, 1, 4) = none ∧ meaning (2, 3, 0) = none := by decide

end PynetVerif
