import PynetVerif.Model.QrMatch
import PynetVerif.Spec.Match
import PynetVerif.Lemmas.Match
import PynetVerif.Gen.Qr
/-!
C29 — qrscp returns exactly the entities the PS3.4 matching rules select.

`Spec.Match` is PS3.4 C.2.2.2 / C.4.1.3.1.1 written from the standard,
`QrMatch` is the model of `apps/qrscp/db.py` on a modelled SQLite.  Proved
here: sanity of the spec (the executable wild-card matcher is the relational
definition; literals; '*'), that the tables of the code are those of the
model and of PS3.4, that the code's dispatch to a matching kind and its
identifier check are the standard's, and — because the code does NOT satisfy
the property — concrete witnesses of each way it fails (`…_neg`) next to the
theorems on the fragment where it does (`…_partial`).

SQLite is modelled, not verified: the property itself is decided by the
differential run of `harness/props/c29.py` against `Spec.Match`.
-/
namespace PynetVerif
open Spec.Match C29

/-! ### sanity of the spec -/

/-- the executable matcher decides the relational definition of wild-card matching -/
theorem C29_wild_iff_relational (p s : Str) : wild p s = true ↔ Wild p s := wild_iff_Wild p s

/-- a pattern without '*' and '?' matches exactly itself (single value = wild card without wild cards) -/
theorem C29_wild_literal (p s : Str) (h : ∀ c ∈ p, c ≠ '*' ∧ c ≠ '?') : wild p s = true ↔ p = s :=
  wild_literal p s h

/-- '*' matches everything, including the empty value -/
theorem C29_wild_star_matches_all (s : Str) : wild ['*'] s = true := wild_star_all s

/-! ### the tables of the code (regenerated every run) are the model's and PS3.4's -/

theorem C29_tables :
    Gen.Qr.attributes.map (·.1) = QrMatch.keywords ∧
    Gen.Qr.attributes.map (·.2.2.2) = QrMatch.vrs ∧
    Gen.Qr.attributes.map (fun a => a.2.2.1 == "R") = QrMatch.isR ∧
    Gen.Qr.unmatchedKeywords = [] ∧
    Gen.Qr.patientRoot = QrMatch.levelsOf .patientRoot ∧
    Gen.Qr.studyRoot = QrMatch.levelsOf .studyRoot ∧
    Gen.Qr.textVR = QrMatch.textVR ∧
    Gen.Qr.dateTimeVRLists = [["DA", "DT", "TM"], ["DA", "DT", "TM"]] ∧
    Gen.Qr.searchCalls =
      ["_search_single_value", "_search_universal", "_search_uid_list", "_search_wildcard", "_search_range"] ∧
    Gen.Qr.wildcardReplace = [("*", "%"), ("?", "_")] ∧ Gen.Qr.wildcardCompare = ["like"] := by
  decide

/-- level, key type (U/R) and VR class of every supported attribute in the code's
`_ATTRIBUTES` (with pydicom's dictionary VR) are those of PS3.4 Tables C.6-1..C.6-4;
the level tables of both information models list the PS3.4 levels in order, each
with its unique key first and exactly the attributes PS3.4 puts at that level. -/
theorem C29_tables_match_ps34 :
    Gen.Qr.attributes.map (fun a => (parseLevel a.2.1, a.2.2.1 == "U", classOf a.2.2.2)) =
      attrs.map (fun a => (some a.level, a.unique, a.vr)) ∧
    (∀ r ∈ [(QrMatch.Root.patientRoot, Root.patientRoot), (QrMatch.Root.studyRoot, Root.studyRoot)],
      (QrMatch.levelsOf r.1).map (fun lk => (parseLevel lk.1, lk.2.head?)) =
        (levelsOf r.2).map (fun l => (some l, some (uniqueKeyOf l))) ∧
      (QrMatch.levelsOf r.1).all (fun lk => (List.range 12).all (fun c =>
        lk.2.contains c == (match attrs[c]? with
          | some a => some (levelIn r.2 a) == parseLevel lk.1
          | none => false))) = true) := by
  decide

/-! ### dispatch -/

/-- For every VR (other than SQ) and every key that is zero-length or has one
value, `build_query` picks the kind of matching PS3.4 prescribes — for ALL
values.  (Excluded hypothesis: keys with several values, see the `_neg`.) -/
theorem C29_dispatch_partial (vr : String) (key : Key) (hsq : vr ≠ "SQ") (h1 : key.length ≤ 1) :
    kindToSpec (QrMatch.buildKind vr (seenDirect key)) = kindOf (classOf vr) key := by
  match key, h1 with
  | [], _ => simp [seenDirect, QrMatch.buildKind, kindOf, kindToSpec]
  | [v], _ =>
    rcases dispatch_one vr v with h | h
    · exact h
    · exact absurd h hsq
  | _ :: _ :: _, h => simp at h

/-- List of UID matching is never reached: a UI key with two values is sent to
single-value matching, whose SQL cannot bind a MultiValue; the query raises
(C-FIND answers 0xC320) where PS3.4 C.2.2.2.2 selects the listed entities. -/
theorem C29_dispatch_uidlist_neg :
    ∃ key : Key, kindOf (classOf "UI") key = .uidList ∧
      QrMatch.buildKind "UI" (seenDirect key) = .single ∧
      QrMatch.buildFilter "UI" (seenDirect key) = .error ∧
      matchKey false (classOf "UI") key (some "1.1".toList) = true :=
  ⟨["1.1".toList, "1.2".toList], by decide⟩

/-- Universal matching is lost on the wire: the zero-length key arrives as `''`,
is sent to single-value matching and compared with `== ''`; nothing with a
non-empty value matches, where PS3.4 C.2.2.2.3 matches everything. -/
theorem C29_universal_wire_neg :
    ∃ (vr : String) (v : Option Str), vr ≠ "SQ" ∧
      kindOf (classOf vr) [] = .universal ∧ matchKey false (classOf vr) [] v = true ∧
      QrMatch.buildKind vr (seenWire (classOf vr) []) = .single ∧
      QrMatch.evalFilter (QrMatch.buildFilter vr (seenWire (classOf vr) [])) v = false :=
  ⟨"LO", some "a".toList, by decide⟩

/-! ### wild card matching through SQL LIKE -/

/-- On patterns free of '_' and '%', and when no pattern character equals a
different value character up to ASCII case (e.g. neither contains ASCII
letters), `LIKE` on the translated pattern IS PS3.4 wild-card matching — for
all patterns and values. -/
theorem C29_wildcard_partial (p v : Str)
    (hp : ∀ c ∈ p, c ≠ '_' ∧ c ≠ '%')
    (hc : ∀ c ∈ p, ∀ d ∈ v, QrMatch.lowerAscii c = QrMatch.lowerAscii d → c = d) :
    QrMatch.like (QrMatch.toLike p) v = wild p v :=
  QrMatch.like_toLike_eq_wild p v hp hc

/-- '_' in a wild-card pattern is a literal in PS3.4 but a one-character wild card in LIKE -/
theorem C29_like_underscore_neg :
    ∃ p v : Str, hasWild p = true ∧ QrMatch.like (QrMatch.toLike p) v = true ∧ wild p v = false :=
  ⟨"a_*".toList, "aXb".toList, by decide⟩

/-- '%' in a wild-card pattern is a literal in PS3.4 but a wild card in LIKE -/
theorem C29_like_percent_neg :
    ∃ p v : Str, hasWild p = true ∧ QrMatch.like (QrMatch.toLike p) v = true ∧ wild p v = false :=
  ⟨"%?".toList, "aXb".toList, by decide⟩

/-- LIKE ignores ASCII case; PS3.4 wild-card matching is case-sensitive (except, optionally, for PN) -/
theorem C29_like_casefold_neg :
    ∃ p v : Str, hasWild p = true ∧ (∀ c ∈ p, c ≠ '_' ∧ c ≠ '%') ∧
      QrMatch.like (QrMatch.toLike p) v = true ∧ wild p v = false :=
  ⟨"AX*".toList, "aXb".toList, by decide⟩

/-! ### range matching through string comparison -/

/-- For date/time values of one fixed all-digit format, SQLite's string order
is the numeric (chronological) order PS3.4 range matching refers to. -/
theorem C29_range_order_partial (a b : Str) (hl : a.length = b.length)
    (ha : a.all isDigit = true) (hb : b.all isDigit = true) :
    QrMatch.lexLe a b = dtLe a b := by
  rw [QrMatch.lexLe_eq_numeric a b hl ha hb]
  simp [dtLe, hl, ha, hb]

/-- Without the fixed format the two orders differ ("9" vs "10"). -/
theorem C29_range_order_neg :
    ∃ a b : Str, a.all isDigit = true ∧ b.all isDigit = true ∧
      QrMatch.lexLe a b = false ∧ Nat.ble (valDigits a) (valDigits b) = true :=
  ⟨"9".toList, "10".toList, by decide⟩

/-! ### one key: the SQL condition vs the PS3.4 matcher -/

/-- A range key "a-b", "a-" or "-b" on a DA/TM/DT attribute whose bounds and
stored value are all-digit strings of one length: the SQL condition the code
builds (`>=`/`<=` on strings) holds exactly when PS3.4 range matching does. -/
theorem C29_range_key_partial (vr : String) (hvr : vr ∈ ["DA", "TM", "DT"]) (a b x : Str)
    (ha : a = [] ∨ (a.length = x.length ∧ a.all isDigit = true))
    (hb : b = [] ∨ (b.length = x.length ∧ b.all isDigit = true))
    (hx : x.all isDigit = true) (hab : ¬(a = [] ∧ b = [])) :
    QrMatch.evalFilter (QrMatch.buildFilter vr (.str (a ++ '-' :: b))) (some x) =
      matchKey false (classOf vr) [a ++ '-' :: b] (some x) := by
  have na : '-' ∉ a := by
    rcases ha with h | h
    · simp [h]
    · exact digits_no_dash h.2
  have nb : '-' ∉ b := by
    rcases hb with h | h
    · simp [h]
    · exact digits_no_dash h.2
  have hc : (a ++ '-' :: b).contains '-' = true := by simp
  have hk : QrMatch.buildKind vr (.str (a ++ '-' :: b)) = .range := by
    simp only [List.mem_cons, List.mem_nil_iff, or_false] at hvr
    rcases hvr with h | h | h <;> subst h <;> simp [QrMatch.buildKind, QrMatch.Val.has, QrMatch.textVR]
  have hcl : classOf vr = .dateTime := by
    simp only [List.mem_cons, List.mem_nil_iff, or_false] at hvr
    rcases hvr with h | h | h <;> subst h <;> decide
  have la : ∀ (h : a.length = x.length ∧ a.all isDigit = true), QrMatch.lexLe a x = dtLe a x := fun h =>
    by rw [QrMatch.lexLe_eq_numeric a x h.1 h.2 hx]; simp [dtLe, h.1, h.2, hx]
  have lb : ∀ (h : b.length = x.length ∧ b.all isDigit = true), QrMatch.lexLe x b = dtLe x b := fun h =>
    by rw [QrMatch.lexLe_eq_numeric x b h.1.symm hx h.2]; simp [dtLe, h.1, h.2, hx]
  unfold QrMatch.buildFilter matchKey
  rw [hk, hcl]
  simp only [kindOf, hc, if_true, splitDashes_append a b na nb, rangeMatch, splitDash_append a b na nb]
  rcases ha with ha | ha <;> rcases hb with hb | hb
  · exact absurd ⟨ha, hb⟩ hab
  · subst ha
    have : b ≠ [] := fun e => hab ⟨rfl, e⟩
    have hbe : b.isEmpty = false := by cases b <;> simp_all
    simp [hbe, QrMatch.evalFilter, lb hb]
  · subst hb
    have : a ≠ [] := fun e => hab ⟨e, rfl⟩
    have hae : a.isEmpty = false := by cases a <;> simp_all
    simp [hae, QrMatch.evalFilter, la ha]
  · by_cases hae : a = []
    · subst hae
      have hbe : b.isEmpty = false := by
        cases b with
        | nil => exact absurd ⟨rfl, rfl⟩ hab
        | cons _ _ => rfl
      simp [hbe, QrMatch.evalFilter, lb hb]
    · have hae' : a.isEmpty = false := by cases a <;> simp_all
      by_cases hbe : b = []
      · subst hbe; simp [hae', QrMatch.evalFilter, la ha]
      · have hbe' : b.isEmpty = false := by cases b <;> simp_all
        simp [hae', hbe', QrMatch.evalFilter, la ha, lb hb]


/-- For every VR that is not a date/time VR, every zero-length or one-valued
key given to `search()` directly and every stored value (or NULL), the SQL
condition the code builds holds exactly when PS3.4 says the key matches —
provided a wild-card pattern has no '_'/'%' and case folding cannot identify
different characters. -/
theorem C29_key_partial (vr : String) (key : Key) (v : Option Str) (hsq : vr ≠ "SQ")
    (h1 : key.length ≤ 1) (hdt : classOf vr ≠ .dateTime)
    (hw : ∀ k ∈ key, hasWild k = true →
      (∀ c ∈ k, c ≠ '_' ∧ c ≠ '%') ∧
      (∀ x, v = some x → ∀ c ∈ k, ∀ d ∈ x, QrMatch.lowerAscii c = QrMatch.lowerAscii d → c = d)) :
    QrMatch.evalFilter (QrMatch.buildFilter vr (seenDirect key)) v = matchKey false (classOf vr) key v := by
  match key, h1 with
  | [], _ => simp [seenDirect, QrMatch.buildFilter, QrMatch.buildKind, QrMatch.evalFilter, matchKey, kindOf]
  | _ :: _ :: _, h => simp at h
  | [k], _ =>
    have hd := C29_dispatch_partial vr [k] hsq (by simp)
    simp only [seenDirect] at hd ⊢
    unfold QrMatch.buildFilter matchKey
    rw [← hd]
    cases hk : QrMatch.buildKind vr (.str k) with
    | single => cases v <;> simp [kindToSpec, QrMatch.evalFilter]
    | universal => rw [hk] at hd; simp [kindToSpec, kindOf] at hd; split at hd <;> (try split at hd) <;> simp at hd
    | uidList => rw [hk] at hd; simp [kindToSpec, kindOf] at hd; split at hd <;> (try split at hd) <;> simp at hd
    | skipped => rw [hk] at hd; simp [kindToSpec, kindOf] at hd; split at hd <;> (try split at hd) <;> simp at hd
    | range =>
      rw [hk] at hd
      simp only [kindToSpec, kindOf] at hd
      exfalso
      cases hcl : classOf vr <;> rw [hcl] at hd <;> simp at hd
      · split at hd <;> simp at hd
      · split at hd <;> simp at hd
      · exact hdt hcl
    | wildcard =>
      rw [hk] at hd
      have hwk : hasWild k = true := by
        simp only [kindToSpec, kindOf] at hd
        cases hcl : classOf vr <;> rw [hcl] at hd <;> simp at hd
        · by_cases hh : hasWild k = true
          · exact hh
          · simp [hh] at hd
        · by_cases hh : hasWild k = true
          · exact hh
          · simp [hh] at hd
        · split at hd <;> simp at hd
      obtain ⟨hp, hc⟩ := hw k (by simp) hwk
      cases v with
      | none => simp [kindToSpec, QrMatch.evalFilter]
      | some x =>
        simp only [kindToSpec, QrMatch.evalFilter, Bool.and_false, Bool.false_eq_true, if_false]
        exact QrMatch.like_toLike_eq_wild k x hp (hc x rfl)

/-! ### the identifier check -/

/-- `_check_identifier` raises InvalidIdentifier exactly when the level
hierarchy is invalid in the sense of PS3.4 C.4.1.3.1.1 — for both information
models, every Query/Retrieve Level string and every non-empty set of supported
keys (a key-less identifier is outside the property's quantifier). -/
theorem C29_check_identifier (root : Root) (q : String) (mkeys : List (Nat × QrMatch.Val))
    (skeys : List (Nat × Key)) (hcols : mkeys.map (·.1) = skeys.map (·.1)) (hne : mkeys ≠ []) :
    QrMatch.checkIdentifier (mroot root) { level := some q, keys := mkeys } =
      validIdentifier root { level := parseLevel q, keys := skeys } := by
  have hhas : ∀ c, QrMatch.Ident.has { level := some q, keys := mkeys } c =
      Ident.has { level := parseLevel q, keys := skeys } c := by
    intro c
    simp only [QrMatch.Ident.has, Ident.has, any_fst, hcols]
  have hemp : mkeys.isEmpty = false := by cases mkeys <;> simp_all
  generalize hM : QrMatch.Ident.has { level := some q, keys := mkeys } = hm at hhas
  generalize hS : Ident.has { level := parseLevel q, keys := skeys } = hs at hhas
  have hfun : hm = hs := funext hhas
  subst hfun
  have hS' : ∀ L, Ident.has { level := L, keys := skeys } = hm := fun L => hS
  by_cases h : q ∈ ["PATIENT", "STUDY", "SERIES", "IMAGE"]
  · simp only [List.mem_cons, List.mem_nil_iff, or_false] at h
    rcases h with h | h | h | h <;> subst h <;> cases root <;>
      simp [QrMatch.checkIdentifier, validIdentifier, parseLevel, mroot, QrMatch.levelsOf, levelsOf,
        QrMatch.checkLevels, hemp, hM, columnsBelow, attrs, levelIn, Level.toNat, uniqueKeyOf, List.range,
        List.range.loop]
    all_goals (simp [hS', Bool.and_assoc])
  · simp only [List.mem_cons, List.mem_nil_iff, or_false, not_or] at h
    obtain ⟨h1, h2, h3, h4⟩ := h
    cases root <;>
      simp [QrMatch.checkIdentifier, validIdentifier, parseLevel, mroot, QrMatch.levelsOf, h1, h2, h3, h4]

/-- an absent Query/Retrieve Level is invalid for both -/
theorem C29_check_identifier_no_level (root : Root) (mkeys : List (Nat × QrMatch.Val)) (skeys : List (Nat × Key)) :
    QrMatch.checkIdentifier (mroot root) { level := none, keys := mkeys } = false ∧
    validIdentifier root { level := none, keys := skeys } = false := by
  simp [QrMatch.checkIdentifier, validIdentifier]

/-! ### the whole `search()` against the PS3.4 selection -/

/-- Composition: if no key's SQL condition raises and each key's condition
agrees with the PS3.4 matcher on the stored values, then `search()` (identifier
check, hierarchical accumulation of conditions, row filter) returns
InvalidIdentifier exactly when PS3.4 calls the identifier invalid and otherwise
exactly the instances of the entities PS3.4 selects — for both information
models, every level string, every key set without duplicate columns, every
database. -/
theorem C29_search_compose (root : Root) (q : String) (skeys : List (Nat × Key)) (rows : List Row)
    (hne : skeys ≠ []) (hnodup : (skeys.map (·.1)).Nodup) (hcol : ∀ k ∈ skeys, k.1 < 12)
    (herr : ∀ k ∈ skeys, QrMatch.buildFilter ((QrMatch.vrs[k.1]?).getD "UN") (seenDirect k.2) ≠ .error)
    (hkey : ∀ k ∈ skeys, ∀ r ∈ rows, ∀ a, attrs[k.1]? = some a →
      QrMatch.evalFilter (QrMatch.buildFilter ((QrMatch.vrs[k.1]?).getD "UN") (seenDirect k.2)) (QrMatch.Row.col r k.1)
        = matchKey false a.vr k.2 (Row.col r k.1)) :
    QrMatch.search (mroot root) false
        { level := some q, keys := skeys.map (fun k => (k.1, seenDirect k.2)) } rows =
      (match selectRetrieve false root { level := parseLevel q, keys := skeys } rows with
       | none => .invalid
       | some is => .rows is) := by
  unfold QrMatch.search selectRetrieve
  simp only [Bool.false_eq_true, if_false]
  generalize hmk : skeys.map (fun k => (k.1, seenDirect k.2)) = mkeys
  have hcols : mkeys.map (·.1) = skeys.map (·.1) := by rw [← hmk]; simp [Function.comp_def]
  have hmne : mkeys ≠ [] := by rw [← hmk]; simpa using hne
  have hchk := C29_check_identifier root q mkeys skeys hcols hmne
  rw [hchk]
  cases hv : validIdentifier root { level := parseLevel q, keys := skeys } with
  | false => simp
  | true =>
    simp only [Bool.not_true, Bool.false_eq_true, if_false, if_true]
    -- the level is a level of the model
    obtain ⟨L, hq, hL, hbelow⟩ : ∃ L, parseLevel q = some L ∧ (levelsOf root).contains L = true ∧
        (columnsBelow root L).all (fun c => !Ident.has { level := parseLevel q, keys := skeys } c) = true := by
      unfold validIdentifier at hv
      cases hp : parseLevel q with
      | none => simp [hp] at hv
      | some L =>
        simp only [hp, Bool.and_eq_true] at hv
        exact ⟨L, rfl, hv.1.1, by simpa [hp] using hv.2⟩
    have hhasS : ∀ k ∈ skeys, Ident.has { level := parseLevel q, keys := skeys } k.1 = true := by
      intro k hk; simp only [Ident.has, List.any_eq_true]; exact ⟨k, hk, by simp⟩
    have hin : ∀ k ∈ mkeys, k.1 ∈ QrMatch.columnsUpTo q (QrMatch.levelsOf (mroot root)) := by
      intro k hk
      rw [← hmk] at hk
      obtain ⟨k', hk', rfl⟩ := List.mem_map.mp hk
      rcases covered root q L hq hL k'.1 (hcol k' hk') with h | h
      · exact h
      · have := List.all_eq_true.mp hbelow k'.1 h
        simp [hhasS k' hk'] at this
    have hhasM : ∀ k ∈ mkeys, QrMatch.Ident.has { level := some q, keys := mkeys } k.1 = true := by
      intro k hk; simp only [QrMatch.Ident.has, List.any_eq_true]; exact ⟨k, hk, by simp⟩
    have hn : (mkeys.map (·.1)).Nodup := by rw [hcols]; exact hnodup
    have hfa := filters_all mkeys (QrMatch.columnsUpTo q (QrMatch.levelsOf (mroot root)))
      (QrMatch.Ident.has { level := some q, keys := mkeys })
      (fun c k => QrMatch.buildFilter ((QrMatch.vrs[c]?).getD "UN") k.2) hhasM hn hin
    generalize hfl : (List.filterMap
            (fun c =>
              Option.map (fun k => (c, QrMatch.buildFilter (QrMatch.vrs[c]?.getD "UN") k.snd))
                (List.find? (fun k => k.fst == c) mkeys))
            (List.filter (QrMatch.Ident.has { level := some q, keys := mkeys })
              (QrMatch.columnsUpTo q (QrMatch.levelsOf (mroot root))))) = fl at hfa ⊢
    have hnoerr : fl.any (fun f => f.snd == QrMatch.Filter.error) = false := by
      have hall := hfa (fun f => !(f.snd == QrMatch.Filter.error))
      have : (mkeys.all fun k => !(QrMatch.buildFilter (QrMatch.vrs[k.fst]?.getD "UN") k.snd == QrMatch.Filter.error)) = true := by
        rw [List.all_eq_true]
        intro k hk
        rw [← hmk] at hk
        obtain ⟨k', hk', rfl⟩ := List.mem_map.mp hk
        simpa using herr k' hk'
      rw [this] at hall
      rw [Bool.eq_false_iff]
      intro h
      obtain ⟨f, hf, hp⟩ := List.any_eq_true.mp h
      have := List.all_eq_true.mp hall f hf
      simp [hp] at this
    simp only [hnoerr, Bool.false_eq_true, if_false, hfa]
    congr 1
    unfold matchingRows
    apply filterMap_congr'
    intro x hx
    have hr : x.2 ∈ rows := (List.of_mem_zip hx).2
    have : (mkeys.all fun k => QrMatch.evalFilter (QrMatch.buildFilter (QrMatch.vrs[k.fst]?.getD "UN") k.snd)
        (QrMatch.Row.col x.snd k.fst)) = rowMatches false { level := parseLevel q, keys := skeys } x.2 := by
      rw [← hmk, List.all_map]
      unfold rowMatches
      rw [Bool.eq_iff_iff, List.all_eq_true, List.all_eq_true]
      constructor
      · intro h k hk
        obtain ⟨a, ha⟩ := attrs_some k.1 (hcol k hk)
        have := h k hk
        simp only [Function.comp_def] at this
        rw [hkey k hk x.2 hr a ha] at this
        simp [ha, this]
      · intro h k hk
        obtain ⟨a, ha⟩ := attrs_some k.1 (hcol k hk)
        have := h k hk
        simp only [ha] at this
        simp only [Function.comp_def]
        rw [hkey k hk x.2 hr a ha]; exact this
    obtain ⟨i, r⟩ := x
    simp only at this ⊢
    rw [this]


theorem C29.buildFilter_ne_error (vr : String) (key : Key) (hsq : vr ≠ "SQ") (h1 : key.length ≤ 1)
    (hdt : classOf vr ≠ .dateTime) : QrMatch.buildFilter vr (seenDirect key) ≠ .error := by
  match key, h1 with
  | [], _ => simp [seenDirect, QrMatch.buildFilter, QrMatch.buildKind]
  | _ :: _ :: _, h => simp at h
  | [k], _ =>
    have hd := C29_dispatch_partial vr [k] hsq (by simp)
    simp only [seenDirect] at hd ⊢
    unfold QrMatch.buildFilter
    cases hk : QrMatch.buildKind vr (.str k) with
    | single => simp
    | universal => simp
    | uidList => simp only; split <;> simp
    | wildcard => simp
    | skipped => simp
    | range =>
      rw [hk] at hd
      simp only [kindToSpec, kindOf] at hd
      exfalso
      cases hcl : classOf vr <;> rw [hcl] at hd <;> simp at hd
      · split at hd <;> simp at hd
      · split at hd <;> simp at hd
      · exact hdt hcl


/-- The fragment on which the real strategy is right, with concrete
hypotheses: keys with at most one value (no UID lists), no date/time keys
(see `C29_range_key_partial` for those), wild-card patterns free of '_' and '%'
whose characters cannot be identified with different stored characters by
ASCII case folding.  There `search()` = PS3.4 (`selectRetrieve`: all instances
of the matching entities; C-FIND's one-response-per-entity is refuted by
`C29_find_per_instance_neg`). -/
theorem C29_search_partial (root : Root) (q : String) (skeys : List (Nat × Key)) (rows : List Row)
    (hne : skeys ≠ []) (hnodup : (skeys.map (·.1)).Nodup) (hcol : ∀ k ∈ skeys, k.1 < 12)
    (h1 : ∀ k ∈ skeys, k.2.length ≤ 1)
    (hdt : ∀ k ∈ skeys, k.1 ≠ 3 ∧ k.1 ≠ 4)
    (hw : ∀ k ∈ skeys, ∀ p ∈ k.2, hasWild p = true →
      (∀ c ∈ p, c ≠ '_' ∧ c ≠ '%') ∧
      (∀ r ∈ rows, ∀ x, Row.col r k.1 = some x →
        ∀ c ∈ p, ∀ d ∈ x, QrMatch.lowerAscii c = QrMatch.lowerAscii d → c = d)) :
    QrMatch.search (mroot root) false
        { level := some q, keys := skeys.map (fun k => (k.1, seenDirect k.2)) } rows =
      (match selectRetrieve false root { level := parseLevel q, keys := skeys } rows with
       | none => .invalid
       | some is => .rows is) := by
  apply C29_search_compose root q skeys rows hne hnodup hcol
  · intro k hk
    obtain ⟨a, _, hcl, hsq, hd⟩ := vr_class k.1 (hcol k hk)
    apply C29.buildFilter_ne_error _ _ hsq (h1 k hk)
    rw [hcl]; intro e
    rcases hd e with h | h
    · exact (hdt k hk).1 h
    · exact (hdt k hk).2 h
  · intro k hk r hr a ha
    obtain ⟨a', ha', hcl, hsq, hd⟩ := vr_class k.1 (hcol k hk)
    rw [ha] at ha'
    cases ha'
    rw [← hcl]
    apply C29_key_partial _ _ _ hsq (h1 k hk)
    · rw [hcl]; intro e
      rcases hd e with h | h
      · exact (hdt k hk).1 h
      · exact (hdt k hk).2 h
    · intro p hp hwp
      obtain ⟨g1, g2⟩ := hw k hk p hp hwp
      exact ⟨g1, fun x hx => g2 r hr x hx⟩

/-! ### C-FIND answers per instance, not per entity -/

def rowA : Row := [some "aXb".toList, some "Doe".toList, some "1.1".toList, none, none, none, none,
  some "1.1.1".toList, none, none, some "1.1.1.1".toList, none]
def rowB : Row := [some "aXb".toList, some "Doe".toList, some "1.1".toList, none, none, none, none,
  some "1.1.1".toList, none, none, some "1.1.1.2".toList, none]

/-- One patient with two instances: `search()` returns two rows (and `handle_find`
yields one pending response per row), PS3.4 selects one patient. -/
theorem C29_find_per_instance_neg :
    QrMatch.search .patientRoot false { level := some "PATIENT", keys := [(0, .str "aXb".toList)] } [rowA, rowB]
      = .rows [0, 1] ∧
    selectFind false .patientRoot { level := some .patient, keys := [(0, ["aXb".toList])] } [rowA, rowB]
      = some [0] ∧
    selectRetrieve false .patientRoot { level := some .patient, keys := [(0, ["aXb".toList])] } [rowA, rowB]
      = some [0, 1] := by
  decide

-- non-vacuity of the hypotheses of the partial theorems
example : (∀ c ∈ "1?3*".toList, c ≠ '_' ∧ c ≠ '%') ∧
    (∀ c ∈ "1?3*".toList, ∀ d ∈ "1234".toList, QrMatch.lowerAscii c = QrMatch.lowerAscii d → c = d) ∧
    wild "1?3*".toList "1234".toList = true := by decide
example : "20200101".toList.length = "20191231".toList.length ∧ "20200101".toList.all isDigit = true ∧
    dtLe "20191231".toList "20200101".toList = true := by decide
example : validIdentifier .studyRoot { level := parseLevel "SERIES", keys := [(2, ["1.1".toList]), (8, ["C*".toList])] } = true ∧
    validIdentifier .studyRoot { level := parseLevel "PATIENT", keys := [(0, ["a".toList])] } = false := by decide
example : matchKey false .dateTime ["20200101-20200131".toList] (some "20200115".toList) = true ∧
    matchKey false .dateTime ["-20200101".toList] (some "20200115".toList) = false ∧
    matchKey false .uid ["1.1".toList, "1.2".toList] (some "1.2".toList) = true ∧
    matchKey true .pn ["doe*".toList] (some "DOE^J".toList) = true ∧
    matchKey false .pn ["doe*".toList] (some "DOE^J".toList) = false := by decide

-- the hypotheses of C29_search_partial are satisfiable by a non-trivial query (wild card, two stored patients)
def rowN : Row := [some "1234".toList, none, some "1.1".toList, none, none, none, none,
  some "1.1.1".toList, none, none, some "1.1.1.1".toList, none]

example : QrMatch.search .patientRoot false { level := some "PATIENT", keys := [(0, .str "1?3*".toList)] } [rowN, rowA]
    = .rows [0] := by
  have := C29_search_partial .patientRoot "PATIENT" [(0, ["1?3*".toList])] [rowN, rowA] (by simp) (by simp)
    (by intro k hk; simp at hk; subst hk; decide) (by intro k hk; simp at hk; subst hk; decide)
    (by intro k hk; simp at hk; subst hk; decide)
    (by
      intro k hk p hp _
      simp at hk; subst hk
      simp at hp; subst hp
      refine ⟨by decide, ?_⟩
      intro r hr x hx
      simp at hr
      rcases hr with hr | hr <;> subst hr <;> simp [Row.col, rowN, rowA] at hx <;> subst hx <;> decide)
  rw [show (QrMatch.search .patientRoot false { level := some "PATIENT", keys := [(0, .str "1?3*".toList)] } [rowN, rowA])
      = QrMatch.search (mroot .patientRoot) false
          { level := some "PATIENT", keys := [(0, ["1?3*".toList])].map (fun k => (k.1, seenDirect k.2)) } [rowN, rowA] from rfl, this]
  decide

end PynetVerif
