import PynetVerif.Gen.Dimse
import PynetVerif.Model.Dimse
import PynetVerif.Lemmas.Dimse
/-!
C15 — DIMSE fragmentation respects the peer's maximum length and reassembles
exactly.

All theorems are about `Dimse.encodeMsgFull` / `Dimse.encodeMsg` (the model of
`DIMSEMessage.encode_msg`, in-memory and file-backed) and `Dimse.decodeMsg`
(`decode_msg` fed with a list of P-DATA primitives), for arbitrary byte lists,
every maximum `max = 0 ∨ 7 ≤ max`, a non-empty command set (a command set
produced by `primitive_to_message` always holds CommandGroupLength,
CommandField and CommandDataSetType; what the code does for an empty one is
`C15_empty_command_raises`) and, for file-backed data sets, an offset that is a
position in the file (`Msg.pathOk`; `send_c_store` takes it from
`split_dataset`; `C15_offset_past_end_raises` says what happens otherwise).
The model is tied to the code by the differential run of `harness/props/c15.py`.

The PDV list of a P-DATA-TF PDU that carries one PDV with fragment `f` is
`item-length (4) ‖ context-id (1) ‖ control header (1) ‖ f`, i.e. `6 + |f|`
bytes (`PresentationDataValueItem._encoders`, `P_DATA_TF.pdu_length`);
`encode_msg` puts exactly one PDV in each P-DATA primitive.
-/
namespace PynetVerif
open Dimse

/-- no exception for a legal maximum and a non-empty command set -/
theorem C15_no_error (ctx : Nat) (cmd : Bytes) (m : Msg) (max : Nat)
    (hm : max = 0 ∨ 7 ≤ max) (hc : cmd ≠ []) (hp : m.pathOk) :
    (encodeMsgFull ctx cmd m max).2 = none := by
  rw [encodeMsgFull_eq ctx cmd m max hm (Or.inl hc) hp]

/-- Every PDU sent carries a PDV list (4-byte item length, context id, control
header, fragment) no longer than the peer's maximum. -/
theorem C15_size (ctx : Nat) (cmd : Bytes) (m : Msg) (max : Nat)
    (h7 : 7 ≤ max) (hc : cmd ≠ []) (hpo : m.pathOk) :
    ∀ p ∈ (encodeMsgFull ctx cmd m max).1, 4 + 1 + 1 + p.payload.length ≤ max := by
  intro p hp
  rw [encodeMsgFull_eq ctx cmd m max (Or.inr h7) (Or.inl hc) hpo] at hp
  simp only [List.mem_append] at hp
  rcases hp with hp | hp
  · obtain ⟨_, _, h⟩ := mem_mark _ _ _ _ _ hp
    have := mem_chunksOf_le cmd max h7 _ h
    omega
  · obtain ⟨_, _, h⟩ := mem_mark _ _ _ _ _ hp
    have := mem_dataChunks_le m max h7 _ h
    omega

/-- **The maximum that counts is the peer's**: whatever this side advertised as its own maximum
(including 0, "unlimited"), every P-DATA `send_msg` hands to the provider fits the maximum length the
peer advertised, in both roles. -/
theorem C15_send_respects_peer (isRequestor : Bool) (reqMax accMax ctx : Nat) (cmd : Bytes) (m : Msg)
    (h7 : 7 ≤ (if isRequestor then accMax else reqMax)) (hc : cmd ≠ []) (hpo : m.pathOk) :
    ∀ p ∈ (sendMsg isRequestor reqMax accMax ctx cmd m).1,
      4 + 1 + 1 + p.payload.length ≤ (if isRequestor then accMax else reqMax) :=
  C15_size ctx cmd m _ h7 hc hpo

/-- the source still takes the peer's maximum: `maximum_pdu_size` returns the acceptor's
`maximum_length` for a requestor and the requestor's for an acceptor, and `send_msg` passes exactly
that to `encode_msg` (syntax facts regenerated from dimse.py on every run) -/
theorem C15_code_uses_peer_max :
    Gen.Dimse.maxSrcAsRequestor = "acceptor" ∧ Gen.Dimse.maxSrcAsAcceptor = "requestor" ∧
    Gen.Dimse.sendPassesMax = true := by decide

/-- why "the smaller of the two maxima" is not a safe simplification: 0 means unlimited, so with
an unlimited local maximum the minimum is 0 and a 100-byte data set goes out in one PDV although the
peer accepts at most 16 bytes -/
theorem C15_min_of_both_neg :
    ∃ p ∈ (encodeMsgFull 1 [1] ⟨true, some (List.replicate 100 0), none⟩ (min 16 0)).1,
      ¬ 4 + 1 + 1 + p.payload.length ≤ 16 := by decide

/-- Control bytes are `01* 03` followed, iff data-set fragments are sent, by
`00* 02`; every PDV carries the requested context id. -/
theorem C15_shape (ctx : Nat) (cmd : Bytes) (m : Msg) (max : Nat)
    (hm : max = 0 ∨ 7 ≤ max) (hc : cmd ≠ []) (hpo : m.pathOk) :
    let l := (encodeMsgFull ctx cmd m max).1
    (∀ p ∈ l, p.ctx = ctx) ∧
    ∃ n, (dataFrags l = [] ∧ l.map (·.ctl) = List.replicate n 1 ++ [3]) ∨
         (dataFrags l ≠ [] ∧ ∃ k, l.map (·.ctl) = List.replicate n 1 ++ [3] ++ (List.replicate k 0 ++ [2])) := by
  intro l
  have hl : l = mark ctx 1 3 (chunksOf cmd max) ++ mark ctx 0 2 (dataChunks m max) := by
    show (encodeMsgFull ctx cmd m max).1 = _
    rw [encodeMsgFull_eq ctx cmd m max hm (Or.inl hc) hpo]
  have hne := chunksOf_ne_nil cmd max hm (Or.inl hc)
  refine ⟨?_, (chunksOf cmd max).length - 1, ?_⟩
  · intro p hp
    rw [hl, List.mem_append] at hp
    rcases hp with hp | hp <;> exact (mem_mark _ _ _ _ _ hp).1
  · have hdf : dataFrags l = mark ctx 0 2 (dataChunks m max) := by
      rw [hl]; unfold dataFrags
      rw [List.filter_append]
      have h1 := dataFrags_mark_cmd ctx (chunksOf cmd max)
      have h2 := dataFrags_mark_data ctx (dataChunks m max)
      unfold dataFrags at h1 h2
      rw [h1, h2, List.nil_append]
    by_cases hd : dataChunks m max = []
    · left
      refine ⟨by rw [hdf, hd]; rfl, ?_⟩
      rw [hl, hd]
      simp only [mark, List.append_nil]
      exact map_ctl_mark ctx 1 3 _ hne
    · right
      refine ⟨by rw [hdf]; exact fun h => hd ((mark_eq_nil _ _ _ _).mp h), (dataChunks m max).length - 1, ?_⟩
      rw [hl, List.map_append, map_ctl_mark ctx 1 3 _ hne, map_ctl_mark ctx 0 2 _ hd]

/-- The command fragments concatenate to the command set, the data fragments to
the data set (in memory: the stream's bytes; file-backed: the file from the
offset on). -/
theorem C15_concat (ctx : Nat) (cmd : Bytes) (m : Msg) (max : Nat)
    (hm : max = 0 ∨ 7 ≤ max) (hc : cmd ≠ []) (hpo : m.pathOk) :
    payloads (cmdFrags (encodeMsgFull ctx cmd m max).1) = cmd ∧
    payloads (dataFrags (encodeMsgFull ctx cmd m max).1) = m.bytes := by
  obtain ⟨h1, h2⟩ := frags_encode ctx cmd m max hm hc hpo
  rw [h1, h2, payloads_mark, payloads_mark, flatten_chunksOf cmd max hm, flatten_dataChunks m max hm]
  exact ⟨rfl, rfl⟩

/-- Number of fragments: one when the maximum is unlimited, else
`⌈len / (max−6)⌉`; no data fragment for an absent or empty in-memory data set. -/
theorem C15_count (ctx : Nat) (cmd : Bytes) (ds : Option Bytes) (max : Nat)
    (hm : max = 0 ∨ 7 ≤ max) (hc : cmd ≠ []) :
    (cmdFrags (encodeMsg ctx cmd ds max).1).length = (if max = 0 then 1 else ceilDiv cmd.length (max - 6)) ∧
    (dataFrags (encodeMsg ctx cmd ds max).1).length =
      (match ds with
       | none => 0
       | some d => if d = [] then 0 else if max = 0 then 1 else ceilDiv d.length (max - 6)) := by
  have e : encodeMsg ctx cmd ds max = encodeMsgFull ctx cmd ⟨false, ds, none⟩ max := by
    unfold encodeMsgFull; cases ds <;> rfl
  obtain ⟨h1, h2⟩ := frags_encode ctx cmd ⟨false, ds, none⟩ max hm hc (pathOk_none _ _)
  rw [e, h1, h2, length_mark, length_mark, length_chunksOf]
  refine ⟨rfl, ?_⟩
  unfold dataChunks
  cases ds with
  | none => rfl
  | some d =>
    by_cases hd : d = []
    · simp [hd]
    · simp only [hd, ↓reduceIte, length_chunksOf]

/-- `ceilDiv` is the ceiling: for `a > 0` it is the only `k` with
`(k−1)·n < a ≤ k·n`, and `ceilDiv 0 n = 0`. -/
theorem C15_count_is_ceiling (a n : Nat) (hn : 0 < n) :
    a ≤ ceilDiv a n * n ∧ (0 < a → (ceilDiv a n - 1) * n < a) ∧ (a = 0 → ceilDiv a n = 0) ∧
    ∀ k, a ≤ k * n → (k - 1) * n < a → ceilDiv a n = k :=
  ⟨ceilDiv_mul_ge a n hn, ceilDiv_pred_lt a n hn, fun h => h ▸ ceilDiv_zero n hn,
   fun k h1 h2 => ceilDiv_unique a n k hn h1 h2⟩

/-- Exact multiples of the fragment size: a part of `k·(max−6)` bytes, `k ≥ 1`,
is sent as exactly `k` fragments, all of full size (no trailing empty
fragment, none missing). -/
theorem C15_exact_multiples (ctx : Nat) (cmd d : Bytes) (max k : Nat)
    (h7 : 7 ≤ max) (hc : cmd ≠ []) (hk : 1 ≤ k) (hd : d.length = k * (max - 6)) :
    (dataFrags (encodeMsg ctx cmd (some d) max).1).length = k ∧
    ∀ p ∈ dataFrags (encodeMsg ctx cmd (some d) max).1, p.payload.length = max - 6 := by
  have hn : 0 < max - 6 := by omega
  have hdne : d ≠ [] := by
    intro h; subst h; simp at hd
    have : 0 < k * (max - 6) := Nat.mul_pos (by omega) hn
    omega
  have h1 : max ≠ 0 := by omega
  have e : encodeMsg ctx cmd (some d) max = encodeMsgFull ctx cmd ⟨false, some d, none⟩ max := rfl
  obtain ⟨_, h2⟩ := frags_encode ctx cmd ⟨false, some d, none⟩ max (Or.inr h7) hc (pathOk_none _ _)
  rw [e, h2]
  have hch : dataChunks ⟨false, some d, none⟩ max = sliceLoop d (max - 6) 0 k := by
    simp only [dataChunks, hdne, ↓reduceIte, chunksOf, h1, hd, ceilDiv_mul k _ hn]
  rw [hch, length_mark, length_sliceLoop]
  refine ⟨rfl, ?_⟩
  intro p hp
  obtain ⟨_, _, h⟩ := mem_mark _ _ _ _ _ hp
  exact mem_sliceLoop_full d (max - 6) k 0 _ (by omega) h

/-- No fragment of a non-empty command set or in-memory data set is empty. -/
theorem C15_no_empty_fragment (ctx : Nat) (cmd : Bytes) (ds : Option Bytes) (max : Nat)
    (hm : max = 0 ∨ 7 ≤ max) (hc : cmd ≠ []) :
    ∀ p ∈ (encodeMsg ctx cmd ds max).1, p.payload ≠ [] := by
  intro p hp
  rw [encodeMsg_eq ctx cmd ds max hm (Or.inl hc), List.mem_append] at hp
  rcases hp with hp | hp
  · obtain ⟨_, _, h⟩ := mem_mark _ _ _ _ _ hp
    exact mem_chunksOf_ne_nil cmd max hm hc _ h
  · obtain ⟨_, _, h⟩ := mem_mark _ _ _ _ _ hp
    unfold dataChunks at h
    cases ds with
    | none => simp at h
    | some d =>
      by_cases hd : d = []
      · simp [hd] at h
      · simp only [hd, ↓reduceIte] at h
        exact mem_chunksOf_ne_nil d max hm hd _ h

/-- Reassembly: however the PDVs are grouped into P-DATA primitives (any list
of groups whose concatenation is the sent PDV list — in particular every split
into consecutive non-empty groups), the receiver ends up with exactly the
command-set and data-set bytes and the context id, reports completion, and —
when no group is empty — has consumed every primitive.  `noDS` is the
receiver's reading of CommandDataSetType in the command set; that it says "no
data set" exactly when no data fragment was sent is C16. -/
theorem C15_reassemble (noDS : Bytes → Option Bool) (ctx : Nat) (cmd : Bytes) (m : Msg) (max : Nat)
    (hm : max = 0 ∨ 7 ≤ max) (hc : cmd ≠ []) (hpo : m.pathOk)
    (hflag : noDS cmd = some (dataFrags (encodeMsgFull ctx cmd m max).1).isEmpty)
    (g : List (List PDV)) (hg : g.flatten = (encodeMsgFull ctx cmd m max).1) :
    (decodeMsg noDS {} g).1 = { cmdBuf := cmd, ds := m.bytes, ctx := some ctx, cmd := some cmd } ∧
    (decodeMsg noDS {} g).2.1 = .complete ∧
    ((∀ x ∈ g, x ≠ []) → (decodeMsg noDS {} g).2.2 = []) := by
  obtain ⟨_, hdf⟩ := frags_encode ctx cmd m max hm hc hpo
  rw [hdf] at hflag
  have henc := encodeMsgFull_eq ctx cmd m max hm (Or.inl hc) hpo
  rw [henc] at hg
  simp only at hg
  have hne := chunksOf_ne_nil cmd max hm (Or.inl hc)
  have hflat : decodePDVs noDS {} g.flatten =
      ({ cmdBuf := cmd, ds := m.bytes, ctx := some ctx, cmd := some cmd }, .complete, []) := by
    rw [hg, decodePDVs_mark_cmd noDS ctx _ _ _ hne]
    simp only [List.nil_append, flatten_chunksOf cmd max hm, hflag]
    by_cases hd : dataChunks m max = []
    · have hb : m.bytes = [] := by rw [← flatten_dataChunks m max hm, hd]; rfl
      simp [hd, mark, hb]
    · have : (mark ctx 0 2 (dataChunks m max)).isEmpty = false := by
        cases h : mark ctx 0 2 (dataChunks m max) with
        | nil => exact absurd ((mark_eq_nil _ _ _ _).mp h) hd
        | cons _ _ => rfl
      simp only [this]
      have := decodePDVs_mark_data noDS ctx [] _
        { cmdBuf := cmd, ds := [], ctx := some ctx, cmd := some cmd } hd
      simp only [List.append_nil, List.nil_append] at this
      rw [this, flatten_dataChunks m max hm]
  obtain ⟨h1, h2⟩ := decodeMsg_flatten noDS g {}
  refine ⟨by rw [h1, hflat], by rw [h2, hflat], ?_⟩
  intro hall
  rw [decodeMsg_all_consumed noDS g {} _ .complete hall (by decide) hflat]

/-- A file-backed data set with at least one byte after the offset is sent as
exactly the same PDVs as the same bytes held in memory. -/
theorem C15_file_eq_memory (ctx : Nat) (cmd : Bytes) (flag : Bool) (file : Bytes) (off max : Nat)
    (hm : max = 0 ∨ 7 ≤ max) (hne : file.drop off ≠ []) :
    encodeFileData ctx file off max = encodePart ctx 0 2 (file.drop off) max ∧
    encodeMsgFull ctx cmd ⟨flag, none, some (file, off)⟩ max = encodeMsg ctx cmd (some (file.drop off)) max := by
  have h1 : encodeFileData ctx file off max = encodePart ctx 0 2 (file.drop off) max := by
    have hoff : off ≤ file.length := by
      apply Nat.le_of_lt
      have := List.length_pos_iff.mpr hne
      rw [List.length_drop] at this
      omega
    rw [encodeFileData_eq ctx file off max hm hoff, encodePart_eq ctx 0 2 _ max hm (Or.inl hne)]
    simp [fileChunks, hne]
  refine ⟨h1, ?_⟩
  unfold encodeMsgFull encodeMsg
  simp only [hne, ↓reduceIte, h1]

/-- …and an empty one (offset at or past the end of the file) is sent as one
empty last fragment, where the in-memory encoder sends nothing. -/
theorem C15_file_empty (ctx : Nat) (cmd : Bytes) (flag : Bool) (file : Bytes) (off max : Nat)
    (hm : max = 0 ∨ 7 ≤ max) (hc : cmd ≠ []) (hoff : off ≤ file.length) (he : file.drop off = []) :
    dataFrags (encodeMsgFull ctx cmd ⟨flag, none, some (file, off)⟩ max).1 = [⟨ctx, 2, []⟩] ∧
    dataFrags (encodeMsg ctx cmd (some (file.drop off)) max).1 = [] := by
  constructor
  · rw [(frags_encode ctx cmd _ max hm hc (by intro f o h; cases h; exact hoff)).2]
    simp [dataChunks, fileChunks, he, mark]
  · have e : encodeMsg ctx cmd (some (file.drop off)) max
        = encodeMsgFull ctx cmd ⟨false, some (file.drop off), none⟩ max := rfl
    rw [e, (frags_encode ctx cmd _ max hm hc (pathOk_none _ _)).2]
    simp [dataChunks, he, mark]

/-- What the code does outside the property's domain: an empty command set with
a limited maximum exhausts the fragment generator (RuntimeError), and a
maximum of 1..6 raises before anything is yielded. -/
theorem C15_empty_command_raises (ctx : Nat) (ds : Option Bytes) (max : Nat) (h7 : 7 ≤ max) :
    encodeMsg ctx [] ds max = ([], some .stopIteration) := by
  have h1 : max ≠ 0 := by omega
  have h2 : max ≠ 6 := by omega
  have h3 : ¬ max < 6 := by omega
  have h4 : ¬ max < 7 := by omega
  simp [encodeMsg, encodePart, nrFragments, fragments, h1, h2, h3, h4, ceilDiv_zero _ (show 0 < max - 6 by omega),
    sliceLoop, emitPart]

/-- …and so does an unlimited maximum with a file offset more than one past the
end of the file (`f.read` of a negative length other than −1), after the
command fragments were yielded.  `split_dataset` never returns such an offset. -/
theorem C15_offset_past_end_raises (ctx : Nat) (cmd : Bytes) (flag : Bool) (file : Bytes) (off : Nat)
    (hoff : file.length + 1 < off) :
    (encodeMsgFull ctx cmd ⟨flag, none, some (file, off)⟩ 0).2 = some .valueError := by
  simp [encodeMsgFull, encodePart, nrFragments, fragments, emitPart, encodeFileData, hoff]

theorem C15_small_max_raises (ctx : Nat) (cmd : Bytes) (ds : Option Bytes) (max : Nat)
    (h0 : 0 < max) (h7 : max < 7) :
    (encodeMsg ctx cmd ds max).1 = [] ∧ (encodeMsg ctx cmd ds max).2 ≠ none := by
  have h1 : max ≠ 0 := by omega
  by_cases h6 : max = 6
  · subst h6; simp [encodeMsg, encodePart, nrFragments]
  · have h3 : max < 6 := by omega
    simp [encodeMsg, encodePart, nrFragments, fragments, h1, h6, h3, h7]

-- non-vacuity: a 5-byte command set and a 4-byte data set with max = 8 (fragment size 2,
-- the data set an exact multiple), grouped 2+1+2 into P-DATA primitives
example :
    (encodeMsg 3 [1, 2, 3, 4, 5] (some [9, 8, 7, 6]) 8).1 =
      [⟨3, 1, [1, 2]⟩, ⟨3, 1, [3, 4]⟩, ⟨3, 3, [5]⟩, ⟨3, 0, [9, 8]⟩, ⟨3, 2, [7, 6]⟩] := by decide

example :
    decodeMsg (fun _ => some false) {}
      [[⟨3, 1, [1, 2]⟩, ⟨3, 1, [3, 4]⟩], [⟨3, 3, [5]⟩], [⟨3, 0, [9, 8]⟩, ⟨3, 2, [7, 6]⟩]] =
      ({ cmdBuf := [1, 2, 3, 4, 5], ds := [9, 8, 7, 6], ctx := some 3, cmd := some [1, 2, 3, 4, 5] },
       .complete, []) := by decide

-- the hypotheses are satisfiable: a file-backed message whose offset lies in the file
example : (Msg.mk true none (some ([0, 0, 5, 6, 7], 2))).pathOk := by
  intro f o h; cases h; decide

-- file-backed: 2 bytes of preamble skipped by the offset, same PDVs as in memory
example :
    encodeMsgFull 1 [1, 2] ⟨true, none, some ([0, 0, 5, 6, 7], 2)⟩ 8 =
      encodeMsg 1 [1, 2] (some [5, 6, 7]) 8 := by decide

end PynetVerif
