import PynetVerif.Model.Fsm
import PynetVerif.Gen.Fsm
import PynetVerif.Spec.Ps38Fsm
/-!
C04 — the state machine reacts to every state/event pair as PS3.8 prescribes.

`Gen.Fsm.*` is regenerated from /repo on every run: the transition table by
reflection, and `Gen.Fsm.runs` by executing the real `StateMachine.do_action`
on all 19 × 13 × 2 × 2 inputs with recording fakes.  `Spec.Ps38.*` is the hand
transcription of PS3.8 Tables 9-6 … 9-10.
-/
namespace PynetVerif
open Fsm

/-- The code's transition table is Table 9-10, entry for entry (and has no other entries). -/
theorem C04_table : Gen.Fsm.transitionTable = Spec.Ps38.table := by decide +kernel

/-- hence the action looked up for any (event, state) pair — or its absence — is the standard's -/
theorem C04_lookup (e s : Nat) : lookup Gen.Fsm.transitionTable e s = lookup Spec.Ps38.table e s := by
  rw [C04_table]

/-- The executions cover the whole input domain, in order. -/
theorem C04_domain_complete : Gen.Fsm.runs.map (·.1) = domain := by decide +kernel

theorem C04_domain_all (e s : Nat) (r a : Bool) (he : 1 ≤ e ∧ e ≤ 19) (hs : 1 ≤ s ∧ s ≤ 13) :
    (e, s, r, a) ∈ domain := by
  obtain ⟨e1, e2⟩ := he; obtain ⟨s1, s2⟩ := hs
  simp only [domain, List.mem_flatMap, List.mem_range]
  refine ⟨e - 1, by omega, s - 1, by omega, ?_⟩
  have h1 : e - 1 + 1 = e := by omega
  have h2 : s - 1 + 1 = s := by omega
  rw [h1, h2]
  cases r <;> cases a <;> simp

/-- For every input the real `do_action` — executed — does exactly what PS3.8
prescribes: not-allowed when the table has no entry, otherwise the action's
PDUs (with source/reason), indications, ARTIM operations, transport close and
next state, in the order given; pynetdicom's bookkeeping effects projected away. -/
theorem C04_effects :
    Gen.Fsm.runs.map (fun r => (r.1, r.2.project)) = domain.map (fun i => (i, Spec.Ps38.expected i)) := by
  decide +kernel

/-- pointwise form of `C04_effects` -/
theorem C04_effects_pointwise (i : Nat × Nat × Bool × Bool) (o : Outcome) (h : (i, o) ∈ Gen.Fsm.runs) :
    o.project = Spec.Ps38.expected i := by
  have hm : (i, o.project) ∈ Gen.Fsm.runs.map (fun r => (r.1, r.2.project)) :=
    List.mem_map.mpr ⟨(i, o), h, rfl⟩
  rw [C04_effects] at hm
  obtain ⟨j, _, hj⟩ := List.mem_map.mp hm
  have h1 : j = i := congrArg Prod.fst hj
  have h2 : Spec.Ps38.expected j = o.project := congrArg Prod.snd hj
  rw [← h2, h1]

/-- The `ACTIONS` table declares for each action the next state(s) PS3.8 gives. -/
theorem C04_declared_next : ∀ p ∈ Gen.Fsm.declaredNext, p.2 = Spec.Ps38.nextStates p.1 := by decide +kernel

/-- …and the state actually reached is always one of the declared ones. -/
theorem C04_next_is_declared :
    Gen.Fsm.runs.all (fun r => match r.2 with
      | .ok _ n => (match lookup Gen.Fsm.transitionTable r.1.1 r.1.2.1 with
          | some a => (Spec.Ps38.nextStates a).contains n
          | none => false)
      | .invalid => (lookup Gen.Fsm.transitionTable r.1.1 r.1.2.1).isNone
      | .raised => false) = true := by decide +kernel

/-- Bookkeeping that later properties rely on (C05): an action kills the
reactor, closes the transport and notifies connection-close exactly when its
next state is Sta1. -/
theorem C04_idle_iff_closed :
    Gen.Fsm.runs.all (fun r => match r.2 with
      | .ok effs n =>
          (effs.contains .kill == (n == 1)) && (effs.contains .notifyConnClose == (n == 1)) &&
          (effs.count .notifyConnClose ≤ 1) && ((n == 1) → effs.contains .close)
      | _ => true) = true := by decide +kernel

-- non-vacuity: 988 executed inputs, 123 defined pairs, and a concrete non-trivial one
example : Gen.Fsm.runs.length = 988 ∧ Gen.Fsm.transitionTable.length = 123 ∧
    ((3, 6, true, false), Outcome.ok [.sendAbort 2 0, .indPAbort 5, .artimStart] 13) ∈ Gen.Fsm.runs := by
  decide +kernel

end PynetVerif
