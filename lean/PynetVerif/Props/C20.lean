import PynetVerif.Lemmas.ScpIds
/-!
C20 — each service request gets exactly one final response with its message ID.

Model: `Scp.findScp` (`_c_find_scp`: Query/Retrieve, Basic Worklist, Substance Administration,
Unified Procedure Step C-FIND), `Scp.rpScp` (Relevant Patient Information Query), `Scp.getScp`,
`Scp.moveScp`, `Scp.echoScp`, `Scp.statusOnlyScp` (C-STORE, N-DELETE), `Scp.nScp` (N-ACTION,
N-CREATE, N-EVENT-REPORT, N-GET, N-SET) — for EVERY handler behaviour (`Scp.Handler`: generator
item lists of any length, plain functions, raises, association events) and every status table
that is a `StdTable` (proved for every `*_STATUS` dict of status.py, regenerated: `stdTable_all`).

`Conforms repo quiet out` = no exception escapes `SCP()` ∧ nothing is sent after a final
response ∧ (no abort/release event ⇒ the last response exists and is final), where "non-final"
admits only the Pending codes and, for the Repository Query SOP class (`repo`), 0xB001.

The property does NOT hold for all behaviours of the current code.  Each violation has a
`_neg` theorem with a concrete witness (replayed on the real code by harness/props/c20.py, known
findings) and the `_partial` theorems carry the exact excluded hypotheses:
* `_c_find_scp` treats every Warning status as non-final (`continue`);
* the Relevant Patient SCP sends nothing at all for a Warning status;
* a yielded/returned value that does not unpack into (status, dataset) raises out of `SCP()`
  (the association is then aborted by `_serve_request`, no final response);
* a Pending-category status the service's table does not know (0xFF01 for C-GET/C-MOVE, any
  Pending code for the single-response services) is sent as is and nothing follows;
* a status Dataset containing MessageIDBeingRespondedTo overwrites the response's message id.
-/
namespace PynetVerif
open Scp
open Status (Category)

/-! ### C20_shape — `_c_find_scp` -/

/-- `_c_find_scp`, every handler whose values unpack, whose table-unknown statuses are not
Pending-looking and whose Warning statuses are legitimate non-final ones (`GoodFindH`): the
responses are non-final* ++ [final] — or non-final* if an abort/release intervened. -/
theorem C20_shape_find_partial {t : Table} (ht : FindTable t) (repo : Bool) (cx m : Nat) (h : Handler)
    (hg : GoodFindH t repo h) : Conforms repo h.quiet (findScp t cx m h) :=
  findScp_conf ht repo cx m h hg

/-- witness: a C-FIND handler that yields the general Warning 0x0107 and then one match -/
def c20FindWarning : Handler :=
  .gen [.yield (.pair (.int 0x0107) .none .success) {},
        .yield (.pair (.int 0xFF00) (.ds (some 1) false none true true) .success) {}]

/-- Violation: `_c_find_scp` sends the final-category Warning 0x0107 and then goes on with a
Pending and a Success response (statuses 0x0107, 0xFF00, 0x0000) — pynetdicom's own SCU stops
at the Warning. -/
theorem C20_shape_find_warning_neg :
    c20FindWarning.quiet = true ∧
    ((findScp (tableNamed "QR_FIND_SERVICE_CLASS_STATUS") 3 7 c20FindWarning).rsps.map (·.r.status)) =
      [0x0107, 0xFF00, 0x0000] ∧
    nonFinalCode false 0x0107 = false ∧
    ¬ Sh false (findScp (tableNamed "QR_FIND_SERVICE_CLASS_STATUS") 3 7 c20FindWarning).rsps := by
  refine ⟨rfl, by decide, by decide, ?_⟩
  intro h
  have := h [] ⟨3, { status := 0x0107, msgIdResp := 7 }⟩
    [⟨3, { status := 0xFF00, msgIdResp := 7, ident := Ident.data }⟩, ⟨3, { status := 0, msgIdResp := 7 }⟩]
    (by decide) (by decide)
  cases this

/-- witness: a handler yielding None instead of (status, dataset) -/
def c20BadShape : Handler := .gen [.yield .junk {}]

/-- Violation: a yielded value that does not unpack into two raises out of `SCP()`: no response
at all, the exception reaches `Association._serve_request`, which aborts the association.
(Same statement for C-GET after the count and for the N-* services whose handler returns None.) -/
theorem C20_shape_badshape_neg :
    c20BadShape.quiet = true ∧
    findScp (tableNamed "QR_FIND_SERVICE_CLASS_STATUS") 3 7 c20BadShape = Out.crash ∧
    getScp (tableNamed "QR_GET_SERVICE_CLASS_STATUS") 3 7
      (.gen [.yield (.status (.int 2)) {}, .yield .junk {}]) = Out.crash ∧
    nScp .nGet (tableNamed "GENERAL_STATUS") 3 7 true (.fnNone {}) = Out.crash := by
  refine ⟨rfl, by decide, by decide, by decide⟩

/-! ### C20_shape — Relevant Patient Information Query -/

/-- Relevant Patient SCP, every handler whose first result's status is not a Warning of the
table (and not an unknown Pending-looking code): one Pending + Success, or one final response. -/
theorem C20_shape_rp_partial {t : Table} (ht : StdTable t) (cx m : Nat) (h : Handler) (hg : GoodRpH t h) :
    Conforms false h.quiet (rpScp t cx m h) :=
  rpScp_conf ht cx m h hg

def c20RpWarning : Handler := .gen [.yield (.pair (.int 0x0107) .none .success) {}]

/-- Violation: for a Warning status the Relevant Patient SCP sends nothing at all. -/
theorem C20_shape_rp_warning_neg :
    c20RpWarning.quiet = true ∧
    rpScp (tableNamed "RELEVANT_PATIENT_SERVICE_CLASS_STATUS") 3 7 c20RpWarning = Out.nil ∧
    ¬ Finished false (rpScp (tableNamed "RELEVANT_PATIENT_SERVICE_CLASS_STATUS") 3 7 c20RpWarning).rsps := by
  refine ⟨rfl, by decide, ?_⟩
  have : (rpScp (tableNamed "RELEVANT_PATIENT_SERVICE_CLASS_STATUS") 3 7 c20RpWarning).rsps = [] := by decide
  rw [this]
  intro ⟨pre, f, h, _⟩
  cases pre <;> cases h

/-! ### C20_shape — C-GET / C-MOVE -/

/-- `_get_scp`, every handler whose results (after the count) unpack and whose table-unknown
statuses are not Pending-looking: Pending* ++ [final], or Pending* after an abort/release. -/
theorem C20_shape_get_partial {t : Table} (ht : StdTable t) (cx m : Nat) (h : Handler)
    (hg : GoodRetrieveH t 0xC411 1 h) : Conforms false h.quiet (getScp t cx m h) :=
  getScp_conf ht cx m h hg

theorem C20_shape_move_partial {t : Table} (ht : StdTable t) (cx m : Nat) (h : Handler)
    (hg : GoodRetrieveH t 0xC511 2 h) : Conforms false h.quiet (moveScp t cx m h) :=
  moveScp_conf ht cx m h hg

/-- witness: a C-GET handler yielding the Pending code 0xFF01, which QR_GET's table lacks -/
def c20GetFF01 : Handler :=
  .gen [.yield (.status (.int 2)) {},
        .yield (.pair (.int 0xFF01) (.ds (some 1) false none true true) .success) {}]

/-- Violation: a Pending-category status unknown to the service's table is sent as is and
`SCP()` returns: the last (only) response is non-final, no final response follows.  Same for
a C-STORE handler returning 0xFF00. -/
theorem C20_shape_unknown_pending_neg :
    c20GetFF01.quiet = true ∧
    ((getScp (tableNamed "QR_GET_SERVICE_CLASS_STATUS") 3 7 c20GetFF01).rsps.map (·.r.status)) = [0xFF01] ∧
    ¬ Finished false (getScp (tableNamed "QR_GET_SERVICE_CLASS_STATUS") 3 7 c20GetFF01).rsps ∧
    ((statusOnlyScp .store 0xC211 3 7 (.fnVal (.status (.int 0xFF00)) {})).rsps.map (·.r.status)) = [0xFF00] := by
  refine ⟨rfl, by decide, ?_, by decide⟩
  have : (getScp (tableNamed "QR_GET_SERVICE_CLASS_STATUS") 3 7 c20GetFF01).rsps =
      [⟨3, { status := 0xFF01, msgIdResp := 7 }⟩] := by decide
  rw [this]
  intro ⟨pre, f, h, hf⟩
  cases pre with
  | nil => simp at h; subst h; revert hf; decide
  | cons a l => cases l <;> simp at h

/-! ### C20_shape — single-response services -/

/-- C-ECHO: one final response unless the handler supplied a Pending-looking status. -/
theorem C20_shape_echo_partial (cx m : Nat) (h : Handler) (hgen : ∀ items, h ≠ .gen items)
    (hg : GoodStatusH h) : Conforms false h.quiet (echoScp cx m h) :=
  echoScp_conf cx m h hgen hg

/-- C-STORE (exception status 0xC211) and N-DELETE (0x0110). -/
theorem C20_shape_store_partial (cx m : Nat) (h : Handler) (hgen : ∀ items, h ≠ .gen items)
    (hg : GoodStatusH h) : Conforms false h.quiet (statusOnlyScp .store 0xC211 cx m h) :=
  statusOnlyScp_conf .store 0xC211 (by decide) cx m h hgen hg

theorem C20_shape_ndelete_partial (cx m : Nat) (h : Handler) (hgen : ∀ items, h ≠ .gen items)
    (hg : GoodStatusH h) : Conforms false h.quiet (statusOnlyScp .nDelete 0x0110 cx m h) :=
  statusOnlyScp_conf .nDelete 0x0110 (by decide) cx m h hgen hg

/-- N-ACTION, N-CREATE, N-EVENT-REPORT, N-GET, N-SET — any table, any request. -/
theorem C20_shape_n_partial (p : Prim) (t : Table) (cx m : Nat) (inst : Bool) (h : Handler)
    (hgen : ∀ items, h ≠ .gen items) (hg : GoodPairH h) : Conforms false h.quiet (nScp p t cx m inst h) :=
  nScp_conf p t cx m inst h hgen hg

/-! ### C20_nothing_after_final -/

/-- `_c_find_scp`: nothing follows a final response — under the hypothesis of the shape theorem
(the witness of `C20_shape_find_warning_neg` is the counterexample without it). -/
theorem C20_nothing_after_final_find_partial {t : Table} (ht : FindTable t) (repo : Bool) (cx m : Nat)
    (h : Handler) (hg : GoodFindH t repo h) :
    ∀ pre f post, (findScp t cx m h).rsps = pre ++ f :: post → nonFinal repo f = false → post = [] :=
  (findScp_conf ht repo cx m h hg).2.1

/-- C-GET: for EVERY handler behaviour (no hypothesis) nothing follows a final response. -/
theorem C20_nothing_after_final_get {t : Table} (ht : StdTable t) (cx m : Nat) (h : Handler) :
    ∀ pre f post, (getScp t cx m h).rsps = pre ++ f :: post → nonFinal false f = false → post = [] :=
  getScp_sh ht cx m h

theorem C20_nothing_after_final_move {t : Table} (ht : StdTable t) (cx m : Nat) (h : Handler) :
    ∀ pre f post, (moveScp t cx m h).rsps = pre ++ f :: post → nonFinal false f = false → post = [] :=
  moveScp_sh ht cx m h

theorem C20_nothing_after_final_rp {t : Table} (ht : StdTable t) (cx m : Nat) (h : Handler) :
    ∀ pre f post, (rpScp t cx m h).rsps = pre ++ f :: post → nonFinal false f = false → post = [] :=
  rpScp_sh ht cx m h

/-- the single-response services send at most one response, for every handler behaviour -/
theorem C20_nothing_after_final_single (p : Prim) (t : Table) (exc : Int) (cx m : Nat) (inst : Bool) (h : Handler) :
    (echoScp cx m h).rsps.length ≤ 1 ∧ (statusOnlyScp p exc cx m h).rsps.length ≤ 1 ∧
    (nScp p t cx m inst h).rsps.length ≤ 1 :=
  ⟨echoScp_len cx m h, statusOnlyScp_len p exc cx m h, nScp_len p t cx m inst h⟩

/-! ### C20_ids -/

/-- Every response of every SCP carries the request's context id and message id — for every
handler behaviour none of whose status Datasets contains a MessageIDBeingRespondedTo element. -/
theorem C20_ids_partial (t : Table) (cx m : Nat) (h : Handler) (hn : h.noMsgId = true) :
    IdsOK cx m (findScp t cx m h) ∧ IdsOK cx m (rpScp t cx m h) ∧ IdsOK cx m (getScp t cx m h) ∧
    IdsOK cx m (moveScp t cx m h) ∧ IdsOK cx m (echoScp cx m h) ∧
    (∀ p exc, IdsOK cx m (statusOnlyScp p exc cx m h)) ∧
    (∀ p inst, IdsOK cx m (nScp p t cx m inst h)) :=
  ⟨findScp_ids t cx m h hn, rpScp_ids t cx m h hn, getScp_ids t cx m h hn, moveScp_ids t cx m h hn,
   echoScp_ids cx m h hn, fun p exc => statusOnlyScp_ids p exc cx m h hn,
   fun p inst => nScp_ids p t cx m inst h hn⟩

/-- witness: a C-STORE handler returning Dataset(Status=0x0000, MessageIDBeingRespondedTo=9) -/
def c20MsgId : Handler := .fnVal (.status (.ds [(.msgIdResp, 9), (.status, 0)])) {}

/-- Violation: `validate_status` copies every element whose keyword is an attribute of the
response primitive, so the handler's status Dataset overwrites MessageIDBeingRespondedTo: the
response to request 7 goes out with message id 9. -/
theorem C20_ids_neg :
    (statusOnlyScp .store 0xC211 3 7 c20MsgId).rsps.map (fun s => (s.cx, s.r.msgIdResp, s.r.status)) = [(3, 9, 0)] ∧
    ¬ IdsOK 3 7 (statusOnlyScp .store 0xC211 3 7 c20MsgId) := by
  refine ⟨by decide, ?_⟩
  intro h
  have := h ⟨3, { status := 0, msgIdResp := 9 }⟩ (by decide)
  exact absurd this.2 (by decide)

/-! ### the hypotheses are satisfiable; the real tables qualify -/

example : FindTable (tableNamed "QR_FIND_SERVICE_CLASS_STATUS") := findTable_of _ (by decide) (by decide) (by decide)
example : FindTable (tableNamed "SUBSTANCE_ADMINISTRATION_SERVICE_CLASS_STATUS") :=
  findTable_of _ (by decide) (by decide) (by decide)
example : FindTable (tableNamed "UNIFIED_PROCEDURE_STEP_SERVICE_CLASS_STATUS") :=
  findTable_of _ (by decide) (by decide) (by decide)
example : StdTable (tableNamed "RELEVANT_PATIENT_SERVICE_CLASS_STATUS") := stdTable_named _ (by decide)
example : StdTable (tableNamed "QR_GET_SERVICE_CLASS_STATUS") := stdTable_named _ (by decide)
example : StdTable (tableNamed "QR_MOVE_SERVICE_CLASS_STATUS") := stdTable_named _ (by decide)

/-- a well-behaved C-FIND handler: two matches then Success -/
def c20GoodFind : Handler :=
  .gen [.yield (.pair (.int 0xFF00) (.ds (some 1) false none true true) .success) {},
        .yield (.pair (.int 0xFF00) (.ds (some 2) false none true true) .success) {},
        .yield (.pair (.int 0x0000) .none .success) {}]

example : GoodFindH (tableNamed "QR_FIND_SERVICE_CLASS_STATUS") false c20GoodFind := by
  intro v hv
  simp only [c20GoodFind, stepVals, List.mem_cons, List.not_mem_nil, or_false] at hv
  rcases hv with rfl | rfl | rfl <;>
    exact ⟨_, _, _, rfl, by decide, by decide⟩
example : c20GoodFind.quiet = true ∧ c20GoodFind.noMsgId = true := by decide
example : ((findScp (tableNamed "QR_FIND_SERVICE_CLASS_STATUS") 3 7 c20GoodFind).rsps.map (·.r.status)) =
    [0xFF00, 0xFF00, 0x0000] := by decide
/-- the Repository Query response-limit warning is admitted before the final response -/
example : GoodFind (tableNamed "QR_FIND_SERVICE_CLASS_STATUS") true
    (some (.pair (.int 0xB001) .none .success)) := ⟨_, _, _, rfl, by decide, by decide⟩
example : GoodStatusH (.fnVal (.status (.int 0xB000)) {}) := Or.inr (by decide)
example : GoodPairH (.fnVal (.pair (.int 0) (.ds none false none true true) .success) {}) :=
  Or.inr ⟨_, _, _, rfl, by decide⟩

end PynetVerif
