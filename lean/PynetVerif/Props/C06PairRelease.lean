import PynetVerif.Props.C06Pair
/-!
C06 on the product model, progress of the release handshake: the requestor's user asks for release at
a quiescent point of an established association, the acceptor's user answers when it can; no other
primitive is issued.  Every interleaving of the remaining steps — reactor micro-steps of both sides,
deliveries in both directions, ARTIM expiry on either side, the answer — is covered: the reachable
part of the product model is finite here and is enumerated and checked by the kernel.
-/
namespace PynetVerif
open Dul Fsm

deriving instance DecidableEq for Dul.St
deriving instance DecidableEq for Pair

namespace PairRel
open Pair

/-- the steps that remain once the release has been requested: reactor micro-steps, deliveries, ARTIM
expiry, and the acceptor's user answering the release request -/
def moves : List PStep :=
  [.r .a, .r .b, .a .a, .a .b, .deliverRA, .deliverAR, .r (.env .artimFire), .a (.env .artimFire),
   .a (.env (.local .releaseRp))]

/-- an established association (`PairEx.estab`), both reactors quiescent, and the requestor's user has
just issued A-RELEASE request -/
def start : Pair := Pair.run Pair.init (PairEx.estab ++ [.r (.env (.local .releaseRq))])

def b2n (b : Bool) : Nat := if b then 1 else 0

/-- work done so far: dispatches (twice: phase A and phase B), a pending phase B, deliveries, EOFs,
expired timers, the answer issued.  Every step that changes the state adds exactly one. -/
def work (q : Pair) : Nat :=
  2 * q.r.log.length + b2n q.r.phaseB + 2 * q.a.log.length + b2n q.a.phaseB + q.rSeen + b2n q.rEof +
  q.aSeen + b2n q.aEof + b2n q.r.artim.expired + b2n q.a.artim.expired +
  b2n (q.a.provQ.contains .releaseRp || q.a.log.any (fun d => d.evt == 14))

/-- no admissible remaining step changes the state -/
def stuck (q : Pair) : Bool := moves.all fun m => !Pair.stepOk q m || Pair.step q m == q

def final (q : Pair) : Bool :=
  ended q.r && ended q.a && provOutcome q.r == .released && provOutcome q.a == .released

def insertAll (seen : List Pair) : List Pair → List Pair × List Pair
  | [] => (seen, [])
  | q :: qs => if seen.contains q then insertAll seen qs else
      let r := insertAll (q :: seen) qs
      (r.1, q :: r.2)

def succs (q : Pair) : List Pair := (moves.filter (Pair.stepOk q)).map (Pair.step q)

def bfs : Nat → List Pair → List Pair → List Pair
  | 0, _, seen => seen
  | _, [], seen => seen
  | f + 1, p :: w, seen =>
    let r := insertAll seen (succs p)
    bfs f (r.2 ++ w) r.1

/-- the product states reachable from `start` by admissible remaining steps -/
def S : List Pair := bfs 1000 [start] [start]

/-- the bound on `work` -/
def bound : Nat := 30

def okState (q : Pair) : Bool :=
  !q.r.dead && !q.a.dead && decide (work q ≤ bound) && (!stuck q || final q) &&
  moves.all fun m => !Pair.stepOk q m ||
    (S.contains (Pair.step q m) && (Pair.step q m == q || work (Pair.step q m) == work q + 1))

set_option maxRecDepth 100000 in
set_option maxHeartbeats 4000000 in
theorem S_check : (S.contains start && S.all okState) = true := by decide +kernel

theorem S_ok {q : Pair} (h : q ∈ S) : okState q = true := by
  have := S_check
  simp only [Bool.and_eq_true, List.all_eq_true] at this
  exact this.2 q h

theorem S_run : ∀ (sched : List PStep) (q : Pair), q ∈ S → (∀ m ∈ sched, m ∈ moves) →
    Pair.runOk q sched = true → Pair.run q sched ∈ S := by
  intro sched
  induction sched with
  | nil => intro q h _ _; exact h
  | cons m rest ih =>
    intro q h hM hok
    simp only [Pair.runOk, Bool.and_eq_true] at hok
    have hq := S_ok h
    unfold okState at hq
    simp only [Bool.and_eq_true, List.all_eq_true] at hq
    have hm := hq.2 m (hM m (List.mem_cons_self ..))
    rw [hok.1] at hm
    simp only [Bool.not_true, Bool.false_or, Bool.and_eq_true] at hm
    exact ih _ (List.contains_iff_mem.mp hm.1) (fun m' h' => hM m' (List.mem_cons_of_mem _ h')) hok.2

end PairRel

open PairRel in
/-- the starting point is reachable by an admissible schedule -/
example : Pair.runOk Pair.init (PairEx.estab ++ [.r (.env (.local .releaseRq))]) = true := by decide

open PairRel in
/-- **The release handshake completes, for every interleaving.**  From an established association in
which the requestor's user has asked for release at a quiescent point (`PairRel.start`), for every
admissible schedule of the remaining steps (`PairRel.moves`: reactor micro-steps of both sides,
deliveries in both directions, ARTIM expiry on either side, the acceptor's user answering):
neither thread dies; the work counter never exceeds 30 (it is 14 at the start); every step either
leaves the product state unchanged or adds exactly one to it — so at most 16 steps of any schedule
change the state; and a state in which no admissible step changes anything is one in which both
reactors have ended and both provider outcomes are `released`. -/
theorem C06_release_completes (sched : List PStep) (hM : ∀ m ∈ sched, m ∈ moves)
    (hok : Pair.runOk start sched = true) :
    let q := Pair.run start sched
    q.r.dead = false ∧ q.a.dead = false ∧ work start = 14 ∧ work q ≤ 30 ∧
    (∀ m ∈ moves, Pair.stepOk q m = true → Pair.step q m = q ∨ work (Pair.step q m) = work q + 1) ∧
    ((∀ m ∈ moves, Pair.stepOk q m = true → Pair.step q m = q) →
      ended q.r = true ∧ ended q.a = true ∧ provOutcome q.r = .released ∧ provOutcome q.a = .released) := by
  intro q
  have hstart : start ∈ S := by
    have := S_check
    simp only [Bool.and_eq_true] at this
    exact List.contains_iff_mem.mp this.1
  have hq := S_ok (S_run sched start hstart hM hok)
  unfold okState at hq
  simp only [Bool.and_eq_true, List.all_eq_true, Bool.not_eq_true', decide_eq_true_eq] at hq
  obtain ⟨⟨⟨⟨h1, h2⟩, h3⟩, h4⟩, h5⟩ := hq
  refine ⟨h1, h2, by decide, h3, ?_, ?_⟩
  · intro m hm hokm
    have := h5 m hm
    rw [hokm] at this
    simp only [Bool.not_true, Bool.false_or, Bool.and_eq_true, Bool.or_eq_true, beq_iff_eq] at this
    exact this.2
  · intro hst
    have hstuck : stuck (Pair.run start sched) = true := by
      unfold stuck
      rw [List.all_eq_true]
      intro m hm
      cases hokm : Pair.stepOk (Pair.run start sched) m with
      | false => rfl
      | true =>
        have := hst m hm hokm
        simp only [Bool.not_true, Bool.false_or, beq_iff_eq]
        exact this
    rw [hstuck] at h4
    simp only [Bool.not_true, Bool.false_or] at h4
    unfold final at h4
    simp only [Bool.and_eq_true, beq_iff_eq] at h4
    exact ⟨h4.1.1.1, h4.1.1.2, h4.1.2, h4.2⟩

end PynetVerif
