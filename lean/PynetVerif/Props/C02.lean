import PynetVerif.Lemmas.PduClassify
import PynetVerif.Lemmas.PduOverflow
/-!
C02 — arbitrary received bytes never crash the provider or yield unstable PDUs.

`classify` models one `DULServiceProvider._read_pdu_data()`: framing (Model/Framing.lean, C03), then
`accept` = `PDU.decode` followed by `to_primitive()` (both inside the try of `_read_pdu_data`).
Its result type has exactly five constructors — closed (Evt17), unrecognised (Evt19, PDU type),
invalid (Evt19, any exception of decoding / conversion), ok (the PDU's event), levelViolation (a
known item type at a nesting level the typed model does not represent: outside the modelled
domain) — and every function involved is total, defined by structural recursion (on a fuel equal
to the input length where the loop variant is not structural): that Lean accepts the definitions
is the termination ("never hangs") argument for the model; `C02_fuel_irrelevant` shows the fuel is
never the reason for a result.
-/
namespace PynetVerif
open Pdu

/-- the fuel (= input length) never runs out: any larger fuel gives the same result -/
theorem C02_fuel_irrelevant (b : Bytes) (f : Nat) (h : b.length ≤ f) :
    splitItems f b = split b ∧ decPdvsN f b = decPdvs b ∧ decRelatedN f b = decRelated b :=
  ⟨splitItems_fuel f b.length b h (Nat.le_refl _), decPdvsN_fuel f b.length b h (Nat.le_refl _),
   decRelatedN_fuel f b.length b h (Nat.le_refl _)⟩

/-- **no conformant PDU is rejected**: one `_read_pdu_data()` on the encoding of any well-formed PDU
(whatever follows it on the stream) classifies it `ok` with the PDU's canonical value — never
Evt17, never Evt19. -/
theorem C02_accepts_conformant (p : PDU) (h : wf p = true) (more : Bytes) :
    classify (encode p ++ more) = .ok (canon p) :=
  classify_encode p h more

/-- what ANY decoder output satisfies, for ALL byte strings: numbers within their field widths, strings
ASCII without surrounding whitespace, validated UIDs ≤ 64 bytes, AE titles legal, role bytes 0/1 … -/
theorem C02_bounded (b : Bytes) (p : PDU) (h : decode b = .ok p) : bounded p = true :=
  decode_bounded b p h

/-- the full statement `∀ b p, decode b = .ok p → decode (encode p) = .ok p` is FALSE for the code as
it is (four shapes, witnesses below); it holds for every decoder output that is `normal`. -/
theorem C02_stable_partial (b : Bytes) (p : PDU) (h : decode b = .ok p) (hn : normal p = true) :
    decode (encode p) = .ok p := by
  obtain ⟨hok, hc⟩ := encOk_of_bounded_normal p (decode_bounded b p h) hn
  rw [decode_encode p hok, hc]

/-- the same at the level of `_decode_pdu` (decode + to_primitive) -/
theorem C02_stable_accept_partial (b : Bytes) (p : PDU) (h : accept b = .ok p) (hn : normal p = true) :
    accept (encode p) = .ok p := by
  simp only [accept] at h
  cases hq : decode b with
  | error e => simp only [hq] at h; cases h
  | ok q =>
    simp only [hq] at h
    cases ha : toPrim q with
    | error e => simp only [ha] at h; cases h
    | ok a =>
      simp only [ha, Except.ok.injEq] at h
      subst h
      simp only [accept, C02_stable_partial b q hq hn, ha]

/-- `normal` excludes nothing the standard allows, and what it admits the code's encoder can serialise -/
theorem C02_normal_of_wf (p : PDU) (h : wf p = true) : normal p = true ∧ encodable p = true :=
  ⟨normal_of_wf p h, encodable_of_normal p (normal_of_wf p h)⟩

/-- every result of `classify` is one of the five cases, and an `ok` result carries a bounded PDU that
`to_primitive()` accepted -/
theorem C02_no_escape (s : Bytes) :
    classify s = .closed ∨ classify s = .unrecognised ∨ (∃ e, classify s = .invalid e) ∨
    classify s = .levelViolation ∨
    (∃ p, classify s = .ok p ∧ bounded p = true ∧ ∃ b a, decode b = .ok p ∧ toPrim p = .ok a) := by
  simp only [classify]
  split
  · exact Or.inl rfl
  · exact Or.inr (Or.inl rfl)
  · rename_i b _ _ _
    split
    · rename_i p hp
      refine Or.inr (Or.inr (Or.inr (Or.inr ⟨p, rfl, ?_⟩)))
      simp only [accept] at hp
      cases hq : decode b with
      | error e => simp only [hq] at hp; cases hp
      | ok q =>
        simp only [hq] at hp
        cases ha : toPrim q with
        | error e => simp only [ha] at hp; cases hp
        | ok a =>
          simp only [ha, Except.ok.injEq] at hp
          subst hp
          exact ⟨decode_bounded b q hq, b, a, hq, ha⟩
    · exact Or.inr (Or.inr (Or.inr (Or.inl rfl)))
    · exact Or.inr (Or.inr (Or.inl ⟨_, rfl⟩))

/-! ## the four instabilities of the current code (concrete witnesses, replayed on the implementation
by harness/props/c02.py `WITNESSES`) -/

def assocHead (t : UInt8) (len : UInt8) : Bytes :=
  [t, 0, 0, 0, 0, len, 0, 1, 0, 0] ++ (0x41 :: List.replicate 15 0x20) ++ (0x42 :: List.replicate 15 0x20) ++
    List.replicate 32 0

/-- A-ASSOCIATE-AC whose Application Context Name field is b"1\x00\x00" -/
def witnessUidNul : Bytes := assocHead 2 75 ++ [0x10, 0, 0, 3, 0x31, 0, 0]

/-- `_wrap_uid_bytes` strips ONE trailing NUL: the decoded name is "1\x00"; re-encoded and re-decoded it
is "1". -/
theorem C02_stable_neg_uid_trailing_nul :
    ∃ b p, accept b = .ok p ∧ decode (encode p) ≠ .ok p :=
  ⟨witnessUidNul, .ac 1 [0x41] [0x42] [.appCtx [0x31, 0]], by decide, by decide⟩

/-- A-ASSOCIATE-AC with one Presentation Context item (AC) carrying two Transfer Syntax sub-items -/
def witnessPcAcMulti : Bytes :=
  assocHead 2 86 ++ [0x21, 0, 0, 14, 1, 0, 0, 0, 0x40, 0, 0, 1, 0x31, 0x40, 0, 0, 1, 0x32]

/-- `PresentationContextItemAC.item_length` counts only the first sub-item: the re-encoded item
announces 9 bytes but 14 follow; re-decoding does not give the PDU back. -/
theorem C02_stable_neg_pcac_multi :
    ∃ b p, accept b = .ok p ∧ decode (encode p) ≠ .ok p :=
  ⟨witnessPcAcMulti, .ac 1 [0x41] [0x42] [.pcAc 1 0 [.transfer [0x31], .transfer [0x32]]], by decide, by decide⟩

/-- A-ASSOCIATE-RQ with a Presentation Context item whose Transfer Syntax sub-item is empty (40 00 00 00) -/
def witnessEmptyTs : Bytes :=
  assocHead 1 85 ++ [0x20, 0, 0, 13, 1, 0, 0, 0, 0x30, 0, 0, 1, 0x31, 0x40, 0, 0, 0]

/-- the PDU passes `_decode_pdu` (decode and to_primitive) but holds a Transfer Syntax name `None`,
on which the code's `encode()` raises (`encodable` = the code can serialise the value; the harness
checks `encodable` against the real `encode()` on every accepted mutant). -/
theorem C02_stable_neg_empty_ts_unencodable :
    ∃ b p, accept b = .ok p ∧ encodable p = false :=
  ⟨witnessEmptyTs, .rq 1 [0x41] [0x42] [.pcRq 1 [.abstract [0x31], .transfer []]], by decide, by decide⟩

/-- decoders that ignore an embedded length field accept items whose re-encoding is LONGER than the
received bytes: a 65535-byte User Information item holding a User Identity AC sub-item without its
2-byte length field (`witnessOverflow`, 65613 bytes, Lemmas/PduOverflow.lean) is accepted, is not
`normal` (its user data would need 65537 bytes), and its re-encoding does not decode
(pynetdicom's `encode()` raises `struct.error` there). -/
theorem C02_stable_neg_length_overflow :
    ∃ b p, accept b = .ok p ∧ normal p = false ∧ ∃ e, decode (encode p) = .error e :=
  ⟨witnessOverflow, pOverflow, accept_witnessOverflow, pOverflow_not_normal, ov_reencode_fails⟩

/-! ## non-vacuity -/

-- a non-trivial decoder output that is normal (padding NUL stripped, spaces stripped)
example : accept (assocHead 1 90 ++ [0x20, 0, 0, 18, 1, 0, 0, 0, 0x30, 0, 0, 2, 0x31, 0, 0x40, 0, 0, 4, 0x31, 0x2e, 0x32, 0x20])
    = .ok (.rq 1 [0x41] [0x42] [.pcRq 1 [.abstract [0x31], .transfer [0x31, 0x2e, 0x32]]]) := by decide
example : normal (.rq 1 [0x41] [0x42] [.pcRq 1 [.abstract [0x31], .transfer [0x31, 0x2e, 0x32]]]) = true := by decide
-- and one that is not
example : normal (.ac 1 [0x41] [0x42] [.appCtx [0x31, 0]]) = false := by decide
-- malformed inputs land in every class
example : classify [7, 0, 0, 0, 0, 4, 0, 0, 3, 0] = .invalid .value := by decide       -- A-ABORT source 3
example : classify [9, 0, 0, 0, 0, 0] = .unrecognised := by decide
example : classify [7, 0, 0, 0, 0, 4, 0, 0] = .closed := by decide
example : classify (assocHead 1 73 ++ [0x40, 0, 0, 1, 0x31]) = .levelViolation := by decide
example : classify [4, 0, 0, 0, 0, 4, 0, 0, 0, 0] = .invalid .struct := by decide      -- PDV of length 0, no context id

end PynetVerif
