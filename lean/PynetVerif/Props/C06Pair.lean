import PynetVerif.Lemmas.PairFifo
import PynetVerif.Lemmas.PairAgree
/-!
C06 on the two-sided product model (`Model/Pair.lean`: two copies of the reactor model of
`Model/Dul.lean`, composed through two FIFO lossless channels; the acceptor's reactor comes into
existence when the requestor's AE-1 connects; `Env.peer` steps do not exist — the peer IS the other
reactor).  Every theorem quantifies over every schedule of the product.
-/
namespace PynetVerif
open Dul Fsm PairL

/-- **The wire is FIFO and lossless, in both directions, for every schedule.**  What a side has been
delivered — the PDU events it has READ (`readEvts`: dispatched, or queued by `readTransport`),
followed by what is still unread in its inbox — is exactly the image of the first `seen` PDUs the
other side has put on the wire; in particular what it has read is, in order, a prefix of the image
of what the other side has sent.  (The cross-side wire clause the C27 check observes on real runs.) -/
theorem C06_wire_fifo (sched : List PStep) :
    let p := Pair.run Pair.init sched
    (readEvts p.a ++ wireEvts p.a.inbox = delivered p.r p.rSeen ∧ readEvts p.a <+: sentEvts p.r) ∧
    (readEvts p.r ++ wireEvts p.r.inbox = delivered p.a p.aSeen ∧ readEvts p.r <+: sentEvts p.a) := by
  intro p
  have h : Fifo p := fifo_run sched _ fifo_init
  have pre : ∀ (snd rcv : St) (seen : Nat), Chan snd rcv seen → readEvts rcv <+: sentEvts snd := by
    intro snd rcv seen c
    have h1 : readEvts rcv <+: lineEvts rcv := List.prefix_append _ _
    rw [c.eq] at h1
    exact h1.trans (delivered_prefix snd seen)
  exact ⟨⟨h.ra.eq, pre _ _ _ h.ra⟩, ⟨h.ar.eq, pre _ _ _ h.ar⟩⟩

/-- in particular the PDU events a side has DISPATCHED are a prefix of what the other side sent -/
theorem C06_dispatched_prefix (sched : List PStep) :
    let p := Pair.run Pair.init sched
    dispatchedPdus p.a <+: sentEvts p.r ∧ dispatchedPdus p.r <+: sentEvts p.a := by
  intro p
  obtain ⟨⟨_, h1⟩, ⟨_, h2⟩⟩ := C06_wire_fifo sched
  exact ⟨(List.prefix_append _ _).trans h1, (List.prefix_append _ _).trans h2⟩

/-- the reactor has dispatched an event through the action `a` (its log says so) -/
def didAct (s : St) (a : Action) : Prop := ∃ d ∈ s.log, d.action = some a

theorem AR3_evt : ∀ row ∈ Spec.Ps38.table, row.2.2 = Action.AR_3 → row.1 = 13 := by decide +kernel

theorem emits_relRp (a : Action) (h : mayEmit a .sendRelRp = true) : a = .AR_4 ∨ a = .AR_9 := by
  revert h; cases a <;> decide

theorem wireOf_13 {f : Eff} {alt : Bool} (h : wireOf f = .pdu 13 alt) : f = .sendRelRp := by
  cases f <;> simp [wireOf] at h ⊢

theorem release_confirm_caused {snd rcv : St} (hpre : dispatchedPdus rcv <+: sentEvts snd) (hl : LogOk snd)
    (hr : LogOk rcv) (h : didAct rcv .AR_3) : didAct snd .AR_4 ∨ didAct snd .AR_9 := by
  obtain ⟨d, hd, hda⟩ := h
  have hrow := hr.rows d hd
  rw [hda] at hrow
  have he : d.evt = 13 := AR3_evt _ (lookup_mem hrow.symm) rfl
  obtain ⟨f, alt, hw, d', hd', a, ha, _, hem⟩ := caused hpre hl hd (by rw [he]; rfl)
  rw [he] at hw
  rw [wireOf_13 hw] at hem
  rcases emits_relRp a hem with h | h <;> subst h
  · exact Or.inl ⟨d', hd', ha⟩
  · exact Or.inr ⟨d', hd', ha⟩

/-- **No release confirmation without a release response**, for every schedule and at every point of
it: if a side has dispatched AR-3 (it received A-RELEASE-RP: its release is confirmed), the other
side has, before, dispatched AR-4 or AR-9 (it answered a release request).  (As the statement holds
after every prefix of a schedule, it holds at the moment AR-3 is dispatched: "before".) -/
theorem C06_no_release_confirm_without_response (sched : List PStep) :
    let p := Pair.run Pair.init sched
    (didAct p.r .AR_3 → didAct p.a .AR_4 ∨ didAct p.a .AR_9) ∧
    (didAct p.a .AR_3 → didAct p.r .AR_4 ∨ didAct p.r .AR_9) := by
  intro p
  obtain ⟨ha, hr⟩ := C06_dispatched_prefix sched
  have hl : Logs p := logs_run sched _ logs_init
  exact ⟨release_confirm_caused hr hl.a hl.r, release_confirm_caused ha hl.r hl.a⟩

/-! ### provider-level agreement -/

/-- **Provider-level agreement.**  For every schedule of the product model in which both local users
are synchronously admissible (`Pair.runOk`: `Dul.stepOkSync` for every `.r st` / `.a st` step — a
primitive is issued only at a quiescent point of its reactor and only if PS3.8 defines its event for
the provider's current state, ARTIM expires only at a quiescent point) and no send failure is
injected (`breakConn`): if both reactors have ended in an orderly way (kill flag set, thread not
dead) and neither local user aborted while a confirmation it had asked for was outstanding
(no AA-1 dispatched in Sta5, Sta7 or Sta11), then the two provider outcomes agree — both `released`,
both `rejected`, or both `aborted`.  Deliveries, reactor micro-steps, ARTIM expiry, connect failure,
P-DATA in any number, release collisions, aborts in every other state, and every interleaving of
these are covered.  The three hypotheses are necessary: `C06_agreement_neg_…` below. -/
theorem C06_provider_agreement (sched : List PStep) (hok : Pair.runOk Pair.init sched = true)
    (hnb : sched.all Pair.noBreak = true) :
    let p := Pair.run Pair.init sched
    ended p.r = true → ended p.a = true → abortedAwaiting p.r = false → abortedAwaiting p.a = false →
    (provOutcome p.r).agree (provOutcome p.a) = true := by
  intro p her hea har haa
  have hadm : Pair.runAdm Pair.init sched = true := by rw [runAdm_iff, hok, hnb]; rfl
  have hg : Abs.Good p := Abs.good_run sched _ hadm Abs.good_init
  rcases hg.abs with hR | hab | hab
  · have hagree := Abs.R_agree hR
    unfold Abs.agreeEnded at hagree
    unfold ended at her hea
    simp only [Bool.and_eq_true] at her hea
    have hk : ((Abs.alpha p).r.kill && (Abs.alpha p).a.kill) = true := by
      show (p.r.kill && p.a.kill) = true
      rw [her.1, hea.1]; rfl
    rw [hk] at hagree
    have hagree' : (Abs.outcome (Abs.alpha p).r).agree (Abs.outcome (Abs.alpha p).a) = true := by
      simpa using hagree
    exact hagree'
  · rw [har] at hab; cases hab
  · rw [haa] at hab; cases hab

/-- under the same hypotheses neither reactor thread ever dies (C05 on both sides of the product) -/
theorem C06_pair_never_dead (sched : List PStep) (hok : Pair.runOk Pair.init sched = true)
    (hnb : sched.all Pair.noBreak = true) :
    (Pair.run Pair.init sched).r.dead = false ∧ (Pair.run Pair.init sched).a.dead = false := by
  have hadm : Pair.runAdm Pair.init sched = true := by rw [runAdm_iff, hok, hnb]; rfl
  have hg : Abs.Good (Pair.run Pair.init sched) := Abs.good_run sched _ hadm Abs.good_init
  exact ⟨hg.inv.r.inv.1, hg.inv.a.inv.1⟩

/-! ### non-vacuity and the counterexamples to unrestricted agreement -/

namespace PairEx
open Pair

/-- association request, transport connection, A-ASSOCIATE-RQ delivered, accepted, A-ASSOCIATE-AC delivered -/
def estab : List PStep :=
  [.r (.env (.local .assocRq)), .r .a, .r .b, .r .a, .r .b, .a .a, .a .b, .deliverRA, .a .a, .a .b,
   .a (.env (.local .accept)), .a .a, .a .b, .deliverAR, .r .a, .r .b]

/-- P-DATA both ways -/
def data : List PStep :=
  [.r (.env (.local .pdata)), .r .a, .r .b, .deliverRA, .a .a, .a .b,
   .a (.env (.local .pdata)), .a .a, .a .b, .deliverAR, .r .a, .r .b]

/-- release requested by the requestor, answered by the acceptor; the acceptor sees the close -/
def release : List PStep :=
  [.r (.env (.local .releaseRq)), .r .a, .r .b, .deliverRA, .a .a, .a .b,
   .a (.env (.local .releaseRp)), .a .a, .a .b, .deliverAR, .r .a, .r .b, .deliverRA, .a .a, .a .b]

/-- what a schedule leads to: admissible, free of injected send failures, and per side
(state, ended, outcome, aborted-while-awaiting-a-confirmation) -/
structure SideSum where
  fsm : Nat
  ended : Bool
  outcome : ProvOutcome
  abortedAwaiting : Bool
  deriving DecidableEq, Repr

def sideSum (s : St) : SideSum := ⟨s.fsm, ended s, provOutcome s, abortedAwaiting s⟩

def summary (sched : List PStep) : Bool × Bool × SideSum × SideSum :=
  let p := run init sched
  (runOk init sched, sched.all noBreak, sideSum p.r, sideSum p.a)

end PairEx
open PairEx in
/-- non-vacuity: a complete clean association — request, accept, data both ways, release by the
requestor, response by the acceptor — is admissible and both sides end `released` -/
example : summary (estab ++ data ++ release) =
    (true, true, ⟨1, true, .released, false⟩, ⟨1, true, .released, false⟩) ∧
    ((Pair.run Pair.init (estab ++ data ++ release)).r.log.map (·.action)).reverse =
      [some .AE_1, some .AE_2, some .AE_3, some .DT_1, some .DT_2, some .AR_1, some .AR_3] ∧
    ((Pair.run Pair.init (estab ++ data ++ release)).a.log.map (·.action)).reverse =
      [some .AE_5, some .AE_6, some .AE_7, some .DT_2, some .DT_1, some .AR_2, some .AR_4, some .AR_5] := by
  decide

open PairEx in
/-- non-vacuity: the requestor's user aborts during data transfer; both sides end `aborted`
(AA-1 then AR-5 on one side, AA-3 on the other) -/
example : summary (estab ++ [.r (.env (.local (.abort false))), .r .a, .r .b, .deliverRA, .a .a, .a .b,
      .deliverAR, .r .a, .r .b]) =
    (true, true, ⟨1, true, .aborted, false⟩, ⟨1, true, .aborted, false⟩) := by decide

open PairEx in
/-- non-vacuity: rejection — both sides end `rejected` -/
example : summary [.r (.env (.local .assocRq)), .r .a, .r .b, .r .a, .r .b, .a .a, .a .b, .deliverRA, .a .a, .a .b,
      .a (.env (.local .reject)), .a .a, .a .b, .deliverAR, .r .a, .r .b, .a .a, .a .b] =
    (true, true, ⟨1, true, .rejected, false⟩, ⟨1, true, .rejected, false⟩) := by decide

open PairEx in
/-- **Unrestricted agreement is false (1)**: the requestor's user asks for release (Sta7) and then
aborts while the acceptor answers.  A-ABORT and A-RELEASE-RP cross on the wire: the acceptor ends
`released` (AR-4, then AA-2 on the abort it reads in Sta13), the requestor `aborted` (AA-1; the
A-RELEASE-RP it reads in Sta13 is ignored, AA-6).  Both users are synchronously admissible. -/
theorem C06_agreement_neg_abort_awaiting_release :
    summary (estab ++ [.r (.env (.local .releaseRq)), .r .a, .r .b, .deliverRA, .a .a, .a .b,
      .a (.env (.local .releaseRp)), .a .a, .a .b, .r (.env (.local (.abort false))), .r .a, .r .b,
      .deliverAR, .deliverRA, .a .a, .a .b, .r .a, .r .b, .r .a, .r .b]) =
    (true, true, ⟨1, true, .aborted, true⟩, ⟨1, true, .released, false⟩) := by decide

open PairEx in
/-- **Unrestricted agreement is false (2)**: the requestor's user aborts in Sta5 (awaiting
A-ASSOCIATE-AC/RJ) while the acceptor rejects: `aborted` against `rejected`. -/
theorem C06_agreement_neg_abort_awaiting_associate :
    summary [.r (.env (.local .assocRq)), .r .a, .r .b, .r .a, .r .b, .a .a, .a .b, .deliverRA, .a .a, .a .b,
      .a (.env (.local .reject)), .a .a, .a .b, .r (.env (.local (.abort false))), .r .a, .r .b,
      .deliverAR, .deliverRA, .a .a, .a .b, .r .a, .r .b, .r .a, .r .b] =
    (true, true, ⟨1, true, .aborted, true⟩, ⟨1, true, .rejected, false⟩) := by decide

open PairEx in
/-- **Unrestricted agreement is false (3)**: the acceptor's user asks for release and aborts in Sta7;
the requestor answers the release request before it reads the abort: `released` against `aborted`. -/
theorem C06_agreement_neg_acceptor_abort_awaiting_release :
    summary (estab ++ [.a (.env (.local .releaseRq)), .a .a, .a .b, .deliverAR,
      .a (.env (.local (.abort false))), .a .a, .a .b, .deliverAR, .r .a, .r .b,
      .r (.env (.local .releaseRp)), .r .a, .r .b, .r .a, .r .b, .deliverRA, .a .a, .a .b, .a .a, .a .b]) =
    (true, true, ⟨1, true, .released, false⟩, ⟨1, true, .aborted, true⟩) := by decide

open PairEx in
/-- **Unrestricted agreement is false (4)**: release collision; the requestor has answered (Sta11)
and aborts while the acceptor's answer is on its way: `aborted` against `released`. -/
theorem C06_agreement_neg_abort_in_collision :
    summary (estab ++ [.r (.env (.local .releaseRq)), .a (.env (.local .releaseRq)), .r .a, .r .b, .a .a, .a .b,
      .deliverRA, .deliverAR, .r .a, .r .b, .a .a, .a .b, .r (.env (.local .releaseRp)), .r .a, .r .b, .deliverRA,
      .a .a, .a .b, .a (.env (.local .releaseRp)), .a .a, .a .b, .r (.env (.local (.abort false))), .r .a, .r .b,
      .deliverRA, .deliverAR, .a .a, .a .b, .r .a, .r .b, .r .a, .r .b]) =
    (true, true, ⟨1, true, .aborted, true⟩, ⟨1, true, .released, false⟩) := by decide

open PairEx in
/-- **Why send failures are excluded**: the acceptor's connection breaks before it answers the release
request; AR-4's send fails, the acceptor still ends `released`, the requestor sees the connection
close in Sta7 (AA-4): `aborted`.  No user aborted. -/
theorem C06_agreement_neg_send_failure :
    summary (estab ++ [.r (.env (.local .releaseRq)), .r .a, .r .b, .deliverRA, .a .a, .a .b, .a (.env .breakConn),
      .a (.env (.local .releaseRp)), .a .a, .a .b, .a .a, .a .b, .deliverAR, .r .a, .r .b]) =
    (true, false, ⟨1, true, .aborted, false⟩, ⟨1, true, .released, false⟩) := by decide

end PynetVerif
