import PynetVerif.Model.Release
import PynetVerif.Gen.Release
/-!
C07 — a peer's release request is always answered with a release response.

partial: the theorem is about the acceptor's control logic (handler loop, SCP tail, reactor release
branch); the real threads, queues and sockets are exercised by the check (a real acceptor, a peer
that injects A-RELEASE-RQ at a generated point of a C-FIND / C-GET) but not modelled.
-/
namespace PynetVerif
open Release

theorem loop_stopped_fix (arrival : Nat) (pc : Bool) : ∀ (n i : Nat) (s : St), s.stopped = true →
    loop arrival pc n i s = s := by
  intro n
  induction n with
  | zero => intro i s _; rfl
  | succ n ih =>
    intro i s h
    simp only [loop, iter, h, ↓reduceIte]
    exact ih (i + 1) s h

/-- what the handler loop does, in closed form: from iteration `i` with nothing queued, it yields
until the arrival point and stops there, or runs through -/
theorem loop_closed (arrival : Nat) (pc : Bool) : ∀ (n i y : Nat), i ≤ arrival →
    loop arrival pc n i { queued := false, yields := y, stopped := false } =
      if arrival < i + n then { queued := !pc, yields := y + (arrival - i), stopped := true }
      else { queued := false, yields := y + n, stopped := false } := by
  intro n
  induction n with
  | zero => intro i y h; simp [loop]; omega
  | succ n ih =>
    intro i y h
    simp only [loop, iter, Bool.false_eq_true, ↓reduceIte]
    by_cases ha : arrival = i
    · subst ha
      simp only [↓reduceIte]
      rw [loop_stopped_fix _ _ _ _ _ rfl]
      simp
    · simp only [ha, ↓reduceIte, Bool.false_eq_true]
      rw [ih (i + 1) (y + 1) (by omega)]
      by_cases hb : arrival < i + 1 + n
      · have : arrival < i + (n + 1) := by omega
        simp only [hb, this, ↓reduceIte]
        congr 1; omega
      · have : ¬ arrival < i + (n + 1) := by omega
        simp only [hb, this, ↓reduceIte]
        congr 1; omega

/-- **Every arrival point is answered** (current code: the handler loop only peeks): wherever the
peer's A-RELEASE-RQ arrives — before, between or after any of the handler's `n` yields, or while
idle — the acceptor sends A-RELEASE-RP and ends released; the results produced before the arrival
were sent as Pending responses and the operation got its final response. -/
theorem C07_answered (n arrival : Nat) :
    (serve n arrival false).rpSent = true ∧ (serve n arrival false).released = true ∧
    (serve n arrival false).finalSent = true ∧ (serve n arrival false).pending = min arrival n := by
  unfold serve
  rw [loop_closed arrival false n 0 0 (Nat.zero_le _)]
  by_cases h : arrival < n
  · have h' : ¬ arrival ≥ n := by omega
    simp [h, h']; omega
  · have h' : arrival ≥ n := by omega
    simp [h, h']

/-- the repaired defect, for the record: when the loop's check consumed the indication, a release
request arriving during the handler's iteration was never answered -/
theorem C07_consuming_peek_neg (n arrival : Nat) (h : arrival < n) :
    (serve n arrival true).rpSent = false ∧ (serve n arrival true).released = false := by
  unfold serve
  rw [loop_closed arrival true n 0 0 (Nat.zero_le _)]
  have h' : ¬ arrival ≥ n := by omega
  simp [h, h']

/-- the source still only peeks: `_wrap_handler` calls `is_release_requested(consume=False)` and the
reactor's release branch calls the consuming form — and it is the only function in the package
that does: whoever else takes the indication off the queue (a timeout path, say) leaves the request
unanswered (regenerated from the source on every run) -/
theorem C07_code_peeks : Gen.Release.wrapHandlerConsumes = false ∧ Gen.Release.reactorConsumes = true ∧
    Gen.Release.defaultConsume = true ∧ Gen.Release.otherConsumers = [] := by decide

example : serve 5 2 false = ⟨2, true, true, true⟩ ∧ serve 5 9 false = ⟨5, true, true, true⟩ ∧
    serve 5 2 true = ⟨2, true, false, false⟩ := by decide

end PynetVerif
