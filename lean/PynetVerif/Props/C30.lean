import PynetVerif.Model.Path
import PynetVerif.Lemmas.Path
import PynetVerif.Gen.Paths
import PynetVerif.Driver.Path
/-!
C30 — the storage applications never write outside their storage directory.

What is proved (for ALL strings, for ANY digit class that excludes '/' and NUL
— Python's `\d` is every Unicode decimal digit): the path handed to
`save_as`/`open` is `dir` + separator + `name` where `name` is a single path
component without '/' and NUL; for storescp `name` is never "", "." or ".."
(because of the `XX.` prefix), so the path denotes a direct child of the
directory; for qrscp the same holds except for the three SOP Instance UIDs "",
"." and "..", whose paths denote the storage directory itself or its parent —
existing *directories*, on which `open(…, "wb")` fails (the correspondence run
observes exactly that on the real code: status 0xA700, nothing created).

How the model is tied to the code: `Gen.Paths` is regenerated from the source
on every run (the regex/replacement literals, the symbolic data flow from the
SOP Instance UID to every file-system sink of the two functions, the extension
of the real `re.sub` on every code point, the prefix table), and
`harness/props/c30.py` runs the real handlers against the model.

Not modelled: symbolic links below the storage directory, non-POSIX
`os.path`, NAME_MAX (an over-long name makes the write fail), what SQLite
writes next to its database file.
-/
namespace PynetVerif
open Path Driver Driver.PathD

/-- The source still contains the sanitiser the model describes, at both call
sites, and the sanitised value (nothing else derived from the data set) is
what reaches `os.path.join` and every write. -/
theorem C30_sanitiser_is_modelled :
    Gen.Paths.qrscpRegex = "[^\\d.]" ∧ Gen.Paths.qrscpRepl = "_" ∧
    Gen.Paths.storescpRegex = "[^\\d.]" ∧ Gen.Paths.storescpRepl = "_" ∧
    Gen.Paths.sameSanitiser = true ∧ Gen.Paths.othersReplaced = true ∧
    Gen.Paths.qrscpSinks = ["save_as:join(storage_dir,sub(ds.SOPInstanceUID))"] ∧
    Gen.Paths.storescpSinks =
      ["os.makedirs:args.output_directory",
       "open:phi(join(args.output_directory,cat(phi(SOP_CLASS_PREFIXES[ds.SOPClassUID][0]|'UN'),'.',sub(ds.SOPInstanceUID)))|cat(phi(SOP_CLASS_PREFIXES[ds.SOPClassUID][0]|'UN'),'.',sub(ds.SOPInstanceUID)))",
       "save_as:phi(join(args.output_directory,cat(phi(SOP_CLASS_PREFIXES[ds.SOPClassUID][0]|'UN'),'.',sub(ds.SOPInstanceUID)))|cat(phi(SOP_CLASS_PREFIXES[ds.SOPClassUID][0]|'UN'),'.',sub(ds.SOPInstanceUID)))"] := by
  refine ⟨by decide, by decide, by decide, by decide, by decide, by decide, ?_, ?_⟩ <;> decide +kernel

/-- The extension of the real sanitiser on all 0x110000 code points (executed
by the translator): '/' and NUL are not kept, '.' and the ASCII digits are,
and so are non-ASCII decimal digits (U+0663 ARABIC-INDIC DIGIT THREE, U+FF11
FULLWIDTH DIGIT ONE) — which is why the theorems quantify over the digit class. -/
theorem C30_real_digit_class :
    realDigit '/' = false ∧ realDigit nul = false ∧ realDigit '\\' = false ∧ realDigit '_' = false ∧
    realDigit '.' = false ∧ inRuns Gen.Paths.keepRuns ('.').toNat = true ∧
    (∀ n, 48 ≤ n → n ≤ 57 → realDigit (Char.ofNat n) = true) ∧
    realDigit (Char.ofNat 0x663) = true ∧ realDigit (Char.ofNat 0xFF11) = true := by
  refine ⟨by decide, by decide, by decide, by decide, by decide, by decide, ?_, by decide, by decide⟩
  intro n h1 h2
  have : n = 48 ∨ n = 49 ∨ n = 50 ∨ n = 51 ∨ n = 52 ∨ n = 53 ∨ n = 54 ∨ n = 55 ∨ n = 56 ∨ n = 57 := by omega
  rcases this with h | h | h | h | h | h | h | h | h | h <;> subst h <;> decide

/-- Every prefix the real table (and the `except KeyError` default) can
contribute is non-empty, has no '/' or NUL and does not start with '.'. -/
theorem C30_prefixes_ok :
    (Gen.Paths.defaultPrefix :: Gen.Paths.prefixes.map (·.2)).all okPrefix = true := by decide

theorem Path.prefixOf_ok (tbl : List (Str × Str)) (dflt : Str)
    (h : (dflt :: tbl.map (·.2)).all okPrefix = true) (cls : Str) : okPrefix (prefixOf tbl dflt cls) = true := by
  simp only [List.all_cons, Bool.and_eq_true] at h
  obtain ⟨hd, ht⟩ := h
  unfold prefixOf
  induction tbl with
  | nil => simpa [List.lookup] using hd
  | cons x xs ih =>
    obtain ⟨k, v⟩ := x
    simp only [List.map_cons, List.all_cons, Bool.and_eq_true] at ht
    simp only [List.lookup]
    cases hkv : cls == k with
    | true => simpa using ht.1
    | false => simpa using ih ht.2

theorem Path.okPrefix_spec {p : Str} (h : okPrefix p = true) :
    p ≠ [] ∧ '/' ∉ p ∧ nul ∉ p ∧ p.head? ≠ some '.' := by
  simp only [okPrefix, Bool.and_eq_true, Bool.not_eq_true', bne_iff_ne, ne_eq] at h
  obtain ⟨⟨⟨h1, h2⟩, h3⟩, h4⟩ := h
  refine ⟨by simpa using h1, ?_, ?_, h4⟩
  · intro hm; have := List.contains_iff_mem.mpr hm; rw [this] at h2; exact absurd h2 (by decide)
  · intro hm; have := List.contains_iff_mem.mpr hm; rw [this] at h3; exact absurd h3 (by decide)

/-- the storescp file name is a single proper component -/
theorem Path.storescpName_ok (isDigit : Char → Bool) (hsep : isDigit '/' = false) (hnul : isDigit nul = false)
    (tbl : List (Str × Str)) (dflt : Str) (htbl : (dflt :: tbl.map (·.2)).all okPrefix = true) (cls uid : Str) :
    '/' ∉ storescpName isDigit tbl dflt cls uid ∧ nul ∉ storescpName isDigit tbl dflt cls uid ∧
    properName (storescpName isDigit tbl dflt cls uid) := by
  obtain ⟨p1, p2, p3, p4⟩ := okPrefix_spec (prefixOf_ok tbl dflt htbl cls)
  unfold storescpName
  generalize prefixOf tbl dflt cls = p at *
  refine ⟨?_, ?_, ?_⟩
  · intro h
    rcases List.mem_append.mp h with h | h
    · exact p2 h
    · rcases List.mem_cons.mp h with h | h
      · exact absurd h (by decide)
      · exact sep_not_mem_sanitise isDigit hsep uid h
  · intro h
    rcases List.mem_append.mp h with h | h
    · exact p3 h
    · rcases List.mem_cons.mp h with h | h
      · exact absurd h (by decide)
      · exact nul_not_mem_sanitise isDigit hnul uid h
  · cases p with
    | nil => exact absurd rfl p1
    | cons x xs =>
      have hx : x ≠ '.' := by intro e; subst e; simp at p4
      refine ⟨by simp, ?_, ?_⟩
      · intro e; simp only [List.cons_append, List.cons.injEq] at e; exact hx e.1
      · intro e; simp only [List.cons_append, List.cons.injEq] at e; exact hx e.1

/-- **storescp.**  For every SOP Instance UID, SOP Class UID and output
directory the written path is the directory, one separator (none if the
directory already ends in one), and a single component `name` that contains
neither '/' nor NUL and is not "", "." or ".."; lexically it denotes the entry
`name` directly inside the directory.  With `output_directory = None` the path
is the bare `name` (an entry of the current directory). -/
theorem C30_storescp (isDigit : Char → Bool) (hsep : isDigit '/' = false) (hnul : isDigit nul = false)
    (tbl : List (Str × Str)) (dflt : Str) (htbl : (dflt :: tbl.map (·.2)).all okPrefix = true)
    (dir : Option Str) (cls uid : Str) :
    let name := storescpName isDigit tbl dflt cls uid
    let target := storescpTarget isDigit tbl dflt dir cls uid
    '/' ∉ name ∧ nul ∉ name ∧ name ≠ [] ∧ name ≠ ['.'] ∧ name ≠ ['.', '.'] ∧
    (match dir with
     | none => target = name ∧ resolve target = [name]
     | some d =>
        target = (if d.isEmpty || d.getLast? == some '/' then d ++ name else d ++ '/' :: name) ∧
        resolve target = resolve d ++ [name]) := by
  intro name target
  obtain ⟨h1, h2, h3⟩ := storescpName_ok isDigit hsep hnul tbl dflt htbl cls uid
  refine ⟨h1, h2, h3.1, h3.2.1, h3.2.2, ?_⟩
  cases dir with
  | none =>
    refine ⟨rfl, ?_⟩
    have hj : join [] name = name := by rw [join_of_rel (head?_ne_of_not_mem h1)]; rfl
    have := resolve_join [] name h1
    rw [hj, normStep_proper _ _ _ h3] at this
    exact this
  | some d =>
    refine ⟨join_of_rel (head?_ne_of_not_mem h1), ?_⟩
    have := resolve_join d name h1
    rw [normStep_proper _ _ _ h3] at this
    have h' : resolve (join d name) = resolve d ++ [name] := by simpa using this
    exact h'

/-- The same statement for the real digit class, the real prefix table and the
real default prefix: no hypothesis left. -/
theorem C30_storescp_real (dir : Option Str) (cls uid : Str) :
    let name := storescpName realDigit Gen.Paths.prefixes Gen.Paths.defaultPrefix cls uid
    let target := storescpTarget realDigit Gen.Paths.prefixes Gen.Paths.defaultPrefix dir cls uid
    '/' ∉ name ∧ nul ∉ name ∧ name ≠ [] ∧ name ≠ ['.'] ∧ name ≠ ['.', '.'] ∧
    (match dir with
     | none => target = name ∧ resolve target = [name]
     | some d =>
        target = (if d.isEmpty || d.getLast? == some '/' then d ++ name else d ++ '/' :: name) ∧
        resolve target = resolve d ++ [name]) :=
  C30_storescp realDigit C30_real_digit_class.1 C30_real_digit_class.2.1 _ _ C30_prefixes_ok dir cls uid

/-- **qrscp.**  The sanitised name has no '/' and no NUL, so `os.path.join`
never discards the storage directory and the path is the directory plus ONE
final component; unless that component is "", "." or ".." it denotes the entry
`name` directly inside the storage directory. -/
theorem C30_qrscp (isDigit : Char → Bool) (hsep : isDigit '/' = false) (hnul : isDigit nul = false)
    (dir uid : Str) :
    let name := qrscpName isDigit uid
    let target := qrscpTarget isDigit dir uid
    '/' ∉ name ∧ nul ∉ name ∧
    target = (if dir.isEmpty || dir.getLast? == some '/' then dir ++ name else dir ++ '/' :: name) ∧
    (properName name → resolve target = resolve dir ++ [name]) := by
  intro name target
  have h1 : '/' ∉ name := sep_not_mem_sanitise isDigit hsep uid
  refine ⟨h1, nul_not_mem_sanitise isDigit hnul uid, join_of_rel (head?_ne_of_not_mem h1), ?_⟩
  intro hp
  have := resolve_join dir name h1
  rw [normStep_proper _ _ _ hp] at this
  have h' : resolve (join dir name) = resolve dir ++ [name] := by simpa using this
  exact h'

/-- The residual names arise from exactly three SOP Instance UIDs. -/
theorem C30_qrscp_residual_iff (isDigit : Char → Bool) (uid : Str) :
    ¬ properName (qrscpName isDigit uid) ↔ (uid = [] ∨ uid = ['.'] ∨ uid = ['.', '.']) := by
  unfold properName qrscpName
  rw [← sanitise_eq_nil isDigit uid, ← sanitise_eq_dot isDigit uid, ← sanitise_eq_dotdot isDigit uid]
  generalize sanitise isDigit uid = n
  by_cases a : n = [] <;> by_cases b : n = ['.'] <;> by_cases c : n = ['.', '.'] <;> simp [a, b, c]

/-- In the residual cases the path denotes the storage directory itself ("",
".") or the directory one step up ("..": the parent, the root for "/", or
`..` relative to the current directory) — an existing directory, never a
proper entry inside or outside the storage directory. -/
theorem C30_qrscp_residual_denotes_directory (isDigit : Char → Bool) (dir uid : Str)
    (h : uid = [] ∨ uid = ['.'] ∨ uid = ['.', '.']) :
    (uid ≠ ['.', '.'] → resolve (qrscpTarget isDigit dir uid) = resolve dir) ∧
    (uid = ['.', '.'] → resolve (qrscpTarget isDigit dir uid) =
        (normStep (isAbs dir) (resolve dir).reverse ['.', '.']).reverse) ∧
    (∀ n, properName n → resolve (qrscpTarget isDigit dir uid) ≠ resolve dir ++ [n]) := by
  have key : ∀ n, '/' ∉ n → resolve (join dir n) = (normStep (isAbs dir) (resolve dir).reverse n).reverse :=
    fun n hn => resolve_join dir n hn
  rcases h with h | h | h <;> subst h
  · have e : qrscpTarget isDigit dir [] = join dir [] := rfl
    rw [e, key [] (by simp)]
    refine ⟨fun _ => by simp [normStep], fun h => by simp at h, ?_⟩
    intro n _ hh; simp [normStep] at hh
  · have e : qrscpTarget isDigit dir ['.'] = join dir ['.'] := by simp [qrscpTarget, qrscpName, sanitise, keep]
    rw [e, key ['.'] (by decide)]
    refine ⟨fun _ => by simp [normStep], fun h => by simp at h, ?_⟩
    intro n _ hh; simp [normStep] at hh
  · have e : qrscpTarget isDigit dir ['.', '.'] = join dir ['.', '.'] := by
      simp [qrscpTarget, qrscpName, sanitise, keep]
    rw [e, key ['.', '.'] (by decide)]
    refine ⟨fun h => by simp at h, fun _ => rfl, ?_⟩
    intro n hn hh
    generalize (resolve dir) = r at hh
    have hl := congrArg List.length hh
    simp only [normStep, List.length_reverse, List.length_append, List.length_cons, List.length_nil] at hl
    cases hr : r.reverse with
    | nil =>
      have : r = [] := by simpa using hr
      subst this
      cases ha : isAbs dir <;> simp [normStep, ha] at hh
      exact hn.2.2 hh.symm
    | cons top rest =>
      rw [hr] at hl hh
      by_cases ht : top = ['.', '.']
      · simp only [normStep, ht] at hh
        have := congrArg List.reverse hh
        simp only [List.reverse_reverse, List.reverse_append, List.reverse_cons, List.reverse_nil,
          List.nil_append, List.singleton_append] at this
        simp at this
        exact hn.2.2 this.1.symm
      · have hlen : r.length = rest.length + 1 := by
          have := congrArg List.length hr; simpa using this
        simp [ht] at hl
        omega

/-- Why the sanitiser is needed: joining the RAW value escapes — an absolute
second component replaces the directory, and ".." components walk out.  (This
is what qrscp did before commit 172fa1a; it also shows that the model can
express an escape, i.e. the theorems above are not vacuous.) -/
theorem C30_unsanitised_join_escapes :
    join "/srv/storage".toList "/etc/passwd".toList = "/etc/passwd".toList ∧
    ¬ (resolve "/srv/storage".toList).isPrefixOf (resolve (join "/srv/storage".toList "../x".toList)) = true ∧
    ¬ (resolve "/srv/storage".toList).isPrefixOf (resolve (join "/srv/storage".toList "a/../../x".toList)) = true ∧
    resolve (join "/srv/storage".toList "../x".toList) = ["srv".toList, "x".toList] := by
  decide

-- non-vacuity: concrete values of the functions the theorems speak about
example : qrscpTarget realDigit "/srv/st".toList "../a/".toList = "/srv/st/..___".toList := by decide
example : storescpTarget realDigit Gen.Paths.prefixes Gen.Paths.defaultPrefix (some "out/".toList)
    "1.2.840.10008.5.1.4.1.1.2".toList "..".toList = "out/CT...".toList := by decide
example : storescpTarget realDigit Gen.Paths.prefixes Gen.Paths.defaultPrefix none "x".toList "/a".toList = "UN.__".toList := by decide
example : resolve (qrscpTarget realDigit "/srv/st".toList "..".toList) = ["srv".toList] := by decide
example : resolve (qrscpTarget realDigit "/srv/st".toList [Char.ofNat 0x663, '/']) = ["srv".toList, "st".toList, [Char.ofNat 0x663, '_']] := by decide
example : properName "1.2.3".toList := by decide

end PynetVerif
