import PynetVerif.Lemmas.NegoAssoc
/-!
C10 — acceptor-side presentation context negotiation follows PS3.8 and the
documented role table.

`Nego.negotiateAsAcceptor` / `Nego.negotiateUnrestricted` are the models of
`negotiate_as_acceptor` / `negotiate_unrestricted` (tied to the code by the
differential run of harness/props/c10.py), `Gen.Roles.table` is
`SCP_SCU_ROLES` as regenerated from the source, `Spec.Roles` the table of
docs/user/presentation_role_selection.rst.

Domain of the list-level theorems: ANY proposal list with distinct context ids,
any supported list (duplicates allowed: the last context for an abstract
syntax is the effective one, as in the code), any role dict.  They are stated
for every *returned* result; `C10_total` says when the function returns: every
proposal has a transfer syntax and role pairs are pairs of booleans (what a
role-selection item can carry — `ACSE._negotiate_as_acceptor` passes nothing
else).  Outside that domain the code raises IndexError/KeyError, which the
model reproduces (`Err`).
-/
namespace PynetVerif
open Nego Spec.Roles

/-- The code's table is the documented one: each of the 5×9 entries of `SCP_SCU_ROLES`
(requestor pair × acceptor configuration, `None` included) is the outcome the
documentation assigns — the acceptor's answer being its configuration capped by the
proposal, no answer at all when nothing was proposed or a configured role is `None` —
and the table has exactly those 5×9 keys. -/
theorem C10_roles_table :
    (∀ rq ∈ rqKeys, ∀ ac ∈ acKeys, ∃ oc, documented (toItem rq) ac = some oc ∧ tableLookup rq ac = .ok (enc oc)) ∧
    Gen.Roles.table.map (·.1) = rqKeys ∧ (∀ row ∈ Gen.Roles.table, row.2.map (·.1) = acKeys) := by
  refine ⟨?_, table_keys.1, table_keys.2⟩
  intro rq hrq ac hac
  obtain ⟨h1, h2⟩ := table_is_documented rq hrq ac hac
  cases hd : documented (toItem rq) ac with
  | none => simp [hd] at h2
  | some oc => exact ⟨oc, rfl, tableLookup_ok_iff.mpr (by simpa [hd] using h1)⟩

section normal
variable {rq ac : List Cx} {roles : Roles} {res : List AccCx} {reply : List RoleItem}

/-- The function returns (raises nothing) whenever every proposal has a transfer syntax and
the proposed role pairs are booleans. -/
theorem C10_total (hts : HasTs rq) (hb : BoolRoles roles) : ∃ out, negotiateAsAcceptor rq ac roles = .ok out := by
  unfold negotiateAsAcceptor
  split
  · exact ⟨_, rfl⟩
  · split
    · obtain ⟨rs, h⟩ := mapE_total (f := noAcOne) (l := rq) (by
        intro p hp
        cases hp' : p.ts with
        | nil => exact absurd hp' (hts p hp)
        | cons t rest => simp [noAcOne, rejected, tsHead, hp'])
      simp [h]
    · obtain ⟨rs, h⟩ := mapE_total (f := negOne ac roles) (l := dictBy (fun p => (p.id, p.abs)) rq) (by
        intro p hp
        exact negOne_total hb (hts p (mem_dictBy _ hp)))
      simp [h]

/-- Exactly one result per proposed context id, carrying the proposed abstract syntax. -/
theorem C10_one_result_per_id (hd : DistinctIds rq) (hok : negotiateAsAcceptor rq ac roles = .ok (res, reply)) :
    (res.map fun r => (r.id, r.abs)).Perm (rq.map fun p => (p.id, p.abs)) ∧ (res.map (·.id)).Nodup := by
  have hp := (acc_view hd hok).1
  refine ⟨hp, ?_⟩
  have h2 := hp.map Prod.fst
  simp only [List.map_map, Function.comp_def] at h2
  exact h2.symm.nodup hd

/-- A context is accepted only with a transfer syntax that was proposed and is supported,
namely the first of the (effective) supported context's list that was proposed. -/
theorem C10_accept_ts (hd : DistinctIds rq) (hok : negotiateAsAcceptor rq ac roles = .ok (res, reply)) :
    ∀ r ∈ res, r.result = 0 → ∃ p ∈ rq, p.id = r.id ∧ ∃ c ∈ ac, c.abs = r.abs ∧ acLookup ac r.abs = some c ∧
      r.ts ∈ p.ts ∧ ∃ pre post, c.ts = pre ++ r.ts :: post ∧ ∀ x ∈ pre, x ∉ p.ts := by
  intro r hr h0
  obtain ⟨p, hp, ro, hs⟩ := (acc_view hd hok).2.1 r hr
  refine ⟨p, hp, hs.id_abs.1.symm, ?_⟩
  cases hs with
  | noAc | absRej | tsRej | roleRej => simp at h0
  | noneRole c t _ hl hf _ =>
    obtain ⟨h1, h2⟩ := firstCommon_some hf
    exact ⟨c, (acLookup_some hl).1, (acLookup_some hl).2, hl, h1, h2⟩
  | accepted c t _ _ _ _ hl hf =>
    obtain ⟨h1, h2⟩ := firstCommon_some hf
    exact ⟨c, (acLookup_some hl).1, (acLookup_some hl).2, hl, h1, h2⟩

/-- Rejected as abstract-syntax-not-supported (3) exactly when no supported context has the
proposed abstract syntax. -/
theorem C10_reject_abs_iff (hd : DistinctIds rq) (hok : negotiateAsAcceptor rq ac roles = .ok (res, reply)) :
    ∀ r ∈ res, (r.result = 3 ↔ ∀ c ∈ ac, c.abs ≠ r.abs) := by
  intro r hr
  obtain ⟨p, hp, ro, hs⟩ := (acc_view hd hok).2.1 r hr
  cases hs with
  | noAc _ _ hac => subst hac; simp
  | absRej _ _ _ hl => simpa using acLookup_none.mp hl
  | tsRej c _ _ _ hl | noneRole c _ _ hl | roleRej c _ _ _ _ _ hl | accepted c _ _ _ _ _ hl =>
    simp only [show (4 : Nat) ≠ 3 by decide, show (0 : Nat) ≠ 3 by decide, show (1 : Nat) ≠ 3 by decide, false_iff]
    intro h
    exact h c (acLookup_some hl).1 (acLookup_some hl).2

/-- Rejected as transfer-syntaxes-not-supported (4) exactly when the abstract syntax is supported
and none of the (effective) supported context's transfer syntaxes was proposed. -/
theorem C10_reject_ts_iff (hd : DistinctIds rq) (hok : negotiateAsAcceptor rq ac roles = .ok (res, reply)) :
    ∀ r ∈ res, ∀ p ∈ rq, p.id = r.id →
      (r.result = 4 ↔ ∃ c, acLookup ac r.abs = some c ∧ ∀ t ∈ c.ts, t ∉ p.ts) := by
  intro r hr p hp hid
  obtain ⟨ro, hs⟩ := acc_step_of_id hd hok hr hp hid
  cases hs with
  | noAc _ _ hac => subst hac; simp [acLookup_nil]
  | absRej _ _ _ hl => simp [hl]
  | tsRej c _ _ _ hl hf => simpa [hl] using firstCommon_none.mp hf
  | noneRole c t _ hl hf | roleRej c t _ _ _ _ hl hf | accepted c t _ _ _ _ hl hf =>
    simp only [show (0 : Nat) ≠ 4 by decide, show (1 : Nat) ≠ 4 by decide, false_iff, hl]
    rintro ⟨c', hc', hall⟩
    cases hc'
    obtain ⟨h1, pre, post, h2, _⟩ := firstCommon_some hf
    exact hall t (by rw [h2]; simp) h1

/-- Roles are granted as the documented table says: for a proposal whose abstract syntax is
supported with a common transfer syntax, the documented outcome for (proposed role item,
acceptor configuration) is either "rejected" — then the result is 1 (user rejection) — or the
context is accepted and the acceptor's roles are the documented ones. -/
theorem C10_roles_follow_doc (hd : DistinctIds rq) (hb : BoolRoles roles)
    (hok : negotiateAsAcceptor rq ac roles = .ok (res, reply)) :
    ∀ r ∈ res, r.result ≠ 3 → r.result ≠ 4 → ∃ c oc, acLookup ac r.abs = some c ∧
      documented (toItem ((roles.lookup r.abs).getD (none, none))) (c.scu, c.scp) = some oc ∧
      (oc = .rejected → r.result = 1) ∧
      (oc ≠ .rejected → r.result = 0 ∧ r.asScu = some oc.acceptor.1 ∧ r.asScp = some oc.acceptor.2) := by
  intro r hr h3 h4
  obtain ⟨p, hp, ro, hs⟩ := (acc_view hd hok).2.1 r hr
  cases hs with
  | noAc | absRej => simp at h3
  | tsRej => simp at h4
  | noneRole c t _ hl hf hnone =>
    refine ⟨c, .default, hl, ?_, by simp, by simp [Outcome.acceptor]⟩
    rcases hnone with h | h
    · cases toItem ((roles.lookup p.abs).getD (none, none)) <;> cases c.scp <;>
        simp [documented, effectiveReply, h] <;> decide
    · cases toItem ((roles.lookup p.abs).getD (none, none)) <;> cases c.scu <;>
        simp [documented, effectiveReply, h] <;> decide
  | roleRej c t cu cp o _ hl hf hcu hcp ht h1 h2 =>
    unfold rqRolesOf at ht
    cases hlk : roles.lookup p.abs with
    | none =>
      rw [hlk] at ht
      have := table_none (some cu, some cp) (by cases cu <;> cases cp <;> decide)
      rw [show (none : Option RolePair).getD (none, none) = (none, none) from rfl] at ht
      rw [this] at ht
      cases ht
      exact absurd h2 (by decide)
    | some v =>
      obtain ⟨x, y, rfl⟩ := lookup_bool hb hlk
      rw [hlk] at ht
      obtain ⟨oc, hdoc, htab⟩ := table_bool x y cu cp
      simp only [Option.getD_some] at ht
      rw [htab] at ht
      cases ht
      refine ⟨c, oc, hl, by simpa [toItem, hcu, hcp] using hdoc, by simp, ?_⟩
      intro hne
      cases oc <;> simp_all [enc, Outcome.acceptor]
  | accepted c t cu cp o _ hl hf hcu hcp ht hb' =>
    unfold rqRolesOf at ht
    cases hlk : roles.lookup p.abs with
    | none =>
      rw [hlk] at ht
      have := table_none (some cu, some cp) (by cases cu <;> cases cp <;> decide)
      rw [show (none : Option RolePair).getD (none, none) = (none, none) from rfl] at ht
      rw [this] at ht
      cases ht
      refine ⟨c, .default, hl, ?_, by simp, by simp [Outcome.acceptor]⟩
      simp [toItem, documented, effectiveReply, hcu, hcp]
      decide
    | some v =>
      obtain ⟨x, y, rfl⟩ := lookup_bool hb hlk
      rw [hlk] at ht
      obtain ⟨oc, hdoc, htab⟩ := table_bool x y cu cp
      simp only [Option.getD_some] at ht
      rw [htab] at ht
      cases ht
      refine ⟨c, oc, hl, by simpa [toItem, hcu, hcp] using hdoc, ?_, ?_⟩
      · intro he; subst he; simp [enc, Outcome.acceptor] at hb'
      · intro _; simp [enc]

/-- No role the requestor did not propose is granted: every role item of the answer belongs to
an accepted context, answers a proposed item, and says `True` only where the proposal did. -/
theorem C10_no_unproposed_role (hd : DistinctIds rq) (hb : BoolRoles roles)
    (hok : negotiateAsAcceptor rq ac roles = .ok (res, reply)) :
    ∀ it ∈ reply, ∃ a b, roles.lookup it.uid = some (some a, some b) ∧
      (it.scu = true → a = true) ∧ (it.scp = true → b = true) ∧
      ∃ r ∈ res, r.abs = it.uid ∧ r.result = 0 := by
  intro it hit
  obtain ⟨p, hp, r, hr, hs⟩ := (acc_view hd hok).2.2.2.1 it hit
  obtain ⟨c, t, cu, cp, o, _, _, _, _, _, _, hsome, rfl, rfl⟩ := hs.some_inv rfl
  cases hlk : roles.lookup p.abs with
  | none => simp [hlk] at hsome
  | some v =>
    obtain ⟨x, y, rfl⟩ := lookup_bool hb hlk
    refine ⟨x, y, by simpa [replyItem] using hlk, ?_, ?_, _, hr, rfl, rfl⟩
    · cases x <;> simp [replyItem, rqRolesOf, hlk]
    · cases y <;> simp [replyItem, rqRolesOf, hlk]

/-- A context is never accepted with no usable role. -/
theorem C10_never_roleless (hd : DistinctIds rq) (hok : negotiateAsAcceptor rq ac roles = .ok (res, reply)) :
    ∀ r ∈ res, r.result = 0 → r.asScu = some true ∨ r.asScp = some true := by
  intro r hr h0
  obtain ⟨p, hp, ro, hs⟩ := (acc_view hd hok).2.1 r hr
  cases hs with
  | noAc | absRej | tsRej | roleRej => simp at h0
  | noneRole => simp
  | accepted c t cu cp o _ _ _ _ _ _ hb =>
    cases h1 : o.2.2.1 <;> cases h2 : o.2.2.2 <;> simp_all

end normal

/-! ### the unrestricted-storage configuration (`negotiate_unrestricted`) -/
section unrestricted
variable {sl : Nat → Bool} {rq ac : List Cx} {roles : Roles} {res : List AccCx} {reply : List RoleItem}

/-- Unrestricted mode returns under the same conditions. -/
theorem C10_total_unrestricted (hts : HasTs rq) (hb : BoolRoles roles) :
    ∃ out, negotiateUnrestricted sl rq ac roles = .ok out := by
  unfold negotiateUnrestricted
  obtain ⟨⟨resN, replyN⟩, hN⟩ := C10_total (rq := rq.filter fun p => !sl p.abs) (ac := ac) (roles := roles)
    (fun p hp => hts p (List.mem_filter.mp hp).1) hb
  obtain ⟨rs, h⟩ := mapE_total (f := unrOne roles) (l := rq.filter fun p => sl p.abs) (by
    intro p hp
    have hp' := hts p (List.mem_filter.mp hp).1
    unfold unrOne tsHead
    cases hts' : p.ts with
    | nil => exact absurd hts' hp'
    | cons t rest =>
      simp only
      cases hl : roles.lookup p.abs with
      | none => exact ⟨_, rfl⟩
      | some v =>
        obtain ⟨x, y, rfl⟩ := lookup_bool hb hl
        obtain ⟨oc, _, htab⟩ := table_bool x y true true
        simp [htab])
  simp [hN, h]

/-- Exactly one result per proposed context id with the proposed abstract syntax, also in
unrestricted mode. -/
theorem C10_one_result_per_id_unrestricted (hd : DistinctIds rq)
    (hok : negotiateUnrestricted sl rq ac roles = .ok (res, reply)) :
    (res.map fun r => (r.id, r.abs)).Perm (rq.map fun p => (p.id, p.abs)) ∧ (res.map (·.id)).Nodup := by
  have hp := (unr_view hd hok).1
  refine ⟨hp, ?_⟩
  have h2 := hp.map Prod.fst
  simp only [List.map_map, Function.comp_def] at h2
  exact h2.symm.nodup hd

/-- No unproposed role is granted in unrestricted mode either: the role items echo the proposal. -/
theorem C10_no_unproposed_role_unrestricted (hd : DistinctIds rq) (hb : BoolRoles roles)
    (hok : negotiateUnrestricted sl rq ac roles = .ok (res, reply)) :
    ∀ it ∈ reply, ∃ a b, roles.lookup it.uid = some (some a, some b) ∧
      (it.scu = true → a = true) ∧ (it.scp = true → b = true) ∧
      ∃ r ∈ res, r.abs = it.uid ∧ r.result = 0 := by
  intro it hit
  obtain ⟨p, hp, hsl, r, hr, hs⟩ := (unr_view hd hok).2.2.2.1 it hit
  generalize hro : some it = ro at hs
  cases hs with
  | noRole => cases hro
  | withRole t rest v o hts hl ht =>
    cases hro
    obtain ⟨x, y, rfl⟩ := lookup_bool hb hl
    exact ⟨x, y, hl, by simp, by simp, _, hr, rfl, rfl⟩

/-- STATED PROPERTY, unrestricted mode: "a context is never accepted with no usable role",
  ∀ r ∈ res, r.result = 0 → r.asScu = some true ∨ r.asScp = some true.
The code violates it: a storage-like context whose proposed roles are (False, False) is
accepted (result 0) with `as_scu = as_scp = False` and answered with a (False, False) role
item.  (pynetdicom/tests/test_presentation.py::TestNegotiateUnrestricted::test_roles_false_false
asserts exactly this behaviour.) -/
theorem C10_never_roleless_unrestricted_neg :
    ∃ (sl : Nat → Bool) (rq ac : List Cx) (roles : Roles) (res : List AccCx) (reply : List RoleItem),
      DistinctIds rq ∧ HasTs rq ∧ BoolRoles roles ∧ negotiateUnrestricted sl rq ac roles = .ok (res, reply) ∧
      ¬ (∀ r ∈ res, r.result = 0 → r.asScu = some true ∨ r.asScp = some true) := by
  refine ⟨fun _ => true, [{ id := 1, abs := 7, ts := [0] }], [], [(7, (some false, some false))],
    [{ id := 1, abs := 7, result := 0, ts := 0, asScu := some false, asScp := some false }],
    [{ uid := 7, scu := false, scp := false }], by decide, by decide, ?_, rfl, by decide⟩
  intro kv hkv
  simp at hkv
  subst hkv
  exact ⟨false, false, rfl⟩

/-- … and it holds whenever no storage-like proposal comes with a (False, False) role item. -/
theorem C10_never_roleless_unrestricted_partial (hd : DistinctIds rq) (hb : BoolRoles roles)
    (hex : ∀ p ∈ rq, sl p.abs = true → roles.lookup p.abs ≠ some (some false, some false))
    (hok : negotiateUnrestricted sl rq ac roles = .ok (res, reply)) :
    ∀ r ∈ res, r.result = 0 → r.asScu = some true ∨ r.asScp = some true := by
  intro r hr h0
  obtain ⟨p, hp, hfrom⟩ := (unr_view hd hok).2.1 r hr
  rcases hfrom with ⟨hsl, ro, hs⟩ | ⟨_, ro, hs⟩
  · cases hs with
    | noRole => simp
    | withRole t rest v o hts hl ht =>
      obtain ⟨x, y, rfl⟩ := lookup_bool hb hl
      obtain ⟨oc, hdoc, htab⟩ := table_bool x y true true
      rw [htab] at ht
      cases ht
      have hne := hex p hp hsl
      rw [hl] at hne
      cases x <;> cases y <;> simp_all [enc] <;> revert hdoc <;> cases oc <;> decide
  · cases hs with
    | noAc | absRej | tsRej | roleRej => simp at h0
    | noneRole => simp
    | accepted c t cu cp o _ _ _ _ _ _ hb' =>
      cases h1 : o.2.2.1 <;> cases h2 : o.2.2.2 <;> simp_all

/-- STATED PROPERTY, unrestricted mode: "grants roles as the documented table says" — for a
storage-like context the acceptor behaves as if configured (True, True).  Violated when no
role item was proposed: the documented outcome is the default (acceptor is SCP only), the
code makes the acceptor SCU *and* SCP
(tests/test_presentation.py::TestNegotiateUnrestricted::test_storage asserts it). -/
theorem C10_roles_follow_doc_unrestricted_neg :
    ∃ (sl : Nat → Bool) (rq ac : List Cx) (roles : Roles) (res : List AccCx) (reply : List RoleItem),
      DistinctIds rq ∧ HasTs rq ∧ BoolRoles roles ∧ negotiateUnrestricted sl rq ac roles = .ok (res, reply) ∧
      ∃ r ∈ res, sl r.abs = true ∧ r.result = 0 ∧
        documented (toItem ((roles.lookup r.abs).getD (none, none))) (some true, some true) = some .default ∧
        r.asScu ≠ some Outcome.default.acceptor.1 := by
  refine ⟨fun _ => true, [{ id := 1, abs := 7, ts := [0] }], [], [],
    [{ id := 1, abs := 7, result := 0, ts := 0, asScu := some true, asScp := some true }], [],
    by decide, by decide, (by intro kv h; cases h), rfl, _, List.mem_cons_self, rfl, rfl, by decide, by decide⟩

/-- … with a role item proposed the acceptor's roles are the documented ones for the
configuration (True, True) (the documented "rejected" outcome shows up as no role at all —
see `C10_never_roleless_unrestricted_neg`). -/
theorem C10_roles_follow_doc_unrestricted_partial (hd : DistinctIds rq) (hb : BoolRoles roles)
    (hok : negotiateUnrestricted sl rq ac roles = .ok (res, reply)) :
    ∀ r ∈ res, sl r.abs = true → ∀ v, roles.lookup r.abs = some v →
      ∃ oc, documented (toItem v) (some true, some true) = some oc ∧
        r.result = 0 ∧ r.asScu = some oc.acceptor.1 ∧ r.asScp = some oc.acceptor.2 := by
  intro r hr hsl v hv
  obtain ⟨p, hp, hfrom⟩ := (unr_view hd hok).2.1 r hr
  rcases hfrom with ⟨_, ro, hs⟩ | ⟨hnsl, ro, hs⟩
  · cases hs with
    | noRole _ _ _ hl => simp [hl] at hv
    | withRole t rest v' o hts hl ht =>
      simp only [hl, Option.some.injEq] at hv
      subst hv
      obtain ⟨x, y, rfl⟩ := lookup_bool hb hl
      obtain ⟨oc, hdoc, htab⟩ := table_bool x y true true
      rw [htab] at ht
      cases ht
      exact ⟨oc, by simpa [toItem] using hdoc, rfl, rfl, rfl⟩
  · rw [hs.id_abs.2, hnsl] at hsl
    cases hsl

end unrestricted

/-! ### the hypotheses are satisfiable, the model computes what the code computes -/

/-- three proposals: CT accepted with the acceptor's preference and both roles, an unsupported
abstract syntax (3), a supported one without common transfer syntax (4) -/
example : negotiateAsAcceptor
    [{ id := 1, abs := 2, ts := [0, 1] }, { id := 3, abs := 5, ts := [0] }, { id := 5, abs := 4, ts := [2] }]
    [{ id := 0, abs := 2, ts := [1, 0], scu := some true, scp := some true }, { id := 0, abs := 4, ts := [0, 1] }]
    [(2, (some true, some true))]
    = .ok ([{ id := 1, abs := 2, result := 0, ts := 1, asScu := some true, asScp := some true },
            { id := 3, abs := 5, result := 3, ts := 0, asScu := some false, asScp := some false },
            { id := 5, abs := 4, result := 4, ts := 2, asScu := some false, asScp := some false }],
           [{ uid := 2, scu := true, scp := true }]) := rfl

example : DistinctIds [{ id := 1, abs := 2, ts := [0, 1] }, { id := 3, abs := 5, ts := [0] }, { id := 5, abs := 4, ts := [2] }] ∧
    HasTs [{ id := 1, abs := 2, ts := [0, 1] }, { id := 3, abs := 5, ts := [0] }, { id := 5, abs := 4, ts := [2] }] := by
  decide

example : BoolRoles [(2, (some true, some true)), (4, (some false, some false))] := by
  intro kv h
  simp at h
  rcases h with rfl | rfl
  · exact ⟨true, true, rfl⟩
  · exact ⟨false, false, rfl⟩

/-- (True, False) proposed against an SCU-only refusal: user rejection 1, no role item -/
example : negotiateAsAcceptor [{ id := 1, abs := 2, ts := [0] }]
    [{ id := 0, abs := 2, ts := [0], scu := some false, scp := some true }] [(2, (some true, some false))]
    = .ok ([{ id := 1, abs := 2, result := 1, ts := 0, asScu := some false, asScp := some false }], []) := rfl

/-- the code raises on a proposal without transfer syntax -/
example : negotiateAsAcceptor [{ id := 1, abs := 2, ts := [] }] [{ id := 0, abs := 2, ts := [0] }] [] = .error .index := rfl

end PynetVerif
