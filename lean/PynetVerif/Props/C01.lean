import PynetVerif.Lemmas.PduClassify
import PynetVerif.Lemmas.PduTable
import PynetVerif.Gen.PduLayout
import PynetVerif.Spec.Ps38Layout
/-!
C01 — every PDU value survives encode/decode and matches the PS3.8 byte layout.

`encode` is the reading of PS3.8 Tables 9-11 … 9-26 / PS3.7 D.3-1 … D.3-15 (Model/Pdu.lean);
`decode`, `toPrim`, `fromPrim` mirror pynetdicom (tied to the code by harness/props/c01.py on every
run).  `wf` (Model/PduWf.lean) is the decidable well-formedness predicate: AE titles of 1–16 legal
characters not all spaces, UIDs of 1–64 ASCII bytes without surrounding whitespace or trailing NUL,
odd context ids 1–255, PS3.8 result / source / reason codes, user-identity fields < 65536 bytes,
every enclosing u16 / u32 length fits.
-/
namespace PynetVerif
open Pdu PduLayout

/-- **generic TLV lemma**: `_generate_items` on an encoded item followed by anything yields that item
(type, body) and then the items of the rest. -/
theorem C01_tlv (t r : UInt8) (body rest : Bytes) (h : body.length < 65536) :
    split (tlv t r body ++ rest) =
      match split rest with
      | .ok tl => .ok ((t, body) :: tl)
      | .error e => .error e :=
  split_tlv t r body rest h

/-- **round trip**: decoding the bytes of a well-formed PDU gives the value back, up to what decoding
normalises (`canon`: leading / trailing spaces of the AE titles, not significant per PS3.8). For all
seven PDU kinds, every item and sub-item kind, any multiplicity. -/
theorem C01_roundtrip (p : PDU) (h : wf p = true) : decode (encode p) = .ok (canon p) :=
  decode_encode p (encOk_of_wf p h)

/-- **every length field is exact**: the PDU length, every item length and every embedded sub-length
of the encoded bytes equals the number of bytes it governs (independent walker `lengthsExact`). -/
theorem C01_lengths (p : PDU) (h : wf p = true) : lengthsExact (encode p) = true :=
  lengthsExact_encode p (encOk_of_wf p h)

/-- **layout tables**: the field order / widths / reserved bytes / type code of every `_encoders`
table of pdu.py and pdu_items.py (regenerated from the source on every run) equal the transcription
of the standard's tables.  A symmetric swap of two fields in encoder and decoder breaks this. -/
theorem C01_layout_tables :
    Gen.Pdu.layouts.map (fun t => ({ t with fields := mergeRes t.fields } : Table)) = Spec.ps38Layouts := by
  decide

/-- **the Lean encoder is the interpretation of the standard's tables**: for every PDU kind, `encode`
equals `encTable` of the transcribed table (fields in table order, integers big-endian in their
width, reserved bytes 00H, AE titles space-padded to 16, the type byte from the table), the named
fields taking the PDU's values; the PDU length is 68 + the item lengths / 4 / the PDV item lengths. -/
theorem C01_encode_follows_tables_pdu (ver : Nat) (c g : Bytes) (items : List VarItem) (r s d : Nat) (pdvs : List PDV) :
    encode (.rq ver c g items) = encTable (specTable "A_ASSOCIATE_RQ")
      (envOf [("pdu_length", .n (68 + (items.map lenVar).sum)), ("protocol_version", .n ver),
        ("called_ae_title", .b c), ("calling_ae_title", .b g), ("variable_items", .b (items.flatMap encVar))]) ∧
    encode (.ac ver c g items) = encTable (specTable "A_ASSOCIATE_AC")
      (envOf [("pdu_length", .n (68 + (items.map lenVar).sum)), ("protocol_version", .n ver),
        ("reserved_aet", .b c), ("reserved_aec", .b g), ("variable_items", .b (items.flatMap encVar))]) ∧
    encode (.rj r s d) = encTable (specTable "A_ASSOCIATE_RJ")
      (envOf [("pdu_length", .n 4), ("result", .n r), ("source", .n s), ("reason_diagnostic", .n d)]) ∧
    encode (.pdata pdvs) = encTable (specTable "P_DATA_TF")
      (envOf [("pdu_length", .n ((pdvs.map (fun p => 5 + p.data.length)).sum)),
        ("presentation_data_value_items", .b (pdvs.flatMap encPdv))]) ∧
    encode .relRq = encTable (specTable "A_RELEASE_RQ") (envOf [("pdu_length", .n 4)]) ∧
    encode .relRp = encTable (specTable "A_RELEASE_RP") (envOf [("pdu_length", .n 4)]) ∧
    encode (.abort s r) = encTable (specTable "A_ABORT_RQ")
      (envOf [("pdu_length", .n 4), ("source", .n s), ("reason_diagnostic", .n r)]) :=
  ⟨encode_rq_table ver c g items, encode_ac_table ver c g items, encode_rj_table r s d, encode_pdata_table pdvs,
   encode_relRq_table, encode_relRp_table, encode_abort_table s r⟩

/-- the same for the variable items, the syntax sub-items and the PDV item -/
theorem C01_encode_follows_tables_items (u : Bytes) (id res : Nat) (subs : List SynItem) (us : List UserSub) (p : PDV) :
    encVar (.appCtx u) = encTable (specTable "ApplicationContextItem")
      (envOf [("item_length", .n u.length), ("application_context_name", .b u)]) ∧
    encVar (.pcRq id subs) = encTable (specTable "PresentationContextItemRQ")
      (envOf [("item_length", .n (4 + (subs.flatMap encSyn).length)), ("presentation_context_id", .n id),
        ("abstract_transfer_syntax_sub_items", .b (subs.flatMap encSyn))]) ∧
    encVar (.pcAc id res subs) = encTable (specTable "PresentationContextItemAC")
      (envOf [("item_length", .n (4 + firstLen subs)), ("presentation_context_id", .n id),
        ("result_reason", .n res), ("transfer_syntax_sub_item", .b (subs.flatMap encSyn))]) ∧
    encVar (.userInfo us) = encTable (specTable "UserInformationItem")
      (envOf [("item_length", .n (us.flatMap encUser).length), ("user_data", .b (us.flatMap encUser))]) ∧
    encSyn (.abstract u) = encTable (specTable "AbstractSyntaxSubItem")
      (envOf [("item_length", .n u.length), ("abstract_syntax_name", .b u)]) ∧
    encSyn (.transfer u) = encTable (specTable "TransferSyntaxSubItem")
      (envOf [("item_length", .n u.length), ("transfer_syntax_name", .b u)]) ∧
    encPdv p = encTable (specTable "PresentationDataValueItem")
      (envOf [("item_length", .n (1 + p.data.length)), ("presentation_context_id", .n p.id),
        ("presentation_data_value", .b p.data)]) :=
  ⟨encVar_appCtx_table u, encVar_pcRq_table id subs, encVar_pcAc_table id res subs, encVar_userInfo_table us,
   encSyn_abstract_table u, encSyn_transfer_table u, encPdv_table p⟩

/-- the same for the nine user-information sub-items (PS3.7 Annex D.3.3) -/
theorem C01_encode_follows_tables_user (n i q scu scp v t r : Nat) (u w info pf sf : Bytes) (rel : List Bytes) :
    encUser (.maxLen n) = encTable (specTable "MaximumLengthSubItem")
      (envOf [("item_length", .n 4), ("maximum_length_received", .n n)]) ∧
    encUser (.implUid u) = encTable (specTable "ImplementationClassUIDSubItem")
      (envOf [("item_length", .n u.length), ("implementation_class_uid", .b u)]) ∧
    encUser (.asyncOps i q) = encTable (specTable "AsynchronousOperationsWindowSubItem")
      (envOf [("item_length", .n 4), ("maximum_number_operations_invoked", .n i),
        ("maximum_number_operations_performed", .n q)]) ∧
    encUser (.role u scu scp) = encTable (specTable "SCP_SCU_RoleSelectionSubItem")
      (envOf [("item_length", .n (4 + u.length)), ("uid_length", .n u.length), ("sop_class_uid", .b u),
        ("scu_role", .n scu), ("scp_role", .n scp)]) ∧
    encUser (.implVer u) = encTable (specTable "ImplementationVersionNameSubItem")
      (envOf [("item_length", .n u.length), ("implementation_version_name", .b u)]) ∧
    encUser (.sopExt u info) = encTable (specTable "SOPClassExtendedNegotiationSubItem")
      (envOf [("item_length", .n (2 + u.length + info.length)), ("sop_class_uid_length", .n u.length),
        ("sop_class_uid", .b u), ("service_class_application_information", .b info)]) ∧
    encUser (.commonExt v u w rel) = encTable (specTable "SOPClassCommonExtendedNegotiationSubItem")
      (envOf [("sub_item_version", .n v),
        ("item_length", .n (2 + u.length + (2 + w.length + (2 + (encRelated rel).length)))),
        ("sop_class_uid_length", .n u.length), ("sop_class_uid", .b u),
        ("service_class_uid_length", .n w.length), ("service_class_uid", .b w),
        ("related_general_sop_class_identification_length", .n (encRelated rel).length),
        ("related_general_sop_class_identification", .l rel)]) ∧
    encUser (.userIdRq t r pf sf) = encTable (specTable "UserIdentitySubItemRQ")
      (envOf [("item_length", .n (6 + pf.length + sf.length)), ("user_identity_type", .n t),
        ("positive_response_requested", .n r), ("primary_field_length", .n pf.length), ("primary_field", .b pf),
        ("secondary_field_length", .n sf.length), ("secondary_field", .b sf)]) ∧
    encUser (.userIdAc u) = encTable (specTable "UserIdentitySubItemAC")
      (envOf [("item_length", .n (2 + u.length)), ("server_response_length", .n u.length),
        ("server_response", .b u)]) :=
  ⟨encUser_maxLen_table n, encUser_implUid_table u, encUser_async_table i q, encUser_role_table u scu scp,
   encUser_implVer_table u, encUser_sopExt_table u info, encUser_common_table v u w rel,
   encUser_userIdRq_table t r pf sf, encUser_userIdAc_table u⟩

/-- the three type maps of the code (`PDU_TYPES`, `PDU_ITEM_TYPES`, `dul._PDU_TYPES` with the event
each received PDU raises) agree with the standard's type codes / Table 9-10 and with each other -/
theorem C01_type_maps :
    Gen.Pdu.dulTypes = Spec.ps38PduTypes ∧
    Gen.Pdu.pduTypes = Spec.ps38PduTypes.map (fun x => (x.1, x.2.1)) ∧
    Gen.Pdu.itemTypes = Spec.ps38Layouts.filterMap (fun t =>
      match t.typ with
      | some n => if 16 ≤ n then some (n, t.cls) else none
      | none => none) := by
  decide

/-- the item-type dispatch of the Lean decoder knows exactly the item types of the standard's tables -/
theorem C01_known_types :
    (List.range 256).filter (fun n => knownType (UInt8.ofNat n)) = Gen.Pdu.itemTypes.map (·.1) := by
  decide

/-- **primitive round trip**: service primitive → PDU → bytes → PDU → primitive preserves every
transmitted parameter (AE titles up to padding, application context, presentation contexts with id /
abstract syntax / transfer syntaxes / result, the user-information list incl. roles, identity,
extended negotiation; result / source / reason codes; PDV list), for A-ASSOCIATE request / accept /
reject, P-DATA, A-RELEASE request / response, A-ABORT and A-P-ABORT. -/
theorem C01_primitive_roundtrip (a : Prim) (h : primWf a = true) :
    (match decode (encode (fromPrim a)) with
      | .ok p => toPrim p
      | .error e => .error e) = .ok (canonPrim a) := by
  have hwf : wf (fromPrim a) = true := by
    cases a <;> simp only [primWf, Bool.and_eq_true] at h <;> first | exact h | exact h.1 | exact h.1.1
  rw [C01_roundtrip _ hwf]
  exact toPrim_fromPrim a h

/-- for the PDUs without strings the primitive comes back unchanged -/
theorem C01_primitive_roundtrip_small (a : Prim) (h : primWf a = true)
    (hs : match a with | .assocRq .. => False | .assocAc .. => False | _ => True) :
    (match decode (encode (fromPrim a)) with
      | .ok p => toPrim p
      | .error e => .error e) = .ok a := by
  rw [C01_primitive_roundtrip a h]
  cases a <;> first | rfl | exact absurd hs id

/-! ## non-vacuity -/

/-- an A-ASSOCIATE-RQ with two presentation contexts, a role selection item, a type-2 user identity
and a common extended negotiation item with one related UID -/
def exampleRq : PDU :=
  .rq 1 [0x41, 0x4e, 0x59, 0x2d, 0x53, 0x43, 0x50, 0x20, 0x20] [0x20, 0x45, 0x43, 0x48, 0x4f]
    [.appCtx [0x31, 0x2e, 0x32, 0x2e, 0x38, 0x34, 0x30],
     .pcRq 1 [.abstract [0x31, 0x2e, 0x32], .transfer [0x31, 0x2e, 0x32, 0x2e, 0x31], .transfer [0x31, 0x2e, 0x33]],
     .pcRq 255 [.abstract [0x31, 0x2e, 0x34], .transfer [0x31, 0x2e, 0x35]],
     .userInfo [.maxLen 16382, .implUid [0x31, 0x2e, 0x39], .role [0x31, 0x2e, 0x32] 1 0,
       .userIdRq 2 1 [0x75, 0x73, 0x65, 0x72] [0x70, 0x77],
       .commonExt 0 [0x31, 0x2e, 0x32] [0x31, 0x2e, 0x36] [[0x31, 0x2e, 0x37]],
       .implVer [0x50, 0x59], .asyncOps 5 5, .sopExt [0x31, 0x2e, 0x32] [1, 2, 3]]]

example : wf exampleRq = true := by decide +kernel
example : decode (encode exampleRq) = .ok (canon exampleRq) := by decide +kernel
example : canon exampleRq ≠ exampleRq := by decide +kernel
example : lengthsExact (encode exampleRq) = true := by decide +kernel
example : wf (.ac 1 [0x41] [0x42] [.appCtx [0x31], .pcAc 1 0 [.transfer [0x31, 0x2e, 0x32]],
    .userInfo [.maxLen 0, .userIdAc [1, 2]]]) = true := by decide
example : wf (.pdata [⟨1, [3, 0]⟩, ⟨3, []⟩]) = true ∧ wf (.rj 1 1 7) = true ∧ wf (.abort 2 6) = true := by decide

def examplePrim : Prim :=
  .assocRq [0x20, 0x45, 0x43, 0x48, 0x4f] [0x41, 0x4e, 0x59, 0x20] (some [0x31, 0x2e, 0x32])
    [⟨1, some [0x31, 0x2e, 0x32], [[0x31, 0x2e, 0x33], [0x31, 0x2e, 0x34]], none⟩, ⟨3, some [0x31], [[0x32]], none⟩]
    [.maxLen 16382, .implUid [0x31, 0x2e, 0x39], .role [0x31, 0x2e, 0x32] true false,
     .userIdRq 2 true [0x75] [0x70], .commonExt [0x31] [0x32] [[0x33]]]

example : primWf examplePrim = true := by decide
example : primWf (.assocAc [0x41] [0x42] (some [0x31]) [⟨1, none, [[0x31, 0x2e, 0x32]], some 0⟩, ⟨3, none, [[0x32]], some 3⟩]
    [.maxLen 1, .userIdAc [7]]) = true := by decide
example : primWf (.assocRj 2 3 1) = true ∧ primWf (.pabort 4) = true ∧ primWf (.abort 0) = true ∧
    primWf (.pdata [(1, [3, 0])]) = true ∧ primWf .releaseRp = true := by decide
-- A-ABORT with source "provider" is not in the domain: on the wire it is an A-P-ABORT with reason 0
example : primWf (.abort 2) = false ∧ toPrim (fromPrim (.abort 2)) = .ok (.pabort 0) := by decide

end PynetVerif
