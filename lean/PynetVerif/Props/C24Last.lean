import PynetVerif.Props.C24
import PynetVerif.Gen.Pause
/-!
C24 (continuation) — the generator calls hand out their LAST item with the reactor running.

`_wrap_find_responses` and `_wrap_get_move_responses` set `_reactor_checkpoint` before the final
`yield` (and again after the loop).  User code commonly stops iterating at the final response and
never resumes the generator; what keeps the association alive and bounded afterwards (the peer's
A-RELEASE-RQ / A-ABORT, the idle timeout - C07, C08) is the reactor, so the item the caller stops
at must be handed out with the checkpoint set.  Proved for every peer behaviour.
-/
namespace PynetVerif
open Scu Status Spec.Scu

/-- the tail of `_wrap_get_move_responses` after its receive loop: unless an exception escapes, exactly
one item is handed out, and it is handed out AFTER the reactor checkpoint has been set -/
theorem gm_stop_yield (h : Option PeerMsg) (hh : ∀ m, h = some m → contGM m = false)
    (hr : raised (wrapGetMove h.toList) = false) :
    ∃ y, observe sLoop (wrapGetMove h.toList) = [y] ∧ y.paused = false := by
  cases h with
  | none => exact ⟨_, rfl, rfl⟩
  | some m =>
    have hm := hh m rfl
    clear hh
    cases m with
    | none w => cases w <;> exact ⟨_, rfl, rfl⟩
    | storeRq cx => cases cx <;> simp [contGM] at hm <;> simp [wrapGetMove, Scu.cStoreScp, raised, isRaise] at hr
    | rsp k valid st id =>
      cases k <;> cases valid <;> simp [contGM] at hm <;>
        simp [wrapGetMove, giveUp, finalIdentGM, observe, emit, St.step, sLoop, hm] <;>
        (repeat' split) <;> simp [observe, emit, St.step]

theorem find_stop_yield (rq : Bool) (h : Option PeerMsg) (hh : ∀ m, h = some m → contFind rq m = false) :
    ∃ y, observe sLoop (wrapFind rq h.toList) = [y] ∧ y.paused = false := by
  cases h with
  | none => exact ⟨_, rfl, rfl⟩
  | some m =>
    have hm := hh m rfl
    clear hh
    cases m with
    | none w => cases w <;> exact ⟨_, rfl, rfl⟩
    | storeRq cx => exact ⟨_, rfl, rfl⟩
    | rsp k valid st id =>
      cases k <;> cases valid <;> cases rq <;> simp [contFind] at hm <;>
        simp [wrapFind, giveUp, observe, emit, St.step, sLoop] <;>
        (repeat' split) <;> simp_all [observe, emit, St.step, Status.scuFinal]

/-- **The last item is handed out with the reactor running** (C-GET / C-MOVE): for every peer, unless an
exception escapes the generator, the sequence of items handed to the caller ends with one that is
yielded after `_reactor_checkpoint.set()` - a caller that stops iterating at the final response (and
never resumes the generator) leaves the reactor running, so the peer's later PDUs and the idle timeout
are still seen. -/
theorem C24_getmove_last_item_reactor_running (peer : List PeerMsg) (hr : raised (sendCGet peer) = false) :
    ∃ pre y, observe St.init (sendCGet peer) = pre ++ [y] ∧ y.paused = false := by
  unfold sendCGet at hr ⊢
  rw [observe_append, finalState_prologue, observe_prologue, wrapGetMove_closed]
  rw [raised_append, wrapGetMove_closed, raised_append] at hr
  have hsteps := observe_steps stepGM (fun m => observe sLoop (stepGM m)) sLoop
    (peer.takeWhile contGM) (wrapGetMove (peer.dropWhile contGM).head?.toList)
    (fun m hm => ⟨rfl, (stepGM_state m (mem_takeWhile_true _ _ m hm)).1⟩)
  have hr' : raised (wrapGetMove (peer.dropWhile contGM).head?.toList) = false := by
    simp only [Bool.or_eq_false_iff] at hr
    exact hr.2.2
  obtain ⟨y, hy, hp⟩ := gm_stop_yield _ (fun m hm => head?_dropWhile_false contGM peer m hm) hr'
  refine ⟨(peer.takeWhile contGM).flatMap (fun m => observe sLoop (stepGM m)), y, ?_, hp⟩
  rw [hsteps.1, hy]
  simp

/-- the same for C-FIND (no exception ever escapes it, `C24_find_checkpoint_restored`) -/
theorem C24_find_last_item_reactor_running (rq : Bool) (peer : List PeerMsg) :
    ∃ pre y, observe St.init (sendCFind rq peer) = pre ++ [y] ∧ y.paused = false := by
  unfold sendCFind
  rw [observe_append, finalState_prologue, observe_prologue, wrapFind_closed]
  have hsteps := observe_steps (stepFind rq) (fun m => ((find rq).pending m).toList) sLoop
    (peer.takeWhile (contFind rq)) (wrapFind rq (peer.dropWhile (contFind rq)).head?.toList)
    (fun m hm => stepFind_obs rq m (mem_takeWhile_true _ _ m hm))
  obtain ⟨y, hy, hp⟩ := find_stop_yield rq _ (fun m hm => head?_dropWhile_false (contFind rq) peer m hm)
  refine ⟨(peer.takeWhile (contFind rq)).flatMap (fun m => ((find rq).pending m).toList), y, ?_, hp⟩
  rw [hsteps.1, hy]
  simp

/-- the source fact: in both wrappers every `yield` that ends the generator comes directly after
`self._reactor_checkpoint.set()` (regenerated from association.py on every run) -/
theorem C24_final_yield_code :
    Gen.Pause.finalYields = [("_wrap_find_responses", 4, true), ("_wrap_get_move_responses", 4, true)] := by
  decide

/-- the defect a change would reintroduce, as a witness on a variant of the generator that sets the
checkpoint only after the loop: its last item is handed out with the reactor still paused -/
theorem C24_last_item_paused_without_early_set_neg :
    ∃ y, observe St.init (prologue ++ [.recv, .yield (some 0) .none, .setCkpt]) = [y] ∧ y.paused = true :=
  ⟨_, rfl, rfl⟩
end PynetVerif
