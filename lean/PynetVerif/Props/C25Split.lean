import PynetVerif.Model.Part10
import PynetVerif.Model.Deliver
import PynetVerif.Props.C25
import PynetVerif.Gen.Part10
/-!
C25, chunked SEND — where `split_dataset` puts the start of the data set.

For every 128-byte preamble, every File Meta group made of well-formed Explicit-VR-LE elements
of group 0002 (any number of them, with or without a group-length element, whatever that
element's VALUE is) and every data set that may follow, the offset is the end of the meta group,
so the bytes `encode_msg` reads from the file are exactly the data set.  The statement is about
the model `Part10.split` of pydicom's element walk; the tie to the real `split_dataset` is the
differential run of the C25 check over generated well-formed and malformed files.
-/
namespace PynetVerif
open Part10

namespace Part10

/-- what the proofs need from the two tables (true of the regenerated ones: `C25_split_tables`) -/
structure Tables.Ok (t : Tables) : Prop where
  upper : ∀ v ∈ t.known, isUpper v.1 = true ∧ isUpper v.2 = true
  sub : ∀ v ∈ t.long, v ∈ t.known

theorem header_hlen (t : Tables) (i : Bool) (v0 v1 l0 l1 : UInt8) (tl : Bytes) (b : Bool) (len hlen : Nat)
    (h : header t i v0 v1 l0 l1 tl = some (b, len, hlen)) : 8 ≤ hlen := by
  unfold header at h
  split at h
  · cases h; omega
  · split at h
    · split at h
      · split at h
        · cases h; omega
        · cases h
      · cases h; omega
    · split at h <;> (cases h; omega)

/-- the fuel is only a termination device: any two amounts above the remaining length agree -/
theorem walk_fuel (t : Tables) (i : Bool) : ∀ (f1 f2 acc : Nat) (rest : Bytes),
    rest.length < f1 → rest.length < f2 → walk t i f1 acc rest = walk t i f2 acc rest := by
  intro f1
  induction f1 with
  | zero => intro f2 acc rest h; omega
  | succ f1 ih =>
    intro f2 acc rest h1 h2
    cases f2 with
    | zero => omega
    | succ f2 =>
      unfold walk
      split
      · rename_i g0 g1 e0 e1 v0 v1 l0 l1 tl
        split
        · rfl
        · rename_i b len hlen hh
          have h8 := header_hlen t i v0 v1 l0 l1 tl b len hlen hh
          split
          · rfl
          · split
            · rfl
            · split
              · rfl
              · simp only
                apply ih
                · simp only [List.length_drop, List.length_cons] at *; omega
                · simp only [List.length_drop, List.length_cons] at *; omega
      · rfl

theorem b0_toNat (n : Nat) : (b0 n).toNat = n % 256 := by simp [b0, UInt8.toNat_ofNat']
theorem b1_toNat (n : Nat) : (b1 n).toNat = n / 256 % 256 := by simp [b1, UInt8.toNat_ofNat']
theorem b2_toNat (n : Nat) : (b2 n).toNat = n / 65536 % 256 := by simp [b2, UInt8.toNat_ofNat']
theorem b3_toNat (n : Nat) : (b3 n).toNat = n / 16777216 % 256 := by simp [b3, UInt8.toNat_ofNat']

theorem le16_bytes (n : Nat) (h : n < 65536) : le16 (b0 n) (b1 n) = n := by
  simp only [le16, b0_toNat, b1_toNat]; omega

theorem le32_bytes (n : Nat) (h : n < 4294967296) : le32 (b0 n) (b1 n) (b2 n) (b3 n) = n := by
  simp only [le32, b0_toNat, b1_toNat, b2_toNat, b3_toNat]; omega

theorem encElem_length (t : Tables) (e : Elem) :
    (encElem t e).length = (if e.vr ∈ t.long then 12 else 8) + e.value.length := by
  unfold encElem
  split <;> simp <;> omega

/-- one well-formed element is passed over in one iteration -/
theorem walk_elem (t : Tables) (e : Elem) (hwf : e.wf t) (tail : Bytes) (fuel acc : Nat) :
    walk t false (fuel + 1) acc (encElem t e ++ tail) = walk t false fuel (acc + (encElem t e).length) tail := by
  obtain ⟨hk, hl⟩ := hwf
  have hvr : (e.vr.1, e.vr.2) = e.vr := rfl
  by_cases hlong : e.vr ∈ t.long
  · simp only [hlong, ↓reduceIte] at hl
    have henc : encElem t e = 0x02 :: 0x00 :: e.el.1 :: e.el.2 :: e.vr.1 :: e.vr.2 :: 0 :: 0 ::
        b0 e.value.length :: b1 e.value.length :: b2 e.value.length :: b3 e.value.length :: e.value := by
      simp [encElem, hlong]
    have hlen := encElem_length t e
    simp only [hlong, ↓reduceIte] at hlen
    rw [henc] at hlen ⊢
    simp only [List.cons_append, walk, header, Bool.false_eq_true, ↓reduceIte, hvr, hk, hlong]
    have h32 := le32_bytes e.value.length (by omega)
    have hg : le16 (2 : UInt8) (0 : UInt8) = 2 := by decide
    simp only [hg, h32]
    have hne : e.value.length ≠ 0xFFFFFFFF := by omega
    simp only [show ¬((2 : Nat) = 0xFFFE ∧ le16 e.el.1 e.el.2 = 0xE00D) by omega, ↓reduceIte,
      ne_eq, not_true_eq_false, hne]
    have hmin : min (12 + e.value.length)
        (0x02 :: 0x00 :: e.el.1 :: e.el.2 :: e.vr.1 :: e.vr.2 :: (0 : UInt8) :: 0 ::
          b0 e.value.length :: b1 e.value.length :: b2 e.value.length :: b3 e.value.length ::
          (e.value ++ tail)).length = 12 + e.value.length := by
      simp only [List.length_cons, List.length_append]; omega
    rw [hmin]
    have hd : (0x02 :: 0x00 :: e.el.1 :: e.el.2 :: e.vr.1 :: e.vr.2 :: (0 : UInt8) :: 0 ::
          b0 e.value.length :: b1 e.value.length :: b2 e.value.length :: b3 e.value.length ::
          (e.value ++ tail)).drop (12 + e.value.length) = tail := by
      rw [Nat.add_comm]
      simp only [List.drop_succ_cons]
      simp
    rw [hd, hlen]
  · simp only [hlong, ↓reduceIte] at hl
    have henc : encElem t e = 0x02 :: 0x00 :: e.el.1 :: e.el.2 :: e.vr.1 :: e.vr.2 ::
        b0 e.value.length :: b1 e.value.length :: e.value := by
      simp [encElem, hlong]
    have hlen := encElem_length t e
    simp only [hlong, ↓reduceIte] at hlen
    rw [henc] at hlen ⊢
    simp only [List.cons_append, walk, header, Bool.false_eq_true, ↓reduceIte, hvr, hk, hlong]
    have h16 := le16_bytes e.value.length hl
    have hg : le16 (2 : UInt8) (0 : UInt8) = 2 := by decide
    simp only [hg, h16]
    have hne : e.value.length ≠ 0xFFFFFFFF := by omega
    simp only [show ¬((2 : Nat) = 0xFFFE ∧ le16 e.el.1 e.el.2 = 0xE00D) by omega, ↓reduceIte,
      ne_eq, not_true_eq_false, hne]
    have hmin : min (8 + e.value.length)
        (0x02 :: 0x00 :: e.el.1 :: e.el.2 :: e.vr.1 :: e.vr.2 ::
          b0 e.value.length :: b1 e.value.length :: (e.value ++ tail)).length = 8 + e.value.length := by
      simp only [List.length_cons, List.length_append]; omega
    rw [hmin]
    have hd : (0x02 :: 0x00 :: e.el.1 :: e.el.2 :: e.vr.1 :: e.vr.2 ::
          b0 e.value.length :: b1 e.value.length :: (e.value ++ tail)).drop (8 + e.value.length) = tail := by
      rw [Nat.add_comm]
      simp
    rw [hd, hlen]

theorem encMeta_cons (t : Tables) (e : Elem) (es : List Elem) :
    encMeta t (e :: es) = encElem t e ++ encMeta t es := by simp [encMeta]

theorem encMeta_length_ge (t : Tables) (es : List Elem) : 8 * es.length ≤ (encMeta t es).length := by
  induction es with
  | nil => simp [encMeta]
  | cons e es ih =>
    rw [encMeta_cons, List.length_append, encElem_length, List.length_cons]
    split <;> omega

/-- a well-formed meta group is passed over, one iteration per element -/
theorem walk_meta (t : Tables) (es : List Elem) (hwf : ∀ e ∈ es, e.wf t) (tail : Bytes) :
    ∀ (fuel acc : Nat), walk t false (fuel + es.length) acc (encMeta t es ++ tail) =
      walk t false fuel (acc + (encMeta t es).length) tail := by
  induction es with
  | nil => intro fuel acc; simp [encMeta]
  | cons e es ih =>
    intro fuel acc
    rw [encMeta_cons, List.append_assoc, List.length_cons, ← Nat.add_assoc,
      walk_elem t e (hwf e (by simp)) _ (fuel + es.length) acc,
      ih (fun x hx => hwf x (by simp [hx])) fuel, List.length_append, Nat.add_assoc]

/-- at an admissible data-set start the walk stops where it stands, in either reading mode -/
theorem walk_ds (t : Tables) (i : Bool) (ds : Bytes) (hds : dsStartOk t ds) (fuel acc : Nat) :
    walk t i (fuel + 1) acc ds = .ok acc := by
  unfold walk
  match ds, hds with
  | [], _ => simp
  | g0 :: g1 :: e0 :: e1 :: v0 :: v1 :: l0 :: l1 :: tl, ⟨hg, hd, hl⟩ =>
    simp only
    have hh : ∃ b len hlen, header t i v0 v1 l0 l1 tl = some (b, len, hlen) := by
      unfold header
      by_cases hi : i = true
      · simp [hi]
      · simp only [hi, Bool.false_eq_true, ↓reduceIte]
        by_cases hk : (v0, v1) ∈ t.known
        · by_cases hlg : (v0, v1) ∈ t.long
          · simp only [hk, hlg, ↓reduceIte]
            have h4 := hl hk hlg
            match tl, h4 with
            | a :: b :: c :: d :: _, _ => exact ⟨_, _, _, rfl⟩
          · simp [hk, hlg]
        · simp only [hk, ↓reduceIte]
          split <;> exact ⟨_, _, _, rfl⟩
    obtain ⟨b, len, hlen, hh⟩ := hh
    simp only [hh, hd, hg, ↓reduceIte, ne_eq, not_false_eq_true]

theorem decideImplicit_elem (t : Tables) (ht : t.Ok) (e : Elem) (hwf : e.wf t) (tail : Bytes) :
    decideImplicit (encElem t e ++ tail) = false := by
  obtain ⟨h1, h2⟩ := ht.upper e.vr hwf.1
  unfold encElem
  split <;> simp [decideImplicit, h1, h2]

end Part10

/-- the regenerated tables have what the proofs need: every two-byte VR pydicom knows is two
capital letters, and the 32-bit-length VRs are among them -/
theorem C25_split_tables : Gen.Part10.tables.Ok :=
  ⟨by decide, by decide⟩

/-- `split_dataset` still has the shape the model was written for: `read_preamble(fp, False)`,
then `read_dataset` as Explicit VR Little Endian stopped by `tag.group != 2`, then `fp.tell()`;
`send_c_store` hands that offset on unchanged; pydicom's two defaults are the assumed ones. -/
theorem C25_split_code :
    Gen.Part10.opened = "open(path, 'rb')" ∧
    Gen.Part10.body = [
      "call read_preamble(fp, False)",
      "assign file_meta = read_dataset(fp, is_implicit_VR=False, is_little_endian=True, stop_when=_not_group_0002)",
      "return (file_meta, fp.tell())"] ∧
    Gen.Part10.outside = [] ∧
    Gen.Part10.nested = [("_not_group_0002", ["tag", "VR", "length"], ["tag.group != 2"])] ∧
    Gen.Part10.sendUses = ["file_meta, offset = split_dataset(fpath)", "req._dataset_path = (fpath, offset)"] ∧
    Gen.Part10.assumeImplicitSwitch = true ∧ Gen.Part10.validationWarns = true := by decide

/-- **The offset is the end of the File Meta group**, for every preamble, every well-formed
group-0002 element list (with or without a group-length element, whatever it says) and every
admissible data set. -/
theorem C25_split_offset (t : Tables) (ht : t.Ok) (pre : Bytes) (hpre : pre.length = 128)
    (es : List Elem) (hwf : ∀ e ∈ es, e.wf t) (ds : Bytes) (hds : dsStartOk t ds) :
    split t (pre ++ magic ++ encMeta t es ++ ds) = .ok (132 + (encMeta t es).length) := by
  have h128 : (pre ++ magic ++ encMeta t es ++ ds).drop 128 = magic ++ (encMeta t es ++ ds) := by
    rw [List.append_assoc, List.append_assoc]; exact List.drop_left' hpre
  have h132 : (pre ++ magic ++ encMeta t es ++ ds).drop 132 = encMeta t es ++ ds := by
    rw [List.append_assoc]; exact List.drop_left' (by simp [hpre, magic])
  have hm : ((pre ++ magic ++ encMeta t es ++ ds).drop 128).take 4 = magic := by
    rw [h128]; exact List.take_left' (by simp [magic])
  unfold split
  simp only [hm, ne_eq, not_true_eq_false, ↓reduceIte, h132]
  cases es with
  | nil =>
    simp only [encMeta, List.map_nil, List.flatten_nil, List.nil_append, List.length_nil, Nat.add_zero]
    exact walk_ds t _ ds hds _ 132
  | cons e es =>
    have hi : decideImplicit (encMeta t (e :: es) ++ ds) = false := by
      rw [encMeta_cons, List.append_assoc]
      exact decideImplicit_elem t ht e (hwf e (by simp)) _
    rw [hi]
    have hge := encMeta_length_ge t (e :: es)
    have hf : (encMeta t (e :: es) ++ ds).length + 1 =
        ((encMeta t (e :: es) ++ ds).length - (e :: es).length + 1) + (e :: es).length := by
      rw [List.length_append]; omega
    rw [hf, walk_meta t (e :: es) hwf ds]
    exact walk_ds t false ds hds _ _

/-- … so the bytes chunked SEND reads from the file are exactly the data set -/
theorem C25_split_send (t : Tables) (ht : t.Ok) (pre : Bytes) (hpre : pre.length = 128)
    (es : List Elem) (hwf : ∀ e ∈ es, e.wf t) (ds : Bytes) (hds : dsStartOk t ds) :
    sendBytes t (pre ++ magic ++ encMeta t es ++ ds) = some ds := by
  unfold sendBytes
  rw [C25_split_offset t ht pre hpre es hwf ds hds]
  simp only
  congr 1
  exact List.drop_left' (by simp only [List.length_append, hpre, magic, List.length_cons, List.length_nil])

/-- the fuel of the model's loop never runs out: with any larger amount the result is the same -/
theorem C25_split_total (t : Tables) (file : Bytes) (extra : Nat) :
    split t file =
      (if (file.drop 128).take 4 ≠ magic then .invalidDicom
       else walk t (decideImplicit (file.drop 132)) ((file.drop 132).length + 1 + extra) 132 (file.drop 132)) := by
  unfold split
  split
  · rfl
  · exact walk_fuel t _ _ _ _ _ (by omega) (by omega)

/-- without the "DICM" prefix at byte 128 nothing is sent: `InvalidDicomError` -/
theorem C25_split_no_prefix (t : Tables) (file : Bytes) (h : (file.drop 128).take 4 ≠ magic) :
    split t file = .invalidDicom ∧ sendBytes t file = none := by
  simp [split, sendBytes, h]

/-- the group-length arithmetic on a file of the receiver's own making (as `C25_chunked_send`) -/
theorem C25_chunked_send_aux (rest ds : Bytes) (h : rest.length < 4294967296) :
    Deliver.chunkedSendBytes (Deliver.preamble ++ Deliver.fileMeta rest ++ ds) = ds :=
  C25_chunked_send rest ds h

/-- the group-length element `(0002,0000) UL 4` carrying the value `n` -/
def groupLength (n : Nat) : Elem := ⟨(0, 0), (0x55, 0x4C), Deliver.le32 n⟩

theorem fileMeta_eq (es : List Elem) :
    Deliver.fileMeta (encMeta Gen.Part10.tables es) =
      encMeta Gen.Part10.tables (groupLength (encMeta Gen.Part10.tables es).length :: es) := by
  have hn : ((0x55, 0x4C) : VR) ∉ Gen.Part10.tables.long := by decide
  simp [Deliver.fileMeta, encMeta_cons, encElem, groupLength, hn, Deliver.le32, b0, b1]

/-- **Store and forward**: the file a chunked RECEIVE wrote (preamble, "DICM", group length + the
meta elements, then the fragments as they arrived) is split by a later chunked SEND exactly at the
first received byte — and there the element walk of `split_dataset` and the group-length
arithmetic of `Event.encoded_dataset` agree. -/
theorem C25_split_received_file (es : List Elem) (hwf : ∀ e ∈ es, e.wf Gen.Part10.tables)
    (hlen : (encMeta Gen.Part10.tables es).length < 4294967296)
    (frags : List Bytes) (hds : dsStartOk Gen.Part10.tables frags.flatten) (f : Bytes)
    (hf : (Deliver.store .chunked (encMeta Gen.Part10.tables es) frags).file = some f) :
    sendBytes Gen.Part10.tables f = some frags.flatten ∧ Deliver.chunkedSendBytes f = frags.flatten := by
  simp only [Deliver.store, Option.some.injEq] at hf
  subst hf
  refine ⟨?_, C25_chunked_send_aux _ _ hlen⟩
  have hp : Deliver.preamble = List.replicate 128 0 ++ magic := rfl
  rw [fileMeta_eq, hp]
  apply C25_split_send Gen.Part10.tables C25_split_tables _ (by simp) _ _ _ hds
  intro e he
  rcases List.mem_cons.mp he with rfl | he
  · exact ⟨show ((0x55, 0x4C) : VR) ∈ Gen.Part10.tables.known by decide,
      by simp [groupLength, Deliver.le32, show ((0x55, 0x4C) : VR) ∉ Gen.Part10.tables.long by decide]⟩
  · exact hwf e he

/-- the group-length VALUE plays no part in `split_dataset` (it walks the elements): on a file whose
(0002,0000) says 0 instead of 10 the walk still finds the data set, while the arithmetic on that
value — what `Event.encoded_dataset(False)` does with a file of its own making — would not -/
theorem C25_split_group_length_unused :
    let file := List.replicate 128 0 ++ magic ++
      [2, 0, 0, 0, 0x55, 0x4C, 4, 0, 0, 0, 0, 0] ++ [2, 0, 0x10, 0, 0x55, 0x49, 2, 0, 0x31, 0] ++
      [8, 0, 0x16, 0, 0x55, 0x49, 0, 0]
    sendBytes Gen.Part10.tables file = some [8, 0, 0x16, 0, 0x55, 0x49, 0, 0] ∧
    Deliver.chunkedSendBytes file ≠ [8, 0, 0x16, 0, 0x55, 0x49, 0, 0] := by decide +kernel

/-- the hypothesis on the data set cannot be dropped: a tail shorter than one element header is
read to the end of the file and nothing of it is sent -/
theorem C25_split_short_tail_neg :
    sendBytes Gen.Part10.tables (List.replicate 128 0 ++ magic ++ [2, 0, 0x10, 0, 0x55, 0x49, 0, 0] ++ [8, 0, 0x16]) = some [] := by
  decide +kernel

/-- … nor the one on the elements: an element of group 0002 with a two-letter code pydicom does not
know and bytes that are not its length makes the walk overshoot -/
theorem C25_split_unknown_vr_neg :
    split Gen.Part10.tables (List.replicate 128 0 ++ magic ++ [2, 0, 0x10, 0, 0x5A, 0x5A, 9, 0] ++ [8, 0, 0x16, 0, 0x55, 0x49, 0, 0])
      = .ok 148 := by decide +kernel

-- the hypotheses are satisfiable by a non-trivial file: two elements (one with a 32-bit length), an
-- implicit-VR data set
example : (∀ e ∈ [Elem.mk (0x10, 0) (0x55, 0x49) [0x31, 0], Elem.mk (1, 0) (0x4F, 0x42) [0, 1]], e.wf Gen.Part10.tables) ∧
    dsStartOk Gen.Part10.tables [8, 0, 0x16, 0, 0x1A, 0, 0, 0, 1, 2] := by
  refine ⟨?_, by unfold dsStartOk; exact ⟨by decide, by decide, fun h => absurd h (by decide)⟩⟩
  intro e he
  simp only [List.mem_cons, List.not_mem_nil, or_false] at he
  rcases he with rfl | rfl <;> exact ⟨by decide, by decide⟩

example : split Gen.Part10.tables (List.replicate 128 7 ++ magic ++
    encMeta Gen.Part10.tables [Elem.mk (0x10, 0) (0x55, 0x49) [0x31, 0], Elem.mk (1, 0) (0x4F, 0x42) [0, 1]] ++
    [8, 0, 0x16, 0, 0x1A, 0, 0, 0, 1, 2]) = .ok 156 := by decide +kernel

end PynetVerif
