import PynetVerif.Model.Scu
import PynetVerif.Spec.Scu
import PynetVerif.Lemmas.Scu
import PynetVerif.Lemmas.ScuSpec
/-!
C24 — SCU calls surface each response exactly once and fail cleanly; no lock is held while a
response iterator is suspended.

`Model/Scu.lean` mirrors the code (traces of effects), `Spec/Scu.lean` states what the property and
the docstrings demand.  All theorems quantify over every peer message list.

* C-FIND meets the property for every peer (`C24_find_*`).
* C-GET / C-MOVE meet it for every peer that does not (within the consumed messages) send a
  response of the other retrieve service, a C-STORE *response*, or a C-STORE request without
  Affected SOP Class UID (`…_partial`); each excluded case has a `…_neg` witness.  Lock freedom at
  every yield, the stop rule and the exact checkpoint law hold for every peer.
* The single-response calls meet it for every peer whose first message is not a valid response of
  another message type (`C24_single_failures_partial`, two `…_neg` witnesses); lock / checkpoint /
  one-receive hold for every peer.
-/
set_option linter.unusedSimpArgs false
namespace PynetVerif
open Scu Status Spec.Scu

/-! ### C-FIND: the property holds for every peer -/

/-- Every valid C-FIND response up to and including the first final one is handed to the caller
exactly once, in order, with its decoded identifier (none for the Repository Query 0xB001 warning
and for the final response); anything else ends the iteration with `(Dataset(), None)`.  The lock
flag of every yield is `false`; the reactor is paused at the Pending yields only. -/
theorem C24_find_once_in_order (rq : Bool) (peer : List PeerMsg) :
    observe St.init (sendCFind rq peer) = (find rq).expectedYields peer := by
  unfold sendCFind Service.expectedYields
  rw [observe_append, finalState_prologue, observe_prologue, wrapFind_closed, find_continues_eq]
  have hsteps := observe_steps (stepFind rq) (fun m => ((find rq).pending m).toList) sLoop
    (peer.takeWhile (contFind rq)) (wrapFind rq (peer.dropWhile (contFind rq)).head?.toList)
    (fun m hm => stepFind_obs rq m (mem_takeWhile_true _ _ m hm))
  rw [hsteps.1, flatMap_toList_eq_filterMap]
  rw [(find_stop_facts rq _ (fun m hm => head?_dropWhile_false _ _ m hm)).1]
  simp

/-- The association is aborted exactly where documented: DIMSE timeout without an abort indication on
a live association, invalid response, unexpected message type — and not after a final response nor
when the peer or the provider aborted.  (That the caller then gets `(Dataset(), None)` is part of
`C24_find_once_in_order`.) -/
theorem C24_find_failures (rq : Bool) (peer : List PeerMsg) :
    aborts (sendCFind rq peer) = (find rq).expectedAborts peer := by
  unfold sendCFind Service.expectedAborts
  rw [aborts_append, wrapFind_closed, find_continues_eq]
  rw [count_steps aborts aborts_append (stepFind rq) 0 _ _ (fun m _ => (stepFind_counts rq m).1)]
  rw [(find_stop_facts rq _ (fun m hm => head?_dropWhile_false _ _ m hm)).2.2.2.2]
  simp [prologue, aborts, isAbort, find]

/-- Iteration stops at the first message that is not a non-final valid response: whatever the peer
sends afterwards has no influence (it is not consumed), and exactly one message per continuing
response plus the stopping one is received. -/
theorem C24_find_stops_at_final (rq : Bool) (pre post : List PeerMsg) (m : PeerMsg)
    (hpre : ∀ x ∈ pre, (find rq).continues x = true) (hm : (find rq).continues m = false) :
    sendCFind rq (pre ++ m :: post) = sendCFind rq (pre ++ [m]) ∧
      recvs (sendCFind rq (pre ++ m :: post)) = pre.length + 1 := by
  rw [find_continues_eq] at hpre hm
  have key : ∀ post', wrapFind rq (pre ++ m :: post') =
      pre.flatMap (stepFind rq) ++ wrapFind rq [m] := by
    intro post'
    induction pre with
    | nil => simpa using wrapFind_stop rq m post' hm
    | cons x xs ih =>
      have hx := hpre x (by simp)
      have := ih (fun y hy => hpre y (by simp [hy]))
      simp only [List.cons_append, List.flatMap_cons, List.append_assoc]
      rw [wrapFind_cont rq x _ hx, this]
  refine ⟨by unfold sendCFind; rw [key post, key []], ?_⟩
  unfold sendCFind
  rw [recvs_append, key post,
    count_steps recvs recvs_append (stepFind rq) 1 pre _ (fun x hx => (stepFind_counts rq x).2.2 (hpre x hx))]
  have := (find_stop_facts rq (some m) (fun m' h => by cases h; exact hm)).2.2.1
  simp only [Option.toList] at this
  rw [this]
  simp [prologue, recvs, isRecv]

/-- No yield of C-FIND happens with the AE lock held (in particular not the undecodable Pending
identifier), and the lock is free when the generator is finished. -/
theorem C24_find_no_lock_at_yield (rq : Bool) (peer : List PeerMsg) :
    (∀ y ∈ observe St.init (sendCFind rq peer), y.lockHeld = false) ∧
      (finalState St.init (sendCFind rq peer)).lock = false := by
  constructor
  · rw [C24_find_once_in_order]
    intro y hy
    simp only [Service.expectedYields, List.mem_append, List.mem_filterMap, List.mem_singleton] at hy
    rcases hy with ⟨m, _, hm⟩ | hy
    · simp only [Service.pending] at hm
      split at hm
      · cases hm; rfl
      · cases hm
    · subst hy
      simp only [Service.last]
      split
      · rfl
      · split <;> rfl
  · unfold sendCFind
    rw [finalState_append, finalState_prologue, wrapFind_closed]
    have hsteps := observe_steps (stepFind rq) (fun m => ((find rq).pending m).toList) sLoop
      (peer.takeWhile (contFind rq)) (wrapFind rq (peer.dropWhile (contFind rq)).head?.toList)
      (fun m hm => stepFind_obs rq m (mem_takeWhile_true _ _ m hm))
    rw [hsteps.2, (find_stop_facts rq _ (fun m hm => head?_dropWhile_false _ _ m hm)).2.1]
    rfl

/-- Whenever the C-FIND generator is finished the reactor checkpoint is set again (the reactor
runs), and no exception escapes it. -/
theorem C24_find_checkpoint_restored (rq : Bool) (peer : List PeerMsg) :
    (finalState St.init (sendCFind rq peer)).ckpt = true ∧ raised (sendCFind rq peer) = false := by
  unfold sendCFind
  rw [finalState_append, finalState_prologue, raised_append, wrapFind_closed]
  have hsteps := observe_steps (stepFind rq) (fun m => ((find rq).pending m).toList) sLoop
    (peer.takeWhile (contFind rq)) (wrapFind rq (peer.dropWhile (contFind rq)).head?.toList)
    (fun m hm => stepFind_obs rq m (mem_takeWhile_true _ _ m hm))
  have hstop := find_stop_facts rq _ (fun m hm => head?_dropWhile_false (contFind rq) peer m hm)
  rw [hsteps.2, hstop.2.1, raised_steps _ _ _ (fun m _ => (stepFind_counts rq m).2.1), hstop.2.2.2.1]
  exact ⟨rfl, rfl⟩

/-! ### C-GET / C-MOVE -/

/-- C-GET meets the property — each valid C-GET response up to and including the first final one is
yielded once, in order (C-STORE sub-operation requests are served in between and are invisible to
the caller); silence / invalid / unexpected messages give `(Dataset(), None)` and abort exactly
where documented; nothing is raised — for every peer whose *consumed* messages contain no C-STORE
response, no valid C-MOVE response and no C-STORE request without Affected SOP Class UID. -/
theorem C24_get_once_in_order_partial (peer : List PeerMsg)
    (h : ∀ m ∈ consumed (retrieve .get).continues peer, deviates .get m = false) :
    observe St.init (sendCGet peer) = (retrieve .get).expectedYields peer ∧
      aborts (sendCGet peer) = (retrieve .get).expectedAborts peer ∧
      raised (sendCGet peer) = false := by
  obtain ⟨h1, h2, h3⟩ := getmove_partial .get (Or.inl rfl) peer h
  unfold sendCGet
  rw [observe_append, finalState_prologue, observe_prologue, aborts_append, raised_append, h1, h2, h3]
  exact ⟨rfl, by simp [prologue, aborts, isAbort, List.countP_cons, List.countP_nil], rfl⟩

/-- The same for C-MOVE (excluded: C-STORE response, valid C-GET response, class-less C-STORE
request among the consumed messages). -/
theorem C24_move_once_in_order_partial (peer : List PeerMsg)
    (h : ∀ m ∈ consumed (retrieve .move).continues peer, deviates .move m = false) :
    observe St.init (sendCMove peer) = (retrieve .move).expectedYields peer ∧
      aborts (sendCMove peer) = (retrieve .move).expectedAborts peer ∧
      raised (sendCMove peer) = false := by
  obtain ⟨h1, h2, h3⟩ := getmove_partial .move (Or.inr rfl) peer h
  unfold sendCMove
  rw [observe_append, finalState_prologue, observe_prologue, aborts_append, raised_append, h1, h2, h3]
  exact ⟨rfl, by simp [prologue, aborts, isAbort, List.countP_cons, List.countP_nil], rfl⟩

/-- the hypothesis of the partial theorems is satisfiable by a non-trivial peer: sub-operation
requests (accepted and not), two Pending responses, a final Warning with identifier, then junk that
is never consumed -/
example : (∀ m ∈ consumed (retrieve .get).continues
      [.storeRq .accepted, .rsp .get true 0xFF00 .absent, .storeRq .unaccepted, .rsp .get true 0xFF00 .absent,
       .rsp .get true 0xB000 .good, .rsp .move true 0 .absent], deviates .get m = false) ∧
    observe St.init (sendCGet
      [.storeRq .accepted, .rsp .get true 0xFF00 .absent, .storeRq .unaccepted, .rsp .get true 0xFF00 .absent,
       .rsp .get true 0xB000 .good, .rsp .move true 0 .absent]) =
      [⟨some 0xFF00, .none, false, true⟩, ⟨some 0xFF00, .none, false, true⟩, ⟨some 0xB000, .ds, false, false⟩] := by
  decide

/-- Defect witness: a valid C-MOVE response sent while a C-GET is outstanding is not treated as an
unexpected message — its status is handed to the caller as the C-GET result and nothing is aborted. -/
theorem C24_get_cross_type_neg : ∃ peer,
    observe St.init (sendCGet peer) ≠ (retrieve .get).expectedYields peer ∧
      aborts (sendCGet peer) = 0 ∧ (retrieve .get).expectedAborts peer = 1 :=
  ⟨[.rsp .move true 0 .absent], by decide⟩

/-- Defect witness: a C-STORE *response* arriving during C-GET/C-MOVE is answered with a C-STORE
response of our own and the iteration goes on, instead of the documented abort. -/
theorem C24_getmove_store_response_neg : ∃ peer,
    storeRsps (sendCGet peer) = [0] ∧ aborts (sendCGet peer) = 0 ∧
      observe St.init (sendCGet peer) ≠ (retrieve .get).expectedYields peer ∧
      (retrieve .get).expectedAborts peer = 1 :=
  ⟨[.rsp .store true 0 .absent, .rsp .get true 0 .absent], by decide⟩

/-- Defect witness: a C-STORE request without Affected SOP Class UID makes the generator raise:
the caller gets no `(Dataset(), None)`, nothing is aborted and the reactor checkpoint stays
cleared (the association's reactor remains paused). -/
theorem C24_getmove_store_without_class_neg : ∃ peer,
    raised (sendCGet peer) = true ∧ observe St.init (sendCGet peer) = [] ∧
      aborts (sendCGet peer) = 0 ∧ (finalState St.init (sendCGet peer)).ckpt = false :=
  ⟨[.storeRq .noClass], by decide⟩

/-- C-GET and C-MOVE run the same generator. -/
theorem C24_move_same_generator : sendCMove = sendCGet := rfl

/-- For every peer: no yield of C-GET/C-MOVE happens with the AE lock held (the final identifier is
decoded under the lock, which is released before the yield), and the lock is free at the end. -/
theorem C24_getmove_no_lock_at_yield (peer : List PeerMsg) :
    (∀ y ∈ observe St.init (sendCGet peer), y.lockHeld = false) ∧
      (finalState St.init (sendCGet peer)).lock = false := by
  unfold sendCGet
  rw [observe_append, finalState_append, finalState_prologue, observe_prologue, wrapGetMove_closed]
  have hsteps := observe_steps stepGM (fun m => observe sLoop (stepGM m)) sLoop
    (peer.takeWhile contGM) (wrapGetMove (peer.dropWhile contGM).head?.toList)
    (fun m hm => ⟨rfl, (stepGM_state m (mem_takeWhile_true _ _ m hm)).1⟩)
  have hstop := gm_stop_state _ (fun m hm => head?_dropWhile_false contGM peer m hm)
  rw [hsteps.1, hsteps.2]
  refine ⟨?_, hstop.2.1⟩
  intro y hy
  simp only [List.nil_append, List.mem_append, List.mem_flatMap] at hy
  rcases hy with ⟨m, hm, hy⟩ | hy
  · exact (stepGM_state m (mem_takeWhile_true _ _ m hm)).2.1 y hy
  · exact hstop.1 y hy

/-- For every peer: when the C-GET/C-MOVE generator is finished the reactor checkpoint is set again
*unless* an exception escaped it (only `C24_getmove_store_without_class_neg` does that). -/
theorem C24_getmove_checkpoint_restored (peer : List PeerMsg) :
    (finalState St.init (sendCGet peer)).ckpt = !raised (sendCGet peer) := by
  unfold sendCGet
  rw [finalState_append, finalState_prologue, raised_append, wrapGetMove_closed]
  have hsteps := observe_steps stepGM (fun m => observe sLoop (stepGM m)) sLoop
    (peer.takeWhile contGM) (wrapGetMove (peer.dropWhile contGM).head?.toList)
    (fun m hm => ⟨rfl, (stepGM_state m (mem_takeWhile_true _ _ m hm)).1⟩)
  have hstop := gm_stop_state _ (fun m hm => head?_dropWhile_false contGM peer m hm)
  rw [hsteps.2, hstop.2.2.1,
    raised_steps _ _ _ (fun m hm => (stepGM_state m (mem_takeWhile_true _ _ m hm)).2.2.1)]
  simp [prologue, raised, isRaise]

/-- For every peer: the generator stops at the first message after which the code does not go on
(`contGM`: served C-STORE primitive or valid Pending C-GET/C-MOVE response); later messages are not
consumed; one receive per consumed message. -/
theorem C24_getmove_stops_at_final (pre post : List PeerMsg) (m : PeerMsg)
    (hpre : ∀ x ∈ pre, contGM x = true) (hm : contGM m = false) :
    sendCGet (pre ++ m :: post) = sendCGet (pre ++ [m]) ∧
      recvs (sendCGet (pre ++ m :: post)) = pre.length + 1 := by
  have key : ∀ post', wrapGetMove (pre ++ m :: post') = pre.flatMap stepGM ++ wrapGetMove [m] := by
    intro post'
    induction pre with
    | nil => simpa using wrapGetMove_stop m post' hm
    | cons x xs ih =>
      have hx := hpre x (by simp)
      have := ih (fun y hy => hpre y (by simp [hy]))
      simp only [List.cons_append, List.flatMap_cons, List.append_assoc]
      rw [wrapGetMove_cont x _ hx, this]
  refine ⟨by unfold sendCGet; rw [key post, key []], ?_⟩
  unfold sendCGet
  rw [recvs_append, key post,
    count_steps recvs recvs_append stepGM 1 pre _ (fun x hx => (stepGM_state x (hpre x hx)).2.2.2)]
  have := (gm_stop_state (some m) (fun m' h => by cases h; exact hm)).2.2.2
  simp only [Option.toList] at this
  rw [this]
  simp [prologue, recvs, isRecv, List.countP_cons, List.countP_nil]

/-! ### single-response calls: C-ECHO, C-STORE, N-* -/

/-- For every peer and every single-response call: exactly one message is received, later messages
play no role, the AE lock is never taken, nothing is yielded, and the reactor checkpoint is set
again when the call returns *or raises*. -/
theorem C24_single_lock_checkpoint (svc : Svc) (peer : List PeerMsg) :
    finalState St.init (sendSingle svc peer) = St.init ∧ recvs (sendSingle svc peer) = 1 ∧
      observe St.init (sendSingle svc peer) = [] ∧
      sendSingle svc peer = sendSingle svc peer.head?.toList := by
  have hq := singleTail_quiet svc peer
  refine ⟨?_, ?_, ?_, ?_⟩
  · unfold sendSingle
    rw [finalState_append, (quiet_facts _ _ hq).1]; rfl
  · unfold sendSingle
    rw [recvs_append, (quiet_facts St.init _ hq).2.1]; rfl
  · unfold sendSingle
    rw [observe_append, (quiet_facts _ _ hq).2.2]; rfl
  · cases peer with
    | nil => rfl
    | cons m rest => cases m <;> rfl

/-- The single-response calls return the documented value and abort exactly where documented —
`Dataset()` / `(Dataset(), None)` with abort on DIMSE timeout (live association, no abort
indication) and on an invalid response, without abort when the peer or provider aborted; status and
decoded reply for a valid response (`0x0110`, `None` when the reply does not decode) — and raise
nothing, for every peer whose first message is not a valid response of *another* message type. -/
theorem C24_single_failures_partial (svc : Svc) (peer : List PeerMsg)
    (h : ∀ k st id, peer.head? = some (.rsp k true st id) → k = svc.expects) :
    returned (sendSingle svc peer) = some (singleExpected svc peer).1 ∧
      aborts (sendSingle svc peer) = (singleExpected svc peer).2 ∧
      raised (sendSingle svc peer) = false := by
  cases peer with
  | nil => cases svc <;> decide
  | cons m rest =>
    cases m with
    | none w =>
      have e1 : sendSingle svc (.none w :: rest) = sendSingle svc [.none w] := rfl
      have e2 : singleExpected svc (.none w :: rest) = singleExpected svc [.none w] := by cases w <;> rfl
      rw [e1, e2]; clear h e1 e2; cases w <;> cases svc <;> decide
    | storeRq cx =>
      have e1 : sendSingle svc (.storeRq cx :: rest) = sendSingle svc [.storeRq cx] := rfl
      have e2 : singleExpected svc (.storeRq cx :: rest) = singleExpected svc [.storeRq cx] := rfl
      rw [e1, e2]; clear h e1 e2; cases cx <;> cases svc <;> decide
    | rsp k valid st id =>
      cases valid
      · cases svc <;>
          simp [sendSingle, prologue, singleTail, singleExpected, response, returned, aborts, isAbort, raised,
            isRaise, List.countP_cons, List.countP_nil]
      · have hk := h k st id rfl
        subst hk
        generalize hcat : category st = c
        cases svc <;> cases c <;> cases id <;>
          simp [sendSingle, prologue, singleTail, singleExpected, response, returned, aborts, isAbort, raised,
            isRaise, List.countP_cons, List.countP_nil, Svc.reads, Svc.expects, Kind.attr, hcat, documented,
            hasReply, processingFailure]

/-- hypothesis satisfiable, non-trivially: N-GET answered by a Warning N-GET response whose
Attribute List does not decode -/
example : returned (sendSingle .nGet [.rsp .nGet true 0x0107 .bad]) = some (some 0x0110, .none) ∧
    (singleExpected .nGet [.rsp .nGet true 0x0107 .bad]) = ((some 0x0110, .none), 0) := by decide

/-- Defect witness: the single-response calls never check the type of the message they receive — a
valid C-FIND *Pending* response is returned by `send_c_echo` as the echo status, without abort. -/
theorem C24_single_unexpected_accepted_neg : ∃ svc peer k st id,
    peer.head? = some (.rsp k true st id) ∧ k ≠ svc.expects ∧
      returned (sendSingle svc peer) = some (some st, .none) ∧ aborts (sendSingle svc peer) = 0 ∧
      (singleExpected svc peer) = ((none, .none), 1) :=
  ⟨.echo, [.rsp .find true 0xFF00 .good], .find, 0xFF00, .good, by decide⟩

/-- Defect witness: with a Success/Warning status the N-* calls read their reply attribute from
whatever primitive arrived; a C-ECHO response to `send_n_action` raises (AttributeError) instead
of giving `(Dataset(), None)` and aborting. -/
theorem C24_single_unexpected_raises_neg : ∃ svc peer,
    raised (sendSingle svc peer) = true ∧ returned (sendSingle svc peer) = none ∧
      aborts (sendSingle svc peer) = 0 ∧ (singleExpected svc peer) = ((none, .none), 1) :=
  ⟨.nAction, [.rsp .echo true 0 .absent], by decide⟩

/-- `send_c_cancel` (usable while a response iterator is suspended) takes no lock, touches no
checkpoint and receives nothing. -/
theorem C24_cancel_touches_nothing (s : St) :
    finalState s sendCCancel = s ∧ recvs sendCCancel = 0 ∧ observe s sendCCancel = [] := by
  cases s; exact ⟨rfl, rfl, rfl⟩

end PynetVerif
