import PynetVerif.Model.Cmd
import PynetVerif.Gen.Cmd
import PynetVerif.Spec.Ps37
import PynetVerif.Lemmas.Cmd
import PynetVerif.Lemmas.CmdRow
import PynetVerif.Lemmas.CmdTables
/-!
C17 — DIMSE primitives survive conversion to command sets and back; the command field
values are those PS3.7 assigns.

`Gen.Cmd.*` is regenerated from /repo on every run (`translate/cmdset.py`): `_MESSAGE_TYPES`,
`_COMMAND_SET_KEYWORDS` (as tags, VR/VM from pydicom's dictionary), `_DATASET_KEYWORDS`,
`_MSG_TO_PRIMITIVE`, `_MULTIVALUE_TAGS`, dimse.py's `_RQ_TO_MESSAGE`/`_RSP_TO_MESSAGE`, the
attributes of the primitive classes and a behavioural fingerprint of their setters.
`Spec.Ps37.*` is the hand transcription of PS3.7.  `Cmd.*` (Model/Cmd.lean) is the executable
model the harness runs against the real code; the theorems below are about it, for all inputs.

Vocabulary (Lemmas/): `ValOk` = numbers in range, strings without the delimiter; `normVal` = the
reader's strip rules; `ValClean` = nothing to strip; `Sorted` = strictly increasing tags;
`InRange r p` = every parameter of message type `r` holds an in-range stored value (`ParOk`);
`canon r p` = the parameters of `r` in canonical form, everything else at its default.
-/
namespace PynetVerif
open Cmd

/-! ## the tables -/

/-- The command field values of `_MESSAGE_TYPES` are those of PS3.7 E.1, and each is paired
with the message class of the same name. -/
theorem C17_fields :
    Gen.Cmd.messageTypes.map (fun e => (e.1, e.2.1)) = Spec.Ps37.commandFields ∧
    Gen.Cmd.messageTypes.all (fun e => e.2.2 == e.2.1) = true := by
  decide

/-- Per message type, the elements of `_COMMAND_SET_KEYWORDS` are exactly the fields of the
PS3.7 message table plus the status-related fields listed as documented extras in the spec
(which occur on responses only and are among (0000,0901/0902/0903/1005)). -/
theorem C17_elements :
    Gen.Cmd.rows.map (fun r => (r.2.1, r.1)) = Spec.Ps37.commandFields ∧
    Gen.Cmd.rows.all (fun r => Spec.Ps37.elements r.1 == some r.2.2.2.1) = true ∧
    Gen.Cmd.rows.all (fun r => (Gen.Cmd.commandSetKeywords.lookup r.1).map Spec.Ps37.sortTags == some r.2.2.2.1) = true ∧
    Gen.Cmd.commandSetKeywords.length = 23 ∧
    Spec.Ps37.statusFields.all (fun e => e.2.all Spec.Ps37.statusRelated.contains &&
      Spec.Ps37.commandFields.any (fun f => f.2 == e.1 && decide (0x8000 ≤ f.1))) = true := by
  decide

/-- pydicom's dictionary gives every command element the VR and VM of PS3.7 E.1. -/
theorem C17_dictionary : Gen.Cmd.dictionary = Spec.Ps37.dictionary := by decide

/-- The model's tables *are* the code's: message types (name, command field, primitive class,
elements, data-set parameter), VR table, multi-value tags, attributes of the primitive
classes (and which have setters), defaults of a fresh primitive, `send_msg`'s choice. -/
theorem C17_model_is_code :
    rows.map (fun r => (r.name, r.field, r.cls.name, r.keywords, r.dataset)) = Gen.Cmd.rows ∧
    vrTable.map (fun e => (e.1, e.2.name)) = Gen.Cmd.dictionary.map (fun e => (e.1, e.2.2.1)) ∧
    multivalueTags = Gen.Cmd.multivalueTags ∧
    Gen.Cmd.rows.all (fun r => Gen.Cmd.msgPrimitive.lookup r.1 == some r.2.2.1) = true ∧
    (Gen.Cmd.rows.filter (fun r => r.2.2.2.2)).length = Gen.Cmd.datasetKeywords.length ∧
    attrsOk = true ∧ defaultsOk = true ∧ kindOk = true := by
  decide

/-- The model's `store` reproduces the observed behaviour of every setter of every primitive
class on the probe vector (None, boundary ints, ASCII strings incl. padding / too long /
backslash, tag lists of 0, 1, 2, 3 entries incl. out-of-range tags). -/
theorem C17_setters_probe : Gen.Cmd.setterProbe.all probeOk = true := by decide

/-- Every row of the table passes the well-formedness check the generic proof needs and is found
under its own command field. -/
theorem C17_rows_wf : (∀ r ∈ rows, r.wf = true) ∧
    (∀ r ∈ rows, rows.find? (fun x => x.field == r.field) = some r) ∧ rows.length = 23 :=
  ⟨rows_wf, rows_find, rfl⟩

/-! ## element values (Implicit VR Little Endian, the VRs of group 0000) -/

/-- Writing an element value and reading it back gives the value up to the reader's strip
rules — any multiplicity, any length — and the written value has even length. -/
theorem C17_element_roundtrip (vr : VR) (v : EVal) (h : ValOk vr v) :
    ∃ b, encodeVal vr v = some b ∧ b.length % 2 = 0 ∧ decodeVal vr b = some (normVal vr v) := by
  obtain ⟨b, hb, hd⟩ := decodeVal_encodeVal vr v h
  exact ⟨b, hb, encodeVal_even vr v b hb, hd⟩

/-- … and exactly the value when there is nothing to strip (padding removal is exact). -/
theorem C17_element_roundtrip_clean (vr : VR) (v : EVal) (h : ValClean vr v) :
    ∃ b, encodeVal vr v = some b ∧ decodeVal vr b = some v := by
  obtain ⟨b, hb, hd⟩ := decodeVal_encodeVal vr v (ValClean.ok vr v h)
  exact ⟨b, hb, by rw [hd, normVal_clean vr v h]⟩

/-! ## command sets -/

/-- A data set with strictly increasing tags whose elements are well-formed decodes, from its
encoding, to itself (values up to the strip rules; exactly itself when the values are clean). -/
theorem C17_cmd_roundtrip (c : Cmd) (hs : Sorted c) (hok : ∀ e ∈ c, ElemOk e) (b : Bytes)
    (hb : encodeCmd c = some b) :
    decodeCmd b = some (normCmd c) ∧ ((∀ e ∈ c, ElemClean e) → decodeCmd b = some c) := by
  have h := decodeCmd_encodeCmd c hs hok b hb
  exact ⟨h, fun hc => by rw [h, normCmd_clean c hc]⟩

/-- `_set_command_group_length`: the command set built from an in-range primitive starts with
CommandGroupLength (12 bytes) whose value is the byte length of the rest. -/
theorem C17_group_length (r : Row) (hr : r ∈ rows) (p : Prim) (h : InRange r p) :
    ∃ c rest hdr, primToCmd r p = some c ∧ Cmd.get c 0 = some (.nums [rest.length]) ∧
      encodeCmd (c.del 0) = some rest ∧ hdr.length = 12 ∧ encodeCmd c = some (hdr ++ rest) := by
  obtain ⟨c, rest, h1, h2, h3, h4, _⟩ := roundtrip_generic rows r (rows_wf r hr) (rows_find r hr) p h
  exact ⟨c, rest, leTag 0 ++ le32 4 ++ le32 rest.length, h1, h2, h3, rfl, h4⟩

/-! ## primitives -/

/-- **Round trip.** For each of the 23 message types and every primitive whose parameters of
that type are in range (any subset of them present), `primitive_to_message` + `encode_msg`
succeed and `decode_msg` + `message_to_primitive` on those bytes yield the same message type
and the canonical form of the primitive: same parameters (multi-valued lists included), same
data-set bytes. -/
theorem C17_roundtrip (r : Row) (hr : r ∈ rows) (p : Prim) (h : InRange r p) :
    ∃ b d, encodeMsg r p = some (b, d) ∧ decodeMsg rows b d = some (r, canon r p) := by
  obtain ⟨c, rest, _, _, _, _, _, h6, h7⟩ := roundtrip_generic rows r (rows_wf r hr) (rows_find r hr) p h
  exact ⟨_, _, h6, h7⟩

/-- The request/response direction survives: if `r` is the message type `send_msg` picks for
the primitive, it is also the one it picks for the primitive that comes out. -/
theorem C17_direction (r : Row) (hr : r ∈ rows) (p : Prim) (h : InRange r p)
    (hk : kindOf r.cls p = some r) : kindOf r.cls (canon r p) = some r := by
  rw [← hk]
  apply kindOf_congr
  cases hp : p.par 0x0120 with
  | none =>
    -- a request stays a request: an absent id stays absent
    show ((canon r p).par 0x0120).isNone = true
    unfold canon
    simp only [hp]
    split
    · rfl
    · simp [emptyPrim]
  | some v =>
    -- `send_msg` chose `r` for a primitive with an id: `r` is a response (or C-CANCEL) and carries it
    have hfound := List.find?_some hk
    simp only [hp, Option.isNone_some, Bool.and_eq_true, beq_iff_eq] at hfound
    have hresp := rows_responds r hr
    unfold respondsOk at hresp
    have hcond : (decide (0x8000 ≤ r.field) || r.cls.name == "C_CANCEL") = true := by
      by_cases hc : r.cls.name = "C_CANCEL"
      · simp [hc]
      · have h2 := hfound.2
        simp only [hc, beq_iff_eq, if_false, Bool.not_false] at h2
        simp only [Bool.or_eq_true, decide_eq_true_eq]
        left
        have : ¬ r.field < 0x8000 := by simpa using h2
        omega
    rw [if_pos hcond] at hresp
    simp only [Bool.and_eq_true, beq_iff_eq] at hresp
    have hin : (0x0120 : Nat) ∈ r.keywords := List.contains_iff_mem.mp hresp.1
    have hvr : vrOf 0x0120 = some .US := by decide
    have hok := h 0x0120 hin .us16 .US hresp.2 hvr
    rw [hp] at hok
    show ((canon r p).par 0x0120).isNone = false
    unfold canon
    simp only [hresp.1, hresp.2, Option.isSome_some, Bool.and_self, if_true, hp, hvr]
    cases v <;> simp [ParOk] at hok <;> rfl

/-- In-range values are values the setters accept and store unchanged (so `InRange` describes
primitives that can actually be built through the public attributes). -/
theorem C17_inrange_accepted (r : Row) (p : Prim) (h : InRange r p) (t : Nat) (ht : t ∈ r.keywords)
    (s : Setter) (vr : VR) (hs : r.cls.setter? t = some s) (hv : vrOf t = some vr) :
    store s (p.par t) = some (p.par t) :=
  parOk_accepted s vr (p.par t) (h t ht s vr hs hv)

/-! ## outside the range: what the hypotheses exclude (witnesses, replayed by the harness) -/

def echoRq : Row := ⟨"C-ECHO-RQ", 0x0030, C_ECHO, [0x0000, 0x0002, 0x0100, 0x0110, 0x0800], false⟩
def echoRsp : Row := ⟨"C-ECHO-RSP", 0x8030, C_ECHO, [0x0000, 0x0002, 0x0100, 0x0120, 0x0800, 0x0900, 0x0902], false⟩

/-- AffectedSOPClassUID = "1\\2", MessageID = 1 -/
def backslashUid : Prim :=
  { par := fun t => if t = 0x0110 then some (.int 1) else if t = 0x0002 then some (.str [0x31, 0x5C, 0x32]) else none
    data := none }

/-- Status = 65536, MessageIDBeingRespondedTo = 1 -/
def bigStatus : Prim :=
  { par := fun t => if t = 0x0120 then some (.int 1) else if t = 0x0900 then some (.int 65536) else none
    data := none }

/-- The setters accept more than the range: a UID with a backslash is stored unchanged by
`set_uid` (only the length is checked), is encoded, and comes back truncated at the backslash —
the full-strength statement "for every value the primitive accepts" fails; `InRange`
(`UidOk`: no delimiter) is the exact excluded hypothesis. -/
theorem C17_accepted_backslash_neg :
    echoRq ∈ rows ∧
    (∀ t s, echoRq.cls.setter? t = some s → store s (backslashUid.par t) = some (backslashUid.par t)) ∧
    (match encodeMsg echoRq backslashUid with
      | some (b, d) =>
        (match decodeMsg rows b d with
         | some (r, q) => r.name == "C-ECHO-RQ" && q.par 0x0002 == some (.str [0x31]) &&
             (canon echoRq backslashUid).par 0x0002 == some (.str [0x31, 0x5C, 0x32])
         | none => false)
      | none => false) = true := by
  refine ⟨by decide, ?_, by decide⟩
  intro t s hs
  have : t = 0x0002 ∨ t = 0x0110 ∨ t = 0x0120 ∨ t = 0x0900 ∨ t = 0x0902 := by
    have hm := lookup_mem t s _ hs
    simp only [echoRq, C_ECHO, base, List.cons_append, List.nil_append, List.mem_cons, Prod.mk.injEq,
      List.mem_nil_iff, or_false] at hm
    rcases hm with h | h | h | h | h <;> simp [h.1]
  rcases this with rfl | rfl | rfl | rfl | rfl <;>
    simp [echoRq, C_ECHO, base, PrimClass.setter?, List.lookup] at hs <;> subst hs <;> decide

/-- … and a Status above 65535 is accepted by the setter but cannot be encoded: the conversion
raises (in the code: `len(None)`), it does not deliver a wrong value. -/
theorem C17_accepted_overflow_neg :
    echoRsp ∈ rows ∧
    (∀ t s, echoRsp.cls.setter? t = some s → store s (bigStatus.par t) = some (bigStatus.par t)) ∧
    encodeMsg echoRsp bigStatus = none := by
  refine ⟨by decide, ?_, by decide⟩
  intro t s hs
  have : t = 0x0002 ∨ t = 0x0110 ∨ t = 0x0120 ∨ t = 0x0900 ∨ t = 0x0902 := by
    have hm := lookup_mem t s _ hs
    simp only [echoRsp, C_ECHO, base, List.cons_append, List.nil_append, List.mem_cons, Prod.mk.injEq,
      List.mem_nil_iff, or_false] at hm
    rcases hm with h | h | h | h | h <;> simp [h.1]
  rcases this with rfl | rfl | rfl | rfl | rfl <;>
    simp [echoRsp, C_ECHO, base, PrimClass.setter?, List.lookup] at hs <;> subst hs <;> decide

/-! ## non-vacuity -/

/-- C-STORE-RSP with Status, a two-tag OffendingElement, an ErrorComment with trailing padding,
an odd-length UID: in range. -/
def storeRsp : Row := ⟨"C-STORE-RSP", 0x8001, C_STORE,
  [0x0000, 0x0002, 0x0100, 0x0120, 0x0800, 0x0900, 0x0901, 0x0902, 0x1000], false⟩

def sampleRsp : Prim :=
  { par := fun t =>
      if t = 0x0120 then some (.int 65535)
      else if t = 0x0900 then some (.int 0xA900)
      else if t = 0x0901 then some (.list [0x00100010, 0xFFFFFFFF])
      else if t = 0x0902 then some (.str [0x20, 0x61, 0x62, 0x20, 0x20])
      else if t = 0x1000 then some (.str [0x31, 0x2E, 0x32])
      else if t = 0x0700 then some (.int 2)
      else none
    data := some [1, 2, 3] }

example : storeRsp ∈ rows ∧ InRange storeRsp sampleRsp := by
  refine ⟨by decide, ?_⟩
  intro t ht s vr hs hv
  simp only [storeRsp, List.mem_cons, List.mem_nil_iff, or_false] at ht
  rcases ht with rfl | rfl | rfl | rfl | rfl | rfl | rfl | rfl | rfl <;>
    simp [storeRsp, PrimClass.setter?, C_STORE, base, List.lookup, vrOf, vrTable] at hs hv <;>
    subst hs <;> subst hv <;>
    simp [ParOk, sampleRsp, UidOk, BS, stripSp, rstripPad, rstripBy, isSp, isPad, SP, NUL]

-- its round trip, evaluated: the ErrorComment loses its trailing padding, the list stays a list,
-- Priority is back at its default and the data set (not part of a C-STORE-RSP) is gone
example : (match encodeMsg storeRsp sampleRsp with
    | some (b, d) =>
      (match decodeMsg rows b d with
       | some (r, q) => r.name == "C-STORE-RSP" && b.length == 94 && d == [] &&
           q.par 0x0902 == some (.str [0x20, 0x61, 0x62]) &&
           q.par 0x0901 == some (.list [0x00100010, 0xFFFFFFFF]) && q.par 0x0700 == some (.int 2) && q.data == none
       | none => false)
    | none => false) = true := by decide

example : ValClean .UI (.strs [[0x31, 0x2E, 0x32], [0x33]]) ∧ ValOk .AT (.nums [0, 0xFFFFFFFF]) ∧
    Sorted [(0x0100, .nums [48]), (0x0110, .nums [1])] := by
  refine ⟨⟨?_, ?_, by decide⟩, ?_, ?_⟩
  · intro s hs; simp at hs; rcases hs with rfl | rfl <;> decide
  · intro s hs; simp at hs; rcases hs with rfl | rfl <;> simp [cleanStr, rstripPad, stripSp, rstripBy, isPad, isSp, SP, NUL]
  · intro x hx; simp at hx; rcases hx with rfl | rfl <;> omega
  · simp [Sorted]

end PynetVerif
