import PynetVerif.Lemmas.ScpStatus
/-!
C21 — handler results map to response status and data as documented.

`Spec.ScpStatus` is the hand transcription of what pynetdicom documents (docs/reference/status.rst,
docs/service_classes/*.rst, SCP and handler docstrings, PS3.7 Annex C); the theorems compare it
with the model M-Scp (tied to service_class.py by the differential run of harness/props/c21.py)
for EVERY status object (any int, any status Dataset = any element list, any other object),
every dataset shape, every table, every position in a handler's result sequence (the statements
are about the loop bodies, which are the same for every position).

Deviations of the current code (each with a `_neg` witness, replayed on the real code):
* `validate_status` copies every element that names an attribute of the response primitive —
  MessageIDBeingRespondedTo, (for the C-* services) AffectedSOPClassUID … — not only the status
  related ones (`C21_optional_copied_neg`; exact set: `C21_optional_copied_partial`);
* the Relevant Patient SCP answers 0x0000 Success instead of 0xC311 when the handler raises a
  TypeError (`C21_status_rp_typeerror_neg`).
Not proved here: that the data set bytes delivered equal encode(ts, dataset) (pydicom's codec is
trusted; the harness compares the decoded data set of every response with the handler's).
-/
namespace PynetVerif
open Scp
open Status (Category)
open Spec.ScpStatus (Svc StatusShape Result statusOf handlerException documented statusRelated)

/-! ### the status value -/

/-- `validate_status`: an int is used as is, a Dataset gives its Status, a Dataset without
Status gives 0xC001, any other object 0xC002 — for every primitive but C-ECHO (which has its
own code, see `C21_status_echo`), every status object, every prior state of the response. -/
theorem C21_status_value (p : Prim) (hp : p ≠ .echo) (s : StatusVal) (r : Rsp) :
    (validateStatus p s r).status = statusOf (svcOf p) (shapeOf s) := by
  rw [validateStatus_status]
  exact statusCode_spec _ _ (by cases p <;> first | exact absurd rfl hp | (intro h; cases h))

/-- what the handler of a single-response service did, in the spec's terms -/
def fnResult (h : Handler) : Result :=
  match h.call.1 with
  | .raised => .raised
  | res => .status (shapeOf (asStatus res))

/-- C-ECHO: the handler's int / Dataset Status; 0x0000 for an exception, a Dataset without Status
or any other object. -/
theorem C21_status_echo (cx m : Nat) (h : Handler) :
    ∀ s ∈ (echoScp cx m h).rsps, some s.r.status = documented .echo (fnResult h) := by
  unfold echoScp fnResult
  generalize h.call = c
  obtain ⟨res, e⟩ := c
  simp only
  have key : ∀ sv : StatusVal, ∀ s ∈
        (if !(({} : St).apply e).est then Out.nil else
          match sv with
          | .ds elems => if hasStatus elems then send cx (copyElems .echo elems { msgIdResp := m })
                         else send cx { msgIdResp := m, status := 0 }
          | .int c => send cx { msgIdResp := m, status := c }
          | .bad => send cx { msgIdResp := m, status := 0 }).rsps,
        some s.r.status = documented .echo (.status (shapeOf sv)) := by
    intro sv s hs
    split at hs
    · cases hs
    · cases sv with
      | int c => simp only [send_rsps, List.mem_singleton] at hs; subst hs; rfl
      | bad => simp only [send_rsps, List.mem_singleton] at hs; subst hs; rfl
      | ds elems =>
        simp only at hs
        have hsome := lastStatus_isSome elems
        split at hs
        · next hst =>
          simp only [send_rsps, List.mem_singleton] at hs; subst hs
          simp only [documented, shapeOf]
          rw [copyElems_status]
          cases hl : lastStatus elems with
          | none => rw [hl, hst] at hsome; cases hsome
          | some v => rfl
        · next hst =>
          simp only [send_rsps, List.mem_singleton] at hs; subst hs
          simp only [documented, shapeOf]
          cases hl : lastStatus elems with
          | none => rfl
          | some v => rw [hl] at hsome; simp at hsome; exact absurd hsome hst
  cases res with
  | raised => intro s hs; simp only [send_rsps, List.mem_singleton] at hs; subst hs; rfl
  | value v => exact key _
  | junk5 => exact key (.int 5)
  | genObj => exact key .bad

/-- C-STORE (0xC211) and N-DELETE (0x0110): the handler's status, 0xC001 / 0xC002, or the
documented exception code. -/
theorem C21_status_store_ndelete (cx m : Nat) (h : Handler) :
    (∀ s ∈ (statusOnlyScp .store 0xC211 cx m h).rsps, some s.r.status = documented .store (fnResult h)) ∧
    (∀ s ∈ (statusOnlyScp .nDelete 0x0110 cx m h).rsps, some s.r.status = documented .n (fnResult h)) := by
  have key : ∀ (p : Prim) (exc : Int) (svc : Svc), svc ≠ .echo → exc = handlerException svc →
      ∀ s ∈ (statusOnlyScp p exc cx m h).rsps, some s.r.status = documented svc (fnResult h) := by
    intro p exc svc hsvc hexc
    unfold statusOnlyScp fnResult
    generalize h.call = c
    obtain ⟨res, e⟩ := c
    simp only
    have k2 : ∀ res : FnResult, ∀ s ∈ (if !(({} : St).apply e).est then Out.nil
          else send cx (validateStatus p (asStatus res) { msgIdResp := m })).rsps,
        some s.r.status = documented svc (.status (shapeOf (asStatus res))) := by
      intro res s hs
      split at hs
      · cases hs
      · simp only [send_rsps, List.mem_singleton] at hs; subst hs
        simp only [documented]
        rw [validateStatus_status, statusCode_spec svc _ hsvc]
    cases res with
    | raised => intro s hs; simp only [send_rsps, List.mem_singleton] at hs; subst hs; simp [documented, hexc]
    | value v => exact k2 _
    | junk5 => exact k2 .junk5
    | genObj => exact k2 .genObj
  exact ⟨key .store 0xC211 .store (by decide) rfl, key .nDelete 0x0110 .n (by decide) rfl⟩

/-- what an N-ACTION / N-CREATE / N-EVENT-REPORT / N-GET / N-SET handler did, given that it
returned `(s, d)`: its dataset is due with a Success/Warning status of the table and must encode -/
def nResult (t : Table) (s : StatusVal) (d : DsVal) : Result :=
  if (tableCat t (statusCode s) = some Category.success ∨ tableCat t (statusCode s) = some Category.warning) ∧
      d.truthy = true ∧ d.encodes = false
  then .unencodable (shapeOf s) else .status (shapeOf s)

/-- The N-* services with a data set in the response: the handler's status (0xC001 / 0xC002),
0x0110 for an exception or a data set that cannot be encoded.  Hypothesis: not an N-CREATE whose
request lacked the Affected SOP Instance UID (then the instance UID is taken from the handler's
dataset, a separate, documented, path). -/
theorem C21_status_n (p : Prim) (t : Table) (cx m : Nat) (inst : Bool) (h : Handler)
    (hp : p ≠ .nCreate ∨ inst = true) :
    ∀ x ∈ (nScp p t cx m inst h).rsps,
      (h.call.1 = .raised ∧ some x.r.status = documented .n .raised) ∨
      (∃ s d o, fnPair h.call.1 = some (s, d, o) ∧ some x.r.status = documented .n (nResult t s d)) := by
  intro x hx
  unfold nScp at hx
  split at hx
  · next heq =>
    left
    simp only [send_rsps, List.mem_singleton] at hx; subst hx
    exact ⟨heq, rfl⟩
  · right
    split at hx
    · cases hx
    · unfold nBody at hx
      cases hpair : fnPair h.call.1 with
      | none => rw [hpair] at hx; cases hx
      | some y =>
        obtain ⟨s, d, o⟩ := y
        rw [hpair] at hx
        simp only at hx
        refine ⟨s, d, o, rfl, ?_⟩
        have hst : (validateStatus p s { msgIdResp := m }).status = statusCode s := validateStatus_status _ _ _
        have hspec : statusCode s = statusOf .n (shapeOf s) := statusCode_spec .n s (by decide)
        cases hc : tableCat t (validateStatus p s { msgIdResp := m }).status with
        | none =>
          rw [hc] at hx
          simp only [send_rsps, List.mem_singleton] at hx; subst hx
          rw [hst] at hc
          simp only [nResult, hc]
          simp [documented, hst, hspec]
        | some cat =>
          rw [hc] at hx
          rw [hst] at hc
          have hstep : nCreateStep p cat inst (validateStatus p s { msgIdResp := m }) d =
              some (validateStatus p s { msgIdResp := m }, d) := by
            unfold nCreateStep
            have : (p == Prim.nCreate && cat == Category.success && !inst) = false := by
              rcases hp with hp | hp
              · have : (p == Prim.nCreate) = false := by simpa using hp
                simp [this]
              · simp [hp]
            simp [this]
          simp only [nKnown, hstep, nFinish] at hx
          by_cases hds : ((cat == Category.success || cat == Category.warning) && d.truthy) = true
          · simp only [hds, if_true] at hx
            have hcat : tableCat t (statusCode s) = some Category.success ∨
                tableCat t (statusCode s) = some Category.warning := by
              simp only [Bool.and_eq_true, Bool.or_eq_true, beq_iff_eq] at hds
              rcases hds.1 with h1 | h1 <;> (subst h1; simp [hc])
            have htr : d.truthy = true := by
              simp only [Bool.and_eq_true] at hds; exact hds.2
            by_cases henc : d.encodes = true
            · simp only [henc, if_true, send_rsps, List.mem_singleton] at hx; subst hx
              simp only [nResult, henc]
              simp [documented, hst, hspec]
            · have henc' : d.encodes = false := by simpa using henc
              simp only [henc', Bool.false_eq_true, if_false, send_rsps, List.mem_singleton] at hx; subst hx
              simp only [nResult]
              rw [if_pos ⟨hcat, htr, henc'⟩]
              rfl
          · simp only [hds, Bool.false_eq_true, if_false, send_rsps, List.mem_singleton] at hx; subst hx
            have : ¬ ((tableCat t (statusCode s) = some Category.success ∨
                tableCat t (statusCode s) = some Category.warning) ∧ d.truthy = true ∧ d.encodes = false) := by
              intro ⟨h1, h2, _⟩
              apply hds
              rw [hc] at h1
              rcases h1 with h1 | h1 <;> (injection h1 with h1; subst h1; simp [h2])
            simp only [nResult, if_neg this]
            simp [documented, hst, hspec]

/-! ### the loop bodies (any position in the handler's result sequence) -/

/-- the result a C-FIND handler supplied with `(s, d)`: a Pending status of the table needs an
encodable identifier -/
def findResult (t : Table) (s : StatusVal) (d : DsVal) : Result :=
  if tableCat t (statusCode s) = some Category.pending ∧ d.encodes = false
  then .unencodable (shapeOf s) else .status (shapeOf s)

/-- `_c_find_scp`, any yielded `(s, d)`, any position: if a response is sent for it, its status is
the handler's (0xC001 / 0xC002), or 0xC312 when the Pending identifier cannot be encoded; an
exception in the generator is answered 0xC311. -/
theorem C21_status_find_step (t : Table) (cx : Nat) (r : Rsp) :
    (∀ s d o c, stepStatus (findStep t cx true (some (.pair s d o)) r) = some c →
      some c = documented .find (findResult t s d)) ∧
    (tableCat t 0xC311 = some Category.failure →
      stepStatus (findStep t cx true none r) = documented .find .raised) := by
  constructor
  · intro s d o c hc
    have hst : (validateStatus .find s r.clearIdent).status = statusCode s := validateStatus_status _ _ _
    have hspec : statusCode s = statusOf .find (shapeOf s) := statusCode_spec .find s (by decide)
    simp only [findStep, unpack, asPair, Bool.not_true, Bool.false_eq_true, if_false] at hc
    cases hcat : tableCat t (validateStatus .find s r.clearIdent).status with
    | none =>
      rw [hcat] at hc
      simp only [stepStatus, send_rsps, List.head?_cons, Option.map_some, Option.some.injEq] at hc
      rw [hst] at hcat
      simp only [findResult, hcat]
      simp [documented, ← hc, hst, hspec]
    | some cat =>
      rw [hcat] at hc
      rw [hst] at hcat
      cases cat with
      | pending =>
        simp only [findKnown] at hc
        by_cases hd : d.encodes = true
        · simp only [hd, if_true, stepStatus, send_rsps, List.head?_cons, Option.map_some, Option.some.injEq] at hc
          simp only [findResult, hd]
          simp [documented, ← hc, hst, hspec]
        · have hd' : d.encodes = false := by simpa using hd
          simp only [hd', Bool.false_eq_true, if_false, stepStatus, send_rsps, List.head?_cons, Option.map_some,
            Option.some.injEq] at hc
          simp only [findResult]
          rw [if_pos ⟨hcat, hd'⟩, ← hc]; rfl
      | unknown =>
        simp [findKnown, stepStatus] at hc
      | success =>
        simp only [findKnown, stepStatus, send_rsps, List.head?_cons, Option.map_some, Option.some.injEq] at hc
        simp only [findResult, hcat]; simp [documented, ← hc, hst, hspec]
      | failure =>
        simp only [findKnown, stepStatus, send_rsps, List.head?_cons, Option.map_some, Option.some.injEq] at hc
        simp only [findResult, hcat]; simp [documented, ← hc, hst, hspec]
      | cancel =>
        simp only [findKnown, stepStatus, send_rsps, List.head?_cons, Option.map_some, Option.some.injEq] at hc
        simp only [findResult, hcat]; simp [documented, ← hc, hst, hspec]
      | warning =>
        simp only [findKnown, stepStatus, send_rsps, List.head?_cons, Option.map_some, Option.some.injEq] at hc
        simp only [findResult, hcat]; simp [documented, ← hc, hst, hspec]
  · intro hexc
    have hst : (validateStatus .find (.int 0xC311) r.clearIdent).status = 0xC311 := rfl
    simp only [findStep, unpack, Bool.not_true, Bool.false_eq_true, if_false, hst, hexc, findKnown]
    rfl

/-- `_get_scp/_move_scp`, any yielded `(s, d)` while sub-operations remain: a response sent for
it carries the handler's status (0xC001 / 0xC002) — except that a Success of the table is rewritten
to Warning 0xB000 when sub-operations failed or warned (C22) — and an exception in the generator is
answered with the service's exception code (0xC411 / 0xC511) when the table calls it a Failure. -/
theorem C21_status_retrieve_step (p : Prim) (t : Table) (cx : Nat) (exc : Int) (g : GmSt) (hrem : g.ctr.rem ≠ 0) :
    (∀ s d o c, stepStatus (gmStep p t cx exc true (some (.pair s d o)) g) = some c →
      c = statusCode s ∨ (tableCat t (statusCode s) = some Category.success ∧ c = 0xB000)) ∧
    (tableCat t exc = some Category.failure →
      stepStatus (gmStep p t cx exc true none g) = some exc) := by
  have hb : (g.ctr.rem == 0) = false := by simpa using hrem
  constructor
  · intro s d o c hc
    have hst : (validateStatus p s g.clearIdent.rsp).status = statusCode s := validateStatus_status _ _ _
    simp only [gmStep, unpack, asPair, Bool.not_true, Bool.false_eq_true, if_false, hb, gmDispatch] at hc
    cases hcat : tableCat t (validateStatus p s g.clearIdent.rsp).status with
    | none =>
      rw [hcat] at hc
      simp only [stepStatus, send_rsps, List.head?_cons, Option.map_some, Option.some.injEq] at hc
      left; rw [← hc, hst]
    | some cat =>
      rw [hcat] at hc
      cases cat with
      | pending =>
        simp only [gmKnown] at hc
        obtain ⟨out, g', he, hs⟩ := gmPending_spec cx (validateStatus p s g.clearIdent.rsp) d o g.clearIdent
        rw [he] at hc
        rcases hs with ⟨ho, _, _⟩ | ⟨op, ho, _, hstat, _, _⟩
        · subst ho; simp [stepStatus] at hc
        · subst ho
          simp only [stepStatus, List.head?_cons, Option.map_some, Option.some.injEq] at hc
          left; rw [← hc, hstat, hst]
      | unknown => simp [gmKnown, stepStatus] at hc
      | success =>
        simp only [gmKnown, stepStatus, send_rsps, List.head?_cons, Option.map_some, Option.some.injEq] at hc
        rw [gmSuccess_status] at hc
        split at hc
        · left; rw [← hc, hst]
        · right; rw [hst] at hcat; exact ⟨hcat, hc.symm⟩
      | failure =>
        simp only [gmKnown, stepStatus, send_rsps, List.head?_cons, Option.map_some, Option.some.injEq] at hc
        left; rw [← hc]; exact hst
      | warning =>
        simp only [gmKnown, stepStatus, send_rsps, List.head?_cons, Option.map_some, Option.some.injEq] at hc
        left; rw [← hc]; exact hst
      | cancel =>
        simp only [gmKnown, stepStatus, send_rsps, List.head?_cons, Option.map_some, Option.some.injEq] at hc
        left; rw [← hc]; exact hst
  · intro hexc
    have hst : (validateStatus p (.int exc) g.clearIdent.rsp).status = exc := rfl
    simp only [gmStep, unpack, Bool.not_true, Bool.false_eq_true, if_false, hb, gmDispatch, hst, hexc, gmKnown]
    rfl

/-- Relevant Patient SCP: the first result `(s, d)` — the handler's status (0xC001 / 0xC002) or
0xC312 for an unencodable identifier; a non-TypeError exception is answered 0xC311. -/
theorem C21_status_rp (t : Table) (cx m : Nat) (s : StatusVal) (d : DsVal) (o : Outcome) (rest : List Item) :
    (∀ x, (rpScp t cx m (.gen (.yield (.pair s d o) {} :: rest))).rsps.head? = some x →
      some x.r.status = documented .find (findResult t s d)) ∧
    (rpScp t cx m (.gen (.raise false {} :: rest))).rsps.map (·.r.status) = [0xC311] ∧
    (rpScp t cx m (.fnRaise false {})).rsps.map (·.r.status) = [0xC311] := by
  refine ⟨?_, rfl, rfl⟩
  intro x hx
  have hst : (validateStatus .find s ({ msgIdResp := m } : Rsp)).status = statusCode s := validateStatus_status _ _ _
  have hspec : statusCode s = statusOf .find (shapeOf s) := statusCode_spec .find s (by decide)
  simp only [rpScp, rpBody, St.apply, Bool.and_true, Bool.not_false, Bool.not_true, Bool.false_eq_true, if_false] at hx
  cases hcat : tableCat t (validateStatus .find s ({ msgIdResp := m } : Rsp)).status with
  | none =>
    rw [hcat] at hx
    simp only [send_rsps, List.head?_cons, Option.some.injEq] at hx; subst hx
    rw [hst] at hcat
    simp only [findResult, hcat]; simp [documented, hst, hspec]
  | some cat =>
    rw [hcat] at hx
    rw [hst] at hcat
    cases cat with
    | pending =>
      simp only at hx
      by_cases hd : d.encodes = true
      · simp only [hd, if_true, Out.append_rsps, send_rsps, List.cons_append, List.nil_append, List.head?_cons,
          Option.some.injEq] at hx
        subst hx
        simp only [findResult, hd]; simp [documented, hst, hspec]
      · have hd' : d.encodes = false := by simpa using hd
        simp only [hd', Bool.false_eq_true, if_false, send_rsps, List.head?_cons, Option.some.injEq] at hx
        subst hx
        simp only [findResult]; rw [if_pos ⟨hcat, hd'⟩]; rfl
    | unknown => simp at hx
    | warning => simp at hx
    | success =>
      simp only [send_rsps, List.head?_cons, Option.some.injEq] at hx; subst hx
      simp only [findResult, hcat]; simp [documented, hst, hspec]
    | failure =>
      simp only [send_rsps, List.head?_cons, Option.some.injEq] at hx; subst hx
      simp only [findResult, hcat]; simp [documented, hst, hspec]
    | cancel =>
      simp only [send_rsps, List.head?_cons, Option.some.injEq] at hx; subst hx
      simp only [findResult, hcat]; simp [documented, hst, hspec]

/-- Violation: the Relevant Patient SCP catches `(StopIteration, TypeError)` around the handler
call — a handler that raises a TypeError is answered 0x0000 Success, not the documented 0xC311. -/
theorem C21_status_rp_typeerror_neg :
    (rpScp (tableNamed "RELEVANT_PATIENT_SERVICE_CLASS_STATUS") 3 7 (.gen [.raise true {}])).rsps.map (·.r.status)
      = [0x0000] ∧
    documented .find .raised = some 0xC311 := by
  exact ⟨by decide, rfl⟩

/-- The failure codes for what precedes the loops of `_get_scp` / `_move_scp` and for handlers
that raise when called. -/
theorem C21_status_retrieve_preloop (t : Table) (cx m : Nat) (te : Bool) (e : Ev) (rest : List Item) :
    (getScp t cx m (.fnRaise te e)).rsps.map (fun s => some s.r.status) = [documented .get .raised] ∧
    (moveScp t cx m (.fnRaise te e)).rsps.map (fun s => some s.r.status) = [documented .move .raised] ∧
    (findScp t cx m (.fnRaise te e)).rsps.map (fun s => some s.r.status) = [documented .find .raised] ∧
    (∀ v, asCount v = none →
      (getScp t cx m (.gen (.yield v e :: rest))).rsps.map (fun s => some s.r.status) = [documented .get .badCount]) ∧
    (∀ c : Int, c > 65535 →
      (getScp t cx m (.gen (.yield (.status (.int c)) e :: rest))).rsps.map (fun s => some s.r.status) =
        [documented .get .tooMany]) ∧
    (moveScp t cx m (.gen [])).rsps.map (fun s => some s.r.status) = [documented .move .noDestination] ∧
    (moveScp t cx m (.gen (.raise te e :: rest))).rsps.map (fun s => some s.r.status) =
      [documented .move .noDestination] ∧
    (∀ v, asDest v = .raises → e.hAbort = false →
      (moveScp t cx m (.gen (.yield v e :: rest))).rsps.map (fun s => some s.r.status) =
        [documented .move .badDestination]) ∧
    (∀ v, asDest v = .unknown → e.hAbort = false →
      (moveScp t cx m (.gen (.yield v e :: rest))).rsps.map (fun s => some s.r.status) =
        [documented .move .unknownDestination]) ∧
    (∀ v v2 e2 k, asDest v = .pass k → asCount v2 = none → e.hAbort = false →
      (moveScp t cx m (.gen (.yield v e :: .yield v2 e2 :: rest))).rsps.map (fun s => some s.r.status) =
        [documented .move .badCount]) := by
  refine ⟨rfl, rfl, rfl, ?_, ?_, rfl, rfl, ?_, ?_, ?_⟩
  · intro v hv; simp [getScp, hv, documented]
  · intro c hc
    have h1 : ¬ c < 1 := by omega
    simp [getScp, asCount, getCounted, h1, hc, documented]
  · intro v hv he; simp [moveScp, hv, St.apply, he, documented]
  · intro v hv he; simp [moveScp, hv, St.apply, he, documented]
  · intro v v2 e2 k hv hv2 he; simp [moveScp, hv, St.apply, he, moveAfterDest, hv2, documented]

/-! ### which elements of a status Dataset are copied -/

/-- `validate_status` on a Dataset with a Status, field by field: field `k` of the response gets
the value of the (last) element of keyword `k` iff the primitive has an attribute of that name;
every other field keeps its value. -/
theorem C21_copied_fields (p : Prim) (elems : List (Kw × Nat)) (r : Rsp) (k : Kw) (hk : k ≠ .other)
    (hs : hasStatus elems = true) :
    (validateStatus p (.ds elems) r).field k =
      match lastVal k elems with
      | some v => if hasAttr p k then some (v : Int) else r.field k
      | none => r.field k := by
  simp only [validateStatus, hs, if_true]
  exact copyElems_field p k hk elems r

/-- Every status-related element (Spec: PS3.7 Annex C) is copied, for every primitive … -/
theorem C21_optional_copied_partial :
    (∀ p ∈ Prim.all, ∀ k ∈ Kw.all, statusRelated p.toNat k.toNat = true → hasAttr p k = true) ∧
    -- … and the elements copied are EXACTLY the status-related ones plus: MessageIDBeingRespondedTo
    -- (every primitive), AffectedSOPClassUID (the C-* primitives), AffectedSOPInstanceUID (C-STORE)
    (∀ p ∈ Prim.all, ∀ k ∈ Kw.all, hasAttr p k =
      (statusRelated p.toNat k.toNat || k == Kw.msgIdResp ||
       (k == Kw.affClass && Nat.ble p.toNat 4) || (k == Kw.affInst && p == Prim.store))) ∧
    -- pynetdicom's own list of optional status keywords (used by its SCU) lies within the spec
    (∀ p ∈ Prim.all, ∀ k ∈ Kw.all, statusOptional p k = true → statusRelated p.toNat k.toNat = true) := by
  refine ⟨by decide, by decide, by decide⟩

/-- Violation: not ONLY the status-related elements are copied — MessageIDBeingRespondedTo of a
C-STORE handler's status Dataset overwrites the response's (see C20_ids_neg); likewise
AffectedSOPClassUID. -/
theorem C21_optional_copied_neg :
    hasAttr .store .msgIdResp = true ∧ statusRelated Prim.store.toNat Kw.msgIdResp.toNat = false ∧
    hasAttr .store .affClass = true ∧ statusRelated Prim.store.toNat Kw.affClass.toNat = false ∧
    ((statusOnlyScp .store 0xC211 3 7
        (.fnVal (.status (.ds [(.affClass, 5), (.msgIdResp, 9), (.status, 0)])) {})).rsps.map
      (fun s => (s.r.status, s.r.msgIdResp, s.r.affClass))) = [(0, 9, some 5)] := by
  decide

/-! ### when the handler's dataset is attached -/

/-- C-FIND: the identifier of a Pending result is attached exactly when it encodes;
N-*: the dataset is attached for a Success/Warning status of the table when it encodes. -/
theorem C21_dataset_attached (t : Table) (cx : Nat) (r : Rsp) (s : StatusVal) (d : DsVal) (o : Outcome)
    (hp : tableCat t (statusCode s) = some Category.pending) (hd : d.encodes = true) :
    findStep t cx true (some (.pair s d o)) r =
      .cont (send cx { validateStatus .find s r.clearIdent with ident := Ident.data })
        { validateStatus .find s r.clearIdent with ident := Ident.data } := by
  have hst : (validateStatus .find s r.clearIdent).status = statusCode s := validateStatus_status _ _ _
  simp [findStep, unpack, asPair, hst, hp, findKnown, hd]

/-! ### non-vacuity -/

example : documented .store (.status (.int 0xB007)) = some 0xB007 := rfl
example : documented .find (.status .dsWithout) = some 0xC001 := rfl
example : documented .echo (.status .wrongType) = some 0 := rfl
example : shapeOf (.ds [(.errorComment, 3), (.status, 0xA700)]) = .dsWith 0xA700 := rfl
example : (statusOnlyScp .store 0xC211 3 7 (.fnVal (.status (.ds [(.errorComment, 3), (.status, 0xA700)])) {})).rsps.map
    (fun s => (s.r.status, s.r.errorComment)) = [(0xA700, some 3)] := by decide

end PynetVerif
