import PynetVerif.Lemmas.ScpCounters
/-!
C22 — C-GET / C-MOVE sub-operation counters stay consistent.

All theorems are about `Scp.gmLoop`, the model of the `for` loop (plus the code
after it) shared by `_get_scp` and `_move_scp`, entered with `N` announced
sub-operations (`store_results = [N, 0, 0, 0]`), for EVERY list of generator
items (any yields, raises, returns, association events), every status table
`t` satisfying `RetrieveTable` (proved for the two real tables, regenerated from
status.py), every initial response primitive and association state.
`C22_get_enters_loop` / `C22_move_enters_loop` show that the modelled SCPs are
this loop exactly when a valid count was announced; `C22_sum_get/_move` restate the
first theorem for the whole SCPs and every handler.

The property's quantifier lists the sub-operation outcomes "success, warning,
failure, exception"; `Quantified` is that hypothesis.  The one further category
present in STORAGE_SERVICE_CLASS_STATUS — Cancel 0xFE00, which no conformant
Storage SCP sends — is outside it: `C22_sum_cancel_outcome_witness` records
that such a reply decrements `remaining` without incrementing any counter.
-/
namespace PynetVerif
open Scp
open Status (Category)

/-! ### C22_sum -/

/-- Every Pending response of the loop satisfies remaining + failed + warning + completed = N. -/
theorem C22_sum {t : Table} (ht : RetrieveTable t) (p : Prim) (cx n : Nat) (exc : Int) (items : List Item)
    (st : St) (r0 : Rsp) (hq : ∀ x ∈ stepVals items, Quantified x) :
    ∀ s ∈ (retrieveOut p t cx n exc items st r0).rsps, isPending t s = true →
      ∃ c, s.r.ctr? = some c ∧ c.rem + c.fail + c.warn + c.comp = n := by
  have key := gmLoop_induct p t cx n exc Quantified
    (fun g out => g.ctr.sum = n → ∀ s ∈ out.rsps, isPending t s = true → ∃ c, s.r.ctr? = some c ∧ c.sum = n)
    ?tail ?stop ?cont ?brk items hq st { ctr := { rem := n }, rsp := r0 }
  · intro s hs hp
    obtain ⟨c, h1, h2⟩ := key (by simp [Ctr.sum]) s hs hp
    exact ⟨c, h1, by simpa [Ctr.sum] using h2⟩
  case tail =>
    intro st g _ s hs hp
    rcases gmTail_rsps cx n st g with h | h <;> rw [h] at hs
    · cases hs
    · simp only [List.mem_singleton] at hs
      subst hs
      rw [isPending_iff] at hp
      simp only [gmFinal_status] at hp
      exact absurd hp (finalStatusSpec_not_pending ht _ _ _)
  case stop =>
    intro est v g o _ h _ s hs hp
    rcases gmStep_stop h with h | h | ⟨_, s', d, o', r, _, ho, hspec⟩
    · subst h; cases hs
    · subst h; cases hs
    · subst ho
      simp only [send_rsps, List.mem_singleton] at hs
      subst hs
      rw [isPending_iff] at hp
      exact absurd hp (stopSpec_not_pending ht hspec)
  case cont =>
    intro est v g o g' o' hv h ih hsum s hs hp
    obtain ⟨hrem, s', d, oc, hu, hcase⟩ := gmStep_cont h
    have hoc := unpack_quantified hv hu
    simp only [Out.append_rsps, List.mem_append] at hs
    rcases hcase with ⟨ho, hc, _⟩ | ⟨_, ⟨ho, hc, _⟩ | ⟨op, ho, hctr, _, _, heff⟩⟩
    · subst ho
      rcases hs with hs | hs
      · cases hs
      · exact ih (by rw [hc]; exact hsum) s hs hp
    · subst ho
      rcases hs with hs | hs
      · cases hs
      · exact ih (by rw [hc]; exact hsum) s hs hp
    · have hs' : g'.ctr.sum = n := by
        rw [effect_sum (g := g.clearIdent) (by simpa using hrem) hoc heff]; exact hsum
      rcases hs with hs | hs
      · subst ho
        simp only [List.mem_singleton] at hs
        subst hs
        exact ⟨g'.ctr, hctr, hs'⟩
      · exact ih hs' s hs hp
  case brk =>
    intro est v g g' st h _ s hs hp
    obtain ⟨_, hg⟩ := gmStep_brk h
    subst hg
    rcases gmTail_rsps cx n st g.clearIdent with h | h <;> rw [h] at hs
    · cases hs
    · simp only [List.mem_singleton] at hs
      subst hs
      rw [isPending_iff] at hp
      simp only [gmFinal_status] at hp
      exact absurd hp (finalStatusSpec_not_pending ht _ _ _)

/-! ### C22_monotone -/

/-- Over the Pending responses in the order sent, remaining never increases and failed,
warning, completed never decrease (any sub-operation outcomes, any behaviour). -/
theorem C22_monotone {t : Table} (ht : RetrieveTable t) (p : Prim) (cx n : Nat) (exc : Int) (items : List Item)
    (st : St) (r0 : Rsp) :
    ((retrieveOut p t cx n exc items st r0).rsps.filter (isPending t)).Pairwise Snap.later := by
  have key := gmLoop_induct p t cx n exc (fun _ => True)
    (fun g out => (∀ s ∈ out.rsps, isPending t s = true → ∃ c, s.r.ctr? = some c ∧ g.ctr.later c) ∧
      (out.rsps.filter (isPending t)).Pairwise Snap.later)
    ?tail ?stop ?cont ?brk items (fun _ _ => trivial) st { ctr := { rem := n }, rsp := r0 }
  · exact key.2
  case tail =>
    intro st g
    have hnp : ∀ s ∈ (gmTail cx n st g).rsps, isPending t s = false := by
      intro s hs
      rcases gmTail_rsps cx n st g with h | h <;> rw [h] at hs
      · cases hs
      · simp only [List.mem_singleton] at hs
        subst hs
        have := finalStatusSpec_not_pending ht n g.ctr.fail g.ctr.warn
        simp only [isPending, gmFinal_status]
        exact beq_eq_false_iff_ne.mpr this
    refine ⟨fun s hs hp => (by rw [hnp s hs] at hp; cases hp), ?_⟩
    rw [List.filter_eq_nil_iff.mpr (fun s hs => by simp [hnp s hs])]
    exact List.Pairwise.nil
  case stop =>
    intro est v g o _ h
    have hnp : ∀ s ∈ o.rsps, isPending t s = false := by
      intro s hs
      rcases gmStep_stop h with h | h | ⟨_, s', d, o', r, _, ho, hspec⟩
      · subst h; cases hs
      · subst h; cases hs
      · subst ho
        simp only [send_rsps, List.mem_singleton] at hs
        subst hs
        exact beq_eq_false_iff_ne.mpr (stopSpec_not_pending ht hspec)
    refine ⟨fun s hs hp => (by rw [hnp s hs] at hp; cases hp), ?_⟩
    rw [List.filter_eq_nil_iff.mpr (fun s hs => by simp [hnp s hs])]
    exact List.Pairwise.nil
  case cont =>
    intro est v g o g' o' _ h ih
    obtain ⟨hrem, s', d, oc, hu, hcase⟩ := gmStep_cont h
    have hnil : o = Out.nil → g'.ctr = g.ctr →
        (∀ s ∈ (o ++ o').rsps, isPending t s = true → ∃ c, s.r.ctr? = some c ∧ g.ctr.later c) ∧
        ((o ++ o').rsps.filter (isPending t)).Pairwise Snap.later := by
      intro ho hc
      subst ho
      rw [Out.nil_append, ← hc]
      exact ih
    rcases hcase with ⟨ho, hc, _⟩ | ⟨_, ⟨ho, hc, _⟩ | ⟨op, ho, hctr, _, _, heff⟩⟩
    · exact hnil ho hc
    · exact hnil ho hc
    · have hm := effect_mono heff
      simp only [clearIdent_ctr] at hm
      have hlater : g.ctr.later g'.ctr := ⟨hm.1, hm.2.1, hm.2.2.1, hm.2.2.2⟩
      have htrans : ∀ c, g'.ctr.later c → g.ctr.later c := by
        intro c hc
        exact ⟨Nat.le_trans hc.1 hlater.1, Nat.le_trans hlater.2.1 hc.2.1,
          Nat.le_trans hlater.2.2.1 hc.2.2.1, Nat.le_trans hlater.2.2.2 hc.2.2.2⟩
      constructor
      · intro s hs hp
        simp only [Out.append_rsps, List.mem_append] at hs
        rcases hs with hs | hs
        · subst ho
          simp only [List.mem_singleton] at hs
          subst hs
          exact ⟨g'.ctr, hctr, hlater⟩
        · obtain ⟨c, h1, h2⟩ := ih.1 s hs hp
          exact ⟨c, h1, htrans c h2⟩
      · simp only [Out.append_rsps, List.filter_append]
        rw [List.pairwise_append]
        refine ⟨?_, ih.2, ?_⟩
        · subst ho
          simp only [List.filter]
          split
          · exact List.pairwise_singleton _ _
          · exact List.Pairwise.nil
        · intro a ha b hb
          subst ho
          simp only [List.mem_filter, List.mem_singleton] at ha hb
          obtain ⟨ha, _⟩ := ha
          subst ha
          obtain ⟨c, h1, h2⟩ := ih.1 b hb.1 hb.2
          exact ⟨g'.ctr, c, hctr, h1, h2⟩
  case brk =>
    intro est v g g' st h
    obtain ⟨_, hg⟩ := gmStep_brk h
    subst hg
    have hnp : ∀ s ∈ (gmTail cx n st g.clearIdent).rsps, isPending t s = false := by
      intro s hs
      rcases gmTail_rsps cx n st g.clearIdent with h | h <;> rw [h] at hs
      · cases hs
      · simp only [List.mem_singleton] at hs
        subst hs
        have := finalStatusSpec_not_pending ht n g.clearIdent.ctr.fail g.clearIdent.ctr.warn
        simp only [isPending, gmFinal_status]
        exact beq_eq_false_iff_ne.mpr this
    refine ⟨fun s hs hp => (by rw [hnp s hs] at hp; cases hp), ?_⟩
    rw [List.filter_eq_nil_iff.mpr (fun s hs => by simp [hnp s hs])]
    exact List.Pairwise.nil

/-! ### C22_final_le -/

/-- Every non-Pending response with a status the table knows (the computed final response and
the handler's Cancel / Failure / Warning / Success finals) reports
completed + failed + warning ≤ N.  (A status unknown to the table is sent with whatever the
primitive held — see `C20`.) -/
theorem C22_final_le (t : Table) (p : Prim) (cx n : Nat) (exc : Int) (items : List Item)
    (st : St) (r0 : Rsp) :
    ∀ s ∈ (retrieveOut p t cx n exc items st r0).rsps, isPending t s = false →
      tableCat t s.r.status ≠ none →
      ∃ f w c, s.r.fail = some f ∧ s.r.warn = some w ∧ s.r.comp = some c ∧ c + f + w ≤ n := by
  have key := gmLoop_induct p t cx n exc (fun _ => True)
    (fun g out => g.ctr.sum ≤ n → ∀ s ∈ out.rsps, isPending t s = false → tableCat t s.r.status ≠ none →
      ∃ f w c, s.r.fail = some f ∧ s.r.warn = some w ∧ s.r.comp = some c ∧ c + f + w ≤ n)
    ?tail ?stop ?cont ?brk items (fun _ _ => trivial) st { ctr := { rem := n }, rsp := r0 }
  · exact key (by simp [Ctr.sum])
  case tail =>
    intro st g hsum s hs _ _
    rcases gmTail_rsps cx n st g with h | h <;> rw [h] at hs
    · cases hs
    · simp only [List.mem_singleton] at hs
      subst hs
      obtain ⟨h1, h2, h3⟩ := gmFinal_counters n g
      exact ⟨_, _, _, h1, h2, h3, by simp only [Ctr.sum] at hsum; omega⟩
  case stop =>
    intro est v g o _ h hsum s hs _ hk
    rcases gmStep_stop h with h | h | ⟨_, s', d, o', r, _, ho, hspec⟩
    · subst h; cases hs
    · subst h; cases hs
    · subst ho
      simp only [send_rsps, List.mem_singleton] at hs
      subst hs
      simp only [Ctr.sum] at hsum
      cases hspec with
      | unknown hc => exact absurd hc hk
      | cancel hc => exact ⟨_, _, _, rfl, rfl, rfl, by simp only [clearIdent_ctr]; omega⟩
      | failWarn hc => exact ⟨_, _, _, rfl, rfl, rfl, by simp only [clearIdent_ctr]; omega⟩
      | success hc =>
        obtain ⟨h1, h2, h3⟩ := gmSuccess_counters (validateStatus p s' g.clearIdent.rsp) g.clearIdent
        exact ⟨_, _, _, h1, h2, h3, by simp only [clearIdent_ctr]; omega⟩
  case cont =>
    intro est v g o g' o' _ h ih hsum s hs hp hk
    obtain ⟨hrem, s', d, oc, hu, hcase⟩ := gmStep_cont h
    simp only [Out.append_rsps, List.mem_append] at hs
    rcases hcase with ⟨ho, hc, _⟩ | ⟨hpend, ⟨ho, hc, _⟩ | ⟨op, ho, hctr, hst, _, heff⟩⟩
    · subst ho
      rcases hs with hs | hs
      · cases hs
      · exact ih (by rw [hc]; exact hsum) s hs hp hk
    · subst ho
      rcases hs with hs | hs
      · cases hs
      · exact ih (by rw [hc]; exact hsum) s hs hp hk
    · have hm := effect_mono heff
      simp only [clearIdent_ctr] at hm
      have hs' : g'.ctr.sum ≤ n :=
        Nat.le_trans (effect_sum_le (g := g.clearIdent) hrem heff) hsum
      rcases hs with hs | hs
      · subst ho
        simp only [List.mem_singleton] at hs
        subst hs
        exfalso
        have : isPending t ⟨cx, g'.rsp⟩ = true := by
          rw [isPending_iff]; show tableCat t g'.rsp.status = _; rw [hst]; exact hpend
        rw [this] at hp; cases hp
      · exact ih hs' s hs hp hk
  case brk =>
    intro est v g g' st h hsum s hs _ _
    obtain ⟨_, hg⟩ := gmStep_brk h
    subst hg
    rcases gmTail_rsps cx n st g.clearIdent with h | h <;> rw [h] at hs
    · cases hs
    · simp only [List.mem_singleton] at hs
      subst hs
      obtain ⟨h1, h2, h3⟩ := gmFinal_counters n g.clearIdent
      exact ⟨_, _, _, h1, h2, h3, by simp only [Ctr.sum, clearIdent_ctr] at hsum ⊢; omega⟩

/-! ### C22_failed_list -/

/-- Whenever a response carries a computed Failed SOP Instance UID List, the list is exactly
`failedSpec` of the sub-operations performed: the SOP Instance UIDs of the instances whose
C-STORE sub-operation failed (Failure status or exception), in order, with the empty UID for
every invalid (non-Dataset) object.  Only final responses carry such a list. -/
theorem C22_failed_list (p : Prim) (t : Table) (cx n : Nat) (exc : Int) (items : List Item)
    (st : St) (r0 : Rsp) :
    ∀ s ∈ (retrieveOut p t cx n exc items st r0).rsps, ∀ l, s.r.ident = Ident.failed l →
      l = failedSpec (retrieveOut p t cx n exc items st r0).subops := by
  have key := gmLoop_induct p t cx n exc (fun _ => True)
    (fun g out => ∀ pre, g.failed = failedSpec pre → ∀ s ∈ out.rsps, ∀ l, s.r.ident = Ident.failed l →
      l = failedSpec (pre ++ out.subops))
    ?tail ?stop ?cont ?brk items (fun _ _ => trivial) st { ctr := { rem := n }, rsp := r0 }
  · intro s hs l hl
    have := key [] rfl s hs l hl
    simpa [retrieveOut] using this
  case tail =>
    intro st g pre hf s hs l hl
    rw [gmTail_subops, List.append_nil, ← hf]
    rcases gmTail_rsps cx n st g with h | h <;> rw [h] at hs
    · cases hs
    · simp only [List.mem_singleton] at hs
      subst hs
      simp only [gmFinal_ident] at hl
      split at hl
      · cases hl
      · injection hl with hl; exact hl.symm
  case stop =>
    intro est v g o _ h pre hf s hs l hl
    rcases gmStep_stop h with h | h | ⟨_, s', d, o', r, _, ho, hspec⟩
    · subst h; cases hs
    · subst h; cases hs
    · subst ho
      simp only [send_rsps, List.mem_singleton] at hs
      subst hs
      simp only [send_subops, List.append_nil]
      rw [← hf]
      have hfi : ∀ l, finalIdent d g.failed = Ident.failed l → l = g.failed := by
        intro l h
        unfold finalIdent at h
        split at h
        · cases h
        · injection h with h; exact h.symm
      cases hspec with
      | unknown hc =>
        rw [validateStatus_ident] at hl
        cases hl
      | cancel hc => exact hfi l hl
      | failWarn hc => exact hfi l hl
      | success hc =>
        simp only [gmSuccess_ident] at hl
        split at hl
        · cases hl
        · injection hl with hl; exact hl.symm
  case cont =>
    intro est v g o g' o' _ h ih pre hf s hs l hl
    obtain ⟨hrem, s', d, oc, hu, hcase⟩ := gmStep_cont h
    simp only [Out.append_rsps, List.mem_append] at hs
    rcases hcase with ⟨ho, _, hfl⟩ | ⟨_, ⟨ho, _, hfl⟩ | ⟨op, ho, _, _, hid, heff⟩⟩
    · subst ho
      rcases hs with hs | hs
      · cases hs
      · simpa using ih pre (by rw [hfl]; exact hf) s hs l hl
    · subst ho
      rcases hs with hs | hs
      · cases hs
      · simpa using ih pre (by rw [hfl]; exact hf) s hs l hl
    · rcases hs with hs | hs
      · subst ho
        simp only [List.mem_singleton] at hs
        subst hs
        rw [hid] at hl; cases hl
      · have := ih (pre ++ [op]) (effect_failed heff (by simpa using hf)) s hs l hl
        subst ho
        simpa using this
  case brk =>
    intro est v g g' st h pre hf s hs l hl
    obtain ⟨_, hg⟩ := gmStep_brk h
    subst hg
    rw [gmTail_subops, List.append_nil]
    have hf' : g.failed = failedSpec pre := hf
    rw [← hf']
    rcases gmTail_rsps cx n st g.clearIdent with h | h <;> rw [h] at hs
    · cases hs
    · simp only [List.mem_singleton] at hs
      subst hs
      rw [gmFinal_clearIdent] at hl
      simp only [gmFinal_ident] at hl
      split at hl
      · cases hl
      · injection hl with hl; exact hl.symm

/-! ### C22_final_status -/

/-- Final status.  When the handler only yields Pending results (any datasets, any
sub-operation outcomes, any association events, any number of results) and optionally its own
final (Success, None), every non-Pending response of the loop — the final response computed when
the generator is exhausted, when it yields more than N results or when the peer's abort/release
request stops the iteration, or the response to the handler's Success — has status Success iff
failed = warning = 0, 0xA702 iff failed = N (and something failed), Warning 0xB000 otherwise,
where failed/warning are the counters reported in that response; it carries a data set (the
failed-UID list) iff the status is not Success.  (The handler's own Success is rewritten to
0xB000 when something failed or warned; it cannot meet failed = N because the loop `break`s
to the computed final as soon as remaining = 0.) -/
theorem C22_final_status {t : Table} (ht : RetrieveTable t) (p : Prim) (cx n : Nat) (exc : Int)
    (items : List Item) (st : St) (r0 : Rsp) (hq : ∀ x ∈ stepVals items, PendingOrSuccessYield t x) :
    ∀ s ∈ (retrieveOut p t cx n exc items st r0).rsps, isPending t s = false →
      ∃ f w, s.r.fail = some f ∧ s.r.warn = some w ∧ s.r.status = finalStatusSpec n f w ∧
        (s.r.ident = Ident.none ↔ f = 0 ∧ w = 0) := by
  have key := gmLoop_induct p t cx n exc (PendingOrSuccessYield t)
    (fun g out => g.ctr.sum ≤ n → ∀ s ∈ out.rsps, isPending t s = false →
      ∃ f w, s.r.fail = some f ∧ s.r.warn = some w ∧ s.r.status = finalStatusSpec n f w ∧
        (s.r.ident = Ident.none ↔ f = 0 ∧ w = 0))
    ?tail ?stop ?cont ?brk items hq st { ctr := { rem := n }, rsp := r0 }
  · exact key (by simp [Ctr.sum])
  case tail =>
    intro st g _ s hs _
    rcases gmTail_rsps cx n st g with h | h <;> rw [h] at hs
    · cases hs
    · simp only [List.mem_singleton] at hs
      subst hs
      obtain ⟨h1, h2, _⟩ := gmFinal_counters n g
      refine ⟨_, _, h1, h2, gmFinal_status n g, ?_⟩
      rw [gmFinal_ident]; split <;> simp_all
  case stop =>
    intro est v g o hv h hsum s hs _
    rcases gmStep_stop h with h | h | ⟨hrem, s', d, o', r, hu, ho, hspec⟩
    · subst h; cases hs
    · subst h; cases hs
    · subst ho
      simp only [send_rsps, List.mem_singleton] at hs
      subst hs
      obtain ⟨c, hc, hcat⟩ := pendingYield_unpack hv hu
      subst hc
      have hvs : (validateStatus p (StatusVal.int c) g.clearIdent.rsp).status = c := rfl
      cases hspec with
      | unknown hk => rw [hvs] at hk; rcases hcat with h | h <;> (rw [h] at hk; cases hk)
      | cancel hk => rw [hvs] at hk; rcases hcat with h | h <;> (rw [h] at hk; cases hk)
      | failWarn hk =>
        rw [hvs] at hk
        rcases hk with hk | hk <;> rcases hcat with h | h <;> (rw [h] at hk; cases hk)
      | success hk =>
        rw [hvs] at hk
        have hc0 : c = 0 := ht.successOnly c hk
        obtain ⟨h1, h2, _⟩ := gmSuccess_counters (validateStatus p (StatusVal.int c) g.clearIdent.rsp) g.clearIdent
        refine ⟨_, _, h1, h2, ?_, ?_⟩
        · rcases gmSuccess_spec (validateStatus p (StatusVal.int c) g.clearIdent.rsp) g.clearIdent n
              (by rw [hvs, hc0]) with hsp | ⟨hn, _⟩
          · exact hsp
          · exfalso
            have hn' : g.ctr.fail = n := hn
            simp only [Ctr.sum] at hsum
            omega
        · rw [gmSuccess_ident]; split <;> simp_all
  case cont =>
    intro est v g o g' o' _ h ih hsum s hs hp
    obtain ⟨hrem, s', d, oc, hu, hcase⟩ := gmStep_cont h
    simp only [Out.append_rsps, List.mem_append] at hs
    rcases hcase with ⟨ho, hc, _⟩ | ⟨hpend, ⟨ho, hc, _⟩ | ⟨op, ho, _, hst, _, heff⟩⟩
    · subst ho
      rcases hs with hs | hs
      · cases hs
      · exact ih (by rw [hc]; exact hsum) s hs hp
    · subst ho
      rcases hs with hs | hs
      · cases hs
      · exact ih (by rw [hc]; exact hsum) s hs hp
    · rcases hs with hs | hs
      · subst ho
        simp only [List.mem_singleton] at hs
        subst hs
        exfalso
        have : isPending t ⟨cx, g'.rsp⟩ = true := by
          rw [isPending_iff]; show tableCat t g'.rsp.status = _; rw [hst]; exact hpend
        rw [this] at hp; cases hp
      · exact ih (Nat.le_trans (effect_sum_le (g := g.clearIdent) hrem heff) hsum) s hs hp
  case brk =>
    intro est v g g' st h _ s hs _
    obtain ⟨_, hg⟩ := gmStep_brk h
    subst hg
    rcases gmTail_rsps cx n st g.clearIdent with h | h <;> rw [h] at hs
    · cases hs
    · simp only [List.mem_singleton] at hs
      subst hs
      rw [gmFinal_clearIdent]
      obtain ⟨h1, h2, _⟩ := gmFinal_counters n g
      refine ⟨_, _, h1, h2, gmFinal_status n g, ?_⟩
      rw [gmFinal_ident]; split <;> simp_all

/-- A final status the handler yields itself while sub-operations remain (loop body run on
`(c, d)`, association established) — Cancel: sent as is with the four counters as they stand. -/
theorem C22_explicit_cancel (p : Prim) (t : Table) (cx : Nat) (exc c : Int) (d : DsVal) (o : Outcome)
    (g : GmSt) (hrem : g.ctr.rem ≠ 0) (hcat : tableCat t c = some Category.cancel) :
    ∃ r, gmStep p t cx exc true (some (.pair (.int c) d o)) g = .stop (send cx r) ∧
      r.status = c ∧ r.ctr? = some g.ctr := by
  have hb : (g.ctr.rem == 0) = false := by simpa using hrem
  have hvs : (validateStatus p (StatusVal.int c) g.clearIdent.rsp).status = c := rfl
  refine ⟨{ (validateStatus p (StatusVal.int c) g.clearIdent.rsp).setCounters g.ctr with
            ident := finalIdent d g.failed }, ?_, rfl, by simp [Rsp.ctr?, Rsp.setCounters]⟩
  simp only [gmStep, unpack, asPair, hb, gmDispatch, hvs, hcat, gmKnown]; rfl

/-- … Failure or Warning: sent as is; the remaining sub-operations are added to failed (so
completed + failed + warning = N when the sum invariant holds); remaining is left as last reported. -/
theorem C22_explicit_failure_warning (p : Prim) (t : Table) (cx : Nat) (exc c : Int) (d : DsVal)
    (o : Outcome) (g : GmSt) (hrem : g.ctr.rem ≠ 0)
    (hcat : tableCat t c = some Category.failure ∨ tableCat t c = some Category.warning) :
    ∃ r, gmStep p t cx exc true (some (.pair (.int c) d o)) g = .stop (send cx r) ∧
      r.status = c ∧ r.fail = some (g.ctr.fail + g.ctr.rem) ∧ r.warn = some g.ctr.warn ∧
      r.comp = some g.ctr.comp ∧ r.rem = g.rsp.rem := by
  have hb : (g.ctr.rem == 0) = false := by simpa using hrem
  have hvs : (validateStatus p (StatusVal.int c) g.clearIdent.rsp).status = c := rfl
  refine ⟨{ validateStatus p (StatusVal.int c) g.clearIdent.rsp with
            fail := some (g.ctr.fail + g.ctr.rem), warn := some g.ctr.warn, comp := some g.ctr.comp,
            ident := finalIdent d g.failed }, ?_, rfl, rfl, rfl, rfl, rfl⟩
  rcases hcat with hcat | hcat <;>
    (simp only [gmStep, unpack, asPair, hb, gmDispatch, hvs, hcat, gmKnown]; rfl)

/-- … a status the table does not know: sent as is with whatever counters the primitive held. -/
theorem C22_explicit_unknown (p : Prim) (t : Table) (cx : Nat) (exc c : Int) (d : DsVal) (o : Outcome)
    (g : GmSt) (hrem : g.ctr.rem ≠ 0) (hcat : tableCat t c = none) :
    gmStep p t cx exc true (some (.pair (.int c) d o)) g =
      .stop (send cx { g.rsp with status := c, ident := Ident.none }) := by
  have hb : (g.ctr.rem == 0) = false := by simpa using hrem
  have hvs : (validateStatus p (StatusVal.int c) g.clearIdent.rsp).status = c := rfl
  simp only [gmStep, unpack, asPair, hb, gmDispatch, hvs, hcat]; rfl

/-! ### the SCPs are this loop -/

/-- `_get_scp` with a generator whose first value is a valid count `c` is the loop with N = c. -/
theorem C22_get_enters_loop (t : Table) (cx m c : Nat) (e : Ev) (rest : List Item)
    (h1 : 1 ≤ c) (h2 : c ≤ 65535) :
    getScp t cx m (.gen (.yield (.status (.int c)) e :: rest)) =
      retrieveOut .get t cx c 0xC411 rest (({} : St).apply e) { msgIdResp := m } := by
  have a : ¬ ((c : Int) < 1) := by omega
  have b : ¬ ((c : Int) > 65535) := by omega
  simp [getScp, asCount, getCounted, a, b, retrieveOut]

/-- `_move_scp` with a generator yielding a usable destination and then a valid count `c`
(the association staying established) is the loop with N = c. -/
theorem C22_move_enters_loop (t : Table) (cx m c : Nat) (e1 e2 : Ev) (rest : List Item)
    (h1 : 1 ≤ c) (h2 : c ≤ 65535) (ha1 : e1.hAbort = false) (ha2 : e2.hAbort = false) :
    moveScp t cx m (.gen (.yield (.dest .ok) e1 :: .yield (.status (.int c)) e2 :: rest)) =
      retrieveOut .move t cx c 0xC511 rest ((({} : St).apply e1).apply e2) { msgIdResp := m } := by
  have a : ¬ ((c : Int) < 1) := by omega
  have b : ¬ ((c : Int) > 65535) := by omega
  simp [moveScp, moveAfterDest, asDest, asCount, St.apply, ha1, ha2, a, b, retrieveOut]

/-! ### the whole SCPs, every handler -/

/-- `_get_scp`, any handler whatsoever: every Pending response carries four counters that add
up to the announced number of sub-operations. -/
theorem C22_sum_get {t : Table} (ht : RetrieveTable t) (cx m : Nat) (h : Handler)
    (hq : ∀ x ∈ stepVals (h.itemsFrom 1), Quantified x) :
    ∀ s ∈ (getScp t cx m h).rsps, isPending t s = true →
      ∃ n c, announcedGet h = some n ∧ s.r.ctr? = some c ∧ c.rem + c.fail + c.warn + c.comp = n := by
  have np : ∀ (c : Int) (r : Rsp) (s : Snap), c ≠ 0xFF00 → c ≠ 0xFF01 → r.status = c →
      s ∈ (send cx r).rsps → isPending t s = true → False := by
    intro c r s h1 h2 hr hs hp
    simp only [send_rsps, List.mem_singleton] at hs
    subst hs
    rw [isPending_iff] at hp
    simp only [hr] at hp
    exact not_pending_of ht h1 h2 hp
  intro s hs hp
  cases h with
  | fnRaise te e => exact (np 0xC411 _ s (by decide) (by decide) rfl hs hp).elim
  | fnNone e =>
    simp only [getScp] at hs; split at hs
    · cases hs
    · exact (np 0xC413 _ s (by decide) (by decide) rfl hs hp).elim
  | fnJunk e =>
    simp only [getScp] at hs; split at hs
    · cases hs
    · exact (np 0xC413 _ s (by decide) (by decide) rfl hs hp).elim
  | fnVal v e =>
    simp only [getScp] at hs; split at hs
    · cases hs
    · exact (np 0xC413 _ s (by decide) (by decide) rfl hs hp).elim
  | gen items =>
    cases items with
    | nil => exact (np 0xC413 _ s (by decide) (by decide) rfl hs hp).elim
    | cons it rest =>
      cases it with
      | ret e => exact (np 0xC413 _ s (by decide) (by decide) rfl hs hp).elim
      | raise te e => exact (np 0xC413 _ s (by decide) (by decide) rfl hs hp).elim
      | yield v e =>
        cases hv : asCount v with
        | none =>
          simp only [getScp, hv] at hs
          exact (np 0xC413 _ s (by decide) (by decide) rfl hs hp).elim
        | some c =>
          have hvv : v = .status (.int c) := by
            cases v with
            | status sv => cases sv with
              | int c' => simp only [asCount, Option.some.injEq] at hv; rw [hv]
              | ds _ => simp [asCount] at hv
              | bad => simp [asCount] at hv
            | pair _ _ _ => simp [asCount] at hv
            | dest _ => simp [asCount] at hv
            | junk => simp [asCount] at hv
          subst hvv
          simp only [getScp, asCount, getCounted] at hs
          split at hs
          · exact (np 0 _ s (by decide) (by decide) rfl hs hp).elim
          · split at hs
            · exact (np 0xC416 _ s (by decide) (by decide) rfl hs hp).elim
            · next h1 h2 =>
              obtain ⟨k, hk, hsum⟩ := C22_sum ht .get cx c.toNat 0xC411 rest (({} : St).apply e)
                { msgIdResp := m } (by simpa [Handler.itemsFrom] using hq) s hs hp
              refine ⟨c.toNat, k, ?_, hk, hsum⟩
              simp only [announcedGet]
              rw [if_pos ⟨by omega, by omega⟩]

/-- `_move_scp`, any handler whatsoever: every Pending response carries four counters that add
up to the announced number of sub-operations. -/
theorem C22_sum_move {t : Table} (ht : RetrieveTable t) (cx m : Nat) (h : Handler)
    (hq : ∀ x ∈ stepVals (h.itemsFrom 2), Quantified x) :
    ∀ s ∈ (moveScp t cx m h).rsps, isPending t s = true →
      ∃ n c, announcedMove h = some n ∧ s.r.ctr? = some c ∧ c.rem + c.fail + c.warn + c.comp = n := by
  have np : ∀ (c : Int) (r : Rsp) (s : Snap), c ≠ 0xFF00 → c ≠ 0xFF01 → r.status = c →
      s ∈ (send cx r).rsps → isPending t s = true → False := by
    intro c r s h1 h2 hr hs hp
    simp only [send_rsps, List.mem_singleton] at hs
    subst hs
    rw [isPending_iff] at hp
    simp only [hr] at hp
    exact not_pending_of ht h1 h2 hp
  intro s hs hp
  cases h with
  | fnRaise te e => exact (np 0xC511 _ s (by decide) (by decide) rfl hs hp).elim
  | fnNone e =>
    simp only [moveScp] at hs; split at hs
    · cases hs
    · exact (np 0xC514 _ s (by decide) (by decide) rfl hs hp).elim
  | fnJunk e =>
    simp only [moveScp] at hs; split at hs
    · cases hs
    · exact (np 0xC514 _ s (by decide) (by decide) rfl hs hp).elim
  | fnVal v e =>
    simp only [moveScp] at hs; split at hs
    · cases hs
    · exact (np 0xC514 _ s (by decide) (by decide) rfl hs hp).elim
  | gen items =>
    cases items with
    | nil => exact (np 0xC514 _ s (by decide) (by decide) rfl hs hp).elim
    | cons it rest =>
      cases it with
      | ret e => exact (np 0xC514 _ s (by decide) (by decide) rfl hs hp).elim
      | raise te e => exact (np 0xC514 _ s (by decide) (by decide) rfl hs hp).elim
      | yield v e =>
        simp only [moveScp] at hs
        split at hs
        · cases hs
        · split at hs
          · exact (np 0xC515 _ s (by decide) (by decide) rfl hs hp).elim
          · exact (np 0xA801 _ s (by decide) (by decide) rfl hs hp).elim
          · next k _ =>
            cases rest with
            | nil => exact (np 0xC513 _ s (by decide) (by decide) rfl hs hp).elim
            | cons it2 rest2 =>
              cases it2 with
              | ret e2 => exact (np 0xC513 _ s (by decide) (by decide) rfl hs hp).elim
              | raise te2 e2 => exact (np 0xC513 _ s (by decide) (by decide) rfl hs hp).elim
              | yield v2 e2 =>
                cases hv : asCount v2 with
                | none =>
                  simp only [moveAfterDest, hv] at hs
                  exact (np 0xC513 _ s (by decide) (by decide) rfl hs hp).elim
                | some c =>
                  have hvv : v2 = .status (.int c) := by
                    cases v2 with
                    | status sv => cases sv with
                      | int c' => simp only [asCount, Option.some.injEq] at hv; rw [hv]
                      | ds _ => simp [asCount] at hv
                      | bad => simp [asCount] at hv
                    | pair _ _ _ => simp [asCount] at hv
                    | dest _ => simp [asCount] at hv
                    | junk => simp [asCount] at hv
                  subst hvv
                  simp only [moveAfterDest, asCount] at hs
                  split at hs
                  · cases hs
                  · split at hs
                    · exact (np 0 _ s (by decide) (by decide) rfl hs hp).elim
                    · split at hs
                      · exact (np 0xC516 _ s (by decide) (by decide) rfl hs hp).elim
                      · next h1 h2 =>
                        cases k with
                        | raises => exact (np 0xC515 _ s (by decide) (by decide) rfl hs hp).elim
                        | refused => exact (np 0xA801 _ s (by decide) (by decide) rfl hs hp).elim
                        | unknown => exact (np 0xA801 _ s (by decide) (by decide) rfl hs hp).elim
                        | ok =>
                          obtain ⟨kk, hk, hsum⟩ := C22_sum ht .move cx c.toNat 0xC511 rest2 _
                            { msgIdResp := m } (by simpa [Handler.itemsFrom] using hq) s hs hp
                          refine ⟨c.toNat, kk, ?_, hk, hsum⟩
                          simp only [announcedMove]
                          rw [if_pos ⟨by omega, by omega⟩]

/-- the sub-operation whose (non-conformant) C-STORE reply has the Cancel status 0xFE00 — outside
the property's quantifier "success, warning, failure, exception" -/
def c22CancelOutcome : Handler :=
  .gen [.yield (.status (.int 2)) {},
        .yield (.pair (.int 0xFF00) (.ds (some 5) false none true true) .cancel) {}]

/-- Documented limit of the quantifier: a C-STORE sub-operation reply with the Cancel status
(the only category of STORAGE_SERVICE_CLASS_STATUS besides Success/Warning/Failure) decrements
remaining without incrementing any counter: N = 2, Pending response 1 + 0 + 0 + 0. -/
theorem C22_sum_cancel_outcome_witness :
    ∃ s ∈ (getScp (tableNamed "QR_GET_SERVICE_CLASS_STATUS") 3 7 c22CancelOutcome).rsps,
      isPending (tableNamed "QR_GET_SERVICE_CLASS_STATUS") s = true ∧
      announcedGet c22CancelOutcome = some 2 ∧
      s.r.ctr? = some { rem := 1, fail := 0, warn := 0, comp := 0 } := by
  refine ⟨⟨3, { status := 0xFF00, msgIdResp := 7, rem := some 1, fail := some 0, warn := some 0,
                comp := some 0 }⟩, ?_, ?_⟩
  · decide
  · decide

/-! ### the hypotheses are satisfiable, the model is not vacuous -/

example : RetrieveTable (tableNamed "QR_GET_SERVICE_CLASS_STATUS") := retrieveTable_get
example : RetrieveTable (tableNamed "QR_MOVE_SERVICE_CLASS_STATUS") := retrieveTable_move

/-- N = 3: success, failure (UID 2), invalid object; generator exhausted -/
def c22Example : List Item :=
  [.yield (.pair (.int 0xFF00) (.ds (some 1) false none true true) .success) {},
   .yield (.pair (.int 0xFF00) (.ds (some 2) false none true true) .failure) {},
   .yield (.pair (.int 0xFF00) .junkTruthy .success) {}]

example : ∀ x ∈ stepVals c22Example, Quantified x := by
  intro x hx
  simp only [c22Example, stepVals, List.mem_cons, List.not_mem_nil, or_false] at hx
  rcases hx with rfl | rfl | rfl <;> simp [Quantified]
example : ∀ x ∈ stepVals c22Example, PendingOrSuccessYield (tableNamed "QR_GET_SERVICE_CLASS_STATUS") x := by
  intro x hx
  simp only [c22Example, stepVals, List.mem_cons, List.not_mem_nil, or_false] at hx
  rcases hx with rfl | rfl | rfl <;> (left; decide)
example :
    ((retrieveOut .get (tableNamed "QR_GET_SERVICE_CLASS_STATUS") 3 3 0xC411 c22Example {} { msgIdResp := 7 }).rsps.map
      (fun s => (s.r.status, s.r.rem, s.r.fail, s.r.warn, s.r.comp, s.r.ident))) =
    [(0xFF00, some 2, some 0, some 0, some 1, Ident.none),
     (0xFF00, some 1, some 1, some 0, some 1, Ident.none),
     (0xFF00, some 0, some 2, some 0, some 1, Ident.none),
     (0xB000, some 0, some 2, some 0, some 1, Ident.failed [some 2, none])] := by rfl

end PynetVerif
