import PynetVerif.Model.Life
import PynetVerif.Gen.Life
/-!
C27, second half — "established happens at most once and before any released / aborted
notification" — for the association-level lifecycle model (`Model/Life.lean`), for **every**
interleaving of the association thread, a user thread calling `abort()` / `release()` and the
provider thread's exception path.

* `C27_life_est_order_partial` — with the re-check of `is_aborted` that the code has
  (`Cfg.guard`, regenerated from `acse.py`), on every schedule on which no *other thread* is inside
  `abort()` / `release()` between that re-check and the ESTABLISHED notification (`runOk`; calls
  made by notification handlers always satisfy it, they run on the association thread), the
  emitted history satisfies `History.estOrder`.
* `C27_life_unguarded_neg` — without the re-check (the code before its repair) a handler that
  aborts on the ACCEPTED notification gives ABORTED, then ESTABLISHED; both roles.
* `C27_life_window_neg` — the hypothesis `runOk` cannot be dropped: another thread calling
  `abort()` between the re-check and the notification still gives ABORTED before ESTABLISHED
  (recorded as a known finding; forced on the real code by the harness).
* `C27_life_code`, `C27_life_est_order_code` — the facts about `acse.py` / `association.py` the
  model was written from, regenerated on every run, and the ordering theorem instantiated with the
  regenerated re-check facts.
* `C27_life_flags`, `C27_life_done_not_established` — on the same schedules, without the provider's
  exception path, `is_established` is never true together with `is_aborted`, `is_released`,
  `is_rejected` or `_kill`, and it is false once the association thread has finished.
-/
namespace PynetVerif
open History Life

/-! #### `estOrder` processed from the left -/

/-- the (established seen, released/aborted seen) flags after a history -/
def estEnd : Bool → Bool → List Notif → Bool × Bool
  | e, t, [] => (e, t)
  | _, t, .established :: r => estEnd true t r
  | e, _, .released :: r => estEnd e true r
  | e, _, .aborted :: r => estEnd e true r
  | e, t, .connOpen :: r | e, t, .connClose :: r | e, t, .fsm _ _ _ :: r | e, t, .pduSent _ :: r
  | e, t, .pduRecv _ :: r | e, t, .dataSent _ :: r | e, t, .dataRecv _ :: r | e, t, .rejected :: r
  | e, t, .other :: r => estEnd e t r

def stepFlags (p : Bool × Bool) : Notif → Bool × Bool
  | .established => (true, p.2)
  | .released | .aborted => (p.1, true)
  | _ => p

def stepOk (p : Bool × Bool) : Notif → Bool
  | .established => !p.1 && !p.2
  | _ => true

theorem estEnd_append (l : List Notif) : ∀ (e t : Bool) (n : Notif),
    estEnd e t (l ++ [n]) = stepFlags (estEnd e t l) n := by
  induction l with
  | nil => intro e t n; cases n <;> rfl
  | cons x xs ih => intro e t n; cases x <;> simp [estEnd, ih]

theorem estOrder_append (l : List Notif) : ∀ (e t : Bool) (n : Notif),
    estOrder e t (l ++ [n]) = (estOrder e t l && stepOk (estEnd e t l) n) := by
  induction l with
  | nil => intro e t n; cases n <;> simp [estOrder, estEnd, stepOk]
  | cons x xs ih => intro e t n; cases x <;> simp [estOrder, estEnd, ih, Bool.and_assoc]

/-! #### the three summaries of a lifecycle history -/

def E (h : List N) : Bool := (estEnd false false (h.map N.toNotif)).1
def T (h : List N) : Bool := (estEnd false false (h.map N.toNotif)).2
def K (h : List N) : Bool := estOrder false false (h.map N.toNotif)

@[simp] theorem E_nil : E [] = false := rfl
@[simp] theorem T_nil : T [] = false := rfl
@[simp] theorem K_nil : K [] = true := rfl

@[simp] theorem E_snoc (h : List N) (n : N) : E (h ++ [n]) = (E h || n.isEst) := by
  unfold E; rw [List.map_append, List.map_singleton, estEnd_append]; cases n <;> simp [stepFlags, N.toNotif, N.isEst]
@[simp] theorem T_snoc (h : List N) (n : N) : T (h ++ [n]) = (T h || n.isTerm) := by
  unfold T; rw [List.map_append, List.map_singleton, estEnd_append]; cases n <;> simp [stepFlags, N.toNotif, N.isTerm]
@[simp] theorem K_snoc (h : List N) (n : N) :
    K (h ++ [n]) = (K h && (!n.isEst || (!E h && !T h))) := by
  unfold K E T; rw [List.map_append, List.map_singleton, estOrder_append]
  cases n <;> simp [stepOk, N.toNotif, N.isEst]

/-- the three summaries after a step's output -/
def sstep (p : Bool × Bool × Bool) (n : N) : Bool × Bool × Bool :=
  match p with
  | (e, t, k) => (e || n.isEst, t || n.isTerm, k && (!n.isEst || (!e && !t)))

def summ (h : List N) : Bool × Bool × Bool := (E h, T h, K h)

theorem summ_append (out : List N) : ∀ h : List N, summ (h ++ out) = out.foldl sstep (summ h) := by
  induction out with
  | nil => intro h; simp
  | cons x xs ih =>
    intro h
    have : h ++ x :: xs = (h ++ [x]) ++ xs := by simp
    rw [this, ih, List.foldl_cons]
    simp [summ, sstep]

/-! #### the invariant, as a Boolean function of the flags, the program counters and the summaries -/

def past : APc → Bool
  | .post | .loop | .done => true
  | _ => false
def window : APc → Bool
  | .setEst | .emitEst => true
  | _ => false
def imp (a b : Bool) : Bool := !a || b

/-- what holds of every state reachable on an admissible schedule of the repaired code
(`p` = (ESTABLISHED emitted, RELEASED/ABORTED emitted, order fine so far)) -/
def invB (k : Core) (p : Bool × Bool × Bool) : Bool :=
  match k, p with
  | ⟨est, rel, abt, _, _, _, a, u⟩, (e, t, ok) =>
    ok &&
    imp (t && !e) abt &&
    imp rel e &&
    imp u.isRelWait e &&
    imp u.inAbortTail abt &&
    imp est (a.isEmitEst || past a) &&
    imp (est && past a) e &&
    imp a.isLoop e &&
    imp e (past a) &&
    imp (window a) (!t && u.isIdle)

def Inv (s : St) : Prop := invB s.core (summ s.hist) = true

/-! quantifiers over the finite domains, with their specifications -/

def allB (f : Bool → Bool) : Bool := f false && f true
theorem allB_spec {f : Bool → Bool} (h : allB f = true) (b : Bool) : f b = true := by
  cases b <;> simp_all [allB]

def allA (f : APc → Bool) : Bool :=
  f .start && f .connecting && f .waitRsp && f .noCxAbort && f .afterRequested && f .negotiate &&
  f .guardPt && f .setEst && f .emitEst && f .post && f .loop && f .done
theorem allA_spec {f : APc → Bool} (h : allA f = true) (a : APc) : f a = true := by
  cases a <;> simp_all [allA]

def allU (f : UPc → Bool) : Bool := f .idle && f .abSend && f .abEmit && f .abKill && f .relWait
theorem allU_spec {f : UPc → Bool} (h : allU f = true) (u : UPc) : f u = true := by
  cases u <;> simp_all [allU]

def allE (f : Env → Bool) : Bool :=
  f .tick && f .timeout && f .reject && f .accept && f .acceptNoCx && f .invalid && f .peerAbort &&
  f .peerRelease && f .connectFail && f .dulDead && f .idleAbort && f .idleReleaseOk &&
  f .idleReleaseFail && f .noContexts
theorem allE_spec {f : Env → Bool} (h : allE f = true) (e : Env) : f e = true := by
  cases e <;> simp_all [allE]

def allOp (f : Op → Bool) : Bool :=
  allE (fun e => f (.a e)) && f .uAbort && f .uRelease && allE (fun e => f (.u e)) && f .dulCrash
theorem allOp_spec {f : Op → Bool} (h : allOp f = true) (op : Op) : f op = true := by
  simp only [allOp, Bool.and_eq_true] at h
  cases op with
  | a e => exact allE_spec h.1.1.1.1 e
  | uAbort => exact h.1.1.1.2
  | uRelease => exact h.1.1.2
  | u e => exact allE_spec h.1.2 e
  | dulCrash => exact h.2

def allCore (f : Core → Bool) : Bool :=
  allB fun est => allB fun rel => allB fun abt => allB fun rej => allB fun sa => allB fun kill =>
  allA fun a => allU fun u => f ⟨est, rel, abt, rej, sa, kill, a, u⟩
theorem allCore_spec {f : Core → Bool} (h : allCore f = true) (k : Core) : f k = true := by
  obtain ⟨est, rel, abt, rej, sa, kill, a, u⟩ := k
  exact allU_spec (allA_spec (allB_spec (allB_spec (allB_spec (allB_spec (allB_spec (allB_spec h est) rel) abt) rej) sa) kill) a) u

def allSum (f : Bool × Bool × Bool → Bool) : Bool := allB fun e => allB fun t => allB fun k => f (e, t, k)
theorem allSum_spec {f : Bool × Bool × Bool → Bool} (h : allSum f = true) (p : Bool × Bool × Bool) : f p = true := by
  obtain ⟨e, t, k⟩ := p
  exact allB_spec (allB_spec (allB_spec h e) t) k

/-- one step of an admissible schedule preserves the invariant: the whole finite table of
(flags, program counters, summaries, operation), both roles -/
def stepPreserves (acceptor : Bool) : Bool :=
  allCore fun k => allSum fun p => imp (invB k p) (allOp fun op => imp (opOk k op)
    (match stepK ⟨acceptor, true⟩ k op with
     | (k', out) => invB k' (out.foldl sstep p)))

theorem stepPreserves_holds : stepPreserves true = true ∧ stepPreserves false = true := by
  decide +kernel

theorem inv_init : Inv init := by unfold Inv; decide

theorem step_inv (c : Cfg) (hg : c.guard = true) (s : St) (op : Op) (h : Inv s)
    (hok : opOk s.core op = true) : Inv (step c s op) := by
  obtain ⟨acc, g⟩ := c
  simp only at hg
  subst hg
  have tbl : stepPreserves acc = true := by
    cases acc
    · exact stepPreserves_holds.2
    · exact stepPreserves_holds.1
  have h1 := allSum_spec (allCore_spec tbl s.core) (summ s.hist)
  simp only [imp, Inv] at h1 h
  rw [h] at h1
  have h2 := allOp_spec (by simpa using h1) op
  simp only [imp, hok] at h2
  simp only [Inv, step, summ_append]
  simpa using h2

theorem run_inv (c : Cfg) (hg : c.guard = true) : ∀ (ops : List Op) (s : St), Inv s →
    runOk c s ops = true → Inv (run c s ops) := by
  intro ops
  induction ops with
  | nil => intro s h _; exact h
  | cons op rest ih =>
    intro s h hok
    simp only [runOk, Bool.and_eq_true] at hok
    exact ih _ (step_inv c hg s op h hok.1) hok.2

/-- **C27 (lifecycle part, partial).** Every admissible schedule of the repaired code, either
role: ESTABLISHED at most once and before any RELEASED / ABORTED notification. -/
theorem C27_life_est_order_partial (c : Cfg) (hg : c.guard = true) (ops : List Op)
    (hok : runOk c init ops = true) :
    estOrder false false (run c init ops).notifs = true := by
  have h := run_inv c hg ops init inv_init hok
  simp only [Inv, invB, Bool.and_eq_true] at h
  exact h.1.1.1.1.1.1.1.1.1

/-! #### negations -/

/-- a handler that calls `abort()` on the ACCEPTED notification, acceptor side:
REQUESTED, ACCEPTED, [handler: the four steps of `abort()`], then the establishment -/
def handlerAbortAcc : List Op :=
  [.a .tick, .a .tick, .a .accept, .uAbort, .u .tick, .u .tick, .u .tick, .a .tick, .a .tick, .a .tick]
/-- the same on the requestor side -/
def handlerAbortReq : List Op :=
  [.a .tick, .a .tick, .a .accept, .uAbort, .u .tick, .u .tick, .u .tick, .a .tick, .a .tick, .a .tick]

/-- Without the re-check the handler-made abort is followed by ESTABLISHED (both roles), on a
schedule that satisfies `runOk`. -/
theorem C27_life_unguarded_neg :
    (runOk ⟨true, false⟩ init handlerAbortAcc = true ∧
      (run ⟨true, false⟩ init handlerAbortAcc).hist = [.requested, .accepted, .aborted, .established] ∧
      estOrder false false (run ⟨true, false⟩ init handlerAbortAcc).notifs = false) ∧
    (runOk ⟨false, false⟩ init handlerAbortReq = true ∧
      (run ⟨false, false⟩ init handlerAbortReq).hist = [.requested, .accepted, .aborted, .established] ∧
      estOrder false false (run ⟨false, false⟩ init handlerAbortReq).notifs = false) := by
  decide

/-- the same schedules on the repaired code: no ESTABLISHED -/
theorem C27_life_guarded_handler_abort :
    (run ⟨true, true⟩ init handlerAbortAcc).hist = [.requested, .accepted, .aborted] ∧
    (run ⟨false, true⟩ init handlerAbortReq).hist = [.requested, .accepted, .aborted] ∧
    (run ⟨true, true⟩ init handlerAbortAcc).core.est = false := by
  decide

/-- another thread enters `abort()` after the re-check: -/
def windowAbort : List Op :=
  [.a .tick, .a .tick, .a .accept, .a .tick, .uAbort, .u .tick, .u .tick, .u .tick, .a .tick, .a .tick]

/-- `runOk` cannot be dropped: with the re-check in place, an `abort()` from another thread between
the re-check and the notification still puts ABORTED before ESTABLISHED. -/
theorem C27_life_window_neg :
    runOk ⟨true, true⟩ init windowAbort = false ∧
    (run ⟨true, true⟩ init windowAbort).hist = [.requested, .accepted, .aborted, .established] ∧
    estOrder false false (run ⟨true, true⟩ init windowAbort).notifs = false := by
  decide

/-! #### non-vacuity: admissible schedules that establish, release, abort -/

example : runOk ⟨true, true⟩ init [.a .tick, .a .tick, .a .accept, .a .tick, .a .tick, .a .tick, .a .tick,
      .a .tick, .uRelease, .u .accept] = true ∧
    (run ⟨true, true⟩ init [.a .tick, .a .tick, .a .accept, .a .tick, .a .tick, .a .tick, .a .tick,
      .a .tick, .uRelease, .u .accept]).hist = [.requested, .accepted, .established, .released] := by
  decide

example : runOk ⟨false, true⟩ init [.a .tick, .a .tick, .a .accept, .a .tick, .a .tick, .a .tick, .a .tick,
      .uAbort, .a .peerAbort, .u .tick, .u .tick, .u .tick] = true ∧
    (run ⟨false, true⟩ init [.a .tick, .a .tick, .a .accept, .a .tick, .a .tick, .a .tick, .a .tick,
      .uAbort, .a .peerAbort, .u .tick, .u .tick, .u .tick]).hist =
      [.requested, .accepted, .established, .aborted, .aborted] := by
  decide

/-! #### the flags -/

def noCrash : List Op → Bool
  | [] => true
  | .dulCrash :: _ => false
  | _ :: r => noCrash r

/-- `is_established` excludes the three other outcome flags -/
def flagB (k : Core) : Bool :=
  match k with
  | ⟨est, rel, abt, rej, _, kill, a, u⟩ =>
    imp est (!abt && !rel && !rej && !kill) &&
    imp (match a with | .done => true | _ => false) (!est) &&
    imp a.isSetEst (!abt && !rel && !rej && u.isIdle) &&
    imp a.isEmitEst u.isIdle &&
    imp (rej || rel || u.isRelWait) (past a) &&
    imp kill (abt || rej || rel || past a)

def flagPreserves (acceptor : Bool) : Bool :=
  allCore fun k => allSum fun p => imp (invB k p && flagB k) (allOp fun op =>
    imp (opOk k op && !op.isCrash) (flagB (stepK ⟨acceptor, true⟩ k op).1))

theorem flagPreserves_holds : flagPreserves true = true ∧ flagPreserves false = true := by
  decide +kernel

theorem run_flagInv (c : Cfg) (hg : c.guard = true) : ∀ (ops : List Op) (s : St), Inv s →
    flagB s.core = true → runOk c s ops = true → noCrash ops = true → flagB (run c s ops).core = true := by
  intro ops
  induction ops with
  | nil => intro s _ h _ _; exact h
  | cons op rest ih =>
    intro s hi hf hok hnc
    simp only [runOk, Bool.and_eq_true] at hok
    have hne : (!op.isCrash) = true ∧ noCrash rest = true := by
      cases op <;> simp_all [noCrash, Op.isCrash]
    refine ih _ (step_inv c hg s op hi hok.1) ?_ hok.2 hne.2
    obtain ⟨acc, g⟩ := c
    simp only at hg
    subst hg
    have tbl : flagPreserves acc = true := by
      cases acc
      · exact flagPreserves_holds.2
      · exact flagPreserves_holds.1
    have h1 := allSum_spec (allCore_spec tbl s.core) (summ s.hist)
    simp only [Inv] at hi
    simp only [imp, hi, hf, Bool.and_self, Bool.not_true, Bool.false_or] at h1
    have h2 := allOp_spec h1 op
    simpa [imp, hok.1, hne.1, step] using h2

/-- **C27 (flags).** On every admissible schedule without the provider's exception path:
`is_established` is never true together with `is_aborted`, `is_released` or `is_rejected`. -/
theorem C27_life_flags (c : Cfg) (hg : c.guard = true) (ops : List Op)
    (hok : runOk c init ops = true) (hnc : noCrash ops = true) :
    (run c init ops).core.est = true →
      (run c init ops).core.abt = false ∧ (run c init ops).core.rel = false ∧
      (run c init ops).core.rej = false := by
  have h := run_flagInv c hg ops init inv_init (by decide) hok hnc
  intro he
  generalize (run c init ops).core = k at h he
  obtain ⟨est, rel, abt, rej, sa, kill, a, u⟩ := k
  simp only at he
  subst he
  cases abt <;> cases rel <;> cases rej <;> simp_all [flagB, imp]

/-- On the same schedules: once the association thread has finished, `is_established` is false
(no association is left "established" with nobody serving it), and an established association
has not been told to stop. -/
theorem C27_life_done_not_established (c : Cfg) (hg : c.guard = true) (ops : List Op)
    (hok : runOk c init ops = true) (hnc : noCrash ops = true) :
    ((run c init ops).core.a = .done → (run c init ops).core.est = false) ∧
    ((run c init ops).core.est = true → (run c init ops).core.kill = false) := by
  have h := run_flagInv c hg ops init inv_init (by decide) hok hnc
  generalize (run c init ops).core = k at h
  obtain ⟨est, rel, abt, rej, sa, kill, a, u⟩ := k
  constructor
  · intro ha
    simp only at ha
    subst ha
    cases est <;> simp_all [flagB, imp]
  · intro he
    simp only at he
    subst he
    cases kill <;> simp_all [flagB, imp]

/-- before the repair both flags were true at once after a handler-made abort -/
theorem C27_life_flags_unguarded_neg :
    (run ⟨true, false⟩ init handlerAbortAcc).core.est = true ∧
    (run ⟨true, false⟩ init handlerAbortAcc).core.abt = true := by
  decide


/-! #### the code facts (regenerated from the source by `translate/life.py`) -/

/-- The source has the shape the model was written from: both establishments re-check
`is_aborted` after the ACCEPTED notification and are followed at once by the ESTABLISHED
notification; nothing else sets `is_established` or triggers ESTABLISHED; `abort()` checks, marks,
sends (which sets the flags), notifies, kills - in that order; the acceptor negotiates after the
REQUESTED notification only if neither aborted nor rejected; the reactor answers a release request
only while established and `release()` does nothing unless established. -/
theorem C27_life_code :
    Gen.Life.acceptorGuard = true ∧ Gen.Life.requestorGuard = true ∧ Gen.Life.emitFollowsSet = true ∧
    Gen.Life.establishSites = [("acse", "_negotiate_as_acceptor"), ("acse", "_negotiate_as_requestor")] ∧
    Gen.Life.establishedTriggers = [("acse", "_negotiate_as_acceptor"), ("acse", "_negotiate_as_requestor")] ∧
    Gen.Life.abortShape =
      ["ifSent:return", "ifDone:return", "setSent", "sendAbort", "emitAborted", "ifNonBlocking:return", "kill"] ∧
    Gen.Life.sendAbortSetsFlags = true ∧
    Gen.Life.afterRequestedTest = "not self.is_aborted and (not self.is_rejected)" ∧
    Gen.Life.noContextBranch =
      ["self.send_abort(2)", "self.assoc.is_aborted = True", "self.assoc.is_established = False",
       "evt.trigger(self.assoc, evt.EVT_ABORTED, {})", "self.assoc.kill()"] ∧
    Gen.Life.reactorReleaseTest = "self.is_established and self.acse.is_release_requested()" ∧
    Gen.Life.releaseTest = "self.is_established" := by
  decide

/-- the configuration the regenerated facts describe -/
def codeCfg (acceptor : Bool) : Cfg :=
  ⟨acceptor, if acceptor then Gen.Life.acceptorGuard else Gen.Life.requestorGuard⟩

/-- **C27 (lifecycle part) for the code as it is now**: either role, every admissible schedule. -/
theorem C27_life_est_order_code (acceptor : Bool) (ops : List Op)
    (hok : runOk (codeCfg acceptor) init ops = true) :
    estOrder false false (run (codeCfg acceptor) init ops).notifs = true := by
  refine C27_life_est_order_partial (codeCfg acceptor) ?_ ops hok
  cases acceptor
  · exact C27_life_code.2.1
  · exact C27_life_code.1

end PynetVerif
