import PynetVerif.Props.C05Inv
import PynetVerif.Model.DulBoth
/-!
C05 (streaming part) — `C05_defined_partial` (Props/C05Inv.lean) holds for the generalised `runOk` of
`Model/DulAdmissible.lean`: besides primitives issued at quiescent points, the local user may *stream*
P-DATA requests in Sta6 (`streamOk`) — several `dul.send_pdu(P-DATA)` calls back to back, at any moment of
the reactor's iteration, with P-DATA requests still pending and PDUs of the peer arriving in between.

This file holds what surrounds that theorem:
* why `streamOk` carries the auxiliary condition `streamQ` on what the reactor has already queued
  (`C05_neg_stream_*`: without it the thread dies — the "stale view" race of `C05.lean` again, in its
  streaming form);
* non-vacuity: streamed schedules the new `runOk` admits and the old one did not;
* the invariant really is about "a primitive OR a PDU per iteration": a reactor that serves both sources in
  one iteration (`Model/DulBoth.lean`) dies on an admissible streamed schedule (`C05_neg_stream_both_sources`).
-/
namespace PynetVerif
open Fsm Dul

/-- association established on the acceptor side: Sta6, everything quiescent -/
def C05Stream.established : List Step :=
  [.a, .b, .env (.peer (.pdu 6 false)), .a, .b, .env (.local .accept), .a, .b]

open C05Stream

theorem C05_stream_established :
    runOk initAcceptor established = true ∧ (run initAcceptor established).fsm = 6 ∧
    quiescent (run initAcceptor established) = true := by decide

/-! ### the auxiliary condition `streamQ` is needed -/

/-- **Stale view, streaming form (invalid PDU).**  The peer's invalid PDU has been *read* by phase A
(Evt19 is queued, the provider is still in Sta6) when the local user streams a P-DATA request: phase B
runs AA-8 (→ Sta13), the next iteration dispatches Evt9 in Sta13, which has no table entry — the thread
dies.  The request satisfies every clause of `streamOk` except `streamQ`. -/
theorem C05_neg_stream_after_invalid_pdu_read :
    let pre := established ++ [.env (.peer .invalid), .a]
    let s := run initAcceptor pre
    runOk initAcceptor pre = true ∧
    s.fsm = 6 ∧ allPdata s.provQ = true ∧ s.eventQ = [19] ∧ streamQ s = false ∧
    stepOk s (.env (.local .pdata)) = false ∧
    (run s [.env (.local .pdata), .b, .a, .b]).dead = true ∧
    ((run s [.env (.local .pdata), .b, .a, .b]).log.head?.map (fun d => (d.evt, d.state, d.action))) =
      some (9, 13, none) := by decide

/-- the same with a P-DATA-TF PDU whose payload cannot be decoded (DT-2 queues Evt19 itself): this is why
`streamQ` asks for `headDecodable` when the event in progress is Evt10 -/
theorem C05_neg_stream_after_undecodable_pdata_read :
    let pre := established ++ [.env (.peer (.pdu 10 true)), .a]
    let s := run initAcceptor pre
    runOk initAcceptor pre = true ∧
    s.fsm = 6 ∧ allPdata s.provQ = true ∧ s.eventQ = [10] ∧ streamQ s = false ∧
    (run s [.env (.local .pdata), .b, .a, .b, .a, .b]).dead = true := by decide

/-- the same with an A-ASSOCIATE-AC PDU in Sta6 (AA-8); Evt4, Evt6 and Evt13 behave alike -/
theorem C05_neg_stream_after_unexpected_pdu_read :
    let pre := established ++ [.env (.peer (.pdu 3 false)), .a]
    let s := run initAcceptor pre
    runOk initAcceptor pre = true ∧
    s.fsm = 6 ∧ allPdata s.provQ = true ∧ s.eventQ = [3] ∧ streamQ s = false ∧
    (run s [.env (.local .pdata), .b, .a, .b]).dead = true := by decide

/-- …whereas the same PDUs are harmless as long as the reactor has not read them: a peer PDU of any kind
arriving while P-DATA requests are pending stays in the inbox until the provider queue has drained (local
primitives have priority), so the peer needs no restriction.  Here an invalid PDU arrives between two
streamed requests; both are sent, then AA-8 runs, and the schedule is admissible. -/
theorem C05_stream_invalid_pdu_unread :
    let sched := established ++ [.env (.local .pdata), .env (.peer .invalid), .env (.local .pdata),
      .a, .b, .a, .b, .a, .b]
    runOk initAcceptor sched = true ∧ (run initAcceptor sched).dead = false ∧
    (run initAcceptor sched).fsm = 13 ∧
    ((run initAcceptor sched).log.map (·.evt)).reverse = [5, 6, 7, 9, 9, 19] := by decide

/-! ### non-vacuity -/

-- three P-DATA requests queued back to back while two more P-DATA-TF PDUs of the peer arrive in between
-- and the reactor is between phase A and phase B of an iteration (it has just read a first PDU); the
-- three requests are sent first (primitives have priority), then the two PDUs are read
example : let sched : List Step := established ++
      [.env (.peer (.pdu 10 false)), .a,
       .env (.local .pdata), .env (.peer (.pdu 10 false)), .env (.local .pdata),
       .env (.peer (.pdu 10 false)), .env (.local .pdata),
       .b, .a, .b, .a, .b, .a, .b, .a, .b, .a, .b]
    runOk initAcceptor sched = true ∧ (run initAcceptor sched).dead = false ∧
    (run initAcceptor sched).fsm = 6 ∧ (run initAcceptor sched).provQ = [] ∧
    (run initAcceptor sched).inbox = [] ∧
    ((run initAcceptor sched).log.map (·.evt)).reverse = [5, 6, 7, 10, 9, 9, 9, 10, 10] := by decide

-- the state in which the second and third request are issued is not quiescent: the old `stepOk` (the
-- `quiescentOk` disjunct alone) rejects them
example : let s := run initAcceptor (established ++ [.env (.peer (.pdu 10 false)), .a, .env (.local .pdata)])
    s.phaseB = true ∧ s.eventQ = [10] ∧ s.provQ = [.pdata] ∧
    quiescentOk s .pdata = false ∧ streamOk s .pdata = true := by decide

-- the peer's A-RELEASE-RQ arrives while P-DATA requests are pending: they are sent in Sta6 (DT-1), then
-- the release request is read (AR-2, Sta8); a request streamed while Evt12 is the event in progress is
-- sent in Sta8 (AR-7); then the release response, and the peer closes
example : let sched : List Step := established ++
      [.env (.local .pdata), .env (.peer (.pdu 12 false)), .env (.local .pdata), .a, .b, .a, .b,
       .a, .env (.local .pdata), .env (.local .pdata), .b, .a, .b, .a, .b,
       .env (.local .releaseRp), .a, .b, .env (.peer .eof), .a, .b]
    runOk initAcceptor sched = true ∧ (run initAcceptor sched).dead = false ∧
    (run initAcceptor sched).fsm = 1 ∧ (run initAcceptor sched).kill = true ∧
    ((run initAcceptor sched).log.map (fun d => (d.evt, d.state))).reverse =
      [(5, 1), (6, 2), (7, 3), (9, 6), (9, 6), (12, 6), (9, 8), (9, 8), (14, 8), (17, 13)] := by decide

-- requestor side, a send failure in the middle of a stream: DT-1 queues Evt17, further requests are still
-- streamed (terminator-led event queue), AA-4 stops the reactor with requests left over
example : let sched : List Step :=
      [.env (.local .assocRq), .a, .b, .a, .b, .env (.peer (.pdu 3 false)), .a, .b,
       .env (.local .pdata), .env (.local .pdata), .env .breakConn, .a, .b,
       .env (.local .pdata), .a, .env (.local .pdata), .b, .a, .b]
    runOk initRequestor sched = true ∧ (run initRequestor sched).dead = false ∧
    (run initRequestor sched).kill = true ∧ (run initRequestor sched).fsm = 1 ∧
    (run initRequestor sched).provQ = [.pdata, .pdata, .pdata] := by decide

/-! ### the invariant is about "a primitive OR a PDU per iteration" -/

set_option maxRecDepth 4096 in
/-- **A reactor that serves both event sources in one iteration dies on an admissible streamed
schedule.**  `stepBoth` (Model/DulBoth.lean) is `Dul.step` except that phase A peeks the provider queue
AND reads the transport.  Three streamed P-DATA requests with two P-DATA-TF PDUs of the peer in the inbox:
every iteration then queues up to two events but dispatches one, phase A keeps peeking the *same* pending
request, so more Evt9 are queued than there are requests; when the provider queue has drained a surplus
Evt9 is dispatched and DT-1's `to_provider_queue.get(False)` raises `queue.Empty` — the thread dies.  The
schedule satisfies the hypothesis of `C05_defined_partial`, and the real reactor (`Dul.step`) survives it. -/
theorem C05_neg_stream_both_sources :
    let sched : List Step := established ++
      [.env (.local .pdata), .env (.local .pdata), .env (.local .pdata),
       .env (.peer (.pdu 10 false)), .env (.peer (.pdu 10 false)),
       .a, .b, .a, .b, .a, .b, .a, .b, .a, .b, .a, .b, .a, .b]
    runOk initAcceptor sched = true ∧
    (run initAcceptor sched).dead = false ∧
    ((run initAcceptor sched).log.map (·.evt)).reverse = [5, 6, 7, 9, 9, 9, 10, 10] ∧
    (runBoth initAcceptor sched).dead = true ∧
    ((runBoth initAcceptor sched).log.head?.map (fun d => (d.evt, d.state, d.action, d.ok))) =
      some (9, 6, some .DT_1, false) ∧
    (runBoth initAcceptor sched).provQ = [] := by decide

/-- outside streaming the two reactors agree on that prefix: the difference is exactly the iteration in
which a primitive is pending and the transport is readable -/
theorem C05_stream_both_agree_when_one_source :
    let sched : List Step := established ++
      [.env (.local .pdata), .a, .b, .env (.peer (.pdu 10 false)), .a, .b, .env (.local .pdata), .a, .b]
    (runBoth initAcceptor sched).log = (run initAcceptor sched).log ∧
    (runBoth initAcceptor sched).dead = false := by decide

end PynetVerif
