import PynetVerif.Model.Ctx
import PynetVerif.Gen.Glue
import PynetVerif.Lemmas.Ctx
import PynetVerif.Props.C18
import PynetVerif.Gen.Dimse
/-!
C19 — requests on presentation contexts that were not accepted never reach a
handler.

Model: `Model/Ctx.lean` (`serveRequest` = `Association._serve_request`,
`cStoreScp` = `Association._c_store_scp`), tied to the code by
`harness/props/c19.py` (all 256 ids × 11 request kinds in-process; loopback
C-GET with C-STORE sub-operations on accepted and unaccepted ids).
-/
namespace PynetVerif
open Ctx

/-- **Acceptor path.**  A request whose context id is not the id of an accepted
context triggers no handler and no response, for every id, request kind, service
class, accepted set and state of the release/validity flags; and unless it is
dropped before the lookup (release already sent, or not a valid request) the
association is aborted. -/
theorem C19_no_handler (sentRelease validReq : Bool) (acc : List Cx) (ctxId : Nat)
    (svc : Svc) (k : Kind) (supported : Bool) (h : ctxId ∉ ids acc) :
    let o := serveRequest sentRelease validReq acc ctxId svc k supported
    o.handlerCalls = [] ∧ o.responses = [] ∧
      (sentRelease = false → validReq = true → o = .aborted) := by
  have hl := (lookup_none_iff acc ctxId).mpr h
  cases sentRelease <;> cases validReq <;>
    simp [serveRequest, hl, Outcome.handlerCalls, Outcome.responses]

/-- the outcome on an unaccepted id does not depend on what the request is -/
theorem C19_uniform (acc : List Cx) (ctxId : Nat) (h : ctxId ∉ ids acc)
    (svc svc' : Svc) (k k' : Kind) (s s' : Bool) :
    serveRequest false true acc ctxId svc k s = .aborted ∧
    serveRequest false true acc ctxId svc k s = serveRequest false true acc ctxId svc' k' s' := by
  have hl := (lookup_none_iff acc ctxId).mpr h
  simp [serveRequest, hl]

/-- a handler that is called sees the accepted context with the request's id, and
the response goes on that id -/
theorem C19_dispatch_context (sentRelease validReq : Bool) (acc : List Cx) (ctxId : Nat)
    (svc : Svc) (k : Kind) (supported : Bool) (h : Kind) (n : Nat)
    (hc : (h, n) ∈ (serveRequest sentRelease validReq acc ctxId svc k supported).handlerCalls) :
    n = ctxId ∧ ctxId ∈ ids acc ∧ scpDispatch svc k supported = some h ∧
      (serveRequest sentRelease validReq acc ctxId svc k supported).responses = [ctxId] := by
  unfold serveRequest at hc ⊢
  cases sentRelease <;> cases validReq <;> simp [Outcome.handlerCalls] at hc
  cases hl : lookup acc ctxId with
  | none => simp [hl] at hc
  | some c =>
    obtain ⟨hm, hid⟩ := lookup_some hl
    cases hd : scpDispatch svc k supported with
    | none => simp [hl, hd] at hc
    | some h' =>
      simp only [hl, hd, List.mem_singleton, Prod.mk.injEq] at hc
      obtain ⟨h1, h2⟩ := hc
      subst h1 h2
      refine ⟨hid, ?_, rfl, ?_⟩
      · exact hid ▸ List.mem_map.mpr ⟨c, hm, rfl⟩
      · simp [Outcome.responses, hid]

/-- service classes that check the message type route a request only to the
handler of its own kind -/
theorem C19_dispatch_kind (svc : Svc) (k h : Kind) (s : Bool)
    (hs : svc ≠ .verification ∧ svc ≠ .storage ∧ svc ≠ .relevantPatient)
    (hd : scpDispatch svc k s = some h) : h = k := by
  obtain ⟨h1, h2, h3⟩ := hs
  cases svc <;> cases k <;> cases s <;> simp_all [scpDispatch]

/-! ### C-STORE sub-operations received by a C-GET SCU (`_c_store_scp`) -/

/-- **the property for sub-operations.**  With the test the code now makes first
(`Gen.Glue.subStoreRejectsUnaccepted`), a C-STORE request on a context id that was not accepted -
rejected, never proposed, even, 0 - reaches no handler, gets no response, and aborts the
association, exactly as `_serve_request` treats every other request. -/
theorem C19_substore (acc : List Cx) (reqCtx ab : Nat) (h : reqCtx ∉ ids acc) :
    (cStoreScp true acc reqCtx ab).handler = none ∧ (cStoreScp true acc reqCtx ab).rspCtx = none ∧
      (cStoreScp true acc reqCtx ab).refused = false ∧ (cStoreScp true acc reqCtx ab).aborted = true := by
  simp [cStoreScp, h]

/-- the source fact the theorem above rests on, regenerated from association.py on every run -/
theorem C19_substore_code : Gen.Glue.subStoreRejectsUnaccepted = true := by decide

/-- the same for the code as it is now -/
theorem C19_substore_as_coded (acc : List Cx) (reqCtx ab : Nat) (h : reqCtx ∉ ids acc) :
    (cStoreScp Gen.Glue.subStoreRejectsUnaccepted acc reqCtx ab).handler = none ∧
      (cStoreScp Gen.Glue.subStoreRejectsUnaccepted acc reqCtx ab).rspCtx = none ∧
      (cStoreScp Gen.Glue.subStoreRejectsUnaccepted acc reqCtx ab).aborted = true := by
  rw [C19_substore_code]
  exact ⟨(C19_substore acc reqCtx ab h).1, (C19_substore acc reqCtx ab h).2.1, (C19_substore acc reqCtx ab h).2.2.2⟩

/-- the repaired defect: without that test, context 1 alone accepted, a C-STORE request on
context 3 (never proposed) was handed to the `EVT_C_STORE` handler with context 1 by the
`KeyError` fallback of `_get_valid_context` -/
theorem C19_substore_unguarded_neg :
    ∃ (acc : List Cx) (reqCtx ab : Nat), reqCtx ∉ ids acc ∧
      (cStoreScp false acc reqCtx ab).handler ≠ none :=
  ⟨[⟨1, 10, ⟨20, true, false, true⟩, false, true⟩], 3, 10, by decide⟩

/-- and *every* sub-operation request on an unaccepted id was answered, none aborted the
association (either the handler's status or 0x0122 on context 1) -/
theorem C19_substore_unguarded_answered_neg (acc : List Cx) (reqCtx ab : Nat) (_h : reqCtx ∉ ids acc) :
    (cStoreScp false acc reqCtx ab).aborted = false ∧ (cStoreScp false acc reqCtx ab).rspCtx ≠ none := by
  unfold cStoreScp
  cases getValidContext acc ab none (some .scp) (some reqCtx) true <;> simp

/-- on an accepted id the handler only ever sees that very context (or, for UPS Push only, the
substituted one), with or without the test -/
theorem C19_substore_accepted_id (g : Bool) (acc : List Cx) (reqCtx ab : Nat) (c c' : Cx)
    (hk : lookup acc reqCtx = some c') (h : (cStoreScp g acc reqCtx ab).handler = some c)
    (hab : ab ≠ upsPush) : c = c' := by
  unfold cStoreScp at h
  split at h
  · simp at h
  · cases hg : getValidContext acc ab none (some .scp) (some reqCtx) true with
    | none => rw [hg] at h; simp at h
    | some c'' =>
      rw [hg] at h
      simp only [Option.some.injEq] at h
      subst h
      exact C18_context_id_respected _ _ _ _ _ _ _ _ hg hk (Or.inr hab)

-- non-vacuity
example :
    let le : Ts := ⟨20, true, false, true⟩
    let acc : List Cx := [⟨1, verification, le, false, true⟩, ⟨3, 10, le, false, true⟩, ⟨5, 30, le, false, true⟩]
    (7 ∉ ids acc) ∧ (2 ∉ ids acc) ∧
    serveRequest false true acc 3 .storage .cStore false = .dispatched .cStore ⟨3, 10, le, false, true⟩ ∧
    serveRequest false true acc 7 .storage .cStore false = .aborted ∧
    serveRequest false true acc 5 .qr .cFind true = .dispatched .cFind ⟨5, 30, le, false, true⟩ ∧
    serveRequest false true acc 5 .qr .cStore true = .aborted ∧
    serveRequest true true acc 7 .storage .cStore false = .ignored ∧
    (∀ c ∈ acc, ¬ (AbOk 11 c ∧ c.asScp = true)) := by
  intro le acc; decide

/-- the `ctxId` the theorems above quantify over is the id of the PDV that carried the last
command-set fragment (`DIMSEMessage.context_id`, set by `decode_msg`): that, and not the id of a
later PDV of the same P-DATA, is what `receive_primitive` files the message under (syntax fact
regenerated from dimse.py on every run; the harness sends messages with mixed ids) -/
theorem C19_routes_by_command_context : Gen.Dimse.recvContextSource = "message.context_id" := by decide

/-- `_c_store_scp` looks the context of a C-STORE sub-operation up by the id the request arrived on
(`context_id=req._context_id`), not by SOP class alone (regenerated from association.py) -/
theorem C19_substore_lookup_by_request_id : Gen.Glue.subStoreById = true := by decide

end PynetVerif
