import PynetVerif.Model.Pause
import PynetVerif.Gen.Pause
/-!
C06 (pause handshake) — the reactor never runs its iteration body while a user thread that has
passed the pause check is exchanging messages itself.

Without this, `release()` (or a `send_*`) and the reactor both consume the peer's messages: the
reactor answers the peer's A-RELEASE-RQ and reports *released* while `negotiate_release()` in the
user thread times out and reports *aborted* — one side with two terminal outcomes.  (Observed on the
real code, reproduced deterministically, repaired: known_findings.json.)
-/
namespace PynetVerif
open Pause

namespace PauseL

/-- inductive invariant of the repaired handshake -/
def Inv (s : St) : Bool :=
  (s.paused == (s.r == .wait || s.r == .clrP)) &&
  (s.chk == (s.u == .idle)) &&
  !(s.r == .body && s.u == .crit) &&
  -- the reactor re-checks only what a user that is messaging has cleared
  !(s.r == .recheck && s.u == .crit && s.chk)

theorem mem_allStates (s : St) : s ∈ allStates := by
  obtain ⟨r, u, p, c⟩ := s
  cases r <;> cases u <;> cases p <;> cases c <;> decide

theorem inv_step_all : ∀ s ∈ allStates, Inv s = true → ∀ w ∈ [Who.reactor, Who.user], Inv (step true s w) = true := by
  decide

theorem inv_step (s : St) (w : Who) (h : Inv s = true) : Inv (step true s w) = true :=
  inv_step_all s (mem_allStates s) h w (by cases w <;> decide)

theorem inv_run (sched : List Who) : ∀ s, Inv s = true → Inv (run true s sched) = true := by
  induction sched with
  | nil => intro s h; exact h
  | cons w rest ih => intro s h; exact ih _ (inv_step s w h)

end PauseL

/-- **Mutual exclusion, every interleaving, any number of iterations and user calls**: with the
re-check after resetting the paused flag, the reactor's iteration body and a user's messaging
section never overlap. -/
theorem C06_pause_mutex (sched : List Who) : overlap (run true init sched) = false := by
  have h := PauseL.inv_run sched init (by decide)
  simp only [PauseL.Inv, Bool.and_eq_true, Bool.not_eq_true'] at h
  exact h.1.2

/-- …and nobody waits for ever: in every reachable state at least one of the two threads can make a
step that changes the state (the reactor blocks only while a user is spinning or messaging, and a
user spins only until the reactor reaches its checkpoint). -/
theorem C06_pause_no_deadlock (sched : List Who) :
    let s := run true init sched
    step true s .reactor ≠ s ∨ step true s .user ≠ s := by
  intro s
  have h := PauseL.inv_run sched init (by decide)
  have key : ∀ t ∈ allStates, PauseL.Inv t = true → (step true t .reactor ≠ t ∨ step true t .user ≠ t) := by decide
  exact key s (PauseL.mem_allStates s) h

/-- a user that has entered its messaging section got there with the reactor parked at, or on its
way back to, the checkpoint — never in the body -/
theorem C06_pause_user_enters_safely (sched : List Who) :
    let s := run true init sched
    s.u = .crit → s.r ≠ .body := by
  intro s hu hr
  have := C06_pause_mutex sched
  simp [overlap, hu, hr, s] at this

/-- the repaired defect, for the record: without the re-check the reactor leaves the checkpoint on a
stale wake-up and runs its body while the user is messaging — five steps suffice -/
theorem C06_pause_stale_flag_neg :
    overlap (run false init [.reactor, .reactor, .user, .user, .reactor]) = true := by decide

/-- the same five steps are harmless with the re-check: the reactor goes back to the checkpoint -/
example : (run true init [.reactor, .reactor, .user, .user, .reactor, .reactor]).r = .setP ∧
    overlap (run true init [.reactor, .reactor, .user, .user, .reactor, .reactor]) = false := by decide

/-- the source has the repaired shape: `_run_reactor` re-checks the checkpoint after resetting the
flag, and every method that clears the checkpoint then spins on `_is_paused` before messaging
(syntax facts regenerated from association.py on every run) -/
theorem C06_pause_code :
    Gen.Pause.reactorShape = "recheck" ∧ Gen.Pause.userSites.all (·.2) = true ∧
    Gen.Pause.userSites.length ≥ 12 := by decide

end PynetVerif
