import PynetVerif.Model.Outcome
import PynetVerif.Props.C27
/-!
C06 — both peers agree on how an association ended, and it always ends.

partial.  `Outcome.verdict` is the executable statement of "consistent outcomes, exactly one
terminal outcome per side, terminal event fired once"; every pair of histories recorded from real
two-AE scenarios is judged by it through the driver.  What is proved here are the logical facts
about that statement and, for the reactor model (validated in lockstep against the real reactor),
the facts the agreement rests on at the provider level: a provider that is back in Sta1 has its
kill flag set and has notified connection-close exactly once, for every schedule.  The two-sided
product model (two reactors, two association controllers, two channels) is not yet built: the
agreement itself is validated on real runs, not proved.
-/
namespace PynetVerif
open Outcome History Dul

/-- agreement is symmetric in the two sides -/
theorem C06_consistent_symm (x y : Final) : consistent x y = consistent y x := by
  cases x <;> cases y <;> rfl

/-- consistent outcomes are equal outcomes (an abort on one side is an abort on the other) -/
theorem C06_consistent_iff_eq (x y : Final) : consistent x y = true ↔ x = y := by
  cases x <;> cases y <;> simp [consistent]

/-- a side with exactly one terminal outcome has exactly one terminal flag and is no longer established -/
theorem C06_final_exactly_one (s : Side) (f : Final) (h : s.final = some f) :
    s.established = false ∧
    ((s.released = true ∧ s.aborted = false ∧ s.rejected = false ∧ f = .released) ∨
     (s.released = false ∧ s.aborted = true ∧ s.rejected = false ∧ f = .aborted) ∨
     (s.released = false ∧ s.aborted = false ∧ s.rejected = true ∧ f = .rejected)) := by
  obtain ⟨e, r, a, j, hist⟩ := s
  cases e <;> cases r <;> cases a <;> cases j <;> simp [Side.final] at h ⊢ <;> exact h.symm

/-- the verdict is "ok" only if both sides have one terminal outcome, the outcomes agree and each
terminal event fired exactly once -/
theorem C06_verdict_ok (a b : Side) (h : Outcome.verdict a b = "ok") :
    ∃ x y, a.final = some x ∧ b.final = some y ∧ consistent x y = true ∧
      a.eventsOnce = true ∧ b.eventsOnce = true := by
  unfold Outcome.verdict at h
  cases ha : a.final with
  | none => rw [ha] at h; simp at h
  | some x =>
    cases hb : b.final with
    | none => rw [ha, hb] at h; simp at h
    | some y =>
      rw [ha, hb] at h
      simp only at h
      by_cases hc : consistent x y = true
      · by_cases h1 : a.eventsOnce = true
        · by_cases h2 : b.eventsOnce = true
          · exact ⟨x, y, rfl, rfl, hc, h1, h2⟩
          · simp [hc, h1, h2] at h
        · simp [hc, h1] at h
      · simp [hc] at h

/-- provider level, every schedule: once the reactor is back in Sta1 through an action, it has
stopped (kill flag) and has notified connection-close exactly once -/
theorem C06_provider_ends_once (requestor : Bool) (sched : List Step) :
    let s := run (if requestor then initRequestor else initAcceptor) sched
    s.closes ≤ 1 ∧ (s.closes = 1 → s.kill = true) :=
  C27_conn_close_at_most_once requestor sched

example : Outcome.verdict ⟨false, true, false, false, [.established, .released]⟩ ⟨false, true, false, false, [.established, .released]⟩ = "ok" ∧
    Outcome.verdict ⟨false, true, false, false, [.established, .released]⟩ ⟨false, false, true, false, [.established, .aborted]⟩ = "outcomes-disagree" ∧
    Outcome.verdict ⟨false, false, true, false, [.aborted, .aborted]⟩ ⟨false, false, true, false, [.aborted]⟩ = "requestor-terminal-event-not-once" := by
  decide

end PynetVerif
