import PynetVerif.Props.C04
import PynetVerif.Gen.Dul
/-!
C05 (tie of the reactor model's transition semantics to `fsm.py`).

`Model/Dul.lean` dispatches through `Spec.Ps38.table` and applies the standard's effect list for
each action; `C05_defined_partial` is a theorem about that model.  It is a statement about the code
only as long as the code's table and the effects its action functions have are the standard's, which
is what these two obligations (regenerated from `fsm.py` on every run) say.  An edit to an action
function — e.g. one that leaves the ARTIM timer running in a state where Evt18 is undefined — breaks
the obligation here, not only in C04.
-/
namespace PynetVerif
open Fsm

/-- the `(event, state) → action` table the reactor dispatches through is the model's -/
theorem C05_table_is_code (e s : Nat) :
    lookup Gen.Fsm.transitionTable e s = lookup Spec.Ps38.table e s := C04_lookup e s

/-- every action function, executed in every (event, state, role, PDU variant) it is bound to, has
exactly the effects (sends, timer start/stop, queue puts, close, kill) and next state the model's
step function applies -/
theorem C05_effects_are_code :
    Gen.Fsm.runs.map (fun r => (r.1, r.2.project)) = domain.map (fun i => (i, Spec.Ps38.expected i)) :=
  C04_effects

/-- the shape of one reactor iteration the model (`Dul.iterA` / `Dul.iterB`) and its invariant rest on:
ARTIM expiry is looked at first, then EITHER a local primitive (peeked at, not popped: the action pops
it) OR the transport, then exactly one queued event is dispatched.  `C05_neg_stream_both_sources`
(Props/C05Stream.lean) shows what goes wrong when both sources are served in one iteration.
Regenerated from dul.py on every run. -/
theorem C05_reactor_shape_is_code :
    Gen.Dul.sources = "exclusive" ∧ Gen.Dul.artimFirst = true ∧ Gen.Dul.oneDispatch = true ∧
    Gen.Dul.primitivePeek = true := by decide

end PynetVerif
