import PynetVerif.Model.Dimse
import PynetVerif.Lemmas.Dimse
import PynetVerif.Gen.Dimse
import PynetVerif.Props.C15
/-!
C16 — every DIMSE message pynetdicom sends is completely receivable: the
command set announces a data set (CommandDataSetType ≠ 0x0101) exactly when
data-set fragments are sent, so the peer's `decode_msg` completes.

`Dimse.primToMsg` mirrors the data-set half of `primitive_to_message` as it is
now (`if self.data_set and self.data_set.getvalue()`, then `_dataset_path`);
`Dimse.DsShape` enumerates the shapes of the data-set parameter the public API
and the service classes produce (class without such a parameter, `None`, a
`BytesIO` of any content incl. empty, `None` + `_dataset_path`).  The only
writer of `_dataset_path` on the sending side is `Association.send_c_store`,
which leaves `DataSet` = `None` (checked syntactically by the harness on every
run).  `C16_flag_iff_raw` says what would happen for the other combinations of
the private attributes.
-/
namespace PynetVerif
open Dimse

/-- The flag says "data set present" iff at least one data-set fragment is
sent, for every shape of the data-set parameter. -/
theorem C16_flag_iff (s : DsShape) (ctx : Nat) (cmd : Bytes) (max : Nat)
    (hm : max = 0 ∨ 7 ≤ max) (hc : cmd ≠ []) (hs : s.ok) :
    (primToMsg s.toPrim).hasDS = true ↔
      dataFrags (encodeMsgFull ctx cmd (primToMsg s.toPrim) max).1 ≠ [] := by
  rw [(frags_encode ctx cmd _ max hm hc (DsShape.pathOk_of_ok s hs)).2]
  rw [Ne, mark_eq_nil]
  cases s with
  | noParam => simp [DsShape.toPrim, primToMsg, dataChunks]
  | absent => simp [DsShape.toPrim, primToMsg, dataChunks]
  | stream b =>
    by_cases hb : b = []
    · simp [DsShape.toPrim, primToMsg, dataChunks, hb]
    · have := chunksOf_ne_nil b max hm (Or.inl hb)
      simp [DsShape.toPrim, primToMsg, dataChunks, hb, this]
  | file c o =>
    by_cases hb : c.drop o = []
    · simp [DsShape.toPrim, primToMsg, dataChunks, fileChunks, hb]
    · have := chunksOf_ne_nil (c.drop o) max hm (Or.inl hb)
      simp [DsShape.toPrim, primToMsg, dataChunks, fileChunks, hb, this]

/-- the message built from a shape carries the bytes the shape denotes -/
theorem C16_bytes (s : DsShape) : (primToMsg s.toPrim).bytes = s.bytes := by
  cases s <;> rfl

/-- Receivability: if the peer reads CommandDataSetType as it was written
(`noDS cmd = some (!flag)`; command-set codec, C17), then for every shape of the
data-set parameter, every legal maximum and every regrouping of the sent PDVs
into P-DATA primitives the peer's `decode_msg` completes with exactly the
command-set and data-set bytes, having consumed every primitive. -/
theorem C16_receivable (noDS : Bytes → Option Bool) (s : DsShape) (ctx : Nat) (cmd : Bytes) (max : Nat)
    (hm : max = 0 ∨ 7 ≤ max) (hc : cmd ≠ []) (hs : s.ok)
    (hcodec : noDS cmd = some (!(primToMsg s.toPrim).hasDS))
    (g : List (List PDV)) (hg : g.flatten = (encodeMsgFull ctx cmd (primToMsg s.toPrim) max).1)
    (hne : ∀ x ∈ g, x ≠ []) :
    decodeMsg noDS {} g =
      ({ cmdBuf := cmd, ds := s.bytes, ctx := some ctx, cmd := some cmd }, .complete, []) := by
  have hflag : noDS cmd = some (dataFrags (encodeMsgFull ctx cmd (primToMsg s.toPrim) max).1).isEmpty := by
    rw [hcodec]
    have h := C16_flag_iff s ctx cmd max hm hc hs
    cases hf : (primToMsg s.toPrim).hasDS with
    | true =>
      have := h.mp hf
      cases hd : dataFrags (encodeMsgFull ctx cmd (primToMsg s.toPrim) max).1 with
      | nil => exact absurd hd this
      | cons _ _ => rfl
    | false =>
      cases hd : dataFrags (encodeMsgFull ctx cmd (primToMsg s.toPrim) max).1 with
      | nil => rfl
      | cons a l =>
        have : (primToMsg s.toPrim).hasDS = true := h.mpr (by rw [hd]; simp)
        rw [hf] at this; cases this
  obtain ⟨h1, h2, h3⟩ := C15_reassemble noDS ctx cmd (primToMsg s.toPrim) max hm hc (DsShape.pathOk_of_ok s hs) hflag g hg
  rw [C16_bytes] at h1
  have h3' := h3 hne
  rcases hd : decodeMsg noDS {} g with ⟨st, o, r⟩
  rw [hd] at h1 h2 h3'
  simp only at h1 h2 h3'
  rw [h1, h2, h3']

/-- If instead the flag and the fragments disagreed, the peer would not
complete: a flag announcing a data set that is not sent leaves `decode_msg`
waiting (`more`) after every primitive has been consumed — the defect repaired
by `fix: do not announce a data set for an empty data set stream`. -/
theorem C16_mismatch_never_completes (noDS : Bytes → Option Bool) (ctx : Nat) (cmd : Bytes) (max : Nat)
    (hm : max = 0 ∨ 7 ≤ max) (hc : cmd ≠ []) (hbad : noDS cmd = some false)
    (g : List (List PDV)) (hg : g.flatten = (encodeMsg ctx cmd (some []) max).1) :
    (decodeMsg noDS {} g).2.1 = .more := by
  rw [(decodeMsg_flatten noDS g {}).2, hg, encodeMsg_eq ctx cmd (some []) max hm (Or.inl hc)]
  have hne := chunksOf_ne_nil cmd max hm (Or.inl hc)
  simp only [dataChunks, ↓reduceIte, mark, List.append_nil]
  have := decodePDVs_mark_cmd noDS ctx [] _ {} hne
  simp only [List.append_nil] at this
  rw [this]
  simp [flatten_chunksOf cmd max hm, hbad, decodePDVs]

/-- All combinations of the (private) attributes `primitive_to_message` reads:
flag and fragments agree unless `_dataset_path` is set while the effective
`data_set` is an empty stream (a class without data-set parameter, or an empty
`BytesIO` together with a path) — combinations no sender in pynetdicom
produces. -/
theorem C16_flag_iff_raw (p : Prim) (ctx : Nat) (cmd : Bytes) (max : Nat)
    (hm : max = 0 ∨ 7 ≤ max) (hc : cmd ≠ []) (hp : (primToMsg p).pathOk) :
    ((primToMsg p).hasDS = true ↔ dataFrags (encodeMsgFull ctx cmd (primToMsg p) max).1 ≠ []) ↔
      ¬ (p.path.isSome = true ∧ (primToMsg p).dataSet = some []) := by
  rw [(frags_encode ctx cmd _ max hm hc hp).2]
  rw [Ne, mark_eq_nil]
  obtain ⟨kw, ds, path⟩ := p
  cases kw with
  | false =>
    cases path with
    | none => simp [primToMsg, dataChunks]
    | some fo => simp [primToMsg, dataChunks]
  | true =>
    cases ds with
    | none =>
      cases path with
      | none => simp [primToMsg, dataChunks]
      | some fo =>
        obtain ⟨c, o⟩ := fo
        by_cases hb : c.drop o = []
        · simp [primToMsg, dataChunks, fileChunks, hb]
        · have := chunksOf_ne_nil (c.drop o) max hm (Or.inl hb)
          simp [primToMsg, dataChunks, fileChunks, hb, this]
    | some b =>
      by_cases hb : b = []
      · cases path <;> simp [primToMsg, dataChunks, hb]
      · have := chunksOf_ne_nil b max hm (Or.inl hb)
        cases path <;> simp [primToMsg, dataChunks, hb, this]

/-- the message-kind table regenerated from `_MESSAGE_TYPES`/`_DATASET_KEYWORDS`:
23 kinds, command fields and class names pairwise distinct (so the inversion
`rev_type` in `primitive_to_message` is one-to-one), every field 16-bit, and a
response kind for every request kind but C-CANCEL. -/
theorem C16_kinds_wellformed :
    Gen.Dimse.messageTypes.length = 23 ∧
    (Gen.Dimse.messageTypes.map (·.1)).Nodup ∧
    (Gen.Dimse.messageTypes.map (·.2.1)).Nodup ∧
    (∀ t ∈ Gen.Dimse.messageTypes, t.1 < 65536) ∧
    (∀ t ∈ Gen.Dimse.messageTypes, t.1 < 0x8000 → t.1 ≠ 0x0FFF →
      (Gen.Dimse.messageTypes.map (·.1)).contains (t.1 + 0x8000) = true) := by
  decide

-- non-vacuity: the four parameter shapes on concrete values
example : (primToMsg (DsShape.stream []).toPrim).hasDS = false ∧
    (primToMsg (DsShape.stream [1]).toPrim).hasDS = true ∧
    (primToMsg DsShape.absent.toPrim).hasDS = false ∧
    (primToMsg DsShape.noParam.toPrim).hasDS = false ∧
    (primToMsg (DsShape.file [0, 0] 2).toPrim).hasDS = true := by decide

example : dataFrags (encodeMsgFull 1 [7, 7] (primToMsg (DsShape.file [0, 0] 2).toPrim) 8).1 = [⟨1, 2, []⟩] := by
  decide

example : (DsShape.file [0, 0, 9] 2).ok ∧ (DsShape.file [0, 0] 2).ok ∧ (DsShape.stream []).ok := by
  refine ⟨?_, ?_, trivial⟩ <;> simp [DsShape.ok]

-- the excluded raw combination: a path together with an empty stream
example : (primToMsg ⟨true, some [], some ([1, 2, 3], 0)⟩).hasDS = true ∧
    dataFrags (encodeMsgFull 1 [7, 7] (primToMsg ⟨true, some [], some ([1, 2, 3], 0)⟩) 8).1 = [] := by
  decide

end PynetVerif
