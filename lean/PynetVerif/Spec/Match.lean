/-
PS3.4 Annex C attribute matching and hierarchical selection, transcribed from
the standard (NOT from pynetdicom).

* C.2.2.2.1 Single Value Matching — the value matches exactly.  Matching is
  case-sensitive, except that for PN "an application may perform ... case
  insensitive matching" (C.2.2.2.1, C.2.2.2.4): the choice is the parameter
  `pnFold`, a conforming SCP may take either.
* C.2.2.2.2 List of UID Matching — a UI key with several values matches an
  entity whose value is one of them.
* C.2.2.2.3 Universal Matching — a zero-length key matches every entity,
  including one that lacks the attribute.
* C.2.2.2.4 Wild Card Matching — for VRs other than DA, TM, DT, SL, SS, US,
  UL, FL, FD, OB, OW, UN, AT, DS, IS, AS, UI: '*' matches any sequence of
  characters (including none), '?' matches any single character; EVERY OTHER
  character matches only itself (in particular '_' and '%' are ordinary).
* C.2.2.2.5 Range Matching — DA/TM/DT "a-b" (inclusive), "-b", "a-".  Here
  restricted to values of one fixed format (all digits, equal length: DA
  YYYYMMDD, TM HHMMSS), ordered by their numeric value; anything else does not
  match.
* C.4.1.3.1.1 / C.6 hierarchical search: the identifier names a level of the
  information model, carries the unique key of every level above it and no key
  of a level below it; the result is ONE response per distinct entity at the
  requested level (C-FIND) resp. all instances of those entities (C-GET/MOVE).
-/
namespace PynetVerif.Spec.Match

abbrev Str := List Char

/-! ### wild card matching (C.2.2.2.4) -/

/-- relational definition -/
inductive Wild : Str → Str → Prop
  | nil : Wild [] []
  | starEmpty {p s} : Wild p s → Wild ('*' :: p) s
  | starMore {p s c} : Wild ('*' :: p) s → Wild ('*' :: p) (c :: s)
  | any {p s c} : Wild p s → Wild ('?' :: p) (c :: s)
  | lit {p s c} : c ≠ '*' → c ≠ '?' → Wild p s → Wild (c :: p) (c :: s)

/-- does `f` hold for some suffix of the string (what a '*' may leave unconsumed) -/
def anySuffix (f : Str → Bool) : Str → Bool
  | [] => f []
  | d :: s => f (d :: s) || anySuffix f s

/-- executable matcher (structural recursion on the pattern) -/
def wild : Str → Str → Bool
  | [], s => s.isEmpty
  | c :: p, s =>
    if c = '*' then anySuffix (wild p) s
    else match s with
      | [] => false
      | d :: s' => (c == '?' || c == d) && wild p s'

def lowerAscii (c : Char) : Char :=
  if 65 ≤ c.toNat ∧ c.toNat ≤ 90 then Char.ofNat (c.toNat + 32) else c

def fold (s : Str) : Str := s.map lowerAscii

def hasWild (s : Str) : Bool := s.contains '*' || s.contains '?'

/-! ### kinds of matching -/

/-- VR classes that the matching rules distinguish -/
inductive VRClass
  | text      -- wild-card capable string VRs: AE CS LO LT SH ST UC UR UT
  | pn        -- PN: as text, case folding permitted
  | uid       -- UI: single value or list of UID
  | dateTime  -- DA TM DT: single value or range
  | other     -- IS, DS, binary …: single value only
  deriving DecidableEq, Repr

def classOf (vr : String) : VRClass :=
  if vr = "PN" then .pn
  else if vr ∈ ["AE", "CS", "LO", "LT", "SH", "ST", "UC", "UR", "UT"] then .text
  else if vr = "UI" then .uid
  else if vr ∈ ["DA", "TM", "DT"] then .dateTime
  else .other

/-- A key as the SCU sent it: its values (backslash separated on the wire);
`[]` is the zero-length key. -/
abbrev Key := List Str

inductive Kind | universal | single | uidList | wildcard | range | multi
  deriving DecidableEq, Repr

def kindOf (vr : VRClass) : Key → Kind
  | [] => .universal
  | [v] =>
    match vr with
    | .text | .pn => if hasWild v then .wildcard else .single
    | .dateTime => if v.contains '-' then .range else .single
    | .uid | .other => .single
  | _ :: _ :: _ => if vr = .uid then .uidList else .multi

/-! ### range matching on fixed-format digit strings -/

def isDigit (c : Char) : Bool := Nat.ble 48 c.toNat && Nat.ble c.toNat 57

/-- positional value of a digit string -/
def valDigits : Str → Nat
  | [] => 0
  | c :: cs => (c.toNat - 48) * 10 ^ cs.length + valDigits cs

/-- `a ≤ b` for two values of the same fixed format -/
def dtLe (a b : Str) : Bool :=
  a.length == b.length && a.all isDigit && b.all isDigit && Nat.ble (valDigits a) (valDigits b)

/-- "a-b" -> (a, b); exactly one '-' -/
def splitDash : Str → Option (Str × Str)
  | [] => none
  | c :: cs =>
    if c = '-' then (if cs.contains '-' then none else some ([], cs))
    else (splitDash cs).map (fun (a, b) => (c :: a, b))

def rangeMatch (k v : Str) : Bool :=
  match splitDash k with
  | some (a, b) => !(a.isEmpty && b.isEmpty) && (a.isEmpty || dtLe a v) && (b.isEmpty || dtLe v b)
  | none => false

/-- Does an entity whose attribute has value `v` (`none`: attribute absent)
match the key? -/
def matchKey (pnFold : Bool) (vr : VRClass) (key : Key) (v : Option Str) : Bool :=
  match kindOf vr key with
  | .universal => true
  | .single =>
    match key, v with
    | [k], some x => if vr = .pn && pnFold then fold k == fold x else k == x
    | _, _ => false
  | .uidList =>
    match v with
    | some x => key.contains x
    | none => false
  | .wildcard =>
    match key, v with
    | [k], some x => if vr = .pn && pnFold then wild (fold k) (fold x) else wild k x
    | _, _ => false
  | .range =>
    match key, v with
    | [k], some x => rangeMatch k x
    | _, _ => false
  | .multi => false

/-! ### the information models (PS3.4 C.6.1.1 / C.6.2.1) -/

inductive Level | patient | study | series | image
  deriving DecidableEq, Repr

def Level.toNat : Level → Nat
  | .patient => 0 | .study => 1 | .series => 2 | .image => 3

inductive Root | patientRoot | studyRoot
  deriving DecidableEq, Repr

structure Attr where
  level : Level
  unique : Bool
  vr : VRClass
  deriving DecidableEq, Repr

/-- The keys qrscp supports, in the column order used throughout
(0 PatientID, 1 PatientName, 2 StudyInstanceUID, 3 StudyDate, 4 StudyTime,
5 AccessionNumber, 6 StudyID, 7 SeriesInstanceUID, 8 Modality, 9 SeriesNumber,
10 SOPInstanceUID, 11 InstanceNumber) with level and key type as in PS3.4
Tables C.6-1 .. C.6-4 and the VR of PS3.6. -/
def attrs : List Attr := [
  ⟨.patient, true, .text⟩, ⟨.patient, false, .pn⟩,
  ⟨.study, true, .uid⟩, ⟨.study, false, .dateTime⟩, ⟨.study, false, .dateTime⟩,
  ⟨.study, false, .text⟩, ⟨.study, false, .text⟩,
  ⟨.series, true, .uid⟩, ⟨.series, false, .text⟩, ⟨.series, false, .other⟩,
  ⟨.image, true, .uid⟩, ⟨.image, false, .other⟩]

/-- Study Root: the patient attributes belong to the study level (C.6.2.1.1). -/
def levelIn (root : Root) (a : Attr) : Level :=
  if root = .studyRoot ∧ a.level = .patient then .study else a.level

def levelsOf : Root → List Level
  | .patientRoot => [.patient, .study, .series, .image]
  | .studyRoot => [.study, .series, .image]

/-- column of the unique key of a level -/
def uniqueKeyOf : Level → Nat
  | .patient => 0 | .study => 2 | .series => 7 | .image => 10

structure Ident where
  level : Option Level            -- `none`: Query/Retrieve Level absent or not a level name
  keys : List (Nat × Key)         -- supported keys present: (column, values)

def Ident.has (id : Ident) (col : Nat) : Bool := id.keys.any (fun k => k.1 == col)

/-- the level names of the Query/Retrieve Level attribute (C.6.1.1, C.6.2.1) -/
def parseLevel (s : String) : Option Level :=
  if s = "PATIENT" then some .patient else if s = "STUDY" then some .study
  else if s = "SERIES" then some .series else if s = "IMAGE" then some .image else none

/-- columns whose level in the model is below `L` -/
def columnsBelow (root : Root) (L : Level) : List Nat :=
  (List.range attrs.length).filter (fun c =>
    match attrs[c]? with
    | some a => Nat.blt L.toNat (levelIn root a).toNat
    | none => false)

/-- C.4.1.3.1.1: level of the model; unique keys of all higher levels present;
no key of a lower level. -/
def validIdentifier (root : Root) (id : Ident) : Bool :=
  match id.level with
  | none => false
  | some L =>
    (levelsOf root).contains L &&
    ((levelsOf root).filter (fun l => Nat.blt l.toNat L.toNat)).all (fun l => id.has (uniqueKeyOf l)) &&
    (columnsBelow root L).all (fun c => !id.has c)

abbrev Row := List (Option Str)

def Row.col (r : Row) (i : Nat) : Option Str := (r[i]?).getD none

def rowMatches (pnFold : Bool) (id : Ident) (r : Row) : Bool :=
  id.keys.all (fun k =>
    match attrs[k.1]? with
    | some a => matchKey pnFold a.vr k.2 (r.col k.1)
    | none => true)

/-- the identity of the entity a row belongs to at level `L` -/
def entityKey (root : Root) (L : Level) (r : Row) : List (Option Str) :=
  ((levelsOf root).filter (fun l => Nat.ble l.toNat L.toNat)).map (fun l => r.col (uniqueKeyOf l))

/-- indices of the rows (instances) that satisfy every key -/
def matchingRows (pnFold : Bool) (id : Ident) (rows : List Row) : List Nat :=
  ((List.range rows.length).zip rows).filterMap (fun (i, r) => if rowMatches pnFold id r then some i else none)

/-- keep the first row of every distinct entity -/
def firstOfEach (root : Root) (L : Level) (rows : List Row) : List Nat → List (List (Option Str)) → List Nat
  | [], _ => []
  | i :: is, seen =>
    let k := entityKey root L ((rows[i]?).getD [])
    if seen.contains k then firstOfEach root L rows is seen
    else i :: firstOfEach root L rows is (k :: seen)

/-- C-FIND: one response per matching entity at the requested level (given
as the index of its first instance); `none`: the identifier is invalid. -/
def selectFind (pnFold : Bool) (root : Root) (id : Ident) (rows : List Row) : Option (List Nat) :=
  if validIdentifier root id then
    match id.level with
    | some L => some (firstOfEach root L rows (matchingRows pnFold id rows) [])
    | none => none
  else none

/-- C-GET / C-MOVE: all instances of the matching entities. -/
def selectRetrieve (pnFold : Bool) (root : Root) (id : Ident) (rows : List Row) : Option (List Nat) :=
  if validIdentifier root id then some (matchingRows pnFold id rows) else none

end PynetVerif.Spec.Match
