/-!
Spec for C21 — what pynetdicom DOCUMENTS about the status of the responses its SCPs send.
Hand transcription (never derived from service_class.py) of

* docs/reference/status.rst ("status codes used internally within pynetdicom"),
* the "pynetdicom" status tables of docs/service_classes/*.rst
  (storage_service_class.rst, query_retrieve_service_class.rst, relevant_patient_service_class.rst,
  basic_worklist_service_class.rst, ups.rst, …),
* the docstring of `VerificationServiceClass.SCP` ("Will always return 0x0000 (Success) unless the
  user returns a different (valid) status value from the handler bound to evt.EVT_C_ECHO"),
* the handler documentation `_handlers.doc_handle_*`: the handler returns/yields `status`, "an int
  or a pydicom Dataset containing (at a minimum) a (0000,0900) Status element.  If returning a
  Dataset then it may also contain optional elements related to the Status (as in the DICOM
  Standard, Part 7, Annex C)"; the N-* SCP docstrings list 0x0110 Processing failure as the
  general failure,
* PS3.7 Annex C / §9.1, §10.1 for which response fields are status related.

Choices where the documents are silent or ambiguous are marked (✱).
-/
namespace PynetVerif.Spec.ScpStatus

/-- the services, by the family of failure codes the documentation gives them -/
inductive Svc
  | echo      -- Verification
  | store     -- Storage, Non-Patient Object Storage (0xC2xx)
  | find      -- every C-FIND service incl. Relevant Patient, Worklist, Substance Administration, UPS (0xC3xx)
  | get       -- 0xC4xx
  | move      -- 0xC5xx
  | n         -- every N-* service (0x0110 Processing failure)
  deriving DecidableEq, Repr

/-- the status object a handler supplied -/
inductive StatusShape
  | int (c : Int)            -- an int
  | dsWith (code : Nat)      -- a Dataset whose (0000,0900) Status is `code`
  | dsWithout                -- a Dataset with no Status element
  | wrongType                -- neither an int nor a Dataset
  deriving DecidableEq, Repr

/-- what happened when the SCP asked the handler for the value of one response -/
inductive Result
  | status (s : StatusShape)         -- the handler supplied this status (and a usable dataset, if one is due)
  | raised                           -- the handler raised
  | unencodable (s : StatusShape)    -- the dataset due with this status cannot be encoded
  | badCount                         -- C-GET/C-MOVE: the number of sub-operations is not an int
  | tooMany                          -- C-GET/C-MOVE: more than 65535 sub-operations announced
  | noDestination                    -- C-MOVE: the handler did not yield a destination
  | badDestination                   -- C-MOVE: not a valid (address, port) pair
  | unknownDestination               -- C-MOVE: (None, None) / association with the destination failed
  deriving DecidableEq, Repr

/-- "0xC001 Event handler returned/yielded a status dataset with no (0000,0900) Status element",
"0xC002 … an invalid status object (not a pydicom Dataset or an int)"; otherwise the status
the handler supplied.  C-ECHO: 0x0000 unless the handler returns a (valid) status value. -/
def statusOf (svc : Svc) : StatusShape → Int
  | .int c => c
  | .dsWith code => code
  | .dsWithout => if svc = .echo then 0x0000 else 0xC001
  | .wrongType => if svc = .echo then 0x0000 else 0xC002

/-- "Unhandled exception raised by the handler bound to evt.EVT_C_…" -/
def handlerException : Svc → Int
  | .echo => 0x0000     -- "Will always return 0x0000 (Success) unless …"
  | .store => 0xC211
  | .find => 0xC311
  | .get => 0xC411
  | .move => 0xC511
  | .n => 0x0110        -- Processing failure

/-- the documented status of the response, `none` where the documentation says nothing -/
def documented (svc : Svc) : Result → Option Int
  | .status s => some (statusOf svc s)
  | .raised => some (handlerException svc)
  | .unencodable _ =>
    match svc with
    | .find => some 0xC312     -- "Failed to encode the dataset received from the handler"
    | .n => some 0x0110        -- (✱) Processing failure
    | _ => none
  | .badCount =>
    match svc with
    | .get => some 0xC413      -- "yielded an invalid number of sub-operations"
    | .move => some 0xC513
    | _ => none
  | .tooMany =>
    match svc with
    | .get => some 0xC416      -- "yielded more than 65535 matches"
    | .move => some 0xC516
    | _ => none
  | .noDestination => if svc = .move then some 0xC514 else none   -- "failed to yield the (address, port)"
  | .badDestination => if svc = .move then some 0xC515 else none  -- "failed to yield a valid (address, port) pair"
  | .unknownDestination => if svc = .move then some 0xA801 else none  -- "Move destination unknown"

/-- keywords of response fields (indices as in Gen.ScpAttrs): 0 Status, 1 MessageIDBeingRespondedTo,
2..5 NumberOf{Remaining,Failed,Warning,Completed}Suboperations, 6 ErrorComment, 7 OffendingElement,
8 ErrorID, 9 AffectedSOPClassUID, 10 AffectedSOPInstanceUID, 11 an element that is no DIMSE field.
Primitive indices: 0 C-ECHO, 1 C-STORE, 2 C-FIND, 3 C-GET, 4 C-MOVE, 5..10 N-ACTION, N-CREATE,
N-DELETE, N-EVENT-REPORT, N-GET, N-SET.

Status-related response fields per PS3.7 Annex C: Error Comment for every service; Offending
Element for the C-STORE/C-FIND/C-GET/C-MOVE failures; the four sub-operation counters for
C-GET/C-MOVE; Error ID, Affected SOP Class UID and Affected SOP Instance UID for the N-* services
(class-instance conflict, no such SOP class/instance, duplicate instance, …) (✱ for the exact
per-service subsets).  MessageIDBeingRespondedTo is never status related. -/
def statusRelated (prim kw : Nat) : Bool :=
  let cStoreFindGetMove := prim == 1 || prim == 2 || prim == 3 || prim == 4
  let getMove := prim == 3 || prim == 4
  let n := 5 ≤ prim && prim ≤ 10
  match kw with
  | 0 => true
  | 1 => false
  | 2 | 3 | 4 | 5 => getMove
  | 6 => true
  | 7 => cStoreFindGetMove
  | 8 => n
  | 9 | 10 => n
  | _ => false

end PynetVerif.Spec.ScpStatus
