import PynetVerif.Model.Timer
/-!
Specification of a timer, written from the class docstring of
`pynetdicom.timer.Timer` and from the text of property C09 — not from the
method bodies.  It is a function of the *history* of operations, it keeps no
state of its own:

* "A timeout of None implies that expired always returns False and remaining
  always returns 1."
* "If not yet started, expired returns False and remaining returns timeout."
* "If started then expired returns False until the time since starting is
  greater than timeout after which it returns True. remaining returns the
  number of seconds until expired returns True (negative after expiry)."
* "If started then stopped before the timeout then expired returns False, if
  stopped after the time since starting is greater than timeout then returns
  True."  (C09: "once stopped, report the state they had when stopped".)

Choices the docstring leaves open, fixed here and visible to the reader:
* `restart` = `start` ("Restart the timer"); starting again forgets an earlier
  stop ("Resets and starts the timer running").
* a timer that is stopped again without having been started again is frozen at
  the *latest* stop (the docstring does not say; the ARTIM/idle usage never
  does this with a started timer in between — see DESIGN.md §5 C09).
* a `stop` on a timer that was never started leaves it "not yet started".
* the timeout in force is the most recently assigned one, also for a timer
  that is running or stopped ("remaining always returns the number of seconds
  until expired returns True").

The history is kept most-recent-first.
-/
namespace PynetVerif.Spec.Timer
open PynetVerif.Timer

abbrev Hist := List (Op × Int)

/-- the timeout in force: the most recent assignment, else the constructor's -/
def curTimeout (init : Option Int) : Hist → Option Int
  | [] => init
  | (.setTimeout v, _) :: _ => v
  | _ :: h => curTimeout init h

/-- the reading at the most recent `start`/`restart`, if any -/
def lastStart : Hist → Option Int
  | [] => none
  | (.start, t) :: _ => some t
  | (.restart, t) :: _ => some t
  | _ :: h => lastStart h

/-- the reading at the most recent `stop` that is not followed by a `start`/`restart` -/
def stopSince : Hist → Option Int
  | [] => none
  | (.stop, t) :: _ => some t
  | (.start, _) :: _ => none
  | (.restart, _) :: _ => none
  | _ :: h => stopSince h

/-- time elapsed since the timer was last started, measured up to `now` while
it runs and up to the stop once it is stopped; `none` if never started -/
def elapsed (h : Hist) (now : Int) : Option Int :=
  match lastStart h with
  | none => none
  | some s => some ((stopSince h).getD now - s)

def expired (init : Option Int) (h : Hist) (now : Int) : Bool :=
  match curTimeout init h, elapsed h now with
  | some to, some e => decide (e > to)
  | _, _ => false

def remaining (init : Option Int) (h : Hist) (now : Int) : Int :=
  match curTimeout init h with
  | none => 1
  | some to =>
    match elapsed h now with
    | none => to
    | some e => to - e

/-- the observations the docstring prescribes for `ops` executed after history `h` -/
def observationsFrom (init : Option Int) : Hist → List (Op × Int) → List Obs
  | _, [] => []
  | h, (.expired, t) :: rest => .bool (expired init h t) :: observationsFrom init ((.expired, t) :: h) rest
  | h, (.remaining, t) :: rest => .val (remaining init h t) :: observationsFrom init ((.remaining, t) :: h) rest
  | h, (op, t) :: rest => observationsFrom init ((op, t) :: h) rest

def observations (init : Option Int) (ops : List (Op × Int)) : List Obs :=
  observationsFrom init [] ops

end PynetVerif.Spec.Timer
