import PynetVerif.Model.PduLayout
/-!
Hand transcription of the PDU structure tables of DICOM PS3.8 §9.3 (Tables 9-11 … 9-26, D.1-1) and
PS3.7 Annex D.3.3 (Tables D.3-1 … D.3-14): for every PDU / item the fields in the order of their
byte positions, their widths, the reserved bytes (sent as 00H) and the PDU / item type code.
Written from the standard, NOT from the code.  The only thing borrowed from pynetdicom is the
*name* under which each field of the standard is known there (the attribute of the PDU / item class),
so that the comparison with the regenerated `_encoders` tables is an equality:

  PDU-type → pdu_type, PDU-length → pdu_length, Item-type → item_type, Item-length → item_length,
  Protocol-version → protocol_version, Called-AE-title, Calling-AE-title → called_ae_title, calling_ae_title
  (bytes 11-42 of the AC are "reserved, sent with the value received": reserved_aet / reserved_aec),
  Presentation-context-ID → presentation_context_id, Result/Reason → result_reason,
  Result / Source / Reason-Diag. → result / source / reason_diagnostic, and so on.

Adjacent reserved bytes are written as one run (`Field.res n 0`).
-/
namespace PynetVerif.Spec
open PynetVerif.PduLayout

/-- bytes 1-6 of every PDU: PDU-type, 1 reserved byte, 4-byte PDU-length -/
def pduHead : List Field := [.fld "pdu_type" 1, .res 1 0, .fld "pdu_length" 4]
/-- bytes 1-4 of every item: Item-type, 1 reserved byte, 2-byte Item-length -/
def itemHead : List Field := [.fld "item_type" 1, .res 1 0, .fld "item_length" 2]

def ps38Layouts : List Table := [
  -- Table 9-11  A-ASSOCIATE-RQ: 7-8 Protocol-version, 9-10 reserved, 11-26 Called-AE-title,
  --             27-42 Calling-AE-title, 43-74 reserved, 75-xxx Variable items
  ⟨"A_ASSOCIATE_RQ", some 0x01, pduHead ++ [.fld "protocol_version" 2, .res 2 0, .str "called_ae_title" 16,
      .str "calling_ae_title" 16, .res 32 0, .items "variable_items"]⟩,
  -- Table 9-17  A-ASSOCIATE-AC: same positions; 11-26 and 27-42 are reserved (echo of the RQ titles)
  ⟨"A_ASSOCIATE_AC", some 0x02, pduHead ++ [.fld "protocol_version" 2, .res 2 0, .str "reserved_aet" 16,
      .str "reserved_aec" 16, .res 32 0, .items "variable_items"]⟩,
  -- Table 9-21  A-ASSOCIATE-RJ: 7 reserved, 8 Result, 9 Source, 10 Reason/Diag.
  ⟨"A_ASSOCIATE_RJ", some 0x03, pduHead ++ [.res 1 0, .fld "result" 1, .fld "source" 1, .fld "reason_diagnostic" 1]⟩,
  -- Table 9-22  P-DATA-TF: 7-xxx Presentation-data-value Item(s)
  ⟨"P_DATA_TF", some 0x04, pduHead ++ [.items "presentation_data_value_items"]⟩,
  -- Table 9-24 / 9-25  A-RELEASE-RQ / -RP: 7-10 reserved
  ⟨"A_RELEASE_RQ", some 0x05, pduHead ++ [.res 4 0]⟩,
  ⟨"A_RELEASE_RP", some 0x06, pduHead ++ [.res 4 0]⟩,
  -- Table 9-26  A-ABORT: 7 reserved, 8 reserved, 9 Source, 10 Reason/Diag.
  ⟨"A_ABORT_RQ", some 0x07, pduHead ++ [.res 2 0, .fld "source" 1, .fld "reason_diagnostic" 1]⟩,
  -- Table 9-12  Application Context Item (10H): 5-xxx Application-context-name
  ⟨"ApplicationContextItem", some 0x10, itemHead ++ [.str "application_context_name" 0]⟩,
  -- Table 9-13  Presentation Context Item RQ (20H): 5 Presentation-context-ID, 6-8 reserved,
  --             9-xxx Abstract/Transfer Syntax Sub-Items
  ⟨"PresentationContextItemRQ", some 0x20, itemHead ++ [.fld "presentation_context_id" 1, .res 3 0,
      .items "abstract_transfer_syntax_sub_items"]⟩,
  -- Table 9-18  Presentation Context Item AC (21H): 5 Presentation-context-ID, 6 reserved,
  --             7 Result/Reason, 8 reserved, 9-xxx Transfer syntax sub-item
  ⟨"PresentationContextItemAC", some 0x21, itemHead ++ [.fld "presentation_context_id" 1, .res 1 0,
      .fld "result_reason" 1, .res 1 0, .items "transfer_syntax_sub_item"]⟩,
  -- Table 9-14 / 9-15  Abstract (30H) / Transfer (40H) Syntax Sub-Item: 5-xxx name
  ⟨"AbstractSyntaxSubItem", some 0x30, itemHead ++ [.str "abstract_syntax_name" 0]⟩,
  ⟨"TransferSyntaxSubItem", some 0x40, itemHead ++ [.str "transfer_syntax_name" 0]⟩,
  -- Table 9-16  User Information Item (50H): 5-xxx User-data
  ⟨"UserInformationItem", some 0x50, itemHead ++ [.items "user_data"]⟩,
  -- PS3.8 Table D.1-1  Maximum Length Sub-Item (51H): 5-8 Maximum-length-received
  ⟨"MaximumLengthSubItem", some 0x51, itemHead ++ [.fld "maximum_length_received" 4]⟩,
  -- PS3.7 Table D.3-1  Implementation Class UID Sub-Item (52H): 5-xxx Implementation-class-uid
  ⟨"ImplementationClassUIDSubItem", some 0x52, itemHead ++ [.str "implementation_class_uid" 0]⟩,
  -- PS3.7 Table D.3-7  Asynchronous Operations Window Sub-Item (53H): 5-6 Maximum-number-operations-invoked,
  --             7-8 Maximum-number-operations-performed
  ⟨"AsynchronousOperationsWindowSubItem", some 0x53, itemHead ++ [.fld "maximum_number_operations_invoked" 2,
      .fld "maximum_number_operations_performed" 2]⟩,
  -- PS3.7 Table D.3-9  SCP/SCU Role Selection Sub-Item (54H): 5-6 UID-length, 7-xxx SOP-class-uid,
  --             then SCU-role (1 byte), then SCP-role (1 byte)
  ⟨"SCP_SCU_RoleSelectionSubItem", some 0x54, itemHead ++ [.fld "uid_length" 2, .str "sop_class_uid" 0,
      .fld "scu_role" 1, .fld "scp_role" 1]⟩,
  -- PS3.7 Table D.3-3  Implementation Version Name Sub-Item (55H): 5-xxx Implementation-version-name
  ⟨"ImplementationVersionNameSubItem", some 0x55, itemHead ++ [.str "implementation_version_name" 0]⟩,
  -- PS3.7 Table D.3-11  SOP Class Extended Negotiation Sub-Item (56H): 5-6 SOP-class-uid-length,
  --             7-xxx SOP-class-uid, xxx-xxx Service-class-application-information
  ⟨"SOPClassExtendedNegotiationSubItem", some 0x56, itemHead ++ [.fld "sop_class_uid_length" 2,
      .str "sop_class_uid" 0, .bytes "service_class_application_information"]⟩,
  -- PS3.7 Table D.3-12  SOP Class Common Extended Negotiation Sub-Item (57H): byte 2 is the
  --             Sub-item-version (not a reserved byte), 3-4 Item-length, 5-6 SOP-class-uid-length,
  --             SOP-class-uid, 2-byte Service-class-uid-length, Service-class-uid,
  --             2-byte Related-general-sop-class-identification-length, then the sequence of
  --             (2-byte Related-general-sop-class-uid-length, Related-general-sop-class-uid) (Table D.3-13)
  ⟨"SOPClassCommonExtendedNegotiationSubItem", some 0x57, [.fld "item_type" 1, .fld "sub_item_version" 1,
      .fld "item_length" 2, .fld "sop_class_uid_length" 2, .str "sop_class_uid" 0,
      .fld "service_class_uid_length" 2, .str "service_class_uid" 0,
      .fld "related_general_sop_class_identification_length" 2, .uids "related_general_sop_class_identification"]⟩,
  -- PS3.7 Table D.3-14  User Identity Sub-Item RQ (58H): 5 User-Identity-Type, 6 Positive-response-requested,
  --             7-8 Primary-field-length, 9-n Primary-field, n+1-n+2 Secondary-field-length, Secondary-field
  ⟨"UserIdentitySubItemRQ", some 0x58, itemHead ++ [.fld "user_identity_type" 1, .fld "positive_response_requested" 1,
      .fld "primary_field_length" 2, .bytes "primary_field", .fld "secondary_field_length" 2, .bytes "secondary_field"]⟩,
  -- PS3.7 Table D.3-15  User Identity Sub-Item AC (59H): 5-6 Server-response-length, 7-n Server-response
  ⟨"UserIdentitySubItemAC", some 0x59, itemHead ++ [.fld "server_response_length" 2, .bytes "server_response"]⟩,
  -- Table 9-23  Presentation-data-value Item: 1-4 Item-length, 5 Presentation-context-ID, 6-xxx value
  ⟨"PresentationDataValueItem", none, [.fld "item_length" 4, .fld "presentation_context_id" 1,
      .bytes "presentation_data_value"]⟩]

/-- PS3.8 §9.3.1: PDU type codes 01H … 07H, and Table 9-10: the event each received PDU is -/
def ps38PduTypes : List (Nat × String × String) := [
  (0x01, "A_ASSOCIATE_RQ", "Evt6"), (0x02, "A_ASSOCIATE_AC", "Evt3"), (0x03, "A_ASSOCIATE_RJ", "Evt4"),
  (0x04, "P_DATA_TF", "Evt10"), (0x05, "A_RELEASE_RQ", "Evt12"), (0x06, "A_RELEASE_RP", "Evt13"),
  (0x07, "A_ABORT_RQ", "Evt16")]

end PynetVerif.Spec
