/-
SCP/SCU role selection as DOCUMENTED: a hand transcription of the table
"`role_selection_negotiation`" in /repo/docs/user/presentation_role_selection.rst
(never derived from presentation.py) and of the sentences around it.

The table's columns are
  Requestor scu_role, scp_role | Acceptor scu_role, scp_role | Outcome Requestor, Acceptor | Notes
and `N/A` in a role column means "no role selection item".  The *Acceptor*
columns are the values the acceptor answers with: the docs say "A value of
`True` indicates that the acceptor will accept the proposed role", i.e. the
answer to a role that was not proposed is `False` — which is why the table has,
for a (True, False) proposal, only rows with acceptor scp_role `False`.  That
reading is `effectiveReply` below and it is part of the trusted transcription.

The text before the table: "When acting as the acceptor both scu_role and
scp_role must be specified"; `AE.add_supported_context` documents: "If `None`
then ignore the proposal (if either scp_role or scu_role is None then both are
assumed to be) and use the default roles".  Hence: acceptor with a `None` role
⇒ no role item in the answer ⇒ first row of the table.
-/
namespace PynetVerif.Spec.Roles

/-- The four outcomes listed below the table. -/
inductive Outcome
  | default      -- Requestor is SCU, acceptor is SCP (default roles)
  | inverted     -- Requestor is SCP, acceptor is SCU
  | both         -- Requestor and acceptor are both SCU/SCP
  | rejected     -- neither (context rejected)
  deriving DecidableEq, Repr, Inhabited

/-- (may act as SCU, may act as SCP) of the requestor -/
def Outcome.requestor : Outcome → Bool × Bool
  | .default => (true, false)
  | .inverted => (false, true)
  | .both => (true, true)
  | .rejected => (false, false)

/-- (may act as SCU, may act as SCP) of the acceptor -/
def Outcome.acceptor : Outcome → Bool × Bool
  | .default => (false, true)
  | .inverted => (true, false)
  | .both => (true, true)
  | .rejected => (false, false)

/-- One role-selection item: (scu_role, scp_role); `none` = N/A (no item). -/
abbrev Item := Option (Bool × Bool)

/-- The rows of the documented table, top to bottom:
(requestor item, acceptor item, outcome). -/
def docRows : List (Item × Item × Outcome) := [
  (none,                none,                .default),   -- N/A N/A | N/A N/A | SCU SCP | Default
  (some (true, true),   some (false, false), .rejected),  -- True True | False False | N/A N/A | Rejected
  (some (true, true),   some (false, true),  .inverted),  --           | False True  | SCP SCU
  (some (true, true),   some (true, false),  .default),   --           | True False  | SCU SCP | Default
  (some (true, true),   some (true, true),   .both),      --           | True True   | SCU/SCP SCU/SCP
  (some (true, false),  some (false, false), .rejected),  -- True False | False False | N/A N/A | Rejected
  (some (true, false),  some (true, false),  .default),   --            | True False  | SCU SCP | Default
  (some (false, true),  some (false, false), .rejected),  -- False True | False False | N/A N/A | Rejected
  (some (false, true),  some (false, true),  .inverted),  --            | False True  | SCP SCU
  (some (false, false), some (false, false), .rejected)]  -- False False | False False | N/A N/A | Rejected

/-- Table lookup; `none` = the documentation has no row for this pair. -/
def docOutcome (rq ac : Item) : Option Outcome :=
  (docRows.find? (fun r => r.1 == rq && r.2.1 == ac)).map (·.2.2)

/-- The acceptor's configured roles for a supported context: `None/True/False` each. -/
abbrev Config := Option Bool × Option Bool

/-- What the acceptor answers, per the documentation: nothing when no role was
proposed or when the acceptor did not specify both roles; otherwise each
configured role, but `False` for a role that was not proposed. -/
def effectiveReply (rq : Item) (cfg : Config) : Item :=
  match rq, cfg with
  | some (ru, rp), (some cu, some cp) => some (ru && cu, rp && cp)
  | _, _ => none

/-- With no acceptor answer the requestor's proposal is void: the default row. -/
def documented (rq : Item) (cfg : Config) : Option Outcome :=
  match effectiveReply rq cfg with
  | none => docOutcome none none
  | some r => docOutcome rq (some r)

end PynetVerif.Spec.Roles
