/-
Hand transcription of PS3.8 §9.3.4 Table 9-21 (A-ASSOCIATE-RJ PDU fields:
Result, Source, Reason/Diag.) and of the rejection reasons pynetdicom
documents for its acceptance-policy checks (the parameter table in the
docstring of `ACSE.send_reject`, the comments of the four checks in
`ACSE._negotiate_as_acceptor`, docs/user/ae_scp.rst).  Written from the
standard and the documentation, not from the code's control flow.
-/
namespace PynetVerif.Spec.Reject

/-- Result, Source, Reason/Diag. as they appear in bytes 8, 9, 10 of the PDU. -/
abbrev Triple := Nat × Nat × Nat

inductive Result where
  | rejectedPermanent   -- 1
  | rejectedTransient   -- 2
  deriving DecidableEq, Repr

inductive Source where
  | serviceUser            -- 1  DICOM UL service-user
  | providerAcse           -- 2  DICOM UL service-provider (ACSE related function)
  | providerPresentation   -- 3  DICOM UL service-provider (Presentation related function)
  deriving DecidableEq, Repr

inductive Reason where
  | noReasonGiven                       -- source 1, 1   and   source 2, 1
  | applicationContextNameNotSupported  -- source 1, 2
  | callingAeTitleNotRecognized         -- source 1, 3
  | calledAeTitleNotRecognized          -- source 1, 7
  | protocolVersionNotSupported         -- source 2, 2
  | temporaryCongestion                 -- source 3, 1
  | localLimitExceeded                  -- source 3, 2
  deriving DecidableEq, Repr

/-- Table 9-21, field "Result" (byte 8). -/
def resultOf : Nat → Option Result
  | 1 => some .rejectedPermanent
  | 2 => some .rejectedTransient
  | _ => none

/-- Table 9-21, field "Source" (byte 9). -/
def sourceOf : Nat → Option Source
  | 1 => some .serviceUser
  | 2 => some .providerAcse
  | 3 => some .providerPresentation
  | _ => none

/-- Table 9-21, field "Reason/Diag." (byte 10); every value not listed is reserved. -/
def reasonOf : Source → Nat → Option Reason
  | .serviceUser, 1 => some .noReasonGiven
  | .serviceUser, 2 => some .applicationContextNameNotSupported
  | .serviceUser, 3 => some .callingAeTitleNotRecognized
  | .serviceUser, 7 => some .calledAeTitleNotRecognized
  | .providerAcse, 1 => some .noReasonGiven
  | .providerAcse, 2 => some .protocolVersionNotSupported
  | .providerPresentation, 1 => some .temporaryCongestion
  | .providerPresentation, 2 => some .localLimitExceeded
  | _, _ => none

/-- Meaning of a triple according to Table 9-21 (`none` = uses a reserved value). -/
def meaning (t : Triple) : Option (Result × Source × Reason) :=
  match resultOf t.1, sourceOf t.2.1 with
  | some r, some s =>
    match reasonOf s t.2.2 with
    | some d => some (r, s, d)
    | none => none
  | _, _ => none

/-- The acceptance-policy checks of an acceptor, in the order pynetdicom performs them. -/
inductive Check where
  | calling    -- Calling AE Title not in `require_calling_aet`
  | called     -- Called AE Title differs from the AE title while `require_called_aet`
  | identity   -- user identity not verified by the `EVT_USER_ID` handler
  | limit      -- more than `maximum_associations` acceptor associations
  deriving DecidableEq, Repr

/-- Documented rejection for each failed check:
* "Calling AE Title not recognised" — rejected-permanent, service-user, reason 3;
* "Called AE Title not recognised" — rejected-permanent, service-user, reason 7;
* user identity failed verification — "Transient, ACSE related, no reason given";
* "Maximum number of associations reached (local-limit-exceeded)" — rejected-transient,
  service-provider (presentation), reason 2. -/
def documented : Check → Result × Source × Reason
  | .calling => (.rejectedPermanent, .serviceUser, .callingAeTitleNotRecognized)
  | .called => (.rejectedPermanent, .serviceUser, .calledAeTitleNotRecognized)
  | .identity => (.rejectedTransient, .providerAcse, .noReasonGiven)
  | .limit => (.rejectedTransient, .providerPresentation, .localLimitExceeded)

/-- rank of a check in the order of evaluation -/
def Check.rank : Check → Nat
  | .calling => 0 | .called => 1 | .identity => 2 | .limit => 3

end PynetVerif.Spec.Reject
