import PynetVerif.Model.Scu
/-!
What property C24 and the docstrings of `Association.send_*` demand of an SCU call, written from
the property statement and the documented return values — not from the code.

A multi-response service (`Service`) is described by the class of its response primitive, the
finality rule of its statuses (`Status.scuFinal`), whether C-STORE sub-operation requests may
interleave, and the identifier handed out with pending / final responses.  The caller must see:
every valid response of that service, once, in order, up to and including the first final one;
`(Dataset(), None)` instead if the peer falls silent, aborts, or sends an invalid or unexpected
message — with the association aborted exactly in the timeout / invalid / unexpected cases; never
with the lock held; the reactor checkpoint set again once the generator is finished.
-/
namespace PynetVerif.Spec.Scu
open PynetVerif.Scu PynetVerif.Status

/-- `m` read as a valid response of the service whose response primitive class is `ek` -/
def response (ek : Kind) : PeerMsg → Option (Nat × Ident)
  | .rsp k true st id => if k = ek then some (st, id) else none
  | _ => none

/-- a C-STORE sub-operation *request* -/
def isSubOp : PeerMsg → Bool
  | .storeRq _ => true
  | _ => false

/-- a received data set as handed to the caller: `None` when absent or undecodable -/
def decoded : Ident → IdentRes
  | .absent => .none
  | .empty => .emptyDs
  | .good => .ds
  | .bad => .none

structure Service where
  kind : Kind
  /-- a response with this status ends the operation -/
  final : Nat → Bool
  /-- C-STORE sub-operation requests may arrive in between (C-GET; tolerated for C-MOVE) -/
  subOps : Bool
  identPending : Nat → Ident → IdentRes
  identFinal : Nat → Ident → IdentRes

/-- the operation goes on after `m` -/
def Service.continues (S : Service) (m : PeerMsg) : Bool :=
  (S.subOps && isSubOp m) ||
    (match response S.kind m with
     | some (st, _) => !S.final st
     | none => false)

/-- what the caller sees for a message after which the operation goes on (nothing for a
sub-operation request); lock free, reactor still paused -/
def Service.pending (S : Service) (m : PeerMsg) : Option Yield :=
  match response S.kind m with
  | some (st, id) => some ⟨some st, S.identPending st id, false, true⟩
  | none => none

/-- `(Dataset(), None)`, lock free, reactor running again -/
def emptyYield : Yield := ⟨none, .none, false, false⟩

/-- what the caller sees last, given the first message after which the operation does not go on
(`none`: the peer fell silent) -/
def Service.last (S : Service) : Option PeerMsg → Yield
  | none => emptyYield
  | some m =>
    match response S.kind m with
    | some (st, id) => ⟨some st, S.identFinal st id, false, false⟩
    | none => emptyYield

def Service.expectedYields (S : Service) (peer : List PeerMsg) : List Yield :=
  (peer.takeWhile S.continues).filterMap S.pending ++ [S.last (peer.dropWhile S.continues).head?]

/-- abort exactly when: DIMSE timeout on a live association without abort indication; an invalid or
unexpected message.  Not after a final response, not when the peer / provider already aborted. -/
def Service.abortsAt (S : Service) : Option PeerMsg → Nat
  | none => 1
  | some (.none .timeout) => 1
  | some (.none _) => 0
  | some m => if (response S.kind m).isSome then 0 else 1

def Service.expectedAborts (S : Service) (peer : List PeerMsg) : Nat :=
  S.abortsAt (peer.dropWhile S.continues).head?

/-- C-FIND: Pending identifiers are decoded; the final response carries none; with the Repository
Query model the 0xB001 warning is not final and carries no identifier -/
def find (rq : Bool) : Service where
  kind := .find
  final := scuFinal rq
  subOps := false
  identPending := fun st id => if rq && st == 0xB001 then .none else decoded id
  identFinal := fun _ _ => .none

/-- C-GET (`ek = .get`) / C-MOVE (`ek = .move`): Pending responses carry no identifier; a final
Cancel/Warning/Failure response carries the decoded identifier (Failed SOP Instance UID List) -/
def retrieve (ek : Kind) : Service where
  kind := ek
  final := scuFinal false
  subOps := true
  identPending := fun _ _ => .none
  identFinal := fun st id =>
    let c := category st
    if c == .cancel || c == .warning || c == .failure then decoded id else .none

/-! ### single-response calls -/

/-- calls documented to return `(status, reply)`; the others return the status only -/
def hasReply : Svc → Bool
  | .echo | .store | .nDelete => false
  | _ => true

/-- documented value for a valid response of the right type -/
def documented (svc : Svc) (st : Nat) (id : Ident) : Option Nat × IdentRes :=
  let c := category st
  if hasReply svc && (c == .success || c == .warning) then
    match id with
    | .absent => (some st, .emptyDs)
    | .empty => (some st, .emptyDs)
    | .good => (some st, .ds)
    | .bad => (some 0x0110, .none)      -- reply cannot be decoded: Processing failure, `None`
  else (some st, .none)

/-- (returned value, number of aborts) demanded of a single-response call -/
def singleExpected (svc : Svc) : List PeerMsg → (Option Nat × IdentRes) × Nat
  | [] => ((none, .none), 1)
  | .none .timeout :: _ => ((none, .none), 1)
  | .none _ :: _ => ((none, .none), 0)
  | m :: _ =>
    match response svc.expects m with
    | some (st, id) => (documented svc st id, 0)
    | none => ((none, .none), 1)

end PynetVerif.Spec.Scu
