import PynetVerif.Model.Fsm
/-
Hand transcription of PS3.8 §9.2.3: Table 9-10 (state transition table) and
Tables 9-6 … 9-9 (actions).  Written from the standard, not from the code.
Events: 1 A-ASSOCIATE req (local) · 2 transport connect confirm · 3 A-ASSOCIATE-AC PDU ·
4 A-ASSOCIATE-RJ PDU · 5 transport connection indication · 6 A-ASSOCIATE-RQ PDU ·
7 A-ASSOCIATE rsp accept · 8 A-ASSOCIATE rsp reject · 9 P-DATA req · 10 P-DATA-TF PDU ·
11 A-RELEASE req · 12 A-RELEASE-RQ PDU · 13 A-RELEASE-RP PDU · 14 A-RELEASE rsp ·
15 A-ABORT req · 16 A-ABORT PDU · 17 transport closed · 18 ARTIM expired · 19 unrecognised/invalid PDU.
-/
namespace PynetVerif.Spec.Ps38
open PynetVerif.Fsm

private def row (e : Nat) (cells : List (Nat × Action)) : List (Nat × Nat × Action) :=
  cells.map fun (s, a) => (e, s, a)

/-- every state 6..12 reacts with the same action -/
private def s6to12 (a : Action) : List (Nat × Action) :=
  [(6, a), (7, a), (8, a), (9, a), (10, a), (11, a), (12, a)]

/-- Table 9-10, row by row (event), cells in state order; blank cells are absent. -/
def table : List (Nat × Nat × Action) :=
  row 1 [(1, .AE_1)] ++
  row 2 [(4, .AE_2)] ++
  row 3 ([(2, .AA_1), (3, .AA_8), (5, .AE_3)] ++ s6to12 .AA_8 ++ [(13, .AA_6)]) ++
  row 4 ([(2, .AA_1), (3, .AA_8), (5, .AE_4)] ++ s6to12 .AA_8 ++ [(13, .AA_6)]) ++
  row 5 [(1, .AE_5)] ++
  row 6 ([(2, .AE_6), (3, .AA_8), (5, .AA_8)] ++ s6to12 .AA_8 ++ [(13, .AA_7)]) ++
  row 7 [(3, .AE_7)] ++
  row 8 [(3, .AE_8)] ++
  row 9 [(6, .DT_1), (8, .AR_7)] ++
  row 10 [(2, .AA_1), (3, .AA_8), (5, .AA_8), (6, .DT_2), (7, .AR_6), (8, .AA_8), (9, .AA_8),
          (10, .AA_8), (11, .AA_8), (12, .AA_8), (13, .AA_6)] ++
  row 11 [(6, .AR_1)] ++
  row 12 [(2, .AA_1), (3, .AA_8), (5, .AA_8), (6, .AR_2), (7, .AR_8), (8, .AA_8), (9, .AA_8),
          (10, .AA_8), (11, .AA_8), (12, .AA_8), (13, .AA_6)] ++
  row 13 [(2, .AA_1), (3, .AA_8), (5, .AA_8), (6, .AA_8), (7, .AR_3), (8, .AA_8), (9, .AA_8),
          (10, .AR_10), (11, .AR_3), (12, .AA_8), (13, .AA_6)] ++
  row 14 [(8, .AR_4), (9, .AR_9), (12, .AR_4)] ++
  row 15 ([(3, .AA_1), (4, .AA_2), (5, .AA_1)] ++ s6to12 .AA_1) ++
  row 16 ([(2, .AA_2), (3, .AA_3), (5, .AA_3)] ++ s6to12 .AA_3 ++ [(13, .AA_2)]) ++
  row 17 ([(2, .AA_5), (3, .AA_4), (4, .AA_4), (5, .AA_4)] ++ s6to12 .AA_4 ++ [(13, .AR_5)]) ++
  row 18 [(2, .AA_2), (13, .AA_2)] ++
  row 19 ([(2, .AA_1), (3, .AA_8), (5, .AA_8)] ++ s6to12 .AA_8 ++ [(13, .AA_7)])

/-- next state(s) each action may lead to (Tables 9-6…9-9, "Next state is …") -/
def nextStates : Action → List Nat
  | .AE_1 => [4] | .AE_2 => [5] | .AE_3 => [6] | .AE_4 => [1] | .AE_5 => [2]
  | .AE_6 => [3, 13] | .AE_7 => [6] | .AE_8 => [13]
  | .DT_1 => [6] | .DT_2 => [6]
  | .AR_1 => [7] | .AR_2 => [8] | .AR_3 => [1] | .AR_4 => [13] | .AR_5 => [1] | .AR_6 => [7]
  | .AR_7 => [8] | .AR_8 => [9, 10] | .AR_9 => [11] | .AR_10 => [12]
  | .AA_1 => [13] | .AA_2 => [1] | .AA_3 => [1] | .AA_4 => [1] | .AA_5 => [1] | .AA_6 => [13]
  | .AA_7 => [13] | .AA_8 => [13]

/--
Protocol effects and next state of each action (Tables 9-6 … 9-9).
`requestor`: the local AE requested the association (AR-8).  `alt`: the data
carried by the triggering input — for AE-6 an unsupported protocol version, for
AA-3 a provider-sourced A-ABORT PDU (reason 1), for AA-1 with a queued
A-P-ABORT primitive (reason 1) instead of an A-ABORT request.  `e` is the event
(AA-1 is reached both by a local abort request, Evt15, and by PDUs in Sta2).

Points where PS3.8 leaves a choice and what is admitted here:
* AA-1: "send A-ABORT PDU (service-user source)"; with an A-P-ABORT primitive
  queued by the local provider-user the PDU carries source 2 and its reason.
  "Start (or restart if already started) ARTIM" = `artimRestart`.
* AA-7: A-ABORT PDU, provider source, reason 2 (unexpected PDU).
* AA-8: A-ABORT PDU provider source (reason not specified: 0), A-P-ABORT
  indication (reason 5, unexpected PDU parameter... pynetdicom's choice), start ARTIM.
* AE-6 reject: result 1 (permanent), source 2 (ACSE provider... presentation), reason 2
  (protocol version not supported).
* AA-4, AA-5, AR-5 react to "transport connection closed": the local socket
  object is shut down as well (`close`), which PS3.8 need not mention.
-/
def effects (a : Action) (e : Nat) (requestor alt : Bool) : List Eff × Nat :=
  match a with
  | .AE_1 => ([.connect], 4)
  | .AE_2 => ([.sendRq], 5)
  | .AE_3 => ([.confAccept], 6)
  | .AE_4 => ([.confReject, .close], 1)
  | .AE_5 => ([.artimStart], 2)
  | .AE_6 => if alt then ([.artimStop, .sendRj 1 2 2, .artimStart], 13) else ([.artimStop, .indAssocRq], 3)
  | .AE_7 => ([.sendAc], 6)
  | .AE_8 => ([.sendRj 1 1 1, .artimStart], 13)      -- the reject triple is the user's (1,1,1 in the probe input)
  | .DT_1 => ([.sendPdata], 6)
  | .DT_2 => ([.indPdata], 6)
  | .AR_1 => ([.sendRelRq], 7)
  | .AR_2 => ([.indRelease], 8)
  | .AR_3 => ([.confRelease, .close], 1)
  | .AR_4 => ([.sendRelRp, .artimStart], 13)
  | .AR_5 => ([.close, .artimStop], 1)
  | .AR_6 => ([.indPdata], 7)
  | .AR_7 => ([.sendPdata], 8)
  | .AR_8 => ([.indRelease], if requestor then 9 else 10)
  | .AR_9 => ([.sendRelRp], 11)
  | .AR_10 => ([.confRelease], 12)
  | .AA_1 => ([if e = 15 ∧ alt then .sendAbort 2 1 else .sendAbort 0 0, .artimRestart], 13)
  | .AA_2 => ([.artimStop, .close], 1)
  | .AA_3 => ([if alt then .indPAbort 1 else .indAbort 0, .close], 1)
  | .AA_4 => ([.close, .indPAbort 0], 1)
  | .AA_5 => ([.close, .artimStop], 1)
  | .AA_6 => ([], 13)
  | .AA_7 => ([.sendAbort 2 2], 13)
  | .AA_8 => ([.sendAbort 2 0, .indPAbort 5, .artimStart], 13)

/-- expected outcome of dispatching event `e` in state `s` -/
def expected (i : Nat × Nat × Bool × Bool) : Outcome :=
  match lookup table i.1 i.2.1 with
  | none => .invalid
  | some a => let r := effects a i.1 i.2.2.1 i.2.2.2; .ok r.1 r.2

end PynetVerif.Spec.Ps38
