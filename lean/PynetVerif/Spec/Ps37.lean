/-!
PS3.7 (DICOM Message Exchange) — hand transcription, independent of the code.

* `commandFields`  Annex E.1, Command Field (0000,0100): the values that distinguish
                   the DIMSE operations/notifications (also given in every §9.3.x / §10.3.x
                   message table).
* `dictionary`     Annex E.1 Registry of DICOM Command Elements: tag, VR, VM (only the
                   non-retired elements the 23 messages use).
* `messageFields`  the "Message Field" column of Tables 9.3-1 … 9.3-13 and 10.3-1 … 10.3-12.
* `statusFields`   fields that are not rows of those tables but that the standard attaches to
                   particular *status* values of a response (PS3.7 Annex C "Related Fields";
                   PS3.4 B.2.3, C.4.1.1.4, C.4.2.1.5, C.4.3.1.4 for the C-services): Offending
                   Element (0000,0901), Error Comment (0000,0902), Error ID (0000,0903),
                   Attribute Identifier List (0000,1005).  pynetdicom admits them on every
                   response of the service irrespective of the status value; that is the one
                   documented deviation from the message tables and is spelled out per message
                   here instead of being absorbed silently.

Tags are written as the element number (group 0000).
-/
namespace PynetVerif.Spec.Ps37

/-- Command Field (0000,0100) values, E.1-1 -/
def commandFields : List (Nat × String) := [
  (0x0001, "C-STORE-RQ"),
  (0x0010, "C-GET-RQ"),
  (0x0020, "C-FIND-RQ"),
  (0x0021, "C-MOVE-RQ"),
  (0x0030, "C-ECHO-RQ"),
  (0x0100, "N-EVENT-REPORT-RQ"),
  (0x0110, "N-GET-RQ"),
  (0x0120, "N-SET-RQ"),
  (0x0130, "N-ACTION-RQ"),
  (0x0140, "N-CREATE-RQ"),
  (0x0150, "N-DELETE-RQ"),
  (0x0FFF, "C-CANCEL-RQ"),
  (0x8001, "C-STORE-RSP"),
  (0x8010, "C-GET-RSP"),
  (0x8020, "C-FIND-RSP"),
  (0x8021, "C-MOVE-RSP"),
  (0x8030, "C-ECHO-RSP"),
  (0x8100, "N-EVENT-REPORT-RSP"),
  (0x8110, "N-GET-RSP"),
  (0x8120, "N-SET-RSP"),
  (0x8130, "N-ACTION-RSP"),
  (0x8140, "N-CREATE-RSP"),
  (0x8150, "N-DELETE-RSP")]

/-- E.1-1: (element, keyword, VR, VM) -/
def dictionary : List (Nat × String × String × String) := [
  (0x0000, "CommandGroupLength", "UL", "1"),
  (0x0002, "AffectedSOPClassUID", "UI", "1"),
  (0x0003, "RequestedSOPClassUID", "UI", "1"),
  (0x0100, "CommandField", "US", "1"),
  (0x0110, "MessageID", "US", "1"),
  (0x0120, "MessageIDBeingRespondedTo", "US", "1"),
  (0x0600, "MoveDestination", "AE", "1"),
  (0x0700, "Priority", "US", "1"),
  (0x0800, "CommandDataSetType", "US", "1"),
  (0x0900, "Status", "US", "1"),
  (0x0901, "OffendingElement", "AT", "1-n"),
  (0x0902, "ErrorComment", "LO", "1"),
  (0x0903, "ErrorID", "US", "1"),
  (0x1000, "AffectedSOPInstanceUID", "UI", "1"),
  (0x1001, "RequestedSOPInstanceUID", "UI", "1"),
  (0x1002, "EventTypeID", "US", "1"),
  (0x1005, "AttributeIdentifierList", "AT", "1-n"),
  (0x1008, "ActionTypeID", "US", "1"),
  (0x1020, "NumberOfRemainingSuboperations", "US", "1"),
  (0x1021, "NumberOfCompletedSuboperations", "US", "1"),
  (0x1022, "NumberOfFailedSuboperations", "US", "1"),
  (0x1023, "NumberOfWarningSuboperations", "US", "1"),
  (0x1030, "MoveOriginatorApplicationEntityTitle", "AE", "1"),
  (0x1031, "MoveOriginatorMessageID", "US", "1")]

/-- request header common to all requests but C-CANCEL:
group length, command field, message id, data set type -/
def rqHead (sopClass : Nat) : List Nat := [0x0000, sopClass, 0x0100, 0x0110, 0x0800]
/-- response header: group length, Affected SOP Class UID, command field, message id being
responded to, data set type, status -/
def rspHead : List Nat := [0x0000, 0x0002, 0x0100, 0x0120, 0x0800, 0x0900]

/-- the Message Field column of the message tables, in tag order -/
def messageFields : List (String × List Nat) := [
  -- Table 9.3-1: + Priority, Affected SOP Instance UID, Move Originator AE Title / Message ID
  ("C-STORE-RQ", [0x0000, 0x0002, 0x0100, 0x0110, 0x0700, 0x0800, 0x1000, 0x1030, 0x1031]),
  -- Table 9.3-2
  ("C-STORE-RSP", rspHead ++ [0x1000]),
  -- Table 9.3-3
  ("C-FIND-RQ", [0x0000, 0x0002, 0x0100, 0x0110, 0x0700, 0x0800]),
  -- Table 9.3-4
  ("C-FIND-RSP", rspHead),
  -- Tables 9.3-5, 9.3-8, 9.3-11 (C-CANCEL-FIND/GET/MOVE-RQ): no SOP class, no message id of its own
  ("C-CANCEL-RQ", [0x0000, 0x0100, 0x0120, 0x0800]),
  -- Table 9.3-6
  ("C-GET-RQ", [0x0000, 0x0002, 0x0100, 0x0110, 0x0700, 0x0800]),
  -- Table 9.3-7: + the four sub-operation counters
  ("C-GET-RSP", rspHead ++ [0x1020, 0x1021, 0x1022, 0x1023]),
  -- Table 9.3-9: + Move Destination
  ("C-MOVE-RQ", [0x0000, 0x0002, 0x0100, 0x0110, 0x0600, 0x0700, 0x0800]),
  -- Table 9.3-10
  ("C-MOVE-RSP", rspHead ++ [0x1020, 0x1021, 0x1022, 0x1023]),
  -- Table 9.3-12
  ("C-ECHO-RQ", rqHead 0x0002),
  -- Table 9.3-13
  ("C-ECHO-RSP", rspHead),
  -- Table 10.3-1: + Affected SOP Instance UID, Event Type ID
  ("N-EVENT-REPORT-RQ", rqHead 0x0002 ++ [0x1000, 0x1002]),
  -- Table 10.3-2
  ("N-EVENT-REPORT-RSP", rspHead ++ [0x1000, 0x1002]),
  -- Table 10.3-3: Requested SOP Class/Instance UID, Attribute Identifier List
  ("N-GET-RQ", rqHead 0x0003 ++ [0x1001, 0x1005]),
  -- Table 10.3-4
  ("N-GET-RSP", rspHead ++ [0x1000]),
  -- Table 10.3-5
  ("N-SET-RQ", rqHead 0x0003 ++ [0x1001]),
  -- Table 10.3-6
  ("N-SET-RSP", rspHead ++ [0x1000]),
  -- Table 10.3-7: + Action Type ID
  ("N-ACTION-RQ", rqHead 0x0003 ++ [0x1001, 0x1008]),
  -- Table 10.3-8
  ("N-ACTION-RSP", rspHead ++ [0x1000, 0x1008]),
  -- Table 10.3-9
  ("N-CREATE-RQ", rqHead 0x0002 ++ [0x1000]),
  -- Table 10.3-10
  ("N-CREATE-RSP", rspHead ++ [0x1000]),
  -- Table 10.3-11
  ("N-DELETE-RQ", rqHead 0x0003 ++ [0x1001]),
  -- Table 10.3-12
  ("N-DELETE-RSP", rspHead ++ [0x1000])]

/-- the status-related fields (not rows of the message tables) a response may carry -/
def statusRelated : List Nat := [0x0901, 0x0902, 0x0903, 0x1005]

/-- Documented extras: which status-related fields pynetdicom's response messages admit.
C-services: Offending Element and Error Comment (PS3.4 status tables); C-ECHO: Error Comment;
N-services: Error Comment and Error ID (Annex C.5.x "Processing failure" etc.), and for
N-GET / N-SET the Attribute Identifier List (C.4.2 "Attribute list error", C.5.4 "No such attribute"). -/
def statusFields : List (String × List Nat) := [
  ("C-STORE-RSP", [0x0901, 0x0902]),
  ("C-FIND-RSP", [0x0901, 0x0902]),
  ("C-GET-RSP", [0x0901, 0x0902]),
  ("C-MOVE-RSP", [0x0901, 0x0902]),
  ("C-ECHO-RSP", [0x0902]),
  ("N-EVENT-REPORT-RSP", [0x0902, 0x0903]),
  ("N-GET-RSP", [0x0902, 0x0903, 0x1005]),
  ("N-SET-RSP", [0x0902, 0x0903, 0x1005]),
  ("N-ACTION-RSP", [0x0902, 0x0903]),
  ("N-CREATE-RSP", [0x0902, 0x0903]),
  ("N-DELETE-RSP", [0x0902, 0x0903])]

/-- sorted insertion (tags are distinct) -/
def insertTag (t : Nat) : List Nat → List Nat
  | [] => [t]
  | x :: r => if t ≤ x then t :: x :: r else x :: insertTag t r

def sortTags (l : List Nat) : List Nat := l.foldr insertTag []

/-- all elements a message of the given type may carry: table rows plus documented extras -/
def elements (name : String) : Option (List Nat) :=
  (messageFields.lookup name).map (fun base => sortTags (base ++ (statusFields.lookup name).getD []))

end PynetVerif.Spec.Ps37
