import PynetVerif.Model.PduWf
import PynetVerif.Lemmas.Framing
/-! Byte-level lemmas for the PDU codec: fixed-width integers, `str.strip`, UID / AE fields,
the generic TLV lemma for `split`, `mapE`. -/
namespace PynetVerif.Pdu
open PynetVerif.Framing (be32 be32_mk toNat_ofNat8)

/-! ## integers -/

theorem u8_toNat {n : Nat} (h : n < 256) : (u8 n).toNat = n := by
  simp only [u8, toNat_ofNat8]; omega

theorem toNat_u8 (c : UInt8) : u8 c.toNat = c := by simp [u8]

theorem be16_u16 {n : Nat} (h : n < 65536) : be16 (u8 (n / 256)) (u8 (n % 256)) = n := by
  simp only [be16, u8, toNat_ofNat8]; omega

theorem be16_lt (h l : UInt8) : be16 h l < 65536 := by
  have := h.toNat_lt; have := l.toNat_lt; simp only [be16]; omega

theorem be32_u32 {n : Nat} (h : n < 4294967296) :
    be32 (u8 (n / 16777216)) (u8 (n / 65536 % 256)) (u8 (n / 256 % 256)) (u8 (n % 256)) = n :=
  be32_mk n h

theorem be32_lt (a b c d : UInt8) : be32 a b c d < 4294967296 := by
  have := a.toNat_lt; have := b.toNat_lt; have := c.toNat_lt; have := d.toNat_lt
  simp only [be32]; omega

@[simp] theorem u16_length (n : Nat) : (u16 n).length = 2 := rfl
@[simp] theorem u32_length (n : Nat) : (u32 n).length = 4 := rfl

theorem lt8_iff {n : Nat} : lt8 n = true ↔ n < 256 := by simp [lt8]
theorem lt16_iff {n : Nat} : lt16 n = true ↔ n < 65536 := by simp [lt16]
theorem lt32_iff {n : Nat} : lt32 n = true ↔ n < 4294967296 := by simp [lt32]

/-! ## list slicing -/

theorem take_app {α} (a b : List α) : (a ++ b).take a.length = a := List.take_left' rfl
theorem drop_app {α} (a b : List α) : (a ++ b).drop a.length = b := List.drop_left' rfl
theorem take_app' {α} {a b : List α} {n : Nat} (h : a.length = n) : (a ++ b).take n = a := List.take_left' h
theorem drop_app' {α} {a b : List α} {n : Nat} (h : a.length = n) : (a ++ b).drop n = b := List.drop_left' h

/-! ## whitespace stripping -/

theorem stripR_replicate (k : Nat) : stripR (List.replicate k 0x20) = [] := by
  induction k with
  | zero => rfl
  | succ k ih => simp only [List.replicate_succ, stripR, ih]; rfl

theorem stripR_append_spaces (w : Bytes) (k : Nat) : stripR (w ++ List.replicate k 0x20) = stripR w := by
  induction w with
  | nil => simp [stripR_replicate, stripR]
  | cons c w ih => simp only [List.cons_append, stripR, ih]

theorem stripL_append_spaces (v : Bytes) (k : Nat) :
    stripL (v ++ List.replicate k 0x20) = if stripL v = [] then [] else stripL v ++ List.replicate k 0x20 := by
  induction v with
  | nil =>
    simp only [List.nil_append, stripL, ↓reduceIte]
    induction k with
    | zero => rfl
    | succ k ih => simp only [List.replicate_succ, stripL]; simpa [isWs] using ih
  | cons c v ih =>
    simp only [List.cons_append, stripL]
    by_cases hc : isWs c = true
    · simp only [hc, ↓reduceIte]; exact ih
    · simp [hc]

theorem pyStrip_ljust (n : Nat) (v : Bytes) : pyStrip (ljust n v) = pyStrip v := by
  simp only [pyStrip, ljust, stripL_append_spaces]
  by_cases h : stripL v = []
  · simp [h]
  · simp only [h, ↓reduceIte, stripR_append_spaces]

theorem stripL_of_headOk {u : Bytes} (h : headOk u = true) : stripL u = u := by
  cases u with
  | nil => rfl
  | cons c cs => simp only [headOk, Bool.not_eq_true'] at h; simp [stripL, h]

theorem stripR_of_lastOk : ∀ {u : Bytes}, lastOk u = true → stripR u = u
  | [], _ => rfl
  | [c], h => by simp only [lastOk, Bool.not_eq_true'] at h; simp [stripR, h]
  | c :: d :: cs, h => by
    have ih := stripR_of_lastOk (u := d :: cs) (by simpa [lastOk] using h)
    simp only [stripR] at ih ⊢
    rw [ih]

theorem pyStrip_of_trimmed {u : Bytes} (h : trimmed u = true) : pyStrip u = u := by
  simp only [trimmed, Bool.and_eq_true] at h
  simp only [pyStrip, stripL_of_headOk h.1, stripR_of_lastOk h.2]

theorem headOk_stripL (b : Bytes) : headOk (stripL b) = true := by
  induction b with
  | nil => rfl
  | cons c cs ih =>
    simp only [stripL]
    by_cases hc : isWs c = true
    · simp [hc, ih]
    · simp [hc, headOk]

theorem stripR_cases (c : UInt8) (cs : Bytes) :
    (stripR (c :: cs) = [] ∧ isWs c = true ∧ stripR cs = []) ∨
    (stripR (c :: cs) = c :: stripR cs ∧ (stripR cs ≠ [] ∨ isWs c = false)) := by
  simp only [stripR]
  cases h : stripR cs with
  | nil =>
    by_cases hc : isWs c = true
    · left; simp [hc]
    · right; simp [hc]
  | cons d ds => right; simp

theorem lastOk_stripR (b : Bytes) : lastOk (stripR b) = true := by
  induction b with
  | nil => rfl
  | cons c cs ih =>
    rcases stripR_cases c cs with ⟨h, _, _⟩ | ⟨h, h2⟩
    · rw [h]; rfl
    · rw [h]
      cases hs : stripR cs with
      | nil =>
        rcases h2 with h2 | h2
        · exact absurd hs h2
        · simp [lastOk, h2]
      | cons d ds => rw [hs] at ih; simpa [lastOk] using ih

theorem headOk_stripR {b : Bytes} (h : headOk b = true) : headOk (stripR b) = true := by
  cases b with
  | nil => rfl
  | cons c cs =>
    rcases stripR_cases c cs with ⟨h1, _, _⟩ | ⟨h1, _⟩
    · rw [h1]; rfl
    · rw [h1]; simpa [headOk] using h

theorem trimmed_pyStrip (b : Bytes) : trimmed (pyStrip b) = true := by
  simp only [trimmed, pyStrip, Bool.and_eq_true]
  exact ⟨headOk_stripR (headOk_stripL b), lastOk_stripR _⟩

theorem isAscii_cons (c : UInt8) (cs : Bytes) : isAscii (c :: cs) = (decide (c.toNat < 128) && isAscii cs) := by
  simp [isAscii]

theorem isAscii_append (a b : Bytes) : isAscii (a ++ b) = (isAscii a && isAscii b) := by
  simp [isAscii]

theorem isAscii_replicate_space (k : Nat) : isAscii (List.replicate k 0x20) = true := by
  simp [isAscii]

theorem isAscii_stripL {b : Bytes} (h : isAscii b = true) : isAscii (stripL b) = true := by
  induction b with
  | nil => rfl
  | cons c cs ih =>
    simp only [stripL]
    rw [isAscii_cons, Bool.and_eq_true] at h
    by_cases hc : isWs c = true
    · simp only [hc, ↓reduceIte]; exact ih h.2
    · simp only [hc]; simp [isAscii_cons, h.1, h.2]

theorem isAscii_stripR {b : Bytes} (h : isAscii b = true) : isAscii (stripR b) = true := by
  induction b with
  | nil => rfl
  | cons c cs ih =>
    rw [isAscii_cons, Bool.and_eq_true] at h
    rcases stripR_cases c cs with ⟨h1, _, _⟩ | ⟨h1, _⟩
    · rw [h1]; rfl
    · rw [h1, isAscii_cons, Bool.and_eq_true]; exact ⟨h.1, ih h.2⟩

theorem isAscii_pyStrip {b : Bytes} (h : isAscii b = true) : isAscii (pyStrip b) = true :=
  isAscii_stripR (isAscii_stripL h)

theorem length_stripL (b : Bytes) : (stripL b).length ≤ b.length := by
  induction b with
  | nil => simp [stripL]
  | cons c cs ih =>
    simp only [stripL]
    by_cases hc : isWs c = true
    · simp only [hc, ↓reduceIte, List.length_cons]; omega
    · simp [hc]

theorem length_stripR (b : Bytes) : (stripR b).length ≤ b.length := by
  induction b with
  | nil => simp [stripR]
  | cons c cs ih =>
    rcases stripR_cases c cs with ⟨h1, _, _⟩ | ⟨h1, _⟩
    · rw [h1]; simp
    · rw [h1]; simp only [List.length_cons]; omega

theorem length_pyStrip (b : Bytes) : (pyStrip b).length ≤ b.length :=
  Nat.le_trans (length_stripR _) (length_stripL _)

theorem all_stripL {p : UInt8 → Bool} {b : Bytes} (h : b.all p = true) : (stripL b).all p = true := by
  induction b with
  | nil => rfl
  | cons c cs ih =>
    simp only [List.all_cons, Bool.and_eq_true] at h
    simp only [stripL]
    by_cases hc : isWs c = true
    · simp only [hc, ↓reduceIte]; exact ih h.2
    · simp only [hc]; simp [h.1, h.2]

theorem all_stripR {p : UInt8 → Bool} {b : Bytes} (h : b.all p = true) : (stripR b).all p = true := by
  induction b with
  | nil => rfl
  | cons c cs ih =>
    simp only [List.all_cons, Bool.and_eq_true] at h
    rcases stripR_cases c cs with ⟨h1, _, _⟩ | ⟨h1, _⟩
    · rw [h1]; rfl
    · rw [h1]; simp only [List.all_cons, Bool.and_eq_true]; exact ⟨h.1, ih h.2⟩

/-! ## UID fields -/

theorem stripNul_of_not_endsNul {u : Bytes} (h : endsNul u = false) : stripNul u = u := by
  simp [stripNul, h]

theorem isAscii_dropLast {b : Bytes} (h : isAscii b = true) : isAscii b.dropLast = true := by
  simp only [isAscii, List.all_eq_true] at h ⊢
  intro c hc
  exact h c (List.dropLast_subset _ hc)

theorem isAscii_stripNul {b : Bytes} (h : isAscii b = true) : isAscii (stripNul b) = true := by
  simp only [stripNul]; split
  · exact isAscii_dropLast h
  · exact h

/-- a UID value that is ASCII, trimmed, (≤ 64 when validated) and does not end in NUL decodes to itself -/
theorem decUid_ok {v : Bool} {u : Bytes} (h : uidOk v u = true) : decUid v u = .ok u := by
  simp only [uidOk, uidB, Bool.and_eq_true, Bool.not_eq_true', Bool.or_eq_true, Nat.ble_eq] at h
  obtain ⟨⟨⟨ha, ht⟩, hl⟩, hn⟩ := h
  simp only [decUid, stripNul_of_not_endsNul hn, ha, ↓reduceIte, pyStrip_of_trimmed ht]
  rcases hl with hl | hl
  · simp [hl]
  · have : Nat.blt 64 u.length = false := by
      rw [Bool.eq_false_iff, ne_eq, Nat.blt_eq]; omega
    simp [this]

/-- whatever `decUid` returns is ASCII, trimmed and (when validated) at most 64 bytes -/
theorem decUid_bounded {v : Bool} {raw u : Bytes} (h : decUid v raw = .ok u) : uidB v u = true := by
  simp only [decUid] at h
  split at h
  · rename_i ha
    split at h
    · cases h
    · rename_i hl
      cases h
      simp only [uidB, Bool.and_eq_true, Bool.or_eq_true, Bool.not_eq_true', Nat.ble_eq]
      refine ⟨⟨isAscii_pyStrip ha, trimmed_pyStrip _⟩, ?_⟩
      cases v with
      | false => left; rfl
      | true =>
        right
        simp only [Bool.true_and, Nat.blt_eq] at hl
        omega
  · cases h

/-! ## mapE -/

theorem mapE_map_ok {α β γ : Type} (f : β → Except Err γ) (e : α → β) (g : α → γ) (xs : List α)
    (h : ∀ x ∈ xs, f (e x) = .ok (g x)) : mapE f (xs.map e) = .ok (xs.map g) := by
  induction xs with
  | nil => rfl
  | cons x xs ih =>
    simp only [List.map_cons, mapE, h x (by simp)]
    rw [ih (fun y hy => h y (by simp [hy]))]

theorem mapE_all {α β : Type} {f : α → Except Err β} {P : β → Bool}
    (hf : ∀ x y, f x = .ok y → P y = true) : ∀ {xs : List α} {ys : List β}, mapE f xs = .ok ys → ys.all P = true
  | [], ys, h => by simp only [mapE] at h; cases h; rfl
  | x :: xs, ys, h => by
    simp only [mapE] at h
    split at h
    · cases h
    · rename_i y hy
      split at h
      · cases h
      · rename_i ys' hys
        cases h
        simp only [List.all_cons, Bool.and_eq_true]
        exact ⟨hf x y hy, mapE_all hf hys⟩

/-! ## the generic TLV lemma -/

theorem splitItems_fuel : ∀ (f1 f2 : Nat) (b : Bytes), b.length ≤ f1 → b.length ≤ f2 →
    splitItems f1 b = splitItems f2 b := by
  intro f1
  induction f1 with
  | zero =>
    intro f2 b h1 _
    have : b = [] := List.eq_nil_of_length_eq_zero (by omega)
    subst this; cases f2 <;> rfl
  | succ f1 ih =>
    intro f2 b h1 h2
    cases b with
    | nil => cases f2 <;> rfl
    | cons t tl =>
      cases f2 with
      | zero => simp at h2
      | succ f2 =>
        match tl with
        | [] => rfl
        | [_] => rfl
        | [_, _] => rfl
        | r :: h :: l :: rest =>
          simp only [splitItems]
          split
          · rfl
          · have hd : (rest.drop (be16 h l)).length ≤ rest.length := by simp
            simp only [List.length_cons] at h1 h2
            rw [ih f2 (rest.drop (be16 h l)) (by omega) (by omega)]

/-- `_generate_items` on an item followed by `rest`: the item (type, body), then the items of `rest` -/
theorem split_tlv (t r : UInt8) (body rest : Bytes) (h : body.length < 65536) :
    split (tlv t r body ++ rest) =
      match split rest with
      | .ok tl => .ok ((t, body) :: tl)
      | .error e => .error e := by
  have hb := be16_u16 h
  simp only [split, tlv, u16, List.cons_append, List.length_cons, List.nil_append, splitItems, hb,
    List.length_append, take_app, drop_app]
  have : ¬ (body.length + rest.length < body.length) := by omega
  simp only [this, ↓reduceIte]
  rw [splitItems_fuel (body.length + rest.length + 1 + 1 + 1) rest.length rest (by omega) (Nat.le_refl _)]
  cases splitItems rest.length rest <;> rfl

theorem split_nil : split [] = .ok [] := rfl

/-- decoding a concatenation of encoded items, item by item -/
theorem decSubs_flatMap {α : Type} (enc : α → Bytes) (dec : UInt8 × Bytes → Except Err α) (g : α → α)
    (xs : List α)
    (h : ∀ x ∈ xs, ∃ t r body, enc x = tlv t r body ∧ body.length < 65536 ∧ dec (t, body) = .ok (g x)) :
    decSubs dec (xs.flatMap enc) = .ok (xs.map g) := by
  induction xs with
  | nil => rfl
  | cons x xs ih =>
    obtain ⟨t, r, body, he, hl, hd⟩ := h x (by simp)
    have ih' := ih (fun y hy => h y (by simp [hy]))
    simp only [decSubs] at ih' ⊢
    simp only [List.flatMap_cons, he, split_tlv t r body _ hl]
    cases hs : split (xs.flatMap enc) with
    | error e => rw [hs] at ih'; cases ih'
    | ok raw =>
      rw [hs] at ih'
      simp only [mapE, hd, ih', List.map_cons]

/-- what the sub-item decoder returns satisfies `P` when each item decoder's output does -/
theorem decSubs_all {α : Type} {dec : UInt8 × Bytes → Except Err α} {P : α → Bool}
    (hf : ∀ x y, dec x = .ok y → P y = true) {b : Bytes} {ys : List α} (h : decSubs dec b = .ok ys) :
    ys.all P = true := by
  simp only [decSubs] at h
  split at h
  · cases h
  · exact mapE_all hf h

end PynetVerif.Pdu
